(* C16 — executable model of LevelFilter, DuplicateFilter, RegExpFilter and SeqNumberAttr, of
   handler objects shared between pipelines, and the reference monitor (boolean oracle) the check
   evaluates on what the real objects did.  Definitions only (no proofs): this file must keep
   compiling and extracting when a proof elsewhere breaks.

   The decision rules are parameterised by a record [filters_cfg] that tools/s2c/filters.py reads
   from the source on every run (SrcFilters.v): the priority switch and comparison of LevelFilter,
   what DuplicateFilter compares / stores / starts with, SeqNumberAttr's first value and
   increment, what RegExpFilter matches on. *)
From Coq Require Import List NArith ZArith Bool.
Import ListNotations.
Require Import QtlVerif.RegexDefs.

(* QtMsgType in its numeric order 0..4 — which is NOT the severity order *)
Inductive mtype := Debug | Warning | Critical | Fatal | Info.
(* the order the property prescribes: debug < info < warning < critical < fatal *)
Definition severity (t : mtype) : nat :=
  match t with Debug => 0 | Info => 1 | Warning => 2 | Critical => 3 | Fatal => 4 end.

(* QString as UTF-16 code units.  A null QString and an empty one are the same text ([]):
   QString::operator== identifies them, and that is the only way the handlers look at texts. *)
Definition qstr := list N.
Fixpoint qstr_eqb (a b : qstr) : bool :=
  match a, b with
  | [], [] => true
  | x :: a', y :: b' => N.eqb x y && qstr_eqb a' b'
  | _, _ => false
  end.

(* the part of LogMessage the four handlers can see or change.  [flags] stands for the context
   (the harness puts it into the line number; only the scripted drop filters read it) *)
Record msg := { mt : mtype; text : qstr; flags : N; fmt : option qstr; attrs : list (nat * Z) }.
Definition shown (m : msg) : qstr := match fmt m with Some f => f | None => text m end.
Definition set_fmt (m : msg) (f : qstr) : msg :=
  {| mt := mt m; text := text m; flags := flags m; fmt := Some f; attrs := attrs m |}.
Definition set_attr (m : msg) (k : nat) (v : Z) : msg :=
  {| mt := mt m; text := text m; flags := flags m; fmt := fmt m;
     attrs := (k, v) :: filter (fun kv => negb (Nat.eqb (fst kv) k)) (attrs m) |}.
Definition fresh (t : mtype) (s : qstr) (fl : N) : msg :=
  {| mt := t; text := s; flags := fl; fmt := None; attrs := [] |}.

(* ---- what the translator reads from the source ---- *)
Inductive field := FMessage | FFormatted.             (* lmsg.message() / lmsg.formattedMessage() *)
Inductive cmpop := CGe | CGt | CLe | CLt | CEq | CNe.
Inductive remode := RSearch | RWhole.
Record filters_cfg := {
  prio : mtype -> Z;              (* LevelFilter::priority *)
  level_cmp : cmpop;              (* priority(type) OP priority(minLevel) *)
  dup_cmp : field;                (* DuplicateFilter compares this ... *)
  dup_store : field;              (* ... and remembers this *)
  dup_store_on_drop : bool;       (* the assignment also runs when the message is dropped *)
  dup_init : qstr;                (* m_lastMessage before the first message *)
  seq_init : Z;                   (* m_count before the first message *)
  seq_post : bool;                (* true: the value before the increment is emitted (m_count++) *)
  seq_inc : Z;                    (* total increment per call *)
  re_field : field;               (* RegExpFilter matches on this *)
  re_mode : remode }.

Definition get_field (f : field) (m : msg) : qstr :=
  match f with FMessage => text m | FFormatted => shown m end.
Definition cmp_z (o : cmpop) (a b : Z) : bool :=
  match o with
  | CGe => Z.leb b a | CGt => Z.ltb b a | CLe => Z.leb a b | CLt => Z.ltb a b
  | CEq => Z.eqb a b | CNe => negb (Z.eqb a b)
  end.

(* ---- the four handlers ---- *)
Definition level_pass (cfg : filters_cfg) (min t : mtype) : bool :=
  cmp_z (level_cmp cfg) (prio cfg t) (prio cfg min).

Definition dup_step (cfg : filters_cfg) (last : qstr) (m : msg) : qstr * bool :=
  if qstr_eqb (get_field (dup_cmp cfg) m) last
  then ((if dup_store_on_drop cfg then get_field (dup_store cfg) m else last), false)
  else (get_field (dup_store cfg) m, true).

(* returns (emitted number, new counter) *)
Definition seq_step (cfg : filters_cfg) (count : Z) : Z * Z :=
  let c' := (count + seq_inc cfg)%Z in ((if seq_post cfg then count else c'), c').

Definition regex_pass (cfg : filters_cfg) (r : re) (m : msg) : bool :=
  match decode16 (get_field (re_field cfg) m) with
  | Some cps => match re_mode cfg with RSearch => search r cps | RWhole => whole r true cps end
  | None => false
  end.

(* ---- handler objects, pipelines, scenarios ---- *)
Inductive hspec :=
| HDup                       (* a DuplicateFilter *)
| HSeq                       (* a SeqNumberAttr; object number k writes attribute number k *)
| HLevel (min : mtype)       (* LevelFilter(min) *)
| HRegex (r : re)            (* RegExpFilter *)
| HFmtConst                  (* a formatter producing the constant text "X" *)
| HFmtTag                    (* a formatter producing shown text + one unit encoding the flags *)
| HDrop (bit : N).           (* scripted filter: drops iff that bit of the flags is set *)
Inductive hstate := SDup (last : qstr) | SSeq (count : Z) | SNone.
Definition init_state (cfg : filters_cfg) (h : hspec) : hstate :=
  match h with HDup => SDup (dup_init cfg) | HSeq => SSeq (seq_init cfg) | _ => SNone end.

(* one call of handler object number [i]: new object state, verdict, message afterwards *)
Definition hstep (cfg : filters_cfg) (i : nat) (h : hspec) (s : hstate) (m : msg) : hstate * bool * msg :=
  match h, s with
  | HDup, SDup last => let (l', v) := dup_step cfg last m in (SDup l', v, m)
  | HSeq, SSeq c => let (n, c') := seq_step cfg c in (SSeq c', true, set_attr m i n)
  | HLevel min, _ => (s, level_pass cfg min (mt m), m)
  | HRegex r, _ => (s, regex_pass cfg r m, m)
  | HFmtConst, _ => (s, true, set_fmt m [88%N])
  | HFmtTag, _ => (s, true, set_fmt m (shown m ++ [(256 + flags m)%N]))
  | HDrop b, _ => (s, negb (N.testbit (flags m) b), m)
  | _, _ => (s, true, m)
  end.

Fixpoint upd {A} (i : nat) (x : A) (l : list A) : list A :=
  match l, i with
  | [], _ => []
  | _ :: t, O => x :: t
  | y :: t, S k => y :: upd k x t
  end.
Fixpoint get_attr (k : nat) (a : list (nat * Z)) : option Z :=
  match a with [] => None | (k', v) :: t => if Nat.eqb k' k then Some v else get_attr k t end.

(* what is recorded about one handler call *)
Record event := { ev_obj : nat; ev_in : msg; ev_ok : bool; ev_out : msg }.

(* Pipeline::process: handlers in order until one returns false.  An index without object is a
   null handler pointer: skipped. *)
Fixpoint run_handlers (cfg : filters_cfg) (objs : list hspec) (st : list hstate) (pl : list nat) (m : msg)
  : list hstate * list event :=
  match pl with
  | [] => (st, [])
  | i :: rest =>
      match nth_error objs i, nth_error st i with
      | Some h, Some s =>
          let '(s', v, m') := hstep cfg i h s m in
          let e := {| ev_obj := i; ev_in := m; ev_ok := v; ev_out := m' |} in
          if v then let (st'', es) := run_handlers cfg objs (upd i s' st) rest m' in (st'', e :: es)
          else (upd i s' st, [e])
      | _, _ => run_handlers cfg objs st rest m
      end
  end.

(* one step of a scenario: a message sent through the pipeline it names, or a direct call of the
   public entry point of one handler object (attributes() of a SeqNumberAttr, filter() of a filter)
   by some other user of that object.  Handler::process of an attribute handler is
   updateAttributes(attributes(m)) and that of a filter is filter(m), so a direct call is one
   handler call of that object: the same step as a pipeline consisting of the object alone. *)
Inductive step := Send (p : nat) (m : msg) | Direct (o : nat) (m : msg).
Definition plan (pp : list (list nat)) (s : step) : list nat :=
  match s with Send p _ => nth p pp [] | Direct o _ => [o] end.
Definition smsg (s : step) : msg := match s with Send _ m => m | Direct _ m => m end.
Record scenario := { objs : list hspec; pipes : list (list nat); feed : list step }.
(* every step of the feed is executed in order; the objects keep their state *)
Fixpoint run_feed (cfg : filters_cfg) (ob : list hspec) (pp : list (list nat)) (st : list hstate)
  (fd : list step) : list (list event) :=
  match fd with
  | [] => []
  | stp :: rest =>
      let (st', es) := run_handlers cfg ob st (plan pp stp) (smsg stp) in
      es :: run_feed cfg ob pp st' rest
  end.
Definition run_scn (cfg : filters_cfg) (sc : scenario) : list (list event) :=
  run_feed cfg (objs sc) (pipes sc) (map (init_state cfg) (objs sc)) (feed sc).

(* what the harness can observe of one handler call: the verdict, and for a sequence-number
   object the value of its attribute right after the call *)
Definition obs := (bool * option Z)%type.
Definition is_seq (ob : list hspec) (i : nat) : bool :=
  match nth_error ob i with Some HSeq => true | _ => false end.
Definition observe_ev (ob : list hspec) (e : event) : obs :=
  (ev_ok e, if is_seq ob (ev_obj e) then get_attr (ev_obj e) (attrs (ev_out e)) else None).
Definition observe (cfg : filters_cfg) (sc : scenario) : list (list obs) :=
  map (map (observe_ev (objs sc))) (run_scn cfg sc).

(* ---- specification: the decision rules of the property, as a reference monitor ---- *)
(* ghost state per object: the text the object saw last (initially empty) / how many messages it
   has seen *)
Inductive ghost := GDup (prev : qstr) | GSeq (seen : nat) | GNone.
Definition init_ghost (h : hspec) : ghost :=
  match h with HDup => GDup [] | HSeq => GSeq 0 | _ => GNone end.
Definition level_spec (min t : mtype) : bool := Nat.leb (severity min) (severity t).
(* the rule of the property for one call: expected observation and new ghost state.  The
   message is tracked by the monitor itself (formatters change the shown text, object number i
   of kind SeqNumberAttr sets attribute number i). *)
Definition spec_step (i : nat) (h : hspec) (g : ghost) (m : msg) : ghost * obs * msg :=
  match h, g with
  | HDup, GDup prev => (GDup (text m), (negb (qstr_eqb (text m) prev), None), m)
  | HSeq, GSeq n => (GSeq (S n), (true, Some (Z.of_nat n)), set_attr m i (Z.of_nat n))
  | HLevel min, _ => (g, (level_spec min (mt m), None), m)
  | HRegex r, _ => (g, (regex_search16 r (text m), None), m)
  | HFmtConst, _ => (g, (true, None), set_fmt m [88%N])
  | HFmtTag, _ => (g, (true, None), set_fmt m (shown m ++ [(256 + flags m)%N]))
  | HDrop b, _ => (g, (negb (N.testbit (flags m) b), None), m)
  | _, _ => (g, (true, None), m)
  end.
Definition obs_eqb (a b : obs) : bool :=
  Bool.eqb (fst a) (fst b) &&
  match snd a, snd b with Some x, Some y => Z.eqb x y | None, None => true | _, _ => false end.
(* check the observations of one message against the pipeline: handlers run in order until the
   first [false]; each observation is the one the rule prescribes *)
Fixpoint check_handlers (ob : list hspec) (gs : list ghost) (pl : list nat) (m : msg) (os : list obs)
  : list ghost * bool :=
  match pl with
  | [] => (gs, isnil os)
  | i :: rest =>
      match nth_error ob i, nth_error gs i with
      | Some h, Some g =>
          match os with
          | [] => (gs, false)
          | o :: os' =>
              let '(g', want, m') := spec_step i h g m in
              if obs_eqb o want
              then if fst o then check_handlers ob (upd i g' gs) rest m' os'
                   else (upd i g' gs, isnil os')
              else (gs, false)
          end
      | _, _ => check_handlers ob gs rest m os
      end
  end.
Fixpoint check_feed (ob : list hspec) (pp : list (list nat)) (gs : list ghost) (fd : list step)
  (oss : list (list obs)) : bool :=
  match fd, oss with
  | [], [] => true
  | stp :: rest, os :: oss' =>
      let (gs', ok) := check_handlers ob gs (plan pp stp) (smsg stp) os in
      ok && check_feed ob pp gs' rest oss'
  | _, _ => false
  end.
(* the boolean oracle: do these observations (of the implementation) follow the rules? *)
Definition prop_c16_b (sc : scenario) (oss : list (list obs)) : bool :=
  check_feed (objs sc) (pipes sc) (map init_ghost (objs sc)) (feed sc) oss.
(* the sequence numbers stay inside the non-negative range of C++ int *)
Definition int_max : Z := 2147483647.

(* the rules of the property written down as a configuration (independent of the source): what
   the monitor accepts is exactly the behaviour of the model under this configuration *)
Definition ref_cfg : filters_cfg := {|
  prio := fun t => Z.of_nat (severity t); level_cmp := CGe;
  dup_cmp := FMessage; dup_store := FMessage; dup_store_on_drop := false; dup_init := [];
  seq_init := 0%Z; seq_post := true; seq_inc := 1%Z;
  re_field := FMessage; re_mode := RSearch |}.

(* ---- plain sequences (one object, every message reaches it) ---- *)
Fixpoint dup_run (cfg : filters_cfg) (last : qstr) (ms : list msg) : list bool :=
  match ms with [] => [] | m :: r => let (l', v) := dup_step cfg last m in v :: dup_run cfg l' r end.
Fixpoint prev_neq (prev : qstr) (ts : list qstr) : list bool :=
  match ts with [] => [] | t :: r => negb (qstr_eqb t prev) :: prev_neq t r end.
Fixpoint collapse (prev : qstr) (ts : list qstr) : list qstr :=
  match ts with [] => [] | t :: r => if qstr_eqb t prev then collapse t r else t :: collapse t r end.
Fixpoint select {A} (bs : list bool) (l : list A) : list A :=
  match bs, l with
  | b :: bs', x :: l' => if b then x :: select bs' l' else select bs' l'
  | _, _ => []
  end.
Fixpoint seq_run (cfg : filters_cfg) (count : Z) (n : nat) : list Z :=
  match n with O => [] | S k => let (v, c') := seq_step cfg count in v :: seq_run cfg c' k end.
