(* C14 — safety of the checked transcription of FunctionToken::cleanup: every checked access is in
   range, every loop finishes within its fuel, the result is never longer than the input.
   Shape: per-loop totality lemmas (measure = distance to the end the loop walks towards), range
   lemmas for the search primitives and findBalancedReverse, length monotonicity of every phase,
   final assembly.  All lemmas are generic in the configuration read from the source; the
   assembly needs the decidable side condition [cfg_okb]. *)
From Coq Require Import List NArith ZArith Bool Lia ZifyBool.
Require Import QtlVerif.FuncCleanupDefs.
Import ListNotations.
Local Open Scope Z_scope.

Lemma len_nonneg b : 0 <= len b. Proof. unfold len. lia. Qed.

Lemma at_ok b i : 0 <= i < len b -> exists c, at_ b i = Some c.
Proof.
  intros [H0 H1]. unfold at_. destruct (Z.ltb_spec i 0); [lia|].
  destruct (nth_error b (Z.to_nat i)) eqn:E; [eauto|].
  apply nth_error_None in E. unfold len in H1. lia.
Qed.
Lemma at_some b i c : at_ b i = Some c -> 0 <= i < len b.
Proof.
  unfold at_. destruct (Z.ltb_spec i 0); [discriminate|]. intros Hx.
  assert (Hn : nth_error b (Z.to_nat i) <> None) by congruence. apply nth_error_Some in Hn. unfold len. lia.
Qed.

Ltac use_at f i := let x := fresh "x" in let Hx := fresh "Hx" in destruct (at_ok f i) as [x Hx]; [lia|rewrite Hx; cbn [bind]].

(* ---- the checked slice operations ---- *)
Lemma firstn_len (b : bytes) n : len (firstn n b) <= len b.
Proof. unfold len. rewrite firstn_length. lia. Qed.
Lemma skipn_len_le (b : bytes) n : len (skipn n b) <= len b.
Proof. unfold len. rewrite skipn_length. lia. Qed.
Lemma skipn_len (b : bytes) n : (n <= length b)%nat -> len (skipn n b) = len b - Z.of_nat n.
Proof. intros H. unfold len. rewrite skipn_length. lia. Qed.

Lemma mid_c_len f p n g : mid_c f p n = Some g -> len g <= len f.
Proof.
  unfold mid_c. destruct (_ && _); [|discriminate]. destruct (n =? -1).
  - intros Hm; injection Hm as <-. apply skipn_len_le.
  - destruct (_ && _); [|discriminate]. intros Hm; injection Hm as <-.
    eapply Z.le_trans; [apply firstn_len|apply skipn_len_le].
Qed.
Lemma mid_c_ok f p n : 0 <= p <= len f -> (n = -1 \/ (0 <= n /\ p + n <= len f)) ->
  exists g, mid_c f p n = Some g /\ len g <= len f.
Proof.
  intros Hp Hn. assert (E : exists g, mid_c f p n = Some g).
  { unfold mid_c. destruct (Z.leb_spec 0 p); [|lia]. destruct (Z.leb_spec p (len f)); [|lia]. cbn [andb].
    destruct (Z.eqb_spec n (-1)); [eauto|]. destruct Hn as [Hn|[Hn1 Hn2]]; [contradiction|].
    destruct (Z.leb_spec 0 n); [|lia]. destruct (Z.leb_spec (p + n) (len f)); [|lia]. cbn [andb]. eauto. }
  destruct E as [g E]. exists g. split; [exact E|eapply mid_c_len; exact E].
Qed.
Lemma mid_c_rest_len f p g : mid_c f p (-1) = Some g -> len g = len f - p.
Proof.
  unfold mid_c. destruct (Z.leb_spec 0 p); [|discriminate]. destruct (Z.leb_spec p (len f)); [|discriminate]. cbn.
  intros Hm; injection Hm as <-. rewrite skipn_len; unfold len in *; lia.
Qed.
Lemma truncate_c_ok f n : 0 <= n <= len f -> exists g, truncate_c f n = Some g /\ len g <= len f.
Proof.
  intros H. unfold truncate_c. destruct (Z.leb_spec 0 n); [|lia]. destruct (Z.leb_spec n (len f)); [|lia]. cbn [andb].
  eexists; split; [reflexivity|apply firstn_len].
Qed.
Lemma chop_c_ok f n : 0 <= n <= len f -> exists g, chop_c f n = Some g /\ len g = len f - n.
Proof.
  intros H. unfold chop_c. destruct (Z.leb_spec 0 n); [|lia]. destruct (Z.leb_spec n (len f)); [|lia]. cbn [andb].
  eexists; split; [reflexivity|]. unfold len in *. rewrite firstn_length. lia.
Qed.
Lemma chop_c_len f n g : chop_c f n = Some g -> len g <= len f.
Proof. unfold chop_c. destruct (_ && _); [|discriminate]. intros Hm; injection Hm as <-. apply firstn_len. Qed.
Lemma remove_c_ok f p n : 0 <= p -> 0 <= n -> p + n <= len f -> exists g, remove_c f p n = Some g /\ len g = len f - n.
Proof.
  intros Hp Hn Hl. unfold remove_c. destruct (Z.leb_spec 0 p); [|lia]. destruct (Z.leb_spec 0 n); [|lia].
  destruct (Z.leb_spec (p + n) (len f)); [|lia]. cbn [andb]. eexists; split; [reflexivity|].
  unfold len in *. rewrite app_length, firstn_length, skipn_length. lia.
Qed.
Lemma remove_c_len f p n g : remove_c f p n = Some g -> len g <= len f.
Proof.
  unfold remove_c. destruct (Z.leb_spec 0 p); [|discriminate]. destruct (Z.leb_spec 0 n); [|discriminate].
  destruct (Z.leb_spec (p + n) (len f)); [|discriminate]. cbn [andb]. intros Hm; injection Hm as <-.
  unfold len in *. rewrite app_length, firstn_length, skipn_length. lia.
Qed.

(* ---- C++ int results ---- *)
Lemma ck_ok z : INT_MIN <= z <= INT_MAX -> ck z = Some z.
Proof. intros H. unfold ck. destruct (Z.leb_spec INT_MIN z); [|lia]. destruct (Z.leb_spec z INT_MAX); [|lia]. reflexivity. Qed.
Lemma ck_some z r : ck z = Some r -> r = z /\ INT_MIN <= z <= INT_MAX.
Proof. unfold ck. destruct (Z.leb_spec INT_MIN z); [|discriminate]. destruct (Z.leb_spec z INT_MAX); [|discriminate]. cbn. intros E; injection E as <-. lia. Qed.
Ltac ckok := rewrite ck_ok by (unfold INT_MIN, INT_MAX in *; lia); cbn [bind].
(* invert the first bind in hypothesis H *)
Ltac bind_inv H x E := match type of H with bind ?e _ = _ => destruct e as [x|] eqn:E; [cbn [bind] in H|discriminate H] end.

(* ---- findBalancedReverse ---- *)
Lemma fbr_loop_total f o c : len f <= INT_MAX -> forall fuel pos count,
  -1 <= pos < len f -> 0 <= count -> count + pos + 1 <= INT_MAX -> (Z.to_nat (pos + 1) < fuel)%nat ->
  exists r, fbr_loop fuel f o c pos count = Some r.
Proof.
  intros HL. induction fuel as [|fu IH]; intros pos count Hp Hc Hb Hf; [lia|]. cbn [fbr_loop].
  destruct ((0 <=? pos) && (0 <? count)) eqn:E.
  - apply andb_prop in E as [E1 E2]. apply Z.leb_le in E1. apply Z.ltb_lt in E2. use_at f pos.
    destruct (x =? c)%N; [ckok|destruct (x =? o)%N; [ckok|cbn [bind]]]; ckok; apply IH; lia.
  - destruct (count =? 0); [ckok|]; eauto.
Qed.
Lemma fbr_total f o c start : len f <= INT_MAX - 1 -> start <= len f -> exists r, fbr f o c start = Some r.
Proof.
  intros HL H. unfold fbr. destruct (start <=? 0) eqn:E; [eauto|]. apply Z.leb_gt in E. ckok.
  apply fbr_loop_total; unfold len in *; lia.
Qed.
Lemma fbr_loop_range_pos f o c : forall fuel pos count r,
  fbr_loop fuel f o c pos count = Some r -> 0 < count -> -1 <= pos -> r = -1 \/ (0 <= r <= pos).
Proof.
  induction fuel as [|fu IH]; intros pos count r H Hc Hp; [discriminate|]. cbn [fbr_loop] in H.
  destruct (Z.leb_spec 0 pos) as [H0|H0]; cbn [andb] in H.
  - destruct (Z.ltb_spec 0 count); [|lia]. destruct (at_ f pos) as [x|]; [|discriminate]. cbn [bind] in H.
    bind_inv H count' Ec. bind_inv H pos' Ep. apply ck_some in Ep as [-> _].
    assert (Hc' : count' = count + 1 \/ count' = count - 1 \/ count' = count).
    { destruct (x =? c)%N; [apply ck_some in Ec; lia|]. destruct (x =? o)%N; [apply ck_some in Ec; lia|]. injection Ec as <-. lia. }
    destruct (Z.ltb_spec 0 count') as [Hc1|Hc1].
    + apply IH in H; [lia|exact Hc1|lia].
    + destruct fu as [|fu']; [discriminate|]. cbn [fbr_loop] in H.
      destruct ((0 <=? pos - 1) && (0 <? count')) eqn:E.
      * apply andb_prop in E as [_ E2]. apply Z.ltb_lt in E2. lia.
      * assert (count' = 0) by lia. subst count'. cbn in H. apply ck_some in H as [-> _]. right. lia.
  - destruct (Z.eqb_spec count 0); [lia|]. injection H as <-. left; reflexivity.
Qed.
Lemma fbr_range f o c start r : fbr f o c start = Some r -> r = -1 \/ (0 <= r < start).
Proof.
  unfold fbr. destruct (Z.leb_spec start 0) as [Hle|Hgt]; [intros E; injection E as <-; left; reflexivity|].
  intros E. bind_inv E p Ep. apply ck_some in Ep as [-> _]. apply fbr_loop_range_pos in E; lia.
Qed.

(* ---- simple left scans ---- *)
Lemma skip_spaces_left_total f : len f <= INT_MAX -> forall fuel p, -1 <= p < len f -> (Z.to_nat (p + 1) < fuel)%nat ->
  exists r, skip_spaces_left fuel f p = Some r /\ -1 <= r <= p.
Proof.
  intros HL. induction fuel as [|fu IH]; intros p Hp Hf; [lia|]. cbn [skip_spaces_left].
  destruct (Z.leb_spec 0 p); [|eexists; split; [reflexivity|lia]].
  use_at f p. destruct (x =? c_sp)%N; [|eexists; split; [reflexivity|lia]]. ckok.
  destruct (IH (p - 1)) as (r & Hr & Hb); [lia|lia|]. exists r. split; [exact Hr|lia].
Qed.
Lemma skip_ident_left_total f : len f <= INT_MAX -> forall fuel p, -1 <= p < len f -> (Z.to_nat (p + 1) < fuel)%nat ->
  exists r, skip_ident_left fuel f p = Some r /\ -1 <= r <= p.
Proof.
  intros HL. induction fuel as [|fu IH]; intros p Hp Hf; [lia|]. cbn [skip_ident_left].
  destruct (Z.leb_spec 0 p); [|eexists; split; [reflexivity|lia]].
  use_at f p. destruct (is_lon_latin1 x || (x =? c_us)%N); [|eexists; split; [reflexivity|lia]]. ckok.
  destruct (IH (p - 1)) as (r & Hr & Hb); [lia|lia|]. exists r. split; [exact Hr|lia].
Qed.

(* ---- function-pointer scan: finishes, the depth counter stays an int, and the remembered
        position lies inside the scanned range ---- *)
Lemma fp_scan_total f stop : len f <= INT_MAX -> stop <= len f -> forall fuel i depth args, 0 <= i ->
  depth + (stop - i) <= INT_MAX -> INT_MIN <= depth - (stop - i) -> (Z.to_nat (stop - i) < fuel)%nat ->
  exists r, fp_scan fuel f i stop depth args = Some r.
Proof.
  intros HL Hs. induction fuel as [|fu IH]; intros i depth args Hi Hd1 Hd2 Hf; [lia|]. cbn [fp_scan].
  destruct (Z.ltb_spec i stop); [|eauto]. use_at f i. ckok.
  destruct (x =? c_lpar)%N; [ckok; apply IH; lia|]. destruct (x =? c_rpar)%N; [ckok|]; apply IH; lia.
Qed.
Lemma fp_scan_range f stop lo : forall fuel i depth args r, fp_scan fuel f i stop depth args = Some r ->
  lo <= i -> (args = -1 \/ lo <= args < stop) -> (r = -1 \/ lo <= r < stop).
Proof.
  induction fuel as [|fu IH]; intros i depth args r H Hi Ha; [discriminate|]. cbn [fp_scan] in H.
  destruct (Z.ltb_spec i stop); [|injection H as <-; exact Ha].
  destruct (at_ f i) as [x|]; [|discriminate]. cbn [bind] in H.
  bind_inv H i' Ei. apply ck_some in Ei as [-> _].
  destruct (x =? c_lpar)%N.
  - bind_inv H d' Ed. eapply IH; [exact H|lia|]. destruct (depth =? 0); [right; lia|exact Ha].
  - destruct (x =? c_rpar)%N; [bind_inv H d' Ed|]; (eapply IH; [exact H|lia|exact Ha]).
Qed.

(* ---- scan without operator ---- *)
Lemma noop_scan_total f : len f <= INT_MAX -> forall fuel pos pc ac, -1 <= pos < len f -> 0 <= pc -> 0 <= ac ->
  pc + pos + 1 <= INT_MAX -> ac + pos + 1 <= INT_MAX -> (Z.to_nat (pos + 1) < fuel)%nat ->
  exists r, noop_scan fuel f pos pc ac = Some r /\ len r <= len f.
Proof.
  intros HL. induction fuel as [|fu IH]; intros pos pc ac Hp Hpc Hac Hb1 Hb2 Hf; [lia|]. cbn [noop_scan].
  destruct (Z.leb_spec 0 pos); [|exists f; split; [reflexivity|lia]]. use_at f pos. ckok.
  destruct (x =? c_rpar)%N; [ckok; apply IH; lia|].
  destruct ((x =? c_lpar)%N && (0 <? pc)) eqn:E1; [apply andb_prop in E1 as [_ E1]; apply Z.ltb_lt in E1; ckok; apply IH; lia|].
  destruct (x =? c_gt)%N; [ckok; apply IH; lia|].
  destruct ((x =? c_lt)%N && (0 <? ac)) eqn:E2; [apply andb_prop in E2 as [_ E2]; apply Z.ltb_lt in E2; ckok; apply IH; lia|].
  destruct ((0 <? pc) || (0 <? ac)); [apply IH; lia|].
  destruct (x =? c_sp)%N; [ckok; apply mid_c_ok; lia|apply IH; lia].
Qed.

(* ---- template-membership scan, operator-char scan ---- *)
Lemma inside_template_total f : len f <= INT_MAX -> forall fuel i ad, -1 <= i < len f -> 0 <= ad -> ad + i + 1 <= INT_MAX ->
  (Z.to_nat (i + 1) < fuel)%nat -> exists r, inside_template fuel f i ad = Some r.
Proof.
  intros HL. induction fuel as [|fu IH]; intros i ad Hp Ha Hb Hf; [lia|]. cbn [inside_template].
  destruct (Z.leb_spec 0 i); [|eauto]. use_at f i. ckok.
  destruct (x =? c_gt)%N; [ckok; apply IH; lia|]. destruct (x =? c_lt)%N; [|apply IH; lia].
  destruct (Z.eqb_spec ad 0); [eauto|ckok; apply IH; lia].
Qed.
Lemma all_opchars_total cfg f stop : len f <= INT_MAX -> stop < len f -> forall fuel i, 0 <= i -> (Z.to_nat (stop + 1 - i) < fuel)%nat ->
  exists r, all_opchars cfg fuel f i stop = Some r.
Proof.
  intros HL Hs. induction fuel as [|fu IH]; intros i Hi Hf; [lia|]. cbn [all_opchars].
  destruct (Z.leb_spec i stop); [|eauto]. use_at f i.
  destruct (existsb _ (opchars cfg)); [ckok; apply IH; lia|eauto].
Qed.
Lemma op_before_total f p : len f <= INT_MAX -> p <= len f -> exists b, op_before f p = Some b.
Proof.
  intros HL H. unfold op_before. destruct (Z.leb_spec 8 p); [|eauto]. ckok.
  destruct (mid_c_ok f (p - 8) 8) as (m & -> & _); [pose proof (len_nonneg f); lia|right; lia|]. cbn [bind]. eauto.
Qed.

(* ---- the operator branch: every recursive call moves strictly left ---- *)
Lemma op_scan_total f : len f <= INT_MAX - 1 -> forall fuel sp, sp < len f -> (Z.to_nat (sp + 1) < fuel)%nat ->
  exists r, op_scan fuel f sp = Some r /\ (forall g, r = Some g -> len g <= len f).
Proof.
  intros HL. induction fuel as [|fu IH]; intros sp Hp Hf; [lia|]. cbn [op_scan].
  destruct (Z.leb_spec 0 sp); [|eexists; split; [reflexivity|discriminate]]. use_at f sp.
  match goal with |- exists r, bind ?e _ = Some r /\ _ => assert (Hq : exists isq, e = Some isq /\ (isq = true -> 1 <= sp)) end.
  { destruct ((1 <=? sp) && (x =? c_colon)%N) eqn:E; [|eexists; split; [reflexivity|discriminate]]. apply andb_prop in E as [E1 _]. apply Z.leb_le in E1.
    ckok. destruct (at_ok f (sp - 1)) as [d Hd]; [lia|]. rewrite Hd. cbn [bind]. eexists; split; [reflexivity|intros; lia]. }
  destruct Hq as (isq & -> & Hsp1pos). cbn [bind]. destruct isq.
  2:{ destruct (x =? c_sp)%N; [|eexists; split; [reflexivity|discriminate]]. ckok.
      destruct (mid_c_ok f (sp + 1) (-1)) as (g & -> & Hg); [lia|left; reflexivity|]. cbn [bind].
      eexists; split; [reflexivity|]. intros g' E; injection E as <-. exact Hg. }
  specialize (Hsp1pos eq_refl). ckok.
  destruct (skip_spaces_left_total f ltac:(lia) (S (length f)) (sp - 2)) as (sp1 & Hsp1 & Hb1); [lia|unfold len in Hp; lia|].
  rewrite Hsp1. cbn [bind].
  match goal with |- exists r, bind ?e _ = Some r /\ _ => assert (Hc1 : exists c1, e = Some c1 /\ (forall y, c1 = Some y -> 0 <= sp1)) end.
  { destruct (Z.leb_spec 0 sp1); [|eexists; split; [reflexivity|discriminate]].
    destruct (at_ok f sp1) as [y Hy]; [lia|]. rewrite Hy. cbn [bind]. eexists; split; [reflexivity|intros; lia]. }
  destruct Hc1 as (c1 & -> & Hc1pos). cbn [bind].
  match goal with |- exists r, bind ?e _ = Some r /\ _ => assert (Hr1 : exists r1, e = Some r1 /\ (forall n, r1 = Some n -> -1 <= n < sp)) end.
  { destruct c1 as [y|]; [|eexists; split; [reflexivity|discriminate]].
    destruct (y =? c_rpar)%N; [|eexists; split; [reflexivity|discriminate]].
    specialize (Hc1pos y eq_refl). ckok.
    destruct (fbr_total f c_lpar c_rpar (sp1 + 1)) as [o Ho]; [lia|lia|]. rewrite Ho. cbn [bind].
    apply fbr_range in Ho. destruct (Z.eqb_spec o (-1)); [eexists; split; [reflexivity|discriminate]|]. ckok.
    eexists; split; [reflexivity|]. intros k Hk. injection Hk as <-. lia. }
  destruct Hr1 as (r1 & -> & Hr1lt). cbn [bind]. destruct r1 as [nsp|].
  { specialize (Hr1lt nsp eq_refl). apply IH; lia. }
  match goal with |- exists r, bind ?e _ = Some r /\ _ => assert (Hr2 : exists r2, e = Some r2 /\ (forall n, r2 = Some n -> -1 <= n < sp)) end.
  { destruct c1 as [y|]; [|eexists; split; [reflexivity|discriminate]].
    destruct (y =? c_gt)%N; [|eexists; split; [reflexivity|discriminate]].
    specialize (Hc1pos y eq_refl). ckok.
    destruct (fbr_total f c_lt c_gt (sp1 + 1)) as [o Ho]; [lia|lia|]. rewrite Ho. cbn [bind].
    apply fbr_range in Ho. destruct (Z.eqb_spec o (-1)); [eexists; split; [reflexivity|discriminate]|]. ckok.
    eexists; split; [reflexivity|]. intros k Hk. injection Hk as <-. lia. }
  destruct Hr2 as (r2 & -> & Hr2lt). cbn [bind]. destruct r2 as [nsp|].
  { specialize (Hr2lt nsp eq_refl). apply IH; lia. }
  destruct (skip_ident_left_total f ltac:(lia) (S (length f)) sp1) as (sp2 & Hsp2 & Hb2); [lia|unfold len in Hp; lia|].
  rewrite Hsp2. cbn [bind]. apply IH; lia.
Qed.

(* ---- ranges of the search primitives ---- *)
Lemma prefixb_len p : forall s, prefixb p s = true -> (length p <= length s)%nat.
Proof. induction p as [|x p IH]; intros [|y s] H; cbn in *; try lia; try discriminate. apply andb_prop in H as [_ H]. apply IH in H. lia. Qed.
Lemma ends_with_len f q : ends_with f q = true -> len q <= len f.
Proof. unfold ends_with. intros H. apply prefixb_len in H. rewrite !rev_length in H. unfold len. lia. Qed.
Lemma starts_with_len f q : starts_with f q = true -> len q <= len f.
Proof. unfold starts_with. intros H. apply prefixb_len in H. unfold len. lia. Qed.

Lemma find_from_range needle : forall s i r, find_from needle s i = r -> r = -1 \/ (i <= r /\ r - i + len needle <= len s).
Proof.
  induction s as [|c s IH]; intros i r H; cbn [find_from] in H.
  - destruct (beqb needle []) eqn:E; [|left; congruence]. right. subst r.
    destruct needle; [unfold len; cbn; lia|cbn in E; discriminate].
  - destruct (prefixb needle (c :: s)) eqn:E.
    + right. subst r. apply prefixb_len in E. unfold len. cbn [length] in *. lia.
    + apply IH in H. destruct H as [H|[H1 H2]]; [left; exact H|right]. unfold len in *. cbn [length]. lia.
Qed.
Lemma index_of_range s needle from r : 0 <= from -> index_of s needle from = r -> r = -1 \/ (from <= r /\ r + len needle <= len s).
Proof.
  intros Hf. unfold index_of. destruct (Z.ltb_spec (len s) from); [intros <-; left; reflexivity|].
  intros E. apply find_from_range in E. destruct E as [E|[H1 H2]]; [left; exact E|right].
  rewrite skipn_len in H2 by (unfold len in *; lia). rewrite Z.max_r in * by lia. lia.
Qed.
Lemma rfind_aux_range needle limit : forall s i best r, rfind_aux needle s i best limit = r ->
  (best = -1 \/ (0 <= best /\ best + len needle <= i + len s)) -> 0 <= i ->
  r = -1 \/ (0 <= r /\ r + len needle <= i + len s).
Proof.
  induction s as [|c s IH]; intros i best r H Hb Hi; cbn [rfind_aux] in H.
  - subst r. exact Hb.
  - apply IH in H; [|clear H|lia].
    + unfold len in *. cbn [length]. lia.
    + destruct ((i <=? limit) && prefixb needle (c :: s)) eqn:E.
      * right. apply andb_prop in E as [_ E]. apply prefixb_len in E. unfold len in *. cbn [length] in *. lia.
      * unfold len in *. cbn [length] in *. lia.
Qed.
Lemma last_index_of_range s needle from r : last_index_of s needle from = r -> r = -1 \/ (0 <= r /\ r + len needle <= len s).
Proof. unfold last_index_of. intros H. apply rfind_aux_range in H; [lia|left; reflexivity|lia]. Qed.
Lemma last_index_range s needle r : last_index s needle = r -> r = -1 \/ (0 <= r /\ r + len needle <= len s).
Proof. unfold last_index. intros H. apply rfind_aux_range in H; [lia|left; reflexivity|lia]. Qed.

(* ---- "()::" removal: measure 2*len - pos ---- *)
Lemma empty_parens_total : forall fuel f pos, len f <= INT_MAX - 1 -> 0 <= pos -> (Z.to_nat (2 * len f + 4 - pos) < fuel)%nat ->
  exists r, empty_parens fuel f pos = Some r /\ len r <= len f.
Proof.
  induction fuel as [|fu IH]; intros f pos HL Hpos Hf; [lia|]. cbn [empty_parens].
  destruct (Z.eqb_spec (index_of f s_pp pos) (-1)) as [E|E]; [exists f; split; [reflexivity|lia]|].
  destruct (index_of_range f s_pp pos _ Hpos eq_refl) as [Hr|[Hr1 Hr2]]; [contradiction|].
  set (p := index_of f s_pp pos) in *. change (len s_pp) with 4 in Hr2.
  destruct (op_before_total f p) as [isop ->]; [lia|lia|]. cbn [bind]. ckok. destruct isop.
  - apply IH; lia.
  - ckok. destruct (inside_template_total f ltac:(lia) (S (length f)) (p - 1) 0) as [ins Hins]; [lia|lia|lia|unfold len in *; lia|].
    rewrite Hins. cbn [bind]. destruct ins.
    + apply IH; lia.
    + destruct (remove_c_ok f p 2) as (g & -> & Hg); [lia|lia|lia|]. cbn [bind].
      destruct (IH g p) as (r & Hr & Hl); [lia|lia|lia|]. exists r. split; [exact Hr|lia].
Qed.

(* ---- template removal: each round removes at least two bytes ---- *)
Lemma strip_templates_total cfg : forall fuel f, len f <= INT_MAX - 1 -> (Z.to_nat (len f) < fuel)%nat ->
  exists r, strip_templates cfg fuel f = Some r /\ len r <= len f.
Proof.
  induction fuel as [|fu IH]; intros f HL Hf; [lia|]. cbn [strip_templates].
  destruct (Z.eqb_spec (last_index f [c_gt]) (-1)) as [E|E]; [exists f; split; [reflexivity|lia]|].
  destruct (last_index_range f [c_gt] _ eq_refl) as [Hr|[Hr1 Hr2]]; [contradiction|].
  set (ca := last_index f [c_gt]) in *. change (len [c_gt]) with 1 in Hr2.
  cbn zeta.
  match goal with |- exists r, bind ?e _ = Some r /\ _ => assert (Hstop : exists stop, e = Some stop) end.
  { destruct (last_index_of f s_operator ca =? -1) eqn:E1; [eauto|].
    destruct (last_index_of_range f s_operator ca _ eq_refl) as [Hx|[Hx1 Hx2]]; [apply Z.eqb_neq in E1; contradiction|].
    change (len s_operator) with 8 in Hx2. ckok.
    destruct (Z.leb_spec (last_index_of f s_operator ca + 8) ca); [|eauto].
    apply all_opchars_total; [lia|lia|lia|unfold len in *; lia]. }
  destruct Hstop as [stop ->]. cbn [bind]. destruct stop; [exists f; split; [reflexivity|lia]|].
  destruct (fbr_total f c_lt c_gt ca) as [oa Hoa]; [lia|lia|]. rewrite Hoa. cbn [bind].
  destruct (Z.eqb_spec oa (-1)); [exists f; split; [reflexivity|lia]|].
  apply fbr_range in Hoa. destruct Hoa as [Hoa|Hoa]; [contradiction|].
  destruct (op_before_total f oa) as [isop ->]; [lia|lia|]. cbn [bind]. destruct isop; [exists f; split; [reflexivity|lia]|].
  ckok. ckok. ckok.
  destruct (mid_c_ok f (oa + 1) (ca - oa - 1)) as (inner & -> & _); [lia|right; lia|]. cbn [bind].
  destruct (starts_with inner s_lambda); [exists f; split; [reflexivity|lia]|]. ckok.
  destruct (remove_c_ok f oa (ca - oa + 1)) as (g & -> & Hg); [lia|lia|lia|]. cbn [bind].
  destruct (IH g) as (r & Hr & Hl); [lia|lia|]. exists r. split; [exact Hr|lia].
Qed.

(* ---- the remaining loops ---- *)
Lemma chop_spaces_total : forall fuel f, (Z.to_nat (len f) < fuel)%nat ->
  exists r, chop_spaces fuel f = Some r /\ len r <= len f.
Proof.
  induction fuel as [|fu IH]; intros f Hf; [lia|]. cbn [chop_spaces].
  destruct (ends_with f [c_sp]) eqn:E; [|exists f; split; [reflexivity|lia]].
  apply ends_with_len in E. change (len [c_sp]) with 1 in E.
  destruct (chop_c_ok f 1) as (g & -> & Hg); [lia|]. cbn [bind].
  destruct (IH g) as (r & Hr & Hl); [lia|]. exists r. split; [exact Hr|lia].
Qed.
Lemma beqb_nil_false (q : bytes) : negb (beqb q []) = true -> 1 <= len q.
Proof. destruct q; cbn; [discriminate|]. intros _. unfold len. cbn [length]. lia. Qed.
Lemma strip_quals_total cfg : forallb (fun q => negb (beqb q [])) (quals cfg) = true ->
  forall fuel f, (Z.to_nat (len f) < fuel)%nat -> exists r, strip_quals cfg fuel f = Some r /\ len r <= len f.
Proof.
  intros Hq. induction fuel as [|fu IH]; intros f Hf; [lia|]. cbn [strip_quals].
  destruct (find (fun q => ends_with f q) (quals cfg)) as [q|] eqn:E; [|exists f; split; [reflexivity|lia]].
  apply find_some in E as [Hin Hend]. apply ends_with_len in Hend.
  rewrite forallb_forall in Hq. apply Hq, beqb_nil_false in Hin.
  destruct (chop_c_ok f (len q)) as (g & -> & Hg); [lia|]. cbn [bind].
  destruct (IH g) as (r & Hr & Hl); [lia|]. exists r. split; [exact Hr|lia].
Qed.
Lemma strip_lead_total : forall fuel f, (Z.to_nat (len f) < fuel)%nat ->
  exists r, strip_lead fuel f = Some r /\ len r <= len f.
Proof.
  induction fuel as [|fu IH]; intros f Hf; [lia|]. cbn [strip_lead].
  destruct (starts_with f [42%N] || starts_with f [38%N] || starts_with f [c_sp]) eqn:E; [|exists f; split; [reflexivity|lia]].
  assert (H1 : 1 <= len f).
  { apply orb_prop in E as [E|E]; [apply orb_prop in E as [E|E]|]; apply starts_with_len in E; exact E. }
  destruct (mid_c_ok f 1 (-1)) as (g & Hg & _); [lia|left; reflexivity|]. rewrite Hg. cbn [bind].
  apply mid_c_rest_len in Hg. destruct (IH g) as (r & Hr & Hl); [lia|]. exists r. split; [exact Hr|lia].
Qed.
Lemma replace_aux_len (a b : bytes) : (length b <= length a)%nat -> (1 <= length a)%nat ->
  forall s skip, (length (replace_aux skip s a b) + Nat.min skip (length s) <= length s)%nat.
Proof.
  intros Hab Ha. induction s as [|c r IH]; intros skip; cbn [replace_aux length]; [lia|].
  destruct skip as [|k].
  - destruct (prefixb a (c :: r)) eqn:E.
    + apply prefixb_len in E. cbn [length] in E. rewrite app_length. specialize (IH (length a - 1)%nat). lia.
    + specialize (IH O). cbn [length]. lia.
  - specialize (IH k). lia.
Qed.
Lemma replace_all_len s : len (replace_all s s_operator_sp s_operator) <= len s.
Proof.
  unfold replace_all, len. pose proof (replace_aux_len s_operator_sp s_operator) as H.
  specialize (H ltac:(cbn; lia) ltac:(cbn; lia) s O). lia.
Qed.

(* ---- the look-behind of phase 5 ---- *)
Lemma is_operator_call_total cfg f op : cfg_okb cfg = true -> len f <= INT_MAX -> 0 <= op < len f ->
  exists b, is_operator_call cfg f op = Some b.
Proof.
  unfold cfg_okb. intros Hc HL Hop.
  repeat (apply andb_prop in Hc as [Hc ?]).
  unfold is_operator_call. destruct (Z.leb_spec (g_ge cfg) op); [|eauto]. ckok.
  destruct (mid_c_ok f (op - g_off cfg) (g_len cfg)) as (m & -> & _); [lia|right; lia|]. cbn [bind].
  destruct (beqb m (kw cfg)); [|eauto]. destruct (Z.eqb_spec op (g_eq cfg)); [eauto|].
  assert (Hat : 0 <= op - g_at cfg < len f).
  { match goal with H : (_ || _) = true |- _ => apply orb_prop in H as [H|H] end; [lia|].
    apply andb_prop in H as [Hx1 Hx2]. lia. }
  ckok. destruct (at_ok f (op - g_at cfg)) as [pc Hpc]; [lia|]. rewrite Hpc. cbn [bind]. eauto.
Qed.

(* ---- the whole function ---- *)
Theorem cleanup_cfg_total : forall cfg, cfg_okb cfg = true ->
  forall func0, len func0 <= INT_MAX - 1 -> exists r, cleanup_cfg cfg func0 = Some r /\ len r <= len func0.
Proof.
  intros cfg Hcfg func0 HL0. unfold cleanup_cfg. destruct func0 as [|c0 t0] eqn:Ef0; [exists []; split; [reflexivity|lia]|].
  rewrite <- Ef0 in *. set (n0 := S (length func0)).
  assert (Hn0 : Z.of_nat n0 = len func0 + 1) by (unfold n0, len; lia).
  assert (Hpos0 : 1 <= len func0) by (rewrite Ef0; unfold len; cbn [length]; lia).
  assert (Hq : forallb (fun q => negb (beqb q [])) (quals cfg) = true).
  { unfold cfg_okb in Hcfg. repeat (apply andb_prop in Hcfg as [Hcfg _]). exact Hcfg. }
  (* phase 1 *)
  match goal with |- exists r, bind ?e _ = Some r /\ _ =>
    assert (Hph1 : exists f1, e = Some f1 /\ len f1 <= len func0) end.
  { destruct (_ && _ && _); [|exists func0; split; [reflexivity|lia]]. ckok.
    destruct (fbr_total func0 c_lbr c_rbr (len func0 - 1)) as [ob Hob]; [lia|lia|]. rewrite Hob. cbn [bind].
    destruct (Z.eqb_spec ob (-1)); [exists func0; split; [reflexivity|lia]|].
    apply fbr_range in Hob. destruct Hob as [Hob|Hob]; [contradiction|]. apply truncate_c_ok. lia. }
  destruct Hph1 as (f1 & -> & Hl1). cbn [bind].
  destruct (chop_spaces_total n0 f1) as (f2 & -> & Hl2); [lia|]. cbn [bind]. cbn zeta.
  set (f3 := replace_all f2 s_operator_sp s_operator).
  assert (Hl3 : len f3 <= len func0) by (unfold f3; pose proof (replace_all_len f2); lia).
  pose proof (len_nonneg f3) as Hf30.
  (* function-pointer form *)
  set (poi := index_of f3 (B [41; 40]) 0).
  match goal with |- exists r, bind ?e _ = Some r /\ _ =>
    assert (Hfp : exists fp, e = Some fp /\ (forall g, fp = Some g -> len g <= len func0)) end.
  { destruct (Z.eqb_spec poi (-1)); [eexists; split; [reflexivity|discriminate]|]. cbn zeta.
    destruct (index_of_range f3 (B [41; 40]) 0 poi) as [Hx|[Hp1 Hp2]]; [lia|reflexivity|contradiction|].
    change (len (B [41; 40])) with 2 in Hp2.
    set (pp := index_of f3 (B [40; 42]) 0).
    destruct (negb (pp =? -1) && (pp <? poi)) eqn:E; [|eexists; split; [reflexivity|discriminate]].
    apply andb_prop in E as [E1 E2]. apply negb_true_iff, Z.eqb_neq in E1. apply Z.ltb_lt in E2.
    destruct (index_of_range f3 (B [40; 42]) 0 pp) as [Hx|[Hq1 Hq2]]; [lia|reflexivity|contradiction|].
    change (len (B [40; 42])) with 2 in Hq2. ckok.
    destruct (fp_scan_total f3 poi) with (fuel := n0) (i := pp + 2) (depth := 0) (args := -1) as [ap Hap];
      [lia|lia|lia|unfold INT_MAX in *; lia|unfold INT_MIN, INT_MAX in *; lia|lia|].
    rewrite Hap. cbn [bind].
    destruct (negb (ap =? -1) && (pp + 2 <? ap)) eqn:E3; [|eexists; split; [reflexivity|discriminate]].
    apply andb_prop in E3 as [E3 E4]. apply negb_true_iff, Z.eqb_neq in E3. apply Z.ltb_lt in E4.
    apply fp_scan_range with (lo := pp + 2) in Hap; [|lia|left; reflexivity]. destruct Hap as [Hap|Hap]; [contradiction|]. ckok.
    destruct (mid_c_ok f3 (pp + 2) (ap - (pp + 2))) as (g & -> & Hg); [lia|right; lia|]. cbn [bind].
    eexists; split; [reflexivity|]. intros g' Eg; injection Eg as <-. lia. }
  destruct Hfp as (fp & -> & Hfpl). cbn [bind].
  (* the main branch *)
  match goal with |- exists r, bind ?e _ = Some r /\ _ =>
    assert (H7 : exists f7, e = Some f7 /\ len f7 <= len func0) end.
  { destruct fp as [g|]; [exists g; split; [reflexivity|apply Hfpl; reflexivity]|]. cbn zeta.
    match goal with |- exists r, bind ?e _ = Some r /\ _ =>
      assert (H4 : exists f4, e = Some f4 /\ len f4 <= len f3) end.
    { destruct (Z.eqb_spec (last_index f3 [c_rpar]) (-1)); [exists f3; split; [reflexivity|lia]|].
      destruct (last_index_range f3 [c_rpar] _ eq_refl) as [Hx|[He1 He2]]; [contradiction|]. change (len [c_rpar]) with 1 in He2.
      destruct (fbr_total f3 c_lpar c_rpar (last_index f3 [c_rpar])) as [op Hop]; [lia|lia|]. rewrite Hop. cbn [bind].
      destruct (Z.eqb_spec op (-1)); [exists f3; split; [reflexivity|lia]|].
      apply fbr_range in Hop. destruct Hop as [Hop|Hop]; [contradiction|].
      destruct (is_operator_call_total cfg f3 op Hcfg) as [isop ->]; [lia|lia|]. cbn [bind].
      destruct isop; [exists f3; split; [reflexivity|lia]|apply truncate_c_ok; lia]. }
    destruct H4 as (f4 & -> & Hl4). cbn [bind].
    destruct (strip_quals_total cfg Hq n0 f4) as (f5 & -> & Hl5); [lia|]. cbn [bind]. cbn zeta.
    pose proof (len_nonneg f5) as Hf50.
    set (opos := last_index f5 s_operator).
    match goal with |- exists r, bind ?e _ = Some r /\ _ =>
      assert (H6 : exists f6, e = Some f6 /\ len f6 <= len f5) end.
    { destruct (Z.eqb_spec opos (-1)); cbn [negb].
      - ckok. apply noop_scan_total; unfold INT_MAX in *; lia.
      - destruct (last_index_range f5 s_operator _ eq_refl) as [Hx|[Ho1 Ho2]]; [contradiction|]. fold opos in Ho1, Ho2. change (len s_operator) with 8 in Ho2.
        ckok. destruct (skip_spaces_left_total f5 ltac:(lia) n0 (opos - 1)) as (sp & Hsp & Hb); [lia|lia|]. rewrite Hsp. cbn [bind].
        destruct (op_scan_total f5 ltac:(lia) n0 sp) as (r & Hr & Hrl); [lia|lia|]. rewrite Hr. cbn [bind].
        destruct r as [g|]; [exists g; split; [reflexivity|apply Hrl; reflexivity]|].
        cbn zeta. destruct (negb (index_of f5 [c_sp] 0 =? -1) && (index_of f5 [c_sp] 0 <? opos)) eqn:E; [|exists f5; split; [reflexivity|lia]].
        apply andb_prop in E as [E1 E2]. apply negb_true_iff, Z.eqb_neq in E1. apply Z.ltb_lt in E2.
        destruct (index_of_range f5 [c_sp] 0 _ ltac:(lia) eq_refl) as [Hx|[Hs1 Hs2]]; [contradiction|]. ckok.
        apply mid_c_ok; [lia|left; reflexivity]. }
    destruct H6 as (f6 & -> & Hl6). cbn [bind].
    destruct (strip_lead_total n0 f6) as (f7 & Hf7 & Hl7); [lia|]. exists f7. split; [exact Hf7|lia]. }
  destruct H7 as (f7 & -> & Hl7). cbn [bind].
  destruct (empty_parens_total (2 * n0 + 8) f7 0) as (f8 & -> & Hl8); [lia|lia|lia|]. cbn [bind].
  destruct (strip_templates_total cfg n0 f8) as (r & Hr & Hl); [lia|lia|]. exists r. split; [exact Hr|lia].
Qed.

(* the oracle evaluated on implementation output is exactly "implementation = checked model" *)
Lemma beqb_eq : forall a b, beqb a b = true <-> a = b.
Proof.
  induction a as [|x a IH]; intros [|y b]; cbn; split; intros H; try reflexivity; try discriminate.
  - apply andb_prop in H as [H1 H2]. apply N.eqb_eq in H1. apply IH in H2. congruence.
  - injection H as -> ->. rewrite N.eqb_refl. cbn. apply IH. reflexivity.
Qed.
Lemma oracle_iff input out : cfg_okb src_cfg = true -> len input <= INT_MAX - 1 ->
  (prop_c14_func_b input out = true <-> cleanup input = Some out).
Proof.
  intros Hc HL. unfold prop_c14_func_b. destruct (cleanup_cfg_total src_cfg Hc input HL) as (r & Hr & Hl).
  unfold cleanup in *. rewrite Hr. split.
  - intros H. apply andb_prop in H as [H _]. apply beqb_eq in H. congruence.
  - intros H. injection H as <-. apply andb_true_intro. split; [apply beqb_eq; reflexivity|apply Z.leb_le; exact Hl].
Qed.
