(* C15 — Category rules decide exactly as ordered Qt-style rules prescribe.
   Property theorems only; each is closed by [exact] of a lemma of CategoryProofs.v, instantiated at
   [src_cfg], the configuration tools/src2coq.py reads from categoryfilter.cpp / logmessage.h on every
   run (separator replacement, split character, suffix alternatives with their QtMsgType, value
   alternatives, wildcard, kind of matcher, default verdict, loop shape).  [category_filter src_cfg],
   [parse_rules src_cfg], [spec_verdict] and [prop_c15_b] are the functions that are extracted and
   run against the real CategoryFilter. *)
From Coq Require Import List NArith Bool.
Import ListNotations.
Require Import QtlVerif.CategoryDefs QtlVerif.CategoryProofs QtlVerif.SrcCategory.
Local Open Scope N_scope.

(* the translated source has exactly the constants and shapes the property text names *)
Theorem C15_source_configuration_good : cfg_goodb src_cfg = true.
Proof. vm_compute. reflexivity. Qed.
Print Assumptions C15_source_configuration_good.

(* ordered evaluation: the LAST rule that matches (category, type) decides; none => the message passes *)
Theorem C15_last_match_wins : forall rs c t,
  filter_rules src_cfg rs c t =
  match find (fun r => rule_matches (matcher src_cfg) (star src_cfg) r c t) (rev rs) with
  | Some r => enabled r
  | None => true
  end.
Proof. exact (good_last_match_wins src_cfg C15_source_configuration_good). Qed.
Print Assumptions C15_last_match_wins.

(* the two loops the translator accepts for filter() are the same decision: walking the rule list from its end
   and leaving at the first matching rule = the forward loop in which every matching rule overrides *)
Theorem C15_backward_loop_is_last_match_wins : forall d la st rs c t,
  decide LastFromBack d la st rs c t = decide LastWins d la st rs c t.
Proof. exact (decide_canon LastFromBack). Qed.
Print Assumptions C15_backward_loop_is_last_match_wins.

(* a rule matches iff its pattern globs the category and it is untyped or of the message's type *)
Theorem C15_rule_matches_meaning : forall r c t,
  rule_matches (matcher src_cfg) (star src_cfg) r c t = true <->
  Glob 42 (pat r) c /\ (rtype r = None \/ rtype r = Some t).
Proof. exact (good_rule_matches_meaning src_cfg C15_source_configuration_good). Qed.
Print Assumptions C15_rule_matches_meaning.

(* the whole filter = the specification function written from the property text
   (split at ';' or newline, parse each line, last matching rule decides, default pass) *)
Theorem C15_verdict_is_specified : forall rules cat t,
  category_filter src_cfg rules cat t = spec_verdict rules cat t.
Proof. exact (fun rules cat t => model_is_spec src_cfg rules cat t C15_source_configuration_good). Qed.
Print Assumptions C15_verdict_is_specified.

(* the glob matcher: every character of the pattern stands for itself (regex metacharacters
   included), '*' for any string, the whole category must be consumed *)
Theorem C15_glob_match_correct : forall p s, glob 42 p s = true <-> Glob 42 p s.
Proof. exact (glob_iff 42). Qed.
Print Assumptions C15_glob_match_correct.

(* the matcher the code runs — wildcardMatch, the iterative two-pointer algorithm transcribed as
   [glob_iter] (fuel-bounded) — terminates within its fuel for every pattern and text ... *)
Theorem C15_iterative_matcher_total : forall p s, exists b, glob_iter 42 p s = Some b.
Proof. exact (glob_iter_total 42). Qed.
Print Assumptions C15_iterative_matcher_total.

(* ... and answers true exactly when the pattern globs the text (greedy leftmost retry after the most
   recent star loses no match) *)
Theorem C15_iterative_matcher_correct : forall p s b, glob_iter 42 p s = Some b -> (b = true <-> Glob 42 p s).
Proof. exact (glob_iter_sound_complete 42). Qed.
Print Assumptions C15_iterative_matcher_correct.

(* ... hence it computes the same function as the recursive matcher *)
Theorem C15_iterative_matcher_is_glob : forall p s, glob_iter 42 p s = Some (glob 42 p s).
Proof. exact (glob_iter_agrees 42). Qed.
Print Assumptions C15_iterative_matcher_is_glob.

(* ... equivalently: s decomposes along the stars of p — the literal pieces of p between the stars
   occur in s in that order, the first as a prefix, the last as a suffix, anything in between *)
Theorem C15_glob_is_decomposition_along_stars : forall p s,
  glob 42 p s = true <-> Decomp (segments 42 p) s.
Proof. exact (fun p s => iff_trans (glob_iff 42 p s) (glob_decomp 42 p s)). Qed.
Print Assumptions C15_glob_is_decomposition_along_stars.

(* a name without '*' matches exactly itself: '.', '+', '(', '[', '\', '$', '^', '|', '?' are literal *)
Theorem C15_metacharacters_are_literal : forall p s, ~ In 42 p -> (glob 42 p s = true <-> s = p).
Proof. exact (glob_literal 42). Qed.
Print Assumptions C15_metacharacters_are_literal.

(* ';' and newline are interchangeable as separators, position by position *)
Theorem C15_separators_equivalent : forall s s',
  Forall2 sep_equiv s s' -> parse_rules src_cfg s = parse_rules src_cfg s'.
Proof. exact (good_separators_equivalent src_cfg C15_source_configuration_good). Qed.
Print Assumptions C15_separators_equivalent.

(* texts joined by a separator give the concatenated rule lists (order is kept) *)
Theorem C15_rules_concatenate : forall a c b, is_sep c = true ->
  parse_rules src_cfg (a ++ c :: b) = parse_rules src_cfg a ++ parse_rules src_cfg b.
Proof. exact (good_rules_concatenate src_cfg C15_source_configuration_good). Qed.
Print Assumptions C15_rules_concatenate.

(* a line the line parser rejects contributes nothing and changes no other rule: list of lines ... *)
Theorem C15_malformed_ignored : forall a bad b, parse_line src_cfg bad = None ->
  parse_lines src_cfg (a ++ [bad] ++ b) = parse_lines src_cfg a ++ parse_lines src_cfg b.
Proof. exact (malformed_ignored_lines src_cfg). Qed.
Print Assumptions C15_malformed_ignored.

(* ... and in the rule text itself, between any two separators *)
Theorem C15_malformed_ignored_in_text : forall a bad b c1 c2,
  is_sep c1 = true -> is_sep c2 = true -> (forall c, In c bad -> is_sep c = false) ->
  parse_line src_cfg bad = None ->
  parse_rules src_cfg (a ++ c1 :: bad ++ c2 :: b) = parse_rules src_cfg a ++ parse_rules src_cfg b.
Proof. exact (good_malformed_ignored_text src_cfg C15_source_configuration_good). Qed.
Print Assumptions C15_malformed_ignored_in_text.

(* ONLY ';' and newline separate: a rule text that contains neither is one line, whatever else it contains
   (colon, comma, bar, hash, slash, backslash, quotes, blanks, non-ASCII) - it gives the one rule of that line or,
   when the line is malformed, no rule at all *)
Theorem C15_only_semicolon_and_newline_separate : forall l, (forall c, In c l -> is_sep c = false) ->
  parse_rules src_cfg l = match parse_line src_cfg l with Some r => [r] | None => [] end.
Proof. exact (good_only_separators_separate src_cfg C15_source_configuration_good). Qed.
Print Assumptions C15_only_semicolon_and_newline_separate.

(* ... in particular a character that is not a separator, put between two separator-free texts, does not start a
   new rule *)
Theorem C15_non_separator_does_not_split : forall a c b, is_sep c = false ->
  (forall x, In x a -> is_sep x = false) -> (forall x, In x b -> is_sep x = false) ->
  parse_rules src_cfg (a ++ c :: b) = match parse_line src_cfg (a ++ c :: b) with Some r => [r] | None => [] end.
Proof. exact (good_non_separator_glues src_cfg C15_source_configuration_good). Qed.
Print Assumptions C15_non_separator_does_not_split.

(* the rule text  <name>=<value>  for a non-empty name without blanks and without ';' that does not end in a type
   suffix is exactly the ONE untyped rule for that name - every other character of the name (':' of "ns::mod",
   ',' '|' '#' '/' backslash, quotes, '=' '.', any non-ASCII code unit) belongs to the name ... *)
Theorem C15_name_with_punctuation_is_one_rule : forall n v e, n <> [] -> solid n -> ~ In 59 n ->
  (forall p sfx t, In (sfx, t) (suffixes src_cfg) -> p <> [] -> n <> p ++ 46 :: sfx) ->
  In (v, e) (values src_cfg) ->
  parse_rules src_cfg (n ++ 61 :: v) = [{| pat := n; rtype := None; enabled := e |}].
Proof. exact (good_single_rule_text src_cfg C15_source_configuration_good). Qed.
Print Assumptions C15_name_with_punctuation_is_one_rule.

(* ... and that filter gives the rule's value to exactly the categories the name globs (for a name without '*':
   to the category spelled like the name, C15_metacharacters_are_literal); every other category passes *)
Theorem C15_single_rule_decides : forall n v e, n <> [] -> solid n -> ~ In 59 n ->
  (forall p sfx t, In (sfx, t) (suffixes src_cfg) -> p <> [] -> n <> p ++ 46 :: sfx) ->
  In (v, e) (values src_cfg) ->
  forall c t, category_filter src_cfg (n ++ 61 :: v) c t = if glob 42 n c then e else true.
Proof. exact (good_single_rule_decides src_cfg C15_source_configuration_good). Qed.
Print Assumptions C15_single_rule_decides.

(* the same for  <name>.<suffix>=<value> : one rule, for that name, for the type the suffix names *)
Theorem C15_typed_name_with_punctuation_is_one_rule : forall n sfx t v e, n <> [] -> solid n -> ~ In 59 n ->
  In (sfx, t) (suffixes src_cfg) -> In (v, e) (values src_cfg) ->
  parse_rules src_cfg (n ++ 46 :: sfx ++ 61 :: v) = [{| pat := n; rtype := Some t; enabled := e |}].
Proof. exact (good_single_typed_rule_text src_cfg C15_source_configuration_good). Qed.
Print Assumptions C15_typed_name_with_punctuation_is_one_rule.
Theorem C15_single_typed_rule_decides : forall n sfx t v e, n <> [] -> solid n -> ~ In 59 n ->
  In (sfx, t) (suffixes src_cfg) -> In (v, e) (values src_cfg) ->
  forall c t', category_filter src_cfg (n ++ 46 :: sfx ++ 61 :: v) c t' = if glob 42 n c && mtype_eqb t t' then e else true.
Proof. exact (good_single_typed_rule_decides src_cfg C15_source_configuration_good). Qed.
Print Assumptions C15_single_typed_rule_decides.

(* what a well-formed line is — the rule regex as a grammar: blanks, a non-empty blank-free name,
   optionally ".debug|.info|.warning|.critical" (typed reading whenever something precedes the suffix),
   blanks, '=', blanks, true|false, blanks.  [LineOK] is an inductive relation of CategoryProofs.v;
   blank = only HT LF VT FF CR SPACE, solid = none of those. *)
Theorem C15_line_grammar : forall l r, parse_line src_cfg l = Some r <-> LineOK src_cfg l r.
Proof. exact (good_line_grammar src_cfg C15_source_configuration_good). Qed.
Print Assumptions C15_line_grammar.

(* malformed (what C15_malformed_ignored speaks of) = the grammar gives the line no reading *)
Theorem C15_malformed_means_no_reading : forall l, parse_line src_cfg l = None <-> forall r, ~ LineOK src_cfg l r.
Proof. exact (good_rejects_iff src_cfg C15_source_configuration_good). Qed.
Print Assumptions C15_malformed_means_no_reading.

(* typed and untyped rules: a rule typed t' can be deleted without changing any verdict about
   another type ... *)
Theorem C15_typed_rule_never_affects_other_type : forall rs1 r rs2 c t t',
  rtype r = Some t' -> t' <> t ->
  filter_rules src_cfg (rs1 ++ r :: rs2) c t = filter_rules src_cfg (rs1 ++ rs2) c t.
Proof. exact (good_typed_other_type src_cfg C15_source_configuration_good). Qed.
Print Assumptions C15_typed_rule_never_affects_other_type.

(* ... an untyped rule that matches the category, placed last, decides for ALL five types ... *)
Theorem C15_untyped_rule_decides_all_types : forall rs r c,
  rtype r = None -> glob 42 (pat r) c = true -> forall t, filter_rules src_cfg (rs ++ [r]) c t = enabled r.
Proof. exact (good_untyped_all_types src_cfg C15_source_configuration_good). Qed.
Print Assumptions C15_untyped_rule_decides_all_types.

(* ... only untyped rules and rules of the message's own type take part in a decision ... *)
Theorem C15_only_concerned_rules_count : forall rs c t,
  filter_rules src_cfg rs c t = filter_rules src_cfg (filter (concerns t) rs) c t.
Proof. exact (good_only_concerned src_cfg C15_source_configuration_good). Qed.
Print Assumptions C15_only_concerned_rules_count.

(* ... and no suffix names QtFatalMsg ("x.fatal" is an untyped rule for the category x.fatal):
   fatal messages are decided by the untyped rules alone *)
Theorem C15_fatal_decided_by_untyped_rules : forall rules c,
  category_filter src_cfg rules c Fatal = filter_rules src_cfg (filter untyped (parse_rules src_cfg rules)) c Fatal.
Proof. exact (good_fatal_untyped_only src_cfg C15_source_configuration_good). Qed.
Print Assumptions C15_fatal_decided_by_untyped_rules.

(* a later rule overrides the earlier ones exactly where it matches *)
Theorem C15_later_rule_overrides : forall rs r c t,
  filter_rules src_cfg (rs ++ [r]) c t =
  if rule_matches (matcher src_cfg) (star src_cfg) r c t then enabled r else filter_rules src_cfg rs c t.
Proof. exact (good_later_rule_overrides src_cfg C15_source_configuration_good). Qed.
Print Assumptions C15_later_rule_overrides.

(* a message no rule matches passes *)
Theorem C15_no_rule_matches_passes : forall rs c t,
  (forall r, In r rs -> rule_matches (matcher src_cfg) (star src_cfg) r c t = false) ->
  filter_rules src_cfg rs c t = true.
Proof. exact (good_no_match_passes src_cfg C15_source_configuration_good). Qed.
Print Assumptions C15_no_rule_matches_passes.

(* the boolean oracle the check evaluates on the implementation's verdicts holds of the model *)
Theorem C15_oracle_holds : forall rules cat t, prop_c15_b rules cat t (category_filter src_cfg rules cat t) = true.
Proof. exact (fun rules cat t => oracle_holds src_cfg rules cat t C15_source_configuration_good). Qed.
Print Assumptions C15_oracle_holds.

(* ---- one filter object asked about a history of messages.  A message = (address at which its category
   name is stored, the name's text, its type); the object's only state is the parsed rule list. ---- *)

(* every message of a history is answered with the specified verdict of ITS OWN name text and type *)
Theorem C15_object_answers_are_specified : forall rules qs,
  object_answers src_cfg rules qs = spec_answers rules qs.
Proof. exact (fun rules qs => object_answers_spec src_cfg rules qs C15_source_configuration_good). Qed.
Print Assumptions C15_object_answers_are_specified.

(* the k-th answer is what a fresh object would say about that message alone *)
Theorem C15_kth_answer_is_the_fresh_verdict : forall rules qs k q d, nth_error qs k = Some q ->
  nth k (object_answers src_cfg rules qs) d = category_filter src_cfg rules (q_cat q) (q_type q).
Proof.
  exact (fun rules qs k q d Hk =>
           eq_trans (object_answer_nth src_cfg rules qs k q d C15_source_configuration_good Hk)
                    (eq_sym (model_is_spec src_cfg rules (q_cat q) (q_type q) C15_source_configuration_good))).
Qed.
Print Assumptions C15_kth_answer_is_the_fresh_verdict.

(* no state leaks between calls: the answer to a message does not depend on what was asked before ... *)
Theorem C15_answer_independent_of_history : forall rules h h' q d,
  last (object_answers src_cfg rules (h ++ [q])) d = last (object_answers src_cfg rules (h' ++ [q])) d.
Proof. exact (object_answer_history_irrelevant src_cfg). Qed.
Print Assumptions C15_answer_independent_of_history.

(* ... histories compose ... *)
Theorem C15_histories_compose : forall rules h1 h2,
  object_answers src_cfg rules (h1 ++ h2) = object_answers src_cfg rules h1 ++ object_answers src_cfg rules h2.
Proof. exact (object_answers_app src_cfg). Qed.
Print Assumptions C15_histories_compose.

(* ... and the verdict is a function of the name's TEXT and the type, not of where the name is stored *)
Theorem C15_answer_independent_of_address : forall rules h q q',
  q_cat q = q_cat q' -> q_type q = q_type q' ->
  object_answers src_cfg rules (h ++ [q]) = object_answers src_cfg rules (h ++ [q']).
Proof. exact (object_answer_address_irrelevant src_cfg). Qed.
Print Assumptions C15_answer_independent_of_address.

(* two consecutive messages whose (different) names sit at the same address get each their own verdict *)
Theorem C15_same_address_other_name_own_verdict : forall rules h q1 q2, q_addr q1 = q_addr q2 ->
  object_answers src_cfg rules (h ++ [q1; q2]) =
  object_answers src_cfg rules h ++ [spec_verdict rules (q_cat q1) (q_type q1); spec_verdict rules (q_cat q2) (q_type q2)].
Proof. exact (fun rules h q1 q2 => object_same_address_own_verdicts src_cfg rules h q1 q2 C15_source_configuration_good). Qed.
Print Assumptions C15_same_address_other_name_own_verdict.

(* the history oracle the check evaluates on the answers of one implementation object: it accepts exactly the
   specified answers, it is the single-message oracle on every message, and it holds of the model *)
Theorem C15_history_oracle_exact : forall rules qs vs, prop_c15_seq_b rules qs vs = true <-> vs = spec_answers rules qs.
Proof. exact seq_oracle_iff. Qed.
Print Assumptions C15_history_oracle_exact.
Theorem C15_history_oracle_pointwise : forall rules qs vs,
  prop_c15_seq_b rules qs vs = true <-> Forall2 (fun q v => prop_c15_b rules (q_cat q) (q_type q) v = true) qs vs.
Proof. exact seq_oracle_pointwise. Qed.
Print Assumptions C15_history_oracle_pointwise.
Theorem C15_history_oracle_holds : forall rules qs, prop_c15_seq_b rules qs (object_answers src_cfg rules qs) = true.
Proof. exact (fun rules qs => seq_oracle_holds src_cfg rules qs C15_source_configuration_good). Qed.
Print Assumptions C15_history_oracle_holds.

(* non-vacuity: overlapping rules, both separators, a garbage line, a typed rule, metacharacters.
   rules = "*=false;net.*=true\ngarbage;net.http.debug=false; a.b+c = true"  *)
Definition ex_rules : str :=
  [42;61;102;97;108;115;101;59; 110;101;116;46;42;61;116;114;117;101;10; 103;97;114;98;97;103;101;59;
   110;101;116;46;104;116;116;112;46;100;101;98;117;103;61;102;97;108;115;101;59;
   32;97;46;98;43;99;32;61;32;116;114;117;101].
Definition ex_net_http : str := [110;101;116;46;104;116;116;112].
Example C15_nonvacuous :
  length (parse_rules src_cfg ex_rules) = 4%nat
  /\ map (category_filter src_cfg ex_rules ex_net_http) [Debug; Warning; Critical; Fatal; Info] = [false; true; true; true; true]
  /\ category_filter src_cfg ex_rules [110;101;116] Info = false        (* "net": net.* does not match it *)
  /\ category_filter src_cfg ex_rules [97;46;98;43;99] Debug = true     (* "a.b+c" literally *)
  /\ category_filter src_cfg ex_rules [97;120;98;43;99] Debug = false   (* "axb+c": '.' is not a wildcard *)
  /\ category_filter src_cfg [] ex_net_http Debug = true
  (* " net.debug\t= true " is a typed rule for "net"; ".debug=false" is an untyped rule for ".debug";
     "a b=true", "a=TRUE" and "=true" are malformed *)
  /\ parse_line src_cfg [32;110;101;116;46;100;101;98;117;103;9;61;32;116;114;117;101;32]
     = Some {| pat := [110;101;116]; rtype := Some Debug; enabled := true |}
  /\ parse_line src_cfg [46;100;101;98;117;103;61;102;97;108;115;101]
     = Some {| pat := [46;100;101;98;117;103]; rtype := None; enabled := false |}
  /\ parse_line src_cfg [97;32;98;61;116;114;117;101] = None
  /\ parse_line src_cfg [97;61;84;82;85;69] = None
  /\ parse_line src_cfg [61;116;114;117;101] = None.
Proof. vm_compute. repeat split; reflexivity. Qed.

(* non-vacuity of the punctuation / non-ASCII theorems.
   "ui::widgets=false" is ONE rule for the category "ui::widgets": that category is dropped, "widgets" and "ui" pass;
   "garbage:app=false" does not touch "app"; the name ex_punct (letters joined by comma, bar, hash, slash, backslash, double and single quote) matches itself only;
   "net:*" globs "net:tcp".  Non-ASCII names are sequences of UTF-16 code units like any other: the rule text
   "<cyrillic set>.*=false;<U+1F600>.log.debug=false" drops "<cyrillic set>.http" and the debug messages of "<U+1F600>.log" (a surrogate
   pair), and does NOT drop the categories whose names are the UTF-8 bytes of those names read as Latin-1. *)
Definition ex_scoped : str := [117;105;58;58;119;105;100;103;101;116;115].             (* ui::widgets *)
Definition ex_punct : str := [97;44;98;124;99;35;100;47;101;92;102;34;103;39;104].
Definition ex_rules_u : str :=
  [1089;1077;1090;1100;46;42;61;102;97;108;115;101;59;55357;56832;46;108;111;103;46;100;101;98;117;103;61;102;97;108;115;101].
Example C15_punctuation_nonvacuous :
  parse_rules src_cfg (ex_scoped ++ 61 :: s_false) = [{| pat := ex_scoped; rtype := None; enabled := false |}]
  /\ category_filter src_cfg (ex_scoped ++ 61 :: s_false) ex_scoped Debug = false
  /\ category_filter src_cfg (ex_scoped ++ 61 :: s_false) [119;105;100;103;101;116;115] Debug = true
  /\ category_filter src_cfg (ex_scoped ++ 61 :: s_false) [117;105] Debug = true
  /\ category_filter src_cfg [103;97;114;98;97;103;101;58;97;112;112;61;102;97;108;115;101] [97;112;112] Critical = true
  /\ category_filter src_cfg (ex_punct ++ 61 :: s_false) ex_punct Info = false
  /\ category_filter src_cfg (ex_punct ++ 61 :: s_false) [97] Info = true
  /\ category_filter src_cfg ([110;101;116;58;42] ++ 61 :: s_false) [110;101;116;58;116;99;112] Warning = false
  /\ category_filter src_cfg ([110;101;116;58;42] ++ 61 :: s_false) [116;99;112] Warning = true
  /\ length (parse_rules src_cfg ex_rules_u) = 2%nat
  /\ category_filter src_cfg ex_rules_u [1089;1077;1090;1100;46;104;116;116;112] Fatal = false
  /\ category_filter src_cfg ex_rules_u [209;129;208;181;209;130;209;140;46;104;116;116;112] Fatal = true
  /\ map (category_filter src_cfg ex_rules_u [55357;56832;46;108;111;103]) [Debug; Info] = [false; true]
  /\ category_filter src_cfg ex_rules_u [240;159;152;128;46;108;111;103] Debug = true.
Proof. vm_compute. repeat split; reflexivity. Qed.
(* the hypotheses of C15_name_with_punctuation_is_one_rule are satisfiable by such a name *)
Example C15_punctuated_name_hypotheses :
  ex_scoped <> [] /\ solid ex_scoped /\ ~ In 59 ex_scoped
  /\ (forall p sfx t, In (sfx, t) (suffixes src_cfg) -> p <> [] -> ex_scoped <> p ++ 46 :: sfx)
  /\ In (s_false, false) (values src_cfg).
Proof.
  split; [discriminate|]. split; [|split; [|split]].
  - intros x Hx. cbn in Hx. repeat (destruct Hx as [<-|Hx]; [reflexivity|]). contradiction.
  - cbn. intros H. repeat (destruct H as [H|H]; [discriminate|]). contradiction.
  - intros p sfx t Hin _ E. assert (H46 : In 46 ex_scoped) by (rewrite E; apply in_elt).
    cbn in H46. repeat (destruct H46 as [H46|H46]; [discriminate|]). contradiction.
  - cbn. right. left. reflexivity.
Qed.

(* non-vacuity of the history theorems: rules "net.*=false;net.dns.warning=true"; ONE buffer (address 7) holds
   "net.http", then "gui.main", then "net.dns" (debug, debug, debug, then net.dns as a warning, then "net.ftp"
   as a warning): drop, pass, drop, pass, drop — the answers alternate although the address never changes *)
Definition ex_rules2 : str :=
  [110;101;116;46;42;61;102;97;108;115;101;59; 110;101;116;46;100;110;115;46;119;97;114;110;105;110;103;61;116;114;117;101].
Definition ex_history : list query :=
  [ {| q_addr := 7; q_cat := [110;101;116;46;104;116;116;112]; q_type := Debug |};
    {| q_addr := 7; q_cat := [103;117;105;46;109;97;105;110]; q_type := Debug |};
    {| q_addr := 7; q_cat := [110;101;116;46;100;110;115]; q_type := Debug |};
    {| q_addr := 7; q_cat := [110;101;116;46;100;110;115]; q_type := Warning |};
    {| q_addr := 7; q_cat := [110;101;116;46;102;116;112]; q_type := Warning |} ].
(* the configuration check accepts the backward loop, and neither a first-match loop nor another default *)
Definition with_shape (c : cat_cfg) (sh : loop_shape) : cat_cfg :=
  {| sep_from := sep_from c; sep_to := sep_to c; split_ch := split_ch c; suffixes := suffixes c; values := values c;
     star := star c; matcher := matcher c; default_verdict := default_verdict c; shape := sh |}.
Example C15_configuration_check_nonvacuous :
  cfg_goodb (with_shape std_cfg LastFromBack) = true /\ cfg_goodb (with_shape std_cfg FirstWins) = false
  /\ category_filter (with_shape std_cfg LastFromBack) ex_rules ex_net_http Debug = false
  /\ category_filter (with_shape std_cfg FirstWins) ex_rules ex_net_http Debug = false
  /\ category_filter (with_shape std_cfg FirstWins) ex_rules ex_net_http Info = false   (* first match "*=false" *)
  /\ category_filter (with_shape std_cfg LastFromBack) ex_rules ex_net_http Info = true.
Proof. vm_compute. repeat split; reflexivity. Qed.

Example C15_history_nonvacuous :
  object_answers src_cfg ex_rules2 ex_history = [false; true; false; true; false]
  /\ prop_c15_seq_b ex_rules2 ex_history [false; true; false; true; false] = true
  (* the answers a pointer-keyed one-entry memo would give are rejected *)
  /\ prop_c15_seq_b ex_rules2 ex_history [false; false; false; true; true] = false.
Proof. vm_compute. repeat split; reflexivity. Qed.

(* ---- front end (round 8): the filter an application gets from SimplePipeline::filterCategory(rules) behaves
   exactly as CategoryFilter(rules) constructed directly - for every rule text, every message and whatever filters
   the process requested through the front end before; every theorem above therefore holds for it as well.
   src_cat_front is translated from the body of SimplePipeline::filterCategory (simplepipeline.cpp) on every run.
   The verdict of the pipeline  filterCategory(rules).handler(h)  for a message = whether h is reached. *)
Theorem C15_source_front_end_good : cat_front_goodb src_cat_front = true.
Proof. vm_compute. reflexivity. Qed.
Print Assumptions C15_source_front_end_good.

Theorem C15_front_end_is_transparent : forall earlier rules cat t,
  front_reached src_cfg src_cat_front earlier rules cat t = category_filter src_cfg rules cat t.
Proof. exact (front_reached_is_direct src_cfg src_cat_front C15_source_front_end_good). Qed.
Print Assumptions C15_front_end_is_transparent.

Theorem C15_front_end_history_is_transparent : forall earlier rules qs,
  front_answers src_cfg src_cat_front earlier rules qs = object_answers src_cfg rules qs.
Proof. exact (front_answers_is_direct src_cfg src_cat_front C15_source_front_end_good). Qed.
Print Assumptions C15_front_end_history_is_transparent.

Theorem C15_front_end_verdict_is_specified : forall earlier rules cat t,
  front_reached src_cfg src_cat_front earlier rules cat t = spec_verdict rules cat t.
Proof. exact (front_reached_spec src_cfg src_cat_front C15_source_configuration_good C15_source_front_end_good). Qed.
Print Assumptions C15_front_end_verdict_is_specified.

Theorem C15_front_end_answers_are_specified : forall earlier rules qs,
  front_answers src_cfg src_cat_front earlier rules qs = spec_answers rules qs.
Proof. exact (front_answers_spec src_cfg src_cat_front C15_source_configuration_good C15_source_front_end_good). Qed.
Print Assumptions C15_front_end_answers_are_specified.

Theorem C15_front_end_oracle_holds : forall earlier rules cat t,
  prop_c15_b rules cat t (front_reached src_cfg src_cat_front earlier rules cat t) = true.
Proof. exact (front_oracle_holds src_cfg src_cat_front C15_source_configuration_good C15_source_front_end_good). Qed.
Print Assumptions C15_front_end_oracle_holds.

Theorem C15_front_end_history_oracle_holds : forall earlier rules qs,
  prop_c15_seq_b rules qs (front_answers src_cfg src_cat_front earlier rules qs) = true.
Proof. exact (front_seq_oracle_holds src_cfg src_cat_front C15_source_configuration_good C15_source_front_end_good). Qed.
Print Assumptions C15_front_end_history_oracle_holds.

(* a front end that does not hand the rule text on does not have the property ... *)
Theorem C15_front_end_dropping_the_rules_refuted : exists rules cat t,
  front_reached std_cfg dropping_front [] rules cat t <> spec_verdict rules cat t.
Proof. exact dropping_front_refuted. Qed.
Print Assumptions C15_front_end_dropping_the_rules_refuted.

(* ... nor one that hands out ONE shared static object: it is right for the first request of a process (a test
   that obtains one filter does not see it) and wrong for a later request with other rules *)
Theorem C15_shared_filter_object_refuted :
  (forall rules cat t, front_reached std_cfg shared_front [] rules cat t = spec_verdict rules cat t)
  /\ exists earlier rules cat t, front_reached std_cfg shared_front earlier rules cat t <> spec_verdict rules cat t.
Proof. exact shared_front_refuted. Qed.
Print Assumptions C15_shared_filter_object_refuted.

(* non-vacuity: after the earlier requests "b=false" and "*=false" the pipeline for ex_rules2 still answers the
   history as the direct object does (drop, pass, drop, pass, drop); the broken front ends are rejected by the check *)
Example C15_front_end_nonvacuous :
  front_answers src_cfg src_cat_front [fx_b_false; [42;61;102;97;108;115;101]] ex_rules2 ex_history = [false; true; false; true; false]
  /\ front_reached src_cfg src_cat_front [fx_b_false] fx_a_false [97] Debug = false
  /\ front_reached src_cfg src_cat_front [fx_b_false] fx_a_false [98] Debug = true
  /\ front_reached src_cfg shared_front [fx_b_false] fx_a_false [97] Debug = true
  /\ cat_front_goodb dropping_front = false /\ cat_front_goodb shared_front = false.
Proof. vm_compute. repeat split; reflexivity. Qed.
