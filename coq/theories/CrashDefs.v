(* C10 — executable model of the file-system mutations of a RotatingFileSink history: constructor,
   rotating and plain writes, with the step ORDER of rotate()/compressFile() interpreted from the
   statement lists tools/s2c/crash.py translates from the source ([crash_src], value [src_crash] in
   SrcCrash.v).  A history is a list of atomic steps (one per mutation system call), each with an
   ok/fail flag; a crash at point k leaves the directory obtained by applying the first k steps; a
   failed step changes nothing and the PROGRAM continues as the code does.  Definitions only. *)
From Coq Require Import List Arith Bool ZArith.
Import ListNotations.

(* a record: identity and size in bytes (text + newline) *)
Definition rec := (nat * nat)%type.
Definition rec_eqb (a b : rec) : bool := Nat.eqb (fst a) (fst b) && Nat.eqb (snd a) (snd b).
(* names in the log directory for one base name and one date: active file, rotated plain, rotated .gz *)
Inductive name := Active | Rot (i : nat) | RotGz (i : nat).
Definition name_eqb (a b : name) : bool :=
  match a, b with Active, Active => true | Rot x, Rot y | RotGz x, RotGz y => Nat.eqb x y | _, _ => false end.
(* a file: its whole records, and whether it is intact (a .gz is decodable only once written out and closed) *)
Record file := { recs : list rec; complete : bool }.
Definition fs := list (name * file).
Fixpoint get (d : fs) (n : name) : option file :=
  match d with [] => None | (m, f) :: r => if name_eqb n m then Some f else get r n end.
Fixpoint del (d : fs) (n : name) : fs :=
  match d with [] => [] | (m, f) :: r => if name_eqb n m then del r n else (m, f) :: del r n end.
Definition put (d : fs) (n : name) (f : file) : fs := (n, f) :: del d n.
Definition has (d : fs) (n : name) : bool := match get d n with Some _ => true | None => false end.
Definition names (d : fs) : list name := map fst d.
Definition fsize (f : file) : Z := fold_left (fun z r => (z + Z.of_nat (snd r))%Z) (recs f) 0%Z.
Definition asize (d : fs) : Z := match get d Active with Some f => fsize f | None => 0%Z end.

Inductive step :=
| SCloseActive                         (* close(fd of the active file) *)
| SRename (i : nat)                    (* renameat2(active -> rotated i, RENAME_NOREPLACE) / link+unlink *)
| SCreateGz (i : nat)                  (* openat(rotated i .gz, O_WRONLY|O_CREAT|O_TRUNC) *)
| SWriteGz (i : nat)                   (* write(fd of the .gz), one or more *)
| SCloseGz (i : nat)                   (* close(fd of the .gz) *)
| SUnlinkPlain (i : nat)               (* unlink(rotated i) after compression *)
| SUnlinkVictim (n : name)             (* unlink(oldest rotated file) by retention *)
| SOpenActive (append : bool)          (* openat(active, O_WRONLY|O_CREAT|O_APPEND) — or O_TRUNC *)
| SAppend (r : rec).                   (* write(fd of the active file, one record) *)

Definition empty_file : file := {| recs := []; complete := true |}.
(* effect of a step; [ok = false] = the call returns an error and changes nothing *)
Definition apply_step (d : fs) (s : step) (ok : bool) : fs :=
  if negb ok then d else
  match s with
  | SCloseActive => d
  | SRename i => match get d Active, get d (Rot i) with
                 | Some f, None => put (del d Active) (Rot i) f
                 | _, _ => d end
  | SCreateGz i => put d (RotGz i) {| recs := []; complete := false |}
  | SWriteGz i => match get d (Rot i) with
                  | Some f => put d (RotGz i) {| recs := recs f; complete := false |}
                  | None => d end
  | SCloseGz i => match get d (RotGz i) with
                  | Some f => put d (RotGz i) {| recs := recs f; complete := true |}
                  | None => d end
  | SUnlinkPlain i => del d (Rot i)
  | SUnlinkVictim n => del d n
  | SOpenActive append => if append then match get d Active with Some _ => d | None => put d Active empty_file end
                          else put d Active empty_file
  | SAppend r => match get d Active with
                 | Some f => put d Active {| recs := recs f ++ [r]; complete := complete f |}
                 | None => d end
  end.
Definition run_steps (d : fs) (p : list (step * bool)) : fs :=
  fold_left (fun d sp => apply_step d (fst sp) (snd sp)) p d.
(* records of the files retention removed along a step list (whole files) *)
Fixpoint retired (d : fs) (p : list (step * bool)) : list rec :=
  match p with
  | [] => []
  | (s, ok) :: t =>
    (match s, ok with
     | SUnlinkVictim n, true => match get d n with Some f => recs f | None => [] end
     | _, _ => [] end) ++ retired (apply_step d s ok) t
  end.

(* records that reached the active file along a step list (effective appends) *)
Fixpoint flushed (d : fs) (p : list (step * bool)) : list rec :=
  match p with
  | [] => []
  | (s, ok) :: t =>
    (match s, ok with
     | SAppend r, true => if has d Active then [r] else []
     | _, _ => [] end) ++ flushed (apply_step d s ok) t
  end.
(* local safety of a step in a directory: it cannot destroy an intact copy.  A .gz is created only
   under a name that does not exist, written only while still incomplete, the original is unlinked
   only when a complete .gz holds its records, the active file is never truncated.  Removing a
   retention victim is always "safe": its records count as removed by retention. *)
Definition subset_recs (a b : list rec) : bool := forallb (fun r => existsb (rec_eqb r) b) a.
Definition safe_step (d : fs) (s : step) : bool :=
  match s with
  | SCreateGz i => negb (has d (RotGz i))
  | SWriteGz i => match get d (RotGz i) with Some g => negb (complete g) | None => true end
  | SUnlinkPlain i => match get d (Rot i) with
                      | None => true
                      | Some f => match get d (RotGz i) with
                                  | Some g => complete g && subset_recs (recs f) (recs g)
                                  | None => false end
                      end
  | SOpenActive a => a || negb (has d Active)
  | _ => true
  end.
Fixpoint all_safe (d : fs) (p : list (step * bool)) : bool :=
  match p with [] => true | (s, ok) :: t => (negb ok || safe_step d s) && all_safe (apply_step d s ok) t end.

(* ---- what the translator reads from the source ---- *)
Inductive rstmt := RClose | RIndex | RRename | RCompressIfRenamed | RCleanup | RReopen (append : bool).
Inductive cstmt := COpenIn | CCreateOut | CReadCrc | CWriteHeader | CReadAll | CWriteBody | CWriteTrailer
                 | CCloseIn | CCloseOut | CRemoveOrig.
Record crash_src := {
  s_rotate : list rstmt;            (* rotate(), in source order *)
  s_compress : list cstmt;          (* compressFile(), in source order (early-return blocks excluded) *)
  s_keep_minus : nat;               (* while (rotatedFiles.size() > maxFileCount - 1) *)
  s_index_plus : nat;               (* return maxIndex + 1 *)
  s_index_counts_gz : bool;         (* both index patterns end in (\.gz)?$ *)
  s_start_append : bool }.          (* FileSink constructor opens with Append *)

(* ---- configuration of the sink, faults ---- *)
Record cfg := { cL : Z; cN : Z; cCompress : bool; cStartup : bool }.
Inductive slot := FRename | FCreateGz | FUnlinkPlain | FUnlinkVictim (k : nat) | FOpenActive.
Definition slot_eqb (a b : slot) : bool :=
  match a, b with
  | FRename, FRename | FCreateGz, FCreateGz | FUnlinkPlain, FUnlinkPlain | FOpenActive, FOpenActive => true
  | FUnlinkVictim x, FUnlinkVictim y => Nat.eqb x y
  | _, _ => false end.
(* at most one failing call: (event number, slot); event 0 = the constructor, rotations count from 1 *)
Definition fault := option (nat * slot).
Definition okf (flt : fault) (ev : nat) (s : slot) : bool :=
  match flt with Some (e, s') => negb (Nat.eqb e ev && slot_eqb s s') | None => true end.

(* ---- index and retention ---- *)
Definition idx_of (n : name) : option nat := match n with Active => None | Rot i | RotGz i => Some i end.
Definition counted (src : crash_src) (n : name) : option nat :=
  match n with Active => None | Rot i => Some i | RotGz i => if s_index_counts_gz src then Some i else None end.
Definition next_index (src : crash_src) (d : fs) : nat :=
  s_index_plus src + fold_left (fun m n => match counted src n with Some i => Nat.max m i | None => m end) (names d) 0.
(* victim order of the source (after the repair of F3): (date, index, path); plain sorts before .gz *)
Definition key (n : name) : nat := match n with Active => 0 | Rot i => 2 * i + 1 | RotGz i => 2 * i + 2 end.
Definition is_rot (n : name) : bool := match n with Active => false | _ => true end.
Fixpoint insert_key (n : name) (l : list name) : list name :=
  match l with [] => [n] | m :: t => if key n <=? key m then n :: l else m :: insert_key n t end.
Definition sort_names (l : list name) : list name := fold_right insert_key [] l.
Definition rotated (d : fs) : list name := filter is_rot (names d).
Definition count_greater (n : name) (l : list name) : nat := length (filter (fun m => key n <? key m) l).
(* removeOldFiles: nothing when N <= 0; otherwise everything but the (N - keep_minus) newest, oldest first *)
Definition victims (src : crash_src) (c : cfg) (d : fs) : list name :=
  if (cN c <=? 0)%Z then [] else
  let keep := Z.to_nat (cN c - Z.of_nat (s_keep_minus src)) in
  filter (fun n => keep <=? count_greater n (rotated d)) (sort_names (rotated d)).

(* ---- compressFile(): steps from the statement list.  Output is buffered by QFile: what the
   write statements queue reaches the disk when the output is closed (for bodies beyond the
   buffer size also earlier, which the trace projection accepts as more SWriteGz) ---- *)
Fixpoint compress_steps (flt : fault) (ev i : nat) (stmts : list cstmt) (pending : bool) : list (step * bool) :=
  match stmts with
  | [] => []
  | CCreateOut :: t => let ok := okf flt ev FCreateGz in
                       (SCreateGz i, ok) :: (if ok then compress_steps flt ev i t pending else [])
  | CWriteHeader :: t | CWriteBody :: t | CWriteTrailer :: t => compress_steps flt ev i t true
  | CCloseOut :: t => (if pending then [(SWriteGz i, true)] else []) ++ (SCloseGz i, true) :: compress_steps flt ev i t false
  | CRemoveOrig :: t => (SUnlinkPlain i, okf flt ev FUnlinkPlain) :: compress_steps flt ev i t pending
  | _ :: t => compress_steps flt ev i t pending
  end.
Fixpoint victim_steps (flt : fault) (ev : nat) (k : nat) (vs : list name) : list (step * bool) :=
  match vs with [] => [] | v :: t => (SUnlinkVictim v, okf flt ev (FUnlinkVictim k)) :: victim_steps flt ev (S k) t end.

(* ---- rotate(): interpret the statement list, threading the directory ---- *)
(* [opened]: the sink holds a descriptor of the active file.  Closing or writing through a QFile
   that is not open performs no system call: those steps carry the flag false (= no effect). *)
Fixpoint rotate_steps (src : crash_src) (c : cfg) (flt : fault) (ev : nat) (opened : bool) (stmts : list rstmt)
         (d : fs) (i : nat) (renamed : bool) : list (step * bool) :=
  match stmts with
  | [] => []
  | RClose :: t => (SCloseActive, opened) :: rotate_steps src c flt ev false t d i renamed
  | RIndex :: t => rotate_steps src c flt ev opened t d (next_index src d) renamed
  | RRename :: t => let ok := okf flt ev FRename in
                    let ren := ok && has d Active && negb (has d (Rot i)) in
                    (SRename i, ok) :: rotate_steps src c flt ev opened t (apply_step d (SRename i) ok) i ren
  | RCompressIfRenamed :: t =>
      let p := if renamed && cCompress c then compress_steps flt ev i (s_compress src) false else [] in
      p ++ rotate_steps src c flt ev opened t (run_steps d p) i renamed
  | RCleanup :: t => let p := victim_steps flt ev 0 (victims src c d) in
                     p ++ rotate_steps src c flt ev opened t (run_steps d p) i renamed
  | RReopen a :: t => let ok := okf flt ev FOpenActive in
                      (SOpenActive a, ok) :: rotate_steps src c flt ev ok t (apply_step d (SOpenActive a) ok) i renamed
  end.
(* the handle state after a step list: the flag of the last open / an effective close *)
Definition opened_after (p : list (step * bool)) (o : bool) : bool :=
  fold_left (fun o sp => match fst sp with SOpenActive _ => snd sp | SCloseActive => false | _ => o end) p o.
(* rotate(): no-op when maxFileCount == 1 *)
Definition rotates (c : cfg) : bool := negb (cN c =? 1)%Z.
Definition rotate_prog (src : crash_src) (c : cfg) (flt : fault) (ev : nat) (opened : bool) (d : fs) : list (step * bool) :=
  rotate_steps src c flt ev opened (s_rotate src) d 0 false.

(* ---- one send(): init (start-up rotation of a non-empty file), size rule, append ---- *)
Definition size_rule (c : cfg) (d : fs) (r : rec) : bool :=
  (0 <? cL c)%Z && (0 <? asize d)%Z && (cL c <? asize d + Z.of_nat (snd r))%Z.
(* returns the steps, the number of the next rotation event and the handle state *)
Definition write_steps (src : crash_src) (c : cfg) (flt : fault) (inited : bool) (ev : nat) (opened : bool) (d : fs) (r : rec)
  : list (step * bool) * (nat * bool) :=
  let rot1 := negb inited && cStartup c && (0 <? asize d)%Z && rotates c in
  let p1 := if rot1 then rotate_prog src c flt ev opened d else [] in
  let ev1 := if rot1 then S ev else ev in
  let o1 := opened_after p1 opened in
  let d1 := run_steps d p1 in
  let rot2 := size_rule c d1 r && rotates c in
  let p2 := if rot2 then rotate_prog src c flt ev1 o1 d1 else [] in
  let ev2 := if rot2 then S ev1 else ev1 in
  let o2 := opened_after p2 o1 in
  (p1 ++ p2 ++ [(SAppend r, o2)], (ev2, o2)).
Fixpoint writes_steps (src : crash_src) (c : cfg) (flt : fault) (inited : bool) (ev : nat) (opened : bool) (d : fs) (rs : list rec)
  : list (step * bool) :=
  match rs with
  | [] => []
  | r :: t => let pe := write_steps src c flt inited ev opened d r in
              fst pe ++ writes_steps src c flt true (fst (snd pe)) (snd (snd pe)) (run_steps d (fst pe)) t
  end.
(* a sink object's life on directory d0: constructor (opens/creates the active file), then writes.
   A restart is another [history_steps] on the directory the previous one (or its crash) left. *)
Definition start_steps (src : crash_src) (flt : fault) : list (step * bool) :=
  [(SOpenActive (s_start_append src), okf flt 0 FOpenActive)].
Definition history_steps (src : crash_src) (c : cfg) (flt : fault) (d0 : fs) (rs : list rec) : list (step * bool) :=
  start_steps src flt ++ writes_steps src c flt false 1 (okf flt 0 FOpenActive) (run_steps d0 (start_steps src flt)) rs.
(* same, with the number of the write each step belongs to (0 = constructor), for the trace comparison *)
Fixpoint writes_steps_tagged (src : crash_src) (c : cfg) (flt : fault) (inited : bool) (ev : nat) (opened : bool) (w : nat) (d : fs) (rs : list rec)
  : list (nat * (step * bool)) :=
  match rs with
  | [] => []
  | r :: t => let pe := write_steps src c flt inited ev opened d r in
              map (fun sp => (w, sp)) (fst pe)
              ++ writes_steps_tagged src c flt true (fst (snd pe)) (snd (snd pe)) (S w) (run_steps d (fst pe)) t
  end.
Definition history_tagged (src : crash_src) (c : cfg) (flt : fault) (d0 : fs) (rs : list rec) : list (nat * (step * bool)) :=
  map (fun sp => (0, sp)) (start_steps src flt)
  ++ writes_steps_tagged src c flt false 1 (okf flt 0 FOpenActive) 1 (run_steps d0 (start_steps src flt)) rs.
Definition crash_dir (d0 : fs) (tr : list (step * bool)) (k : nat) : fs := run_steps d0 (firstn k tr).

(* ---- the property, as a boolean oracle on directories: every record that was in an intact file
   of [pre] is in an intact file of [post], unless it went with a whole file retention removed ---- *)
Definition rec_in (r : rec) (d : fs) : bool :=
  existsb (fun nf => complete (snd nf) && existsb (rec_eqb r) (recs (snd nf))) d.
Definition prop_c10_b (pre : fs) (gone : list rec) (post : fs) : bool :=
  forallb (fun nf => if complete (snd nf)
                     then forallb (fun r => rec_in r post || existsb (rec_eqb r) gone) (recs (snd nf))
                     else true) pre.
Fixpoint nodup_names (l : list name) : bool :=
  match l with [] => true | n :: t => negb (existsb (name_eqb n) t) && nodup_names t end.
Definition wf_fsb (d : fs) : bool := nodup_names (names d).

(* ---- decidable check of the translated order: it must be the data-preserving one ---- *)
Definition canon_rotate : list rstmt := [RClose; RIndex; RRename; RCompressIfRenamed; RCleanup; RReopen true].
Definition canon_compress : list cstmt :=
  [COpenIn; CCreateOut; CReadCrc; CWriteHeader; CReadAll; CWriteBody; CWriteTrailer; CCloseIn; CCloseOut; CRemoveOrig].
Definition rstmt_code (s : rstmt) : nat :=
  match s with RClose => 0 | RIndex => 1 | RRename => 2 | RCompressIfRenamed => 3 | RCleanup => 4
             | RReopen true => 5 | RReopen false => 6 end.
Definition cstmt_code (s : cstmt) : nat :=
  match s with COpenIn => 0 | CCreateOut => 1 | CReadCrc => 2 | CWriteHeader => 3 | CReadAll => 4
             | CWriteBody => 5 | CWriteTrailer => 6 | CCloseIn => 7 | CCloseOut => 8 | CRemoveOrig => 9 end.
Fixpoint nats_eqb (a b : list nat) : bool :=
  match a, b with [], [] => true | x :: a', y :: b' => Nat.eqb x y && nats_eqb a' b' | _, _ => false end.
Definition src_goodb (s : crash_src) : bool :=
  nats_eqb (map rstmt_code (s_rotate s)) (map rstmt_code canon_rotate)
  && nats_eqb (map cstmt_code (s_compress s)) (map cstmt_code canon_compress)
  && Nat.eqb (s_keep_minus s) 1 && Nat.eqb (s_index_plus s) 1 && s_index_counts_gz s && s_start_append s.
