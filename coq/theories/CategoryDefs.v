(* C15 — executable model of CategoryFilter (src/qtlogger/filters/categoryfilter.cpp) and the
   specification function the check evaluates on the implementation's verdicts.
   Definitions only: this file must keep compiling (and extracting) when a proof elsewhere breaks.

   Strings are lists of UTF-16 code units (what QString holds).  The constants of the code (the
   separator replacement, the split character, the type suffixes of the rule regex with the message
   type stringToQtMsgType gives them, the accepted values and which of them enables, the wildcard
   character, the verdict when no rule matches, the shape of the decision loop) are fields of
   [cat_cfg]; tools/s2c/category.py reads them from the source into SrcCategory.v on every run. *)
From Coq Require Import List NArith Bool.
Import ListNotations.
Local Open Scope N_scope.

Definition str := list N.
(* QtMsgType in numeric order 0..4 (qlogging.h) *)
Inductive mtype := Debug | Warning | Critical | Fatal | Info.
Definition mtype_eqb (a b : mtype) : bool :=
  match a, b with
  | Debug, Debug | Warning, Warning | Critical, Critical | Fatal, Fatal | Info, Info => true
  | _, _ => false
  end.
Fixpoint seqb (a b : str) : bool :=
  match a, b with
  | [], [] => true
  | x :: a', y :: b' => (x =? y) && seqb a' b'
  | _, _ => false
  end.

(* ---- configuration read from the source ---- *)
(* LastWins     : for (rule : m_rules) if (rule matches) enabled = rule->enabled;   return enabled;
   FirstWins    : the same loop leaving at the first matching rule (break / return);
   LastFromBack : the list walked from its END, leaving at the first matching rule
                  (for (it = m_rules.crbegin(); ...) if (matches) return enabled; return <default>;) - another way to
                  let the last matching rule decide (CategoryProofs.decide_canon) *)
Inductive loop_shape := LastWins | FirstWins | LastFromBack.
(* the matcher of Rule::matches, as the translator finds it in the source:
   MWildcardIter : wildcardMatch(pattern, text), the iterative two-pointer glob (indices p, t, position of
                   the most recent wildcard, text position it was last tried at), no regular expression;
   MRegexWhole   : QRegularExpression::escape, "\\*" -> ".*", "\\A" + .. + "\\z" with DotMatchesEverythingOption
                   (whole-name match through PCRE2; the code before the match-limit repair);
   MRegexLine    : the same with "^" + .. + "$" and no option: '.' excludes LF and '$' also matches before a
                   final LF (the code before the LF repair) *)
Inductive matcher_kind := MWildcardIter | MRegexWhole | MRegexLine.
Record cat_cfg := {
  sep_from : N;                        (* rules.replace(";", "\n") : the character replaced ... *)
  sep_to : N;                          (* ... and its replacement *)
  split_ch : N;                        (* rules.split('\n', Qt::SkipEmptyParts) *)
  suffixes : list (str * mtype);       (* alternatives of the suffix group, each with its QtMsgType *)
  values : list (str * bool);          (* alternatives of the value group, each with captured(3) == "true" *)
  star : N;                            (* category.replace("\\*", ".*") : the wildcard character *)
  matcher : matcher_kind;              (* how Rule::matches decides "pattern matches category" *)
  default_verdict : bool;              (* bool enabled = true; in filter() *)
  shape : loop_shape                   (* whether the loop goes on after a matching rule *)
}.

(* ---- splitting the rule text ---- *)
(* all parts between separator characters (like QString::split with KeepEmptyParts) *)
Fixpoint split_on (sep : N -> bool) (s : str) : list str :=
  match s with
  | [] => [[]]
  | c :: r =>
    if sep c then [] :: split_on sep r
    else match split_on sep r with
         | h :: t => (c :: h) :: t
         | [] => [[c]]
         end
  end.
Definition nonempty (l : str) : bool := match l with [] => false | _ => true end.
Definition replace_char (a b : N) (s : str) : str := map (fun c => if c =? a then b else c) s.
(* constructor + parseRules: replace, split, skip empty parts *)
Definition split_rules (cfg : cat_cfg) (s : str) : list str :=
  filter nonempty (split_on (N.eqb (split_ch cfg)) (replace_char (sep_from cfg) (sep_to cfg) s)).

(* ---- one line: ^\s*(\S+?)(?:\.(suffixes))?\s*=\s*(values)\s*$ ---- *)
(* PCRE2 \s without the UCP option: HT LF VT FF CR SPACE *)
Definition is_ws (c : N) : bool := ((9 <=? c) && (c <=? 13)) || (c =? 32).
Fixpoint drop_ws (l : str) : str :=
  match l with c :: r => if is_ws c then drop_ws r else l | [] => [] end.
Definition trim (l : str) : str := rev (drop_ws (rev (drop_ws l))).

Record rule := { pat : str; rtype : option mtype; enabled : bool }.

(* split at the LAST '=' (61): the value alternatives contain no '=' *)
Fixpoint split_last_eq (s : str) : option (str * str) :=
  match s with
  | [] => None
  | c :: r => match split_last_eq r with
              | Some (l, rt) => Some (c :: l, rt)
              | None => if c =? 61 then Some ([], r) else None
              end
  end.
(* [core] ends with '.' ++ name and something precedes it: Some prefix *)
Definition strip_suffix (core name : str) : option str :=
  let suf := 46 :: name in
  let n := (length core - length suf)%nat in
  if Nat.ltb (length suf) (length core) && seqb (skipn n core) suf then Some (firstn n core) else None.
Definition is_some {A} (o : option A) : bool := match o with Some _ => true | None => false end.
Definition parse_line (cfg : cat_cfg) (line : str) : option rule :=
  match split_last_eq line with
  | None => None
  | Some (l, r) =>
    match find (fun ve => seqb (trim r) (fst ve)) (values cfg) with
    | None => None
    | Some (_, e) =>
      let core := trim l in
      match core with
      | [] => None
      | _ =>
        if existsb is_ws core then None else
        match find (fun st => is_some (strip_suffix core (fst st))) (suffixes cfg) with
        | Some (name, t) =>
          match strip_suffix core name with
          | Some p => Some {| pat := p; rtype := Some t; enabled := e |}
          | None => None
          end
        | None => Some {| pat := core; rtype := None; enabled := e |}
        end
      end
    end
  end.
Definition keep_rule (cfg : cat_cfg) (l : str) : list rule :=
  match parse_line cfg l with Some r => [r] | None => [] end.
Definition parse_lines (cfg : cat_cfg) (ls : list str) : list rule := flat_map (keep_rule cfg) ls.
Definition parse_rules (cfg : cat_cfg) (s : str) : list rule := parse_lines cfg (split_rules cfg s).

(* ---- matching: escape, then the wildcard becomes ".*", anchored at both ends ---- *)
Fixpoint glob (st : N) (p s : str) {struct p} : bool :=
  match p with
  | [] => match s with [] => true | _ => false end
  | c :: p' =>
    if c =? st then
      (fix try (s : str) : bool := glob st p' s || match s with [] => false | _ :: s' => try s' end) s
    else match s with x :: s' => (x =? c) && glob st p' s' | [] => false end
  end.
(* the matching of the regular-expression forms (MRegexWhole = [glob] above, PCRE2 limits not modelled);
   MRegexLine: the same under PCRE2's default line semantics ("^...$", no DotMatchesEverything): ".*" does not
   cross LF and the end anchor also matches before a final LF.  Only used when the translator finds
   that form in the source (it is the pre-repair code); no theorem is about it. *)
Fixpoint glob_line (st : N) (p s : str) {struct p} : bool :=
  match p with
  | [] => match s with [] => true | [c] => c =? 10 | _ => false end
  | c :: p' =>
    if c =? st then
      (fix try (s : str) : bool :=
         glob_line st p' s || match s with [] => false | x :: s' => negb (x =? 10) && try s' end) s
    else match s with x :: s' => (x =? c) && glob_line st p' s' | [] => false end
  end.
(* ---- wildcardMatch(pattern, text): the iterative matcher, transcribed statement by statement.
   The indices p and t are represented by the remaining pattern [pr] and the remaining text [tr];
   (star, mark) by [Some (pattern after the wildcard, text from mark)], star = -1 by [None].
     while (t < text.size()) {
       if (p < pattern.size() && pattern.at(p) == STAR)           { star = p++; mark = t; }
       else if (p < pattern.size() && pattern.at(p) == text.at(t)) { ++p; ++t; }
       else if (star >= 0)                                         { p = star + 1; t = ++mark; }
       else return false;
     }
     while (p < pattern.size() && pattern.at(p) == STAR) ++p;
     return p == pattern.size();
   One unit of fuel per loop iteration; [None] = fuel exhausted (proved impossible for the fuel of
   [glob_iter]). *)
Fixpoint drop_stars (st : N) (p : str) : str :=
  match p with c :: r => if c =? st then drop_stars st r else p | [] => [] end.
Fixpoint glob_iter_run (st : N) (fuel : nat) (pr tr : str) (star : option (str * str)) : option bool :=
  match fuel with
  | O => None
  | S f =>
    match tr with
    | [] => Some (match drop_stars st pr with [] => true | _ => false end)
    | x :: tr' =>
      (* the backtracking branch is written out twice (not as a let): extraction to a strict language
         would otherwise evaluate it on every iteration *)
      match pr with
      | c :: pr' =>
        if c =? st then glob_iter_run st f pr' tr (Some (pr', tr))
        else if c =? x then glob_iter_run st f pr' tr' star
        else match star with
             | Some (sp, mt) => let mt' := tl mt in glob_iter_run st f sp mt' (Some (sp, mt'))
             | None => Some false
             end
      | [] => match star with
              | Some (sp, mt) => let mt' := tl mt in glob_iter_run st f sp mt' (Some (sp, mt'))
              | None => Some false
              end
      end
    end
  end.
Definition glob_fuel (p s : str) : nat := ((length s + 2) * (length p + 1))%nat.
Definition glob_iter (st : N) (p s : str) : option bool := glob_iter_run st (glob_fuel p s) p s None.
Definition iter_match (st : N) (p s : str) : bool :=
  match glob_iter st p s with Some b => b | None => false end.

(* Rule::matches: <pattern matches category> && (!typeMatch || type == messageType) *)
Definition pattern_matches (mk : matcher_kind) (st : N) (p cat : str) : bool :=
  match mk with
  | MWildcardIter => iter_match st p cat
  | MRegexWhole => iter_match st p cat   (* = glob st p cat (CategoryProofs.iter_match_glob), without its exponential cases *)
  | MRegexLine => glob_line st p cat
  end.
Definition rule_matches (mk : matcher_kind) (st : N) (r : rule) (cat : str) (t : mtype) : bool :=
  pattern_matches mk st (pat r) cat
  && match rtype r with None => true | Some t' => mtype_eqb t' t end.

(* ---- filter(): the decision loop ---- *)
Definition decide (sh : loop_shape) (dflt : bool) (la : matcher_kind) (st : N) (rs : list rule) (cat : str) (t : mtype) : bool :=
  match sh with
  | LastWins => fold_left (fun en r => if rule_matches la st r cat t then enabled r else en) rs dflt
  | FirstWins => match find (fun r => rule_matches la st r cat t) rs with Some r => enabled r | None => dflt end
  | LastFromBack => match find (fun r => rule_matches la st r cat t) (rev rs) with Some r => enabled r | None => dflt end
  end.
Definition filter_rules (cfg : cat_cfg) (rs : list rule) (cat : str) (t : mtype) : bool :=
  decide (shape cfg) (default_verdict cfg) (matcher cfg) (star cfg) rs cat t.
(* CategoryFilter(rules).filter(message with this category and type) *)
Definition category_filter (cfg : cat_cfg) (rules cat : str) (t : mtype) : bool :=
  filter_rules cfg (parse_rules cfg rules) cat t.

(* ---- what the property text prescribes (written from the text, not from the code) ---- *)
Definition s_debug : str := [100;101;98;117;103].
Definition s_info : str := [105;110;102;111].
Definition s_warning : str := [119;97;114;110;105;110;103].
Definition s_critical : str := [99;114;105;116;105;99;97;108].
Definition s_true : str := [116;114;117;101].
Definition s_false : str := [102;97;108;115;101].
Definition std_cfg : cat_cfg := {|
  sep_from := 59; sep_to := 10; split_ch := 10;
  suffixes := [(s_debug, Debug); (s_info, Info); (s_warning, Warning); (s_critical, Critical)];
  values := [(s_true, true); (s_false, false)];
  star := 42; matcher := MWildcardIter; default_verdict := true; shape := LastWins |}.

(* rules are separated by ';' or newline — split directly at either *)
Definition is_sep (c : N) : bool := (c =? 59) || (c =? 10).
Definition spec_lines (s : str) : list str := filter nonempty (split_on is_sep s).
Definition spec_rules (s : str) : list rule := parse_lines std_cfg (spec_lines s).
Definition spec_matches (c : str) (t : mtype) (r : rule) : bool := rule_matches MWildcardIter 42 r c t.
(* the LAST rule that matches decides; a message no rule matches passes *)
Definition spec_decision (rs : list rule) (c : str) (t : mtype) : bool :=
  match find (spec_matches c t) (rev rs) with Some r => enabled r | None => true end.
Definition spec_verdict (rules cat : str) (t : mtype) : bool := spec_decision (spec_rules rules) cat t.

(* boolean oracle evaluated on a verdict the implementation produced *)
Definition prop_c15_b (rules cat : str) (t : mtype) (verdict : bool) : bool :=
  Bool.eqb verdict (spec_verdict rules cat t).

(* ---- decidable check of a translated configuration against the property's constants ---- *)
Fixpoint list_eqb {A} (eq : A -> A -> bool) (a b : list A) : bool :=
  match a, b with
  | [], [] => true
  | x :: a', y :: b' => eq x y && list_eqb eq a' b'
  | _, _ => false
  end.
Definition shape_eqb (a b : loop_shape) : bool :=
  match a, b with LastWins, LastWins | FirstWins, FirstWins | LastFromBack, LastFromBack => true | _, _ => false end.
Definition matcher_eqb (a b : matcher_kind) : bool :=
  match a, b with MWildcardIter, MWildcardIter | MRegexWhole, MRegexWhole | MRegexLine, MRegexLine => true | _, _ => false end.
Definition cfg_eqb (a b : cat_cfg) : bool :=
  (sep_from a =? sep_from b) && (sep_to a =? sep_to b) && (split_ch a =? split_ch b)
  && list_eqb (fun x y => seqb (fst x) (fst y) && mtype_eqb (snd x) (snd y)) (suffixes a) (suffixes b)
  && list_eqb (fun x y => seqb (fst x) (fst y) && Bool.eqb (snd x) (snd y)) (values a) (values b)
  && (star a =? star b) && matcher_eqb (matcher a) (matcher b) && Bool.eqb (default_verdict a) (default_verdict b) && shape_eqb (shape a) (shape b).
(* the two loops in which the last matching rule decides are one shape for the property: [canon] names the
   forward loop for both (decide (shape c) = decide (shape (canon c)), CategoryProofs.decide_canon); every other
   field is kept *)
Definition canon_shape (sh : loop_shape) : loop_shape :=
  match sh with LastFromBack => LastWins | LastWins => LastWins | FirstWins => FirstWins end.
Definition canon (c : cat_cfg) : cat_cfg :=
  {| sep_from := sep_from c; sep_to := sep_to c; split_ch := split_ch c; suffixes := suffixes c;
     values := values c; star := star c; matcher := matcher c; default_verdict := default_verdict c;
     shape := canon_shape (shape c) |}.
Definition cfg_goodb (c : cat_cfg) : bool := cfg_eqb (canon c) std_cfg.
(* the pre-repair matching semantics with otherwise the same constants (used by the check only to
   classify a failing input as the LF defect) *)
Definition with_line_anchors (c : cat_cfg) : cat_cfg :=
  {| sep_from := sep_from c; sep_to := sep_to c; split_ch := split_ch c; suffixes := suffixes c;
     values := values c; star := star c; matcher := MRegexLine; default_verdict := default_verdict c;
     shape := shape c |}.

(* ---- one filter OBJECT answering a history of messages ----
   The property speaks of "the filter's verdict for (category, type)".  An application asks ONE
   CategoryFilter object about many messages in a row, and the category of a message reaches filter() as a
   `const char *` (QMessageLogContext::category): a query is therefore the ADDRESS at which the name is
   stored (two different names may sit at the same address one after the other: a reused buffer, the heap
   block of a destroyed LogMessage copy recycled for the next copy), the name's TEXT and the message type.
   The state of the object is what the constructor built, the rule list (CategoryFilter has the one data
   member m_rules and filter() does not write it; tools/s2c/category.py pins both): [obj_step] hands the
   state back unchanged and looks at the text and the type only. *)
Record query := { q_addr : N; q_cat : str; q_type : mtype }.
Definition obj_state := list rule.
Definition obj_new (cfg : cat_cfg) (rules : str) : obj_state := parse_rules cfg rules.
Definition obj_step (cfg : cat_cfg) (st : obj_state) (q : query) : obj_state * bool :=
  (st, filter_rules cfg st (q_cat q) (q_type q)).
Fixpoint obj_run (cfg : cat_cfg) (st : obj_state) (qs : list query) : list bool :=
  match qs with
  | [] => []
  | q :: r => let (st', v) := obj_step cfg st q in v :: obj_run cfg st' r
  end.
(* CategoryFilter f(rules); then f.filter(m) for every message of the history, in order *)
Definition object_answers (cfg : cat_cfg) (rules : str) (qs : list query) : list bool :=
  obj_run cfg (obj_new cfg rules) qs.
(* what the property text prescribes for a history: every message is judged on its own name and type *)
Definition spec_answers (rules : str) (qs : list query) : list bool :=
  map (fun q => spec_verdict rules (q_cat q) (q_type q)) qs.
(* boolean oracle evaluated on the answers one implementation object gave to a history *)
Definition prop_c15_seq_b (rules : str) (qs : list query) (verdicts : list bool) : bool :=
  list_eqb Bool.eqb verdicts (spec_answers rules qs).

(* ------------------------------------------------------------------ front end (round 8)
   How an application usually OBTAINS its CategoryFilter: not by calling the constructor but through the fluent
   method SimplePipeline::filterCategory(rules), whose body is  append(CategoryFilterPtr::create(rules)); return *this;
   tools/s2c/category.py reads that body into [src_cat_front]: which object the pipeline gets and which rule text
   is handed to its constructor.  The state of the front end is what survives between two requests of one
   process: the function-local static object of a front end that hands out a shared one, with the rule text it
   was created from. *)
Inductive front_obj :=
| FNew            (* append(CategoryFilterPtr::create(<arg>)) : a NEW filter object per request *)
| FSharedStatic.  (* static const auto f = CategoryFilterPtr::create(<arg>); append(f) : the object the FIRST request created *)
Inductive front_arg :=
| ArgRules        (* the caller's rule text, verbatim *)
| ArgEmpty.       (* QString() / "" : the rule text is not handed on *)
Record cat_front := { fr_obj : front_obj; fr_arg : front_arg }.
Definition front_state := option str.          (* rule text of the static object, if it exists already *)
Definition front_hand (a : front_arg) (rules : str) : str := match a with ArgRules => rules | ArgEmpty => [] end.
(* one request filterCategory(rules): new state, rule text of the filter object the pipeline gets *)
Definition front_obtain (fr : cat_front) (st : front_state) (rules : str) : front_state * str :=
  match fr_obj fr with
  | FNew => (st, front_hand (fr_arg fr) rules)
  | FSharedStatic => match st with
                     | Some r => (st, r)
                     | None => (Some (front_hand (fr_arg fr) rules), front_hand (fr_arg fr) rules)
                     end
  end.
Definition front_obtain_all (fr : cat_front) (st : front_state) (earlier : list str) : front_state :=
  fold_left (fun s r => fst (front_obtain fr s r)) earlier st.
(* the rule text behind the filter of  SimplePipeline().filterCategory(rules)  after the earlier requests of the process *)
Definition front_rules (fr : cat_front) (earlier : list str) (rules : str) : str :=
  snd (front_obtain fr (front_obtain_all fr None earlier) rules).
(* Pipeline::process: the handlers in order, stop at the first that returns false; the TRAILING handler
   (.handler(h) after the filters) is reached iff every handler before it returned true *)
Definition reaches_trailing (before : list bool) : bool := forallb (fun b => b) before.
(* pipe.filterCategory(rules).handler(h); pipe.process(message): is h reached? *)
Definition front_reached (cfg : cat_cfg) (fr : cat_front) (earlier : list str) (rules cat : str) (t : mtype) : bool :=
  reaches_trailing [category_filter cfg (front_rules fr earlier rules) cat t].
(* ... and for a history of messages put to that ONE pipeline *)
Definition front_answers (cfg : cat_cfg) (fr : cat_front) (earlier : list str) (rules : str) (qs : list query) : list bool :=
  map (fun v => reaches_trailing [v]) (object_answers cfg (front_rules fr earlier rules) qs).
Definition cat_front_goodb (fr : cat_front) : bool :=
  match fr_obj fr, fr_arg fr with FNew, ArgRules => true | _, _ => false end.
