(* C17, last sentence of the property ("Hence attributes are always set before any filter or formatter
   runs and formatting always precedes every sink"): the bridge from the ORDER OF THE LIST (SortedProofs)
   to the ORDER OF EXECUTION (the C01 pipeline semantics, PipelineProofs.in_order). *)
From Coq Require Import List Arith Lia Sorted Bool.
Import ListNotations.
Require Import QtlVerif.SortedDefs QtlVerif.SortedProofs.
Require QtlVerif.PipelineDefs QtlVerif.PipelineProofs.
Module P := QtlVerif.PipelineDefs.
Module PP := QtlVerif.PipelineProofs.

(* the handler class (Handler::type()) of each scripted leaf behaviour of the C01 model *)
Definition leaf_cls (l : P.leaf) : cls :=
  match l with
  | P.LAttrSet _ _ | P.LAttrCopy _ | P.LSeq _ => Attr
  | P.LFilter _ | P.LDup | P.LLevel _ => Filt
  | P.LFmtTag _ | P.LFmtAttr _ _ | P.LFmtNull | P.LFmtEmpty => Fmt
  | P.LSink => Snk
  | _ => Gen
  end.
(* a flat pipeline whose entries realise a sorted-pipeline list: entry (c, id) is the handler object
   id, some leaf of class c *)
Definition realises (leaf_of : nat -> P.leaf) (l : list hnd) : Prop :=
  Forall (fun h => leaf_cls (leaf_of (snd h)) = fst h) l.
Definition to_handlers (leaf_of : nat -> P.leaf) (l : list hnd) : list P.handler :=
  map (fun h => P.HLeaf (snd h) (leaf_of (snd h))) l.

Lemma trav_flat_prefix leaf_of : forall l evs, P.Trav (to_handlers leaf_of l) evs ->
  exists k, map PP.ev_oid evs = map snd (firstn k l).
Proof.
  induction l as [|h t IH]; intros evs HT; cbn [to_handlers map] in HT.
  - inversion HT; subst. exists 0. reflexivity.
  - inversion HT as [| |o l0 e t0 He|o l0 e t0 evs0 He HT'|]; subst.
    + exists 1. cbn. apply PP.leaf_event_oid in He as [-> _]. reflexivity.
    + destruct (IH _ HT') as [k Hk]. exists (S k). cbn [firstn map]. rewrite Hk.
      apply PP.leaf_event_oid in He as [-> _]. reflexivity.
Qed.

Lemma in_firstn {A} (z : A) : forall k l, In z (firstn k l) -> In z l.
Proof.
  induction k as [|k IH]; intros l H; [destruct H|]. destruct l as [|y t]; [destruct H|].
  cbn [firstn] in H. destruct H as [->|H]; [left; reflexivity|right; apply IH, H].
Qed.
Lemma firstn_sorted k : forall l, sorted l -> sorted (firstn k l).
Proof.
  induction k as [|k IH]; intros l Hs; [constructor|]. destruct l as [|y t]; [constructor|].
  inversion Hs as [|? ? Hst Hall]; subst. cbn [firstn]. constructor; [apply IH, Hst|].
  rewrite Forall_forall in *. intros z Hz. apply Hall. eapply in_firstn, Hz.
Qed.

Section Exec.
Variables (scfg : sorted_cfg) (pcfg : P.pipe_cfg).
Hypothesis Hs : cfg_goodb scfg = true.
Hypothesis Hp : P.cfg_goodb pcfg = true.

(* For every history of typed calls (without nested pipelines), every assignment of handler objects
   of the right classes, every handler state and every message: the handlers that run are a prefix
   (cut at the first rejection) of the sorted list, in list order. *)
Theorem executed_is_sorted_prefix ops leaf_of st m :
  exists k,
    map PP.ev_oid (P.res_events (P.run pcfg (to_handlers leaf_of (run_cfg scfg ops)) st m))
    = map snd (firstn k (run_cfg scfg ops))
    /\ sorted (firstn k (run_cfg scfg ops)).
Proof.
  destruct (trav_flat_prefix leaf_of _ _ (PP.in_order pcfg Hp (to_handlers leaf_of (run_cfg scfg ops)) st m)) as [k Hk].
  exists k. split; [exact Hk|]. apply firstn_sorted. apply (sorted_inv scfg ops Hs).
Qed.

(* position-wise reading: of two handlers that ran, the one that ran first has the lower or equal class
   rank — attribute handlers run before filters and the formatter, the formatter before every sink *)
Corollary execution_follows_class_order ops leaf_of st m :
  exists pre, (exists rest, run_cfg scfg ops = pre ++ rest)
    /\ map PP.ev_oid (P.res_events (P.run pcfg (to_handlers leaf_of (run_cfg scfg ops)) st m)) = map snd pre
    /\ StronglySorted (fun a b => rank (fst a) <= rank (fst b)) pre.
Proof.
  destruct (executed_is_sorted_prefix ops leaf_of st m) as (k & H1 & H2).
  exists (firstn k (run_cfg scfg ops)). split; [|split; assumption].
  exists (skipn k (run_cfg scfg ops)). symmetry. apply firstn_skipn.
Qed.
(* class-wise reading of the property's last sentence, for any two handlers that ran, the first of them
   earlier: nothing but attribute handlers runs before an attribute handler (attributes are set before
   any filter or formatter runs), and once a sink has run no attribute handler, filter or formatter
   runs any more (formatting precedes every sink) *)
Lemma sorted_pairwise : forall l l1 a l2 b l3,
  sorted l -> l = l1 ++ a :: l2 ++ b :: l3 -> rank (fst a) <= rank (fst b).
Proof.
  intros l l1 a l2 b l3 Hl ->. unfold sorted in Hl.
  induction l1 as [|x l1 IH]; cbn [app] in Hl.
  - apply StronglySorted_inv in Hl. destruct Hl as [_ Hall].
    rewrite Forall_forall in Hall. apply Hall. apply in_or_app. right. left. reflexivity.
  - apply StronglySorted_inv in Hl. destruct Hl as [Hl _]. exact (IH Hl).
Qed.

Corollary attributes_first_formatting_before_sinks ops leaf_of st m :
  exists pre, (exists rest, run_cfg scfg ops = pre ++ rest)
    /\ map PP.ev_oid (P.res_events (P.run pcfg (to_handlers leaf_of (run_cfg scfg ops)) st m)) = map snd pre
    /\ forall l1 a l2 b l3, pre = l1 ++ a :: l2 ++ b :: l3 ->
         (fst b = Attr -> fst a = Attr)
         /\ (fst b = Filt -> fst a = Attr \/ fst a = Filt)
         /\ (fst b = Fmt -> fst a = Attr \/ fst a = Filt \/ fst a = Fmt)
         /\ (fst a = Snk -> fst b = Snk \/ fst b = Pipe \/ fst b = Gen).
Proof.
  destruct (execution_follows_class_order ops leaf_of st m) as (pre & Hpre & Hev & Hsorted).
  exists pre. split; [exact Hpre|]. split; [exact Hev|].
  intros l1 a l2 b l3 E. pose proof (sorted_pairwise pre l1 a l2 b l3 Hsorted E) as Hr.
  destruct a as [ca ia], b as [cb ib]. cbn [fst] in *.
  destruct ca, cb; cbn [rank] in Hr; try lia; repeat split; intros Hc; try discriminate Hc; auto.
Qed.
End Exec.
