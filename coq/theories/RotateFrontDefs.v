(* C05 C06 C07 C09 (round 8) — the fluent front end SimplePipeline::sendToFile(path, L, N, options) chooses between the
   rotating sink and the plain FileSink (an append-only file).  Definitions only. *)
From Coq Require Import List ZArith Bool.
Import ListNotations.
Require Import QtlVerif.RotateDefs.
Local Open Scope Z_scope.

(* what tools/s2c/rotate.py reads from simplepipeline.cpp: which requests make the front end build a RotatingFileSink, and
   whether it hands its arguments on unchanged *)
Record front := {
  f_size : bool;        (* maxFileSize > 0 *)
  f_startup : bool;     (* options.testFlag(RotationOnStartup) *)
  f_daily : bool;       (* options.testFlag(RotationDaily) *)
  f_args : bool         (* RotatingFileSinkPtr::create(fileName, maxFileSize, maxFileCount, options) / FileSinkPtr::create(fileName) *)
}.
Definition front_goodb (fr : front) : bool := f_size fr && f_startup fr && f_daily fr && f_args fr.
Definition picks_rotating (fr : front) (c : cfg) : bool :=
  (f_size fr && (0 <? cL c)) || (f_startup fr && startup c) || (f_daily fr && daily c).

(* the plain FileSink: every message is appended to the one file; nothing else ever happens to the directory *)
Definition plain_step (sh : shape) (c : cfg) (w : world) (o : op) : world :=
  match o with
  | Write _ p => append c w {| rbytes := p ++ [10%N]; rid := length (hist w); rday := day_of c (now w) |}
  | _ => step sh c w o          (* the clock, a new sink object, somebody else's file: no sink logic involved *)
  end.
Definition front_step (fr : front) (sh : shape) (c : cfg) (w : world) (o : op) : world :=
  if picks_rotating fr c then step sh c w o else plain_step sh c w o.
Definition run_front (fr : front) (sh : shape) (c : cfg) (t0 : time) (ops : list op) : world :=
  fold_left (front_step fr sh c) ops (w0 c t0).

(* two directories (with the ghost history) that show the same: everything but the sink object's private fields *)
Definition same_files (a b : world) : Prop :=
  gone a = gone b /\ rot a = rot b /\ act a = act b /\ act_mt a = act_mt b /\ now a = now b /\ hist a = hist b
  /\ foreign a = foreign b.
