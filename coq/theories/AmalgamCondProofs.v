(* C20 — lemmas about the conditional-group model (AmalgamCondDefs): the same translation unit under two macro
   environments that agree on every macro mentioned by a group outside the known set K enters the same groups
   outside K, provided the known chains contain nothing but define/undef of macros that no other group mentions
   (the [bad] flag).  Simulation argument: the two runs are in lock step; their conditional stacks are equal except
   for a known chain on top. *)
From Coq Require Import List NArith Bool Arith Lia.
Import ListNotations.
Require Import QtlVerif.AmalgamCondDefs.

Lemma memN_In : forall x l, memN x l = true <-> In x l.
Proof.
  intros x l. unfold memN. rewrite existsb_exists. split.
  - intros [y [Hy E]]. apply N.eqb_eq in E. subst. exact Hy.
  - intros H. exists x. split; [exact H|apply N.eqb_refl].
Qed.

Lemma memN_cons : forall x m l, memN x (m :: l) = N.eqb x m || memN x l.
Proof. reflexivity. Qed.

Lemma memN_del : forall x m l, memN x (filter (fun y => negb (N.eqb y m)) l) = negb (N.eqb x m) && memN x l.
Proof.
  intros x m l. induction l as [|a l IH]; simpl.
  - rewrite andb_false_r. reflexivity.
  - destruct (N.eqb a m) eqn:Eam; simpl.
    + rewrite IH. apply N.eqb_eq in Eam. subst a.
      destruct (N.eqb x m); simpl; reflexivity.
    + rewrite IH. destruct (N.eqb x a) eqn:Exa; simpl.
      * apply N.eqb_eq in Exa. subst x. rewrite Eam. reflexivity.
      * reflexivity.
Qed.

Definition agree (M e1 e2 : list N) : Prop := forall m, In m M -> memN m e1 = memN m e2.

Lemma agree_b_agree : forall M e1 e2, agree_b M e1 e2 = true -> agree M e1 e2.
Proof.
  intros M e1 e2 H m Hm. unfold agree_b in H. rewrite forallb_forall in H.
  specialize (H m Hm). apply eqb_prop in H. exact H.
Qed.

Lemma eval_agree : forall opq M e1 e2 c, agree M e1 e2 -> incl (macros c) M -> eval opq e1 c = eval opq e2 c.
Proof.
  intros opq M e1 e2 c Ha. induction c as [m|a IHa|a IHa b IHb|a IHa b IHb|b|k ms]; simpl; intros Hi.
  - apply Ha. apply Hi. left. reflexivity.
  - rewrite IHa by exact Hi. reflexivity.
  - rewrite IHa, IHb; [reflexivity| |]; intros x Hx; apply Hi; apply in_or_app; auto.
  - rewrite IHa, IHb; [reflexivity| |]; intros x Hx; apply Hi; apply in_or_app; auto.
  - reflexivity.
  - reflexivity.
Qed.

Lemma agree_add : forall M e1 e2 m, agree M e1 e2 -> agree M (m :: e1) (m :: e2).
Proof. intros M e1 e2 m H x Hx. rewrite !memN_cons. rewrite (H x Hx). reflexivity. Qed.

Lemma agree_del : forall M e1 e2 m, agree M e1 e2 ->
  agree M (filter (fun y => negb (N.eqb y m)) e1) (filter (fun y => negb (N.eqb y m)) e2).
Proof. intros M e1 e2 m H x Hx. rewrite !memN_del. rewrite (H x Hx). reflexivity. Qed.

(* a macro outside M may be defined / undefined on one side only *)
Lemma agree_add_l : forall M e1 e2 m, memN m M = false -> agree M e1 e2 -> agree M (m :: e1) e2.
Proof.
  intros M e1 e2 m Hm H x Hx. rewrite memN_cons. destruct (N.eqb x m) eqn:E.
  - apply N.eqb_eq in E. subst x. apply memN_In in Hx. congruence.
  - simpl. apply H. exact Hx.
Qed.
Lemma agree_add_r : forall M e1 e2 m, memN m M = false -> agree M e1 e2 -> agree M e1 (m :: e2).
Proof.
  intros M e1 e2 m Hm H x Hx. rewrite memN_cons. destruct (N.eqb x m) eqn:E.
  - apply N.eqb_eq in E. subst x. apply memN_In in Hx. congruence.
  - simpl. apply H. exact Hx.
Qed.
Lemma agree_del_l : forall M e1 e2 m, memN m M = false -> agree M e1 e2 ->
  agree M (filter (fun y => negb (N.eqb y m)) e1) e2.
Proof.
  intros M e1 e2 m Hm H x Hx. rewrite memN_del. destruct (N.eqb x m) eqn:E.
  - apply N.eqb_eq in E. subst x. apply memN_In in Hx. congruence.
  - simpl. apply H. exact Hx.
Qed.
Lemma agree_del_r : forall M e1 e2 m, memN m M = false -> agree M e1 e2 ->
  agree M e1 (filter (fun y => negb (N.eqb y m)) e2).
Proof.
  intros M e1 e2 m Hm H x Hx. rewrite memN_del. destruct (N.eqb x m) eqn:E.
  - apply N.eqb_eq in E. subst x. apply memN_In in Hx. congruence.
  - simpl. apply H. exact Hx.
Qed.

Section Sim.
  Variable K : list N.
  Variable M : list N.
  Variable opq : N -> bool.
  Variable fs : list (list line).

  Definition nok (stk : list frame) : Prop := forall f, In f stk -> isk f = false.

  Inductive stkrel : list frame -> list frame -> Prop :=
  | sr_eq : forall stk, nok stk -> stkrel stk stk
  | sr_k : forall f1 f2 r, isk f1 = true -> isk f2 = true -> par f1 = par f2 -> nok r -> stkrel (f1 :: r) (f2 :: r).

  Lemma stkrel_inv : forall a b, stkrel a b ->
    (a = b /\ nok a) \/
    (exists f1 f2 r, a = f1 :: r /\ b = f2 :: r /\ isk f1 = true /\ isk f2 = true /\ par f1 = par f2 /\ nok r).
  Proof.
    intros a b H. destruct H as [stk Hn|f1 f2 r K1 K2 Hp Hn].
    - left. split; [reflexivity|exact Hn].
    - right. exists f1, f2, r. repeat split; assumption.
  Qed.

  Definition strel (s1 s2 : st) : Prop :=
    once s1 = once s2 /\ too_deep s1 = too_deep s2
    /\ filter (not_k K) (taken s1) = filter (not_k K) (taken s2)
    /\ agree M (env s1) (env s2).

  Lemma nok_cons : forall f stk, isk f = false -> nok stk -> nok (f :: stk).
  Proof. intros f stk Hf H g [E|Hg]; [subst; exact Hf|apply H; exact Hg]. Qed.
  Lemma nok_tail : forall f stk, nok (f :: stk) -> nok stk.
  Proof. intros f stk H g Hg. apply H. right. exact Hg. Qed.
  Lemma nok_head : forall f stk, nok (f :: stk) -> isk f = false.
  Proof. intros f stk H. apply H. left. reflexivity. Qed.

  (* ---- [bad] is never cleared *)
  Lemma step_bad_mono : forall cur l stk s, bad s = true -> bad (snd (step K M opq cur l stk s)) = true.
  Proof.
    intros cur l stk s H. destruct l; simpl; unfold chk_k, chk_m;
      repeat match goal with
             | |- context [match ?x with _ => _ end] => destruct x; simpl
             end; auto.
  Qed.

  Lemma step_bad_inv : forall cur l stk s, bad (snd (step K M opq cur l stk s)) = false -> bad s = false.
  Proof.
    intros cur l stk s H. destruct (bad s) eqn:E; [|reflexivity].
    rewrite (step_bad_mono cur l stk s E) in H. discriminate H.
  Qed.

  Lemma run_lines_cons : forall rec_file cur l r stk s, (forall f, l <> LInclude f) ->
    run_lines K M opq rec_file cur (l :: r) stk s
    = run_lines K M opq rec_file cur r (fst (step K M opq cur l stk s)) (snd (step K M opq cur l stk s)).
  Proof.
    intros rec_file cur l r stk s Hni.
    destruct l; try (cbn [run_lines]; destruct (step K M opq cur _ stk s); reflexivity).
    exfalso. apply (Hni f). reflexivity.
  Qed.

  Lemma run_lines_include : forall rec_file cur f r stk s,
    run_lines K M opq rec_file cur (LInclude f :: r) stk s
    = if active stk && negb (mem_nat f (once (chk_k stk s)))
      then run_lines K M opq rec_file cur r stk (rec_file f (chk_k stk s))
      else run_lines K M opq rec_file cur r stk (chk_k stk s).
  Proof. reflexivity. Qed.

  Lemma not_include_dec : forall l, (forall f, l <> LInclude f) \/ exists f, l = LInclude f.
  Proof. destruct l; try (left; intros; discriminate). right. eexists. reflexivity. Qed.

  Lemma chk_k_bad_mono : forall stk s, bad s = true -> bad (chk_k stk s) = true.
  Proof. intros stk s H. unfold chk_k. destruct (in_k stk); simpl; auto. Qed.

  Section LinesMono.
    Variable rec_file : nat -> st -> st.
    Hypothesis rec_mono : forall f s, bad s = true -> bad (rec_file f s) = true.
    Lemma run_lines_bad_mono : forall cur ls stk s, bad s = true -> bad (run_lines K M opq rec_file cur ls stk s) = true.
    Proof.
      intros cur ls. induction ls as [|l r IH]; intros stk s H.
      - simpl. destruct stk; simpl; auto.
      - destruct (not_include_dec l) as [Hni|[f Hf]].
        + rewrite run_lines_cons by exact Hni. apply IH. apply step_bad_mono. exact H.
        + subst l. rewrite run_lines_include.
          destruct (active stk && negb (mem_nat f (once (chk_k stk s)))); apply IH;
            try apply rec_mono; apply chk_k_bad_mono; exact H.
    Qed.
  End LinesMono.

  Lemma run_file_bad_mono : forall fuel f s, bad s = true -> bad (run_file K M opq fs fuel f s) = true.
  Proof.
    induction fuel as [|k IH]; intros f s H; simpl.
    - exact H.
    - apply run_lines_bad_mono; [exact IH|exact H].
  Qed.

  (* ---- one line, both sides *)
  Definition covered (l : line) : Prop := incl (line_macros K l) M.

  Lemma filter_notk_in : forall id t, memN id K = true -> filter (not_k K) (id :: t) = filter (not_k K) t.
  Proof. intros id t H. simpl. unfold not_k at 1. rewrite H. reflexivity. Qed.
  Lemma filter_notk_out : forall id t, memN id K = false -> filter (not_k K) (id :: t) = id :: filter (not_k K) t.
  Proof. intros id t H. simpl. unfold not_k at 1. rewrite H. reflexivity. Qed.

  Ltac fin EK :=
    unfold strel; simpl; unfold not_k; rewrite ?EK; simpl; repeat split; auto; try (f_equal; assumption).

  Ltac kill B :=
    simpl in B;
    match type of B with
    | bad (if ?b then _ else _) = false => destruct b; simpl in B; discriminate B
    | _ => discriminate B
    end.

  Lemma step_sim : forall cur l stk1 s1 stk2 s2,
    (forall f, l <> LInclude f) -> covered l ->
    stkrel stk1 stk2 -> strel s1 s2 ->
    bad (snd (step K M opq cur l stk1 s1)) = false -> bad (snd (step K M opq cur l stk2 s2)) = false ->
    stkrel (fst (step K M opq cur l stk1 s1)) (fst (step K M opq cur l stk2 s2))
    /\ strel (snd (step K M opq cur l stk1 s1)) (snd (step K M opq cur l stk2 s2)).
  Proof.
    intros cur l stk1 s1 stk2 s2 Hni Hcov Hstk [Ho [Hs [Ht He]]] B1 B2.
    destruct l as [id c|id c|id| |m|m|f|].
    - (* LIf *)
      simpl in *. unfold chk_k in *.
      destruct (stkrel_inv _ _ Hstk) as [[E Hn]|(f1 & f2 & r & E1 & E2 & K1 & K2 & Hp & Hn)]; [subst stk2; rename stk1 into stk|subst stk1 stk2].
      + assert (Hk : in_k stk = false) by (destruct stk as [|f r]; [reflexivity|simpl; apply (Hn f); left; reflexivity]).
        rewrite Hk in *.
        destruct (memN id K) eqn:EK.
        * (* a known chain opens: the two sides may take different branches *)
          split.
          -- apply sr_k; simpl; auto.
          -- destruct (active stk && eval opq (env s1) c), (active stk && eval opq (env s2) c);
               fin EK.
        * assert (Ev : eval opq (env s1) c = eval opq (env s2) c).
          { apply eval_agree with (M := M); [exact He|]. unfold covered in Hcov. simpl in Hcov. try rewrite EK in Hcov. exact Hcov. }
          rewrite Ev. split.
          -- apply sr_eq. apply nok_cons; [simpl; try rewrite EK; auto|exact Hn].
          -- destruct (active stk && eval opq (env s2) c); fin EK.
      + simpl in *. rewrite K1 in B1. kill B1.
    - (* LElif *)
      simpl in *.
      destruct (stkrel_inv _ _ Hstk) as [[E Hn]|(f1 & f2 & r & E1 & E2 & K1 & K2 & Hp & Hn)]; [subst stk2; rename stk1 into stk|subst stk1 stk2].
      + destruct stk as [|f r]; [simpl in B1; discriminate B1|].
        pose proof (nok_head _ _ Hn) as Hf. rewrite Hf in *.
        destruct (memN id K) eqn:EK; simpl in *.
        * kill B1.
        * assert (Ev : eval opq (env s1) c = eval opq (env s2) c).
          { apply eval_agree with (M := M); [exact He|]. unfold covered in Hcov. simpl in Hcov. try rewrite EK in Hcov. exact Hcov. }
          rewrite Ev. split.
          -- apply sr_eq. apply nok_cons; [simpl; auto|exact (nok_tail _ _ Hn)].
          -- destruct (par f && negb (done f) && eval opq (env s2) c); fin EK.
      + rewrite K1, K2 in *.
        destruct (memN id K) eqn:EK; simpl in *.
        * split.
          -- apply sr_k; simpl; auto.
          -- destruct (par f1 && negb (done f1) && eval opq (env s1) c), (par f2 && negb (done f2) && eval opq (env s2) c);
               fin EK.
        * kill B1.
    - (* LElse *)
      simpl in *.
      destruct (stkrel_inv _ _ Hstk) as [[E Hn]|(f1 & f2 & r & E1 & E2 & K1 & K2 & Hp & Hn)]; [subst stk2; rename stk1 into stk|subst stk1 stk2].
      + destruct stk as [|f r]; [simpl in B1; discriminate B1|].
        pose proof (nok_head _ _ Hn) as Hf. rewrite Hf in *.
        destruct (memN id K) eqn:EK; simpl in *.
        * kill B1.
        * split.
          -- apply sr_eq. apply nok_cons; [simpl; auto|exact (nok_tail _ _ Hn)].
          -- destruct (par f && negb (done f)); fin EK.
      + rewrite K1, K2 in *.
        destruct (memN id K) eqn:EK; simpl in *.
        * split.
          -- apply sr_k; simpl; auto.
          -- destruct (par f1 && negb (done f1)), (par f2 && negb (done f2));
               fin EK.
        * kill B1.
    - (* LEndif *)
      simpl in *.
      destruct (stkrel_inv _ _ Hstk) as [[E Hn]|(f1 & f2 & r & E1 & E2 & K1 & K2 & Hp & Hn)]; [subst stk2; rename stk1 into stk|subst stk1 stk2].
      + destruct stk as [|f r]; [simpl in B1; discriminate B1|]. simpl. split.
        * apply sr_eq. exact (nok_tail _ _ Hn).
        * unfold strel. auto.
      + simpl. split; [apply sr_eq; exact Hn|unfold strel; auto].
    - (* LDefine *)
      simpl in *. unfold chk_m in *.
      destruct (stkrel_inv _ _ Hstk) as [[E Hn]|(f1 & f2 & r & E1 & E2 & K1 & K2 & Hp & Hn)]; [subst stk2; rename stk1 into stk|subst stk1 stk2].
      + assert (Hk : in_k stk = false) by (destruct stk as [|f r]; [reflexivity|simpl; apply (Hn f); left; reflexivity]).
        rewrite Hk in *. simpl in *. split; [exact Hstk|].
        destruct (active stk); unfold strel; simpl; auto. repeat split; auto. apply agree_add. exact He.
      + simpl in *. rewrite K1, K2 in *. simpl in *. split; [exact Hstk|].
        destruct (memN m M) eqn:EM.
        * kill B1.
        * destruct (on f1), (on f2); unfold strel; simpl; repeat split; auto.
          -- apply agree_add. exact He.
          -- apply agree_add_l; assumption.
          -- apply agree_add_r; assumption.
    - (* LUndef *)
      simpl in *. unfold chk_m in *.
      destruct (stkrel_inv _ _ Hstk) as [[E Hn]|(f1 & f2 & r & E1 & E2 & K1 & K2 & Hp & Hn)]; [subst stk2; rename stk1 into stk|subst stk1 stk2].
      + assert (Hk : in_k stk = false) by (destruct stk as [|f r]; [reflexivity|simpl; apply (Hn f); left; reflexivity]).
        rewrite Hk in *. simpl in *. split; [exact Hstk|].
        destruct (active stk); unfold strel; simpl; auto. repeat split; auto. apply agree_del. exact He.
      + simpl in *. rewrite K1, K2 in *. simpl in *. split; [exact Hstk|].
        destruct (memN m M) eqn:EM.
        * kill B1.
        * destruct (on f1), (on f2); unfold strel; simpl; repeat split; auto.
          -- apply agree_del. exact He.
          -- apply agree_del_l; assumption.
          -- apply agree_del_r; assumption.
    - exfalso. apply (Hni f). reflexivity.
    - (* LOnce *)
      simpl in *. unfold chk_k in *.
      destruct (stkrel_inv _ _ Hstk) as [[E Hn]|(f1 & f2 & r & E1 & E2 & K1 & K2 & Hp & Hn)]; [subst stk2; rename stk1 into stk|subst stk1 stk2].
      + assert (Hk : in_k stk = false) by (destruct stk as [|f r]; [reflexivity|simpl; apply (Hn f); left; reflexivity]).
        rewrite Hk in *. split; [exact Hstk|].
        destruct (active stk); unfold strel; simpl; auto. repeat split; auto. f_equal. exact Ho.
      + simpl in *. rewrite K1 in B1. kill B1.
  Qed.

  (* ---- a list of lines, both sides *)
  Section LinesSim.
    Variable rec_file : nat -> st -> st.
    Hypothesis rec_mono : forall f s, bad s = true -> bad (rec_file f s) = true.
    Hypothesis rec_sim : forall f s1 s2, strel s1 s2 ->
      bad (rec_file f s1) = false -> bad (rec_file f s2) = false -> strel (rec_file f s1) (rec_file f s2).

    Lemma run_lines_sim : forall cur ls stk1 s1 stk2 s2,
      (forall l, In l ls -> covered l) ->
      stkrel stk1 stk2 -> strel s1 s2 ->
      bad (run_lines K M opq rec_file cur ls stk1 s1) = false ->
      bad (run_lines K M opq rec_file cur ls stk2 s2) = false ->
      strel (run_lines K M opq rec_file cur ls stk1 s1) (run_lines K M opq rec_file cur ls stk2 s2).
    Proof.
      intros cur ls. induction ls as [|l r IH]; intros stk1 s1 stk2 s2 Hcov Hstk Hst B1 B2.
      - simpl in *. destruct (stkrel_inv _ _ Hstk) as [[E Hn]|(f1 & f2 & r' & E1 & E2 & K1 & K2 & Hp & Hn)]; [subst stk2; rename stk1 into stk|subst stk1 stk2].
        + destruct stk; [exact Hst|simpl in B1; discriminate B1].
        + simpl in B1. discriminate B1.
      - assert (Hcr : forall l0, In l0 r -> covered l0) by (intros l0 H0; apply Hcov; right; exact H0).
        destruct (not_include_dec l) as [Hni|[f Hf]].
        + rewrite (run_lines_cons rec_file cur l r stk1 s1 Hni) in B1 |- *.
          rewrite (run_lines_cons rec_file cur l r stk2 s2 Hni) in B2 |- *.
          assert (B1' : bad (snd (step K M opq cur l stk1 s1)) = false).
          { destruct (bad (snd (step K M opq cur l stk1 s1))) eqn:Eb; [|reflexivity].
            rewrite (run_lines_bad_mono rec_file rec_mono cur r _ _ Eb) in B1. discriminate B1. }
          assert (B2' : bad (snd (step K M opq cur l stk2 s2)) = false).
          { destruct (bad (snd (step K M opq cur l stk2 s2))) eqn:Eb; [|reflexivity].
            rewrite (run_lines_bad_mono rec_file rec_mono cur r _ _ Eb) in B2. discriminate B2. }
          destruct (step_sim cur l stk1 s1 stk2 s2 Hni (Hcov l (or_introl eq_refl)) Hstk Hst B1' B2') as [Hstk' Hst'].
          apply IH; assumption.
        + subst l. rewrite !run_lines_include. rewrite run_lines_include in B1, B2. unfold chk_k in *.
          destruct Hst as [Ho [Hs [Ht He]]].
          destruct (stkrel_inv _ _ Hstk) as [[E Hn]|(f1 & f2 & r' & E1 & E2 & K1 & K2 & Hp & Hn)]; [subst stk2; rename stk1 into stk|subst stk1 stk2].
          * assert (Hk : in_k stk = false) by (destruct stk as [|g r']; [reflexivity|simpl; apply (Hn g); left; reflexivity]).
            rewrite Hk in *. rewrite <- Ho in *.
            assert (Hst0 : strel s1 s2) by (unfold strel; auto).
            destruct (active stk && negb (mem_nat f (once s1))).
            -- assert (R1 : bad (rec_file f s1) = false).
               { destruct (bad (rec_file f s1)) eqn:Eb; [|reflexivity].
                 rewrite (run_lines_bad_mono rec_file rec_mono cur r stk _ Eb) in B1. discriminate B1. }
               assert (R2 : bad (rec_file f s2) = false).
               { destruct (bad (rec_file f s2)) eqn:Eb; [|reflexivity].
                 rewrite (run_lines_bad_mono rec_file rec_mono cur r stk _ Eb) in B2. discriminate B2. }
               apply IH; auto.
            -- apply IH; auto.
          * simpl in B1. rewrite K1 in B1.
            assert (Eb : bad (set_bad s1) = true) by reflexivity.
            destruct (on f1 && negb (mem_nat f (once (set_bad s1)))).
            -- rewrite (run_lines_bad_mono rec_file rec_mono cur r _ _ (rec_mono f _ Eb)) in B1. discriminate B1.
            -- rewrite (run_lines_bad_mono rec_file rec_mono cur r _ _ Eb) in B1. discriminate B1.
    Qed.
  End LinesSim.

  Hypothesis fs_covered : forall f l, In l (nth f fs []) -> covered l.

  Lemma run_file_sim : forall fuel f s1 s2, strel s1 s2 ->
    bad (run_file K M opq fs fuel f s1) = false -> bad (run_file K M opq fs fuel f s2) = false ->
    strel (run_file K M opq fs fuel f s1) (run_file K M opq fs fuel f s2).
  Proof.
    induction fuel as [|k IH]; intros f s1 s2 Hst B1 B2; simpl in *.
    - destruct Hst as [Ho [Hs [Ht He]]]. unfold strel. simpl. auto.
    - apply run_lines_sim; auto.
      + apply run_file_bad_mono.
      + apply fs_covered.
      + apply sr_eq. intros g [].
  Qed.
End Sim.

Lemma mentioned_covers : forall K fs f l, In l (nth f fs []) -> incl (line_macros K l) (mentioned_nonk K fs).
Proof.
  intros K fs f l Hl x Hx. unfold mentioned_nonk. apply in_flat_map.
  destruct (Nat.lt_ge_cases f (length fs)) as [Hlt|Hge].
  - exists (nth f fs []). split; [apply nth_In; exact Hlt|]. apply in_flat_map. exists l. split; assumption.
  - rewrite nth_overflow in Hl by exact Hge. destruct Hl.
Qed.

Lemma filter_rev_comm : forall (A : Type) (p : A -> bool) l, filter p (rev l) = rev (filter p l).
Proof.
  intros A p l. induction l as [|a l IH]; simpl; [reflexivity|].
  rewrite filter_app, IH. simpl. destruct (p a); simpl; [reflexivity|rewrite app_nil_r; reflexivity].
Qed.

(* THE THEOREM behind the static oracle of checks/c20.py: when [confined] holds, the two builds of the translation
   unit enter exactly the same conditional groups outside the known ones, skip the same once-only files and reach the
   same include depth *)
Theorem confined_sound : forall K opq fs root e1 e2,
  confined K opq fs root e1 e2 = true ->
  filter (not_k K) (branches K opq fs root e1) = filter (not_k K) (branches K opq fs root e2)
  /\ once (run_tu K opq fs root e1) = once (run_tu K opq fs root e2)
  /\ too_deep (run_tu K opq fs root e1) = too_deep (run_tu K opq fs root e2).
Proof.
  intros K opq fs root e1 e2 H. unfold confined in H.
  apply andb_prop in H. destruct H as [H B2]. apply andb_prop in H. destruct H as [Ha B1].
  apply negb_true_iff in B1. apply negb_true_iff in B2. apply agree_b_agree in Ha.
  assert (S : strel K (mentioned_nonk K fs) (run_tu K opq fs root e1) (run_tu K opq fs root e2)).
  { unfold run_tu in *. apply run_file_sim.
    - intros f l Hl. apply (mentioned_covers K fs f l Hl).
    - unfold strel, init. simpl. auto.
    - exact B1.
    - exact B2. }
  destruct S as [So [Ss [St Se]]]. unfold branches. rewrite !filter_rev_comm. rewrite St. auto.
Qed.

(* no known groups at all: environments that agree on every macro any condition mentions see the same text *)
Lemma filter_notk_nil : forall l, filter (not_k []) l = l.
Proof. induction l as [|a l IH]; simpl; [reflexivity|rewrite IH; reflexivity]. Qed.

Theorem same_branches_unless_mentioned : forall opq fs root e1 e2,
  confined [] opq fs root e1 e2 = true ->
  branches [] opq fs root e1 = branches [] opq fs root e2.
Proof.
  intros opq fs root e1 e2 H. destruct (confined_sound [] opq fs root e1 e2 H) as [Hb _].
  rewrite !filter_notk_nil in Hb. exact Hb.
Qed.
