(* C17 — lemmas.  The headline results are generic in the configuration the translator reads from
   the source: they hold for every [cfg] passing the decidable check [cfg_goodb]. *)
From Coq Require Import List Arith Lia Sorted Bool.
Import ListNotations.
Require Import QtlVerif.SortedDefs.

Definition no_gen (l : list hnd) : Prop := Forall (fun y => fst y <> Gen) l.
Definition sorted (l : list hnd) : Prop := StronglySorted (fun a b => rank (fst a) <= rank (fst b)) l.

(* ---- the decidable condition on the translated configuration ---- *)
Definition five : list cls := [Attr; Filt; Fmt; Snk; Pipe].
Definition place_goodb (c : cls) (okc : list cls) (p : place) : bool :=
  match p with
  | PNearLeft lt rt | PNearRight lt rt =>
      forallb (fun c' => Bool.eqb (mem c' lt) (Nat.leb (rank c') (rank c))
                         && Bool.eqb (mem c' rt) (Nat.ltb (rank c) (rank c'))) okc
  | PAppend => forallb (fun c' => Nat.leb (rank c') (rank c)) okc
  end.
Definition shape_goodb (s : shape) : bool := match s with SBackward => true | SReversedRange => false end.
Definition cfg_goodb (cfg : sorted_cfg) : bool :=
  shape_goodb (nl_shape cfg) && shape_goodb (nr_shape cfg)
  && place_goodb Attr five (p_attr cfg) && place_goodb Filt five (p_filter cfg)
  && place_goodb Fmt [Attr; Filt; Snk; Pipe] (p_formatter cfg) && fmt_clears_first cfg
  && place_goodb Snk five (p_sink cfg) && place_goodb Pipe five (p_pipeline cfg).

(* ---- list lemmas ---- *)
Lemma split_threshold r : forall l : list hnd, sorted l ->
  exists lo hi : list hnd, l = lo ++ hi /\ Forall (fun y => rank (fst y) <= r) lo /\ Forall (fun y => r < rank (fst y)) hi.
Proof.
  induction l as [|y t IH]; intros Hs; [exists [], []; repeat split; constructor|].
  inversion Hs as [|? ? Hst Hall]; subst.
  destruct (le_lt_dec (rank (fst y)) r) as [Hle|Hgt].
  - destruct (IH Hst) as (lo & hi & -> & Hlo & Hhi). exists (y :: lo), hi.
    split; [reflexivity|]. split; [constructor; assumption|assumption].
  - exists [], (y :: t). split; [reflexivity|]. split; [constructor|]. constructor; [exact Hgt|].
    rewrite Forall_forall in *. intros z Hz. specialize (Hall z Hz). cbn in Hall. lia.
Qed.

Lemma insert_sorted_split (x : hnd) (lo hi : list hnd) :
  Forall (fun y => rank (fst y) <= rank (fst x)) lo -> Forall (fun y => rank (fst x) < rank (fst y)) hi ->
  insert_sorted x (lo ++ hi) = lo ++ x :: hi.
Proof.
  intros Hlo Hhi. induction lo as [|y lo IH]; cbn [app insert_sorted].
  - destruct hi as [|z hi]; [reflexivity|]. inversion Hhi; subst. cbn [insert_sorted].
    destruct (Nat.ltb_spec (rank (fst x)) (rank (fst z))); [reflexivity|lia].
  - inversion Hlo; subst. destruct (Nat.ltb_spec (rank (fst x)) (rank (fst y))); [lia|].
    rewrite IH by assumption. reflexivity.
Qed.

Lemma split_at_first_split (p : hnd -> bool) (lo hi : list hnd) :
  Forall (fun y => p y = false) lo -> (match hi with [] => True | z :: _ => p z = true end) ->
  split_at_first p (lo ++ hi) = (lo, hi).
Proof.
  intros Hlo Hhi. induction lo as [|y lo IH]; cbn [app split_at_first].
  - destruct hi as [|z hi]; [reflexivity|]. cbn [split_at_first]. rewrite Hhi. reflexivity.
  - inversion Hlo as [|? ? Hy Hl]; subst. rewrite Hy, (IH Hl). reflexivity.
Qed.

Lemma after_last_all (p : hnd -> bool) (l : list hnd) : Forall (fun y => p y = true) l -> after_last p l = length l.
Proof.
  induction 1 as [|y l Hy _ IH]; [reflexivity|]. cbn [after_last length]. rewrite IH, Hy.
  destruct l; cbn; reflexivity.
Qed.
Lemma after_last_app_none (p : hnd -> bool) (lo hi : list hnd) :
  Forall (fun y => p y = false) hi -> after_last p (lo ++ hi) = after_last p lo.
Proof.
  intros Hhi. induction lo as [|y lo IH]; cbn [app after_last].
  - induction Hhi as [|z hi Hz _ IHh]; [reflexivity|]. cbn [after_last]. rewrite IHh, Hz. reflexivity.
  - rewrite IH. reflexivity.
Qed.

Section OneCall.
Variables (left right : list cls) (x : hnd) (ok : cls -> Prop).
Hypothesis Hleft : forall c, ok c -> mem c left = Nat.leb (rank c) (rank (fst x)).
Hypothesis Hright : forall c, ok c -> mem c right = Nat.ltb (rank (fst x)) (rank c).

Lemma near_left_is_insert l : sorted l -> Forall (fun y => ok (fst y)) l -> near_left left right x l = insert_sorted x l.
Proof.
  intros Hs Hg. destruct (split_threshold (rank (fst x)) l Hs) as (lo & hi & -> & Hlo & Hhi).
  apply Forall_app in Hg as [Hglo Hghi].
  rewrite (insert_sorted_split x lo hi Hlo Hhi). unfold near_left.
  rewrite (split_at_first_split (fun y => mem (fst y) right) lo hi).
  - rewrite after_last_all.
    + rewrite firstn_all, skipn_all. reflexivity.
    + rewrite Forall_forall in *. intros y Hy. rewrite Hleft by (apply Hglo; exact Hy). apply Nat.leb_le, Hlo, Hy.
  - rewrite Forall_forall in *. intros y Hy. rewrite Hright by (apply Hglo; exact Hy). apply Nat.ltb_ge, Hlo, Hy.
  - destruct hi as [|z hi]; [exact I|]. inversion Hhi; subst. inversion Hghi; subst.
    rewrite Hright by assumption. apply Nat.ltb_lt. assumption.
Qed.

Lemma near_right_is_insert l : sorted l -> Forall (fun y => ok (fst y)) l -> near_right left right x l = insert_sorted x l.
Proof.
  intros Hs Hg. destruct (split_threshold (rank (fst x)) l Hs) as (lo & hi & -> & Hlo & Hhi).
  apply Forall_app in Hg as [Hglo Hghi].
  rewrite (insert_sorted_split x lo hi Hlo Hhi). unfold near_right.
  assert (Hk : after_last (fun y => mem (fst y) left) (lo ++ hi) = length lo).
  { rewrite after_last_app_none.
    - apply after_last_all. rewrite Forall_forall in *. intros y Hy.
      rewrite Hleft by (apply Hglo; exact Hy). apply Nat.leb_le, Hlo, Hy.
    - rewrite Forall_forall in *. intros y Hy. rewrite Hleft by (apply Hghi; exact Hy). apply Nat.leb_gt, Hhi, Hy. }
  rewrite Hk, firstn_app, firstn_all, Nat.sub_diag, skipn_app, skipn_all, Nat.sub_diag.
  cbn [firstn skipn app]. rewrite app_nil_r.
  change hi with ([] ++ hi) at 1.
  rewrite (split_at_first_split (fun y => mem (fst y) right) [] hi); [reflexivity|constructor|].
  destruct hi as [|z hi]; [exact I|]. inversion Hhi; subst. inversion Hghi; subst.
  rewrite Hright by assumption. apply Nat.ltb_lt. assumption.
Qed.

Lemma append_is_insert l : (forall c, ok c -> rank c <= rank (fst x)) -> Forall (fun y => ok (fst y)) l ->
  l ++ [x] = insert_sorted x l.
Proof.
  intros Hall Hg. rewrite <- (app_nil_r l) at 2. rewrite insert_sorted_split; [reflexivity| |constructor].
  rewrite Forall_forall in *. intros y Hy. apply Hall, Hg, Hy.
Qed.
End OneCall.

(* from the boolean check to the hypotheses of the section *)
Lemma place_good_sound cfg c okc p x l :
  shape_goodb (nl_shape cfg) = true -> shape_goodb (nr_shape cfg) = true ->
  place_goodb c okc p = true -> fst x = c ->
  sorted l -> Forall (fun y => In (fst y) okc) l -> do_place cfg p x l = insert_sorted x l.
Proof.
  intros Hnl Hnr Hp Hx Hs Hok. subst c.
  destruct p as [lt rt|lt rt|]; cbn [do_place place_goodb] in *.
  - destruct (nl_shape cfg); [|discriminate]. cbn [near_left_s].
    rewrite forallb_forall in Hp.
    apply (near_left_is_insert lt rt x (fun c => In c okc)); try assumption.
    + intros c Hc. specialize (Hp c Hc). apply andb_true_iff in Hp as [H1 _]. apply eqb_prop in H1. exact H1.
    + intros c Hc. specialize (Hp c Hc). apply andb_true_iff in Hp as [_ H2]. apply eqb_prop in H2. exact H2.
  - destruct (nr_shape cfg); [|discriminate]. cbn [near_right_s].
    rewrite forallb_forall in Hp.
    apply (near_right_is_insert lt rt x (fun c => In c okc)); try assumption.
    + intros c Hc. specialize (Hp c Hc). apply andb_true_iff in Hp as [H1 _]. apply eqb_prop in H1. exact H1.
    + intros c Hc. specialize (Hp c Hc). apply andb_true_iff in Hp as [_ H2]. apply eqb_prop in H2. exact H2.
  - rewrite forallb_forall in Hp.
    apply (append_is_insert x (fun c => In c okc)); [|assumption].
    intros c Hc. apply Nat.leb_le, Hp, Hc.
Qed.

Lemma no_gen_five l : no_gen l -> Forall (fun y => In (fst y) five) l.
Proof.
  unfold no_gen. rewrite !Forall_forall. intros H y Hy. specialize (H y Hy).
  destruct (fst y); cbn; auto 10; try contradiction.
Qed.

Lemma clear_sorted c l : sorted l -> sorted (clear c l).
Proof.
  induction 1 as [|y t Hst IH Hall]; cbn [clear filter]; [constructor|]. fold (clear c t).
  destruct (negb _); [|exact IH].
  constructor; [exact IH|]. rewrite Forall_forall in *. intros z Hz. apply filter_In in Hz as [Hz _]. apply Hall, Hz.
Qed.
Lemma clear_no_gen c l : no_gen l -> no_gen (clear c l).
Proof.
  unfold no_gen, clear. rewrite !Forall_forall. intros H z Hz. apply filter_In in Hz as [Hz _]. apply H, Hz.
Qed.
Lemma clear_fmt_four l : no_gen l -> Forall (fun y => In (fst y) [Attr; Filt; Snk; Pipe]) (clear Fmt l).
Proof.
  unfold no_gen, clear. rewrite !Forall_forall. intros H z Hz. apply filter_In in Hz as [Hz Hf].
  specialize (H z Hz). destruct (fst z); cbn in *; auto 10; try discriminate; try contradiction.
Qed.

(* ---- theorem 1: with a good configuration every call is the reference step ---- *)
Theorem typed_calls_are_insert_sorted cfg l id o :
  cfg_goodb cfg = true -> sorted l -> no_gen l -> step_cfg cfg l id o = step_ref l id o.
Proof.
  unfold cfg_goodb. intros Hc Hs Hg.
  repeat (apply andb_true_iff in Hc as [Hc ?]).
  destruct o as [| | | | | |ca|cn|c|]; cbn [step_cfg step_ref op_class]; try reflexivity.
  - eapply place_good_sound; eauto using no_gen_five.
  - eapply place_good_sound; eauto using no_gen_five.
  - match goal with H : fmt_clears_first cfg = true |- _ => rewrite H end.
    eapply place_good_sound; eauto using clear_sorted, clear_fmt_four.
  - match goal with H : fmt_clears_first cfg = true |- _ => rewrite H end.
    eapply place_good_sound; eauto using clear_sorted, clear_fmt_four.
  - eapply place_good_sound; eauto using no_gen_five.
  - eapply place_good_sound; eauto using no_gen_five.
  - destruct ca; cbn [step_cfg step_ref op_class]; try reflexivity;
      eapply place_good_sound; eauto using no_gen_five.
Qed.

(* ---- the reference step keeps the list sorted and free of generic handlers ---- *)
Lemma insert_in x l y : In y (insert_sorted x l) <-> y = x \/ In y l.
Proof.
  induction l as [|z t IH]; cbn [insert_sorted]; [cbn; intuition|].
  destruct (Nat.ltb _ _); cbn [In]; rewrite ?IH; intuition.
Qed.
Lemma insert_sorted_ok x l : sorted l -> sorted (insert_sorted x l).
Proof.
  induction l as [|y t IH]; intros Hs; cbn [insert_sorted].
  - constructor; constructor.
  - destruct (Nat.ltb_spec (rank (fst x)) (rank (fst y))) as [Hlt|Hge].
    + constructor; [exact Hs|]. inversion Hs as [|? ? Hst Hall]; subst.
      constructor; [lia|]. rewrite Forall_forall in *. intros z Hz. specialize (Hall z Hz). cbn in Hall. lia.
    + inversion Hs as [|? ? Hst Hall]; subst. constructor; [apply IH; exact Hst|].
      rewrite Forall_forall in *. intros z Hz. apply insert_in in Hz as [->|Hz]; [lia|apply Hall; exact Hz].
Qed.
Lemma insert_no_gen x l : fst x <> Gen -> no_gen l -> no_gen (insert_sorted x l).
Proof.
  unfold no_gen. rewrite !Forall_forall. intros Hx H z Hz. apply insert_in in Hz as [->|Hz]; [exact Hx|apply H, Hz].
Qed.
Lemma step_ref_sorted l id o : sorted l -> sorted (step_ref l id o).
Proof.
  intros Hs. destruct o as [| | | | | |ca|cn|c|]; cbn [step_ref op_class]; auto using insert_sorted_ok, clear_sorted.
  - destruct ca; auto using insert_sorted_ok.
  - constructor.
Qed.
Lemma step_ref_no_gen l id o : no_gen l -> no_gen (step_ref l id o).
Proof.
  intros Hg. destruct o as [| | | | | |ca|cn|c|]; cbn [step_ref op_class];
    try (destruct ca; cbn; try exact Hg); try (apply insert_no_gen; [discriminate|]);
    auto using clear_no_gen. constructor.
Qed.

(* ---- per-class content ---- *)
Lemma cls_eqb_refl c : cls_eqb c c = true.
Proof. unfold cls_eqb. apply Nat.eqb_refl. Qed.
Lemma cls_eqb_eq a b : cls_eqb a b = true <-> a = b.
Proof.
  unfold cls_eqb. rewrite Nat.eqb_eq. split; [|intros ->; reflexivity].
  destruct a, b; cbn; intros E; try reflexivity; discriminate.
Qed.
Lemma cls_eqb_neq a b : cls_eqb a b = false <-> a <> b.
Proof. rewrite <- cls_eqb_eq. destruct (cls_eqb a b); split; congruence. Qed.
Lemma cls_eqb_sym a b : cls_eqb a b = cls_eqb b a.
Proof. unfold cls_eqb. apply Nat.eqb_sym. Qed.

Lemma of_class_nil_above c t : Forall (fun z => rank c < rank (fst z)) t -> of_class c t = [].
Proof.
  induction 1 as [|z t Hz _ IH]; [reflexivity|]. cbn [of_class filter]. fold (of_class c t).
  assert (E : cls_eqb (fst z) c = false) by (unfold cls_eqb; apply Nat.eqb_neq; lia).
  rewrite E; exact IH.
Qed.
Lemma of_class_insert_same c id l : sorted l -> of_class c (insert_sorted (c, id) l) = of_class c l ++ [(c, id)].
Proof.
  induction l as [|y t IH]; intros Hs; cbn [insert_sorted fst].
  - cbn [of_class filter fst]. rewrite cls_eqb_refl. reflexivity.
  - inversion Hs as [|? ? Hst Hall]; subst.
    destruct (Nat.ltb_spec (rank c) (rank (fst y))) as [Hlt|Hge].
    + cbn [of_class filter fst]. rewrite cls_eqb_refl.
      assert (Hy : cls_eqb (fst y) c = false) by (unfold cls_eqb; apply Nat.eqb_neq; lia).
      rewrite Hy. fold (of_class c t). rewrite (of_class_nil_above c t); [reflexivity|].
      rewrite Forall_forall in *. intros z Hz. specialize (Hall z Hz). cbn in Hall. lia.
    + cbn [of_class filter]. fold (of_class c t). fold (of_class c (insert_sorted (c, id) t)).
      rewrite (IH Hst). destruct (cls_eqb (fst y) c); reflexivity.
Qed.
Lemma of_class_insert_other c x l : fst x <> c -> of_class c (insert_sorted x l) = of_class c l.
Proof.
  intros Hne. apply cls_eqb_neq in Hne.
  induction l as [|y t IH]; cbn [insert_sorted of_class filter]; [rewrite Hne; reflexivity|].
  destruct (Nat.ltb _ _); cbn [of_class filter]; [rewrite Hne; reflexivity|].
  fold (of_class c t). fold (of_class c (insert_sorted x t)). rewrite IH. reflexivity.
Qed.
Lemma of_class_clear_same c l : of_class c (clear c l) = [].
Proof.
  induction l as [|y t IH]; [reflexivity|]. cbn [clear filter]. fold (clear c t).
  destruct (cls_eqb (fst y) c) eqn:E; cbn [negb]; [exact IH|].
  cbn [of_class filter]. rewrite E. exact IH.
Qed.
Lemma of_class_clear_other c c' l : c <> c' -> of_class c (clear c' l) = of_class c l.
Proof.
  intros Hne. induction l as [|y t IH]; [reflexivity|]. cbn [clear filter of_class]. fold (clear c' t). fold (of_class c t).
  destruct (cls_eqb (fst y) c') eqn:E; cbn [negb].
  - apply cls_eqb_eq in E. assert (E2 : cls_eqb (fst y) c = false) by (apply cls_eqb_neq; congruence).
    rewrite E2. exact IH.
  - cbn [of_class filter]. fold (of_class c (clear c' t)). rewrite IH. reflexivity.
Qed.

Lemma of_class_step_ref c l id o : sorted l -> of_class c (step_ref l id o) = log_step c (of_class c l) id o.
Proof.
  intros Hs.
  assert (Hins : forall c', of_class c (insert_sorted (c', id) l)
                            = if cls_eqb c c' then of_class c l ++ [(c, id)] else of_class c l).
  { intros c'. destruct (cls_eqb c c') eqn:E.
    - apply cls_eqb_eq in E. subst c'. apply of_class_insert_same, Hs.
    - apply of_class_insert_other. cbn. apply cls_eqb_neq in E. congruence. }
  destruct o as [| | | | | |ca|cn|c'|]; cbn [step_ref log_step op_class]; try apply Hins.
  - destruct (cls_eqb c Fmt) eqn:E.
    + apply cls_eqb_eq in E. subst c. rewrite of_class_insert_same by (apply clear_sorted, Hs).
      rewrite of_class_clear_same. reflexivity.
    + apply cls_eqb_neq in E. rewrite of_class_insert_other by (cbn; congruence).
      apply of_class_clear_other, E.
  - destruct (cls_eqb c Fmt) eqn:E.
    + apply cls_eqb_eq in E. subst c. rewrite of_class_insert_same by (apply clear_sorted, Hs).
      rewrite of_class_clear_same. reflexivity.
    + apply cls_eqb_neq in E. rewrite of_class_insert_other by (cbn; congruence).
      apply of_class_clear_other, E.
  - destruct ca; cbn [step_ref log_step op_class]; try reflexivity; apply Hins.
  - reflexivity.
  - destruct (cls_eqb c c') eqn:E.
    + apply cls_eqb_eq in E. subst c'. apply of_class_clear_same.
    + apply cls_eqb_neq in E. apply of_class_clear_other, E.
  - reflexivity.
Qed.

(* a sorted list without generic handlers is the concatenation of its class parts *)
Lemma of_class_all_below c l : Forall (fun y => rank (fst y) < rank c) l -> of_class c l = [].
Proof.
  induction 1 as [|z t Hz _ IH]; [reflexivity|]. cbn [of_class filter]. fold (of_class c t).
  assert (E : cls_eqb (fst z) c = false) by (unfold cls_eqb; apply Nat.eqb_neq; lia).
  rewrite E; exact IH.
Qed.
Lemma of_class_cons c y t : of_class c (y :: t) = if cls_eqb (fst y) c then y :: of_class c t else of_class c t.
Proof. reflexivity. Qed.
Lemma sorted_decomp l : sorted l -> no_gen l ->
  l = of_class Attr l ++ of_class Filt l ++ of_class Fmt l ++ of_class Snk l ++ of_class Pipe l.
Proof.
  induction 1 as [|y t Hst IH Hall]; intros Hg; [reflexivity|].
  inversion Hg as [|? ? Hy Hgt]; subst. specialize (IH Hgt).
  assert (Hb : forall c, rank c < rank (fst y) -> of_class c t = []).
  { intros c Hc. apply of_class_nil_above. rewrite Forall_forall in *. intros z Hz.
    specialize (Hall z Hz). cbn in Hall. lia. }
  rewrite !of_class_cons.
  destruct y as [cy idy]; destruct cy; cbn [fst] in *; try contradiction;
    cbn [cls_eqb rank Nat.eqb];
    repeat match goal with
    | |- context [of_class ?c t] =>
        let H := fresh in assert (H : of_class c t = []) by (apply Hb; cbn; lia);
        rewrite H in IH |- *; clear H
    end; cbn [app] in *; f_equal; exact IH.
Qed.

(* ---- theorem 2: a complete characterisation of the list after any history ---- *)
Fixpoint run_ref_from (l : list hnd) (lastf : lasts) (id : nat) (ops : list op) : list hnd :=
  match ops with
  | [] => l
  | o :: t => run_ref_from (step_ref l (hid lastf id o) o) (next_lastf lastf id o) (S id) t
  end.

Lemma run_from_is_ref cfg : cfg_goodb cfg = true -> forall ops l lastf id, sorted l -> no_gen l ->
  run_from cfg l lastf id ops = run_ref_from l lastf id ops.
Proof.
  intros Hc. induction ops as [|o ops IH]; intros l lastf id Hs Hg; [reflexivity|].
  cbn [run_from run_ref_from]. rewrite typed_calls_are_insert_sorted by assumption.
  apply IH; [apply step_ref_sorted|apply step_ref_no_gen]; assumption.
Qed.
Lemma run_ref_inv : forall ops l lastf id, sorted l -> no_gen l ->
  sorted (run_ref_from l lastf id ops) /\ no_gen (run_ref_from l lastf id ops).
Proof.
  induction ops as [|o ops IH]; intros l lastf id Hs Hg; [split; assumption|].
  cbn [run_ref_from]. apply IH; [apply step_ref_sorted|apply step_ref_no_gen]; assumption.
Qed.
Lemma run_ref_class c : forall ops l lastf id, sorted l ->
  of_class c (run_ref_from l lastf id ops) = log_from c (of_class c l) lastf id ops.
Proof.
  induction ops as [|o ops IH]; intros l lastf id Hs; [reflexivity|].
  cbn [run_ref_from log_from]. rewrite IH by (apply step_ref_sorted; exact Hs).
  rewrite of_class_step_ref by exact Hs. reflexivity.
Qed.

Theorem run_is_spec cfg ops : cfg_goodb cfg = true -> run_cfg cfg ops = spec_list ops.
Proof.
  intros Hc. unfold run_cfg, spec_list, class_log.
  assert (Hs : sorted []) by constructor. assert (Hg : no_gen []) by constructor.
  rewrite run_from_is_ref by assumption.
  destruct (run_ref_inv ops [] no_lasts 0 Hs Hg) as [Hs' Hg'].
  rewrite (sorted_decomp _ Hs' Hg') at 1.
  rewrite !run_ref_class by exact Hs. reflexivity.
Qed.

Theorem sorted_inv cfg ops : cfg_goodb cfg = true -> sorted (run_cfg cfg ops) /\ no_gen (run_cfg cfg ops).
Proof.
  intros Hc. unfold run_cfg. rewrite run_from_is_ref by (assumption || constructor).
  apply run_ref_inv; constructor.
Qed.

(* ---- the class logs: insertion order, at most one formatter ---- *)
Definition ids_below (n : nat) (l : list hnd) : Prop := Forall (fun y => snd y < n) l.
(* the identity an operation inserts is the fresh one, or the recorded last object of its class *)
Lemma hid_cases lastf id o :
  hid lastf id o = id \/ (exists c, op_class o = Some c /\ lastf c = Some (hid lastf id o)).
Proof.
  unfold hid. destruct o as [| | | | | |ca|cn|c'|]; cbn [again_class op_class]; auto.
  - destruct (lastf Fmt) as [f|] eqn:E; [right; exists Fmt; auto|auto].
  - destruct ca; auto;
      match goal with |- context [lastf ?k] => destruct (lastf k) as [f|] eqn:E end; auto;
      right; eexists; (split; [reflexivity|exact E]).
Qed.
Definition LInv (c : cls) (lg : list hnd) (lastf : lasts) (id : nat) : Prop :=
  ids_increasing lg = true /\ ids_below id lg /\ (forall c' f, lastf c' = Some f -> f < id)
  /\ Forall (fun y => exists f, lastf c = Some f /\ snd y <= f) lg.
Lemma ids_increasing_snoc_le l x : ids_increasing l = true -> Forall (fun y => snd y <= snd x) l ->
  ids_increasing (l ++ [x]) = true.
Proof.
  induction l as [|a t IH]; intros Hi Hb; [reflexivity|].
  inversion Hb as [|? ? Ha Hbt]; subst. cbn [app ids_increasing] in *.
  apply andb_true_iff in Hi as [H1 H2]. rewrite (IH H2 Hbt), andb_true_r.
  destruct t as [|b t]; cbn [app]; [apply Nat.leb_le, Ha|exact H1].
Qed.
Lemma cls_eqb_true_eq a b : cls_eqb a b = true -> a = b.
Proof. apply cls_eqb_eq. Qed.
Lemma linv_step c lg lastf id o : LInv c lg lastf id ->
  LInv c (log_step c lg (hid lastf id o) o) (next_lastf lastf id o) (S id).
Proof.
  intros (Hi & Hb & Hl & Hm). set (h := hid lastf id o).
  assert (Hh : h <= id).
  { destruct (hid_cases lastf id o) as [E|(c0 & _ & E)]; fold h in E; [lia|]. specialize (Hl _ _ E). lia. }
  assert (Hb' : ids_below (S id) lg).
  { unfold ids_below in *. rewrite Forall_forall in *. intros y Hy. specialize (Hb y Hy). lia. }
  (* the lasts after the step stay below S id *)
  assert (Hl' : forall c' f, next_lastf lastf id o c' = Some f -> f < S id).
  { intros c' f. unfold next_lastf. destruct (op_class o) as [c0|]; [|intros E; specialize (Hl _ _ E); lia].
    destruct (cls_eqb c' c0); [intros E; injection E as <-; fold h; lia|intros E; specialize (Hl _ _ E); lia]. }
  (* old entries are below the new identity whenever the step appends to class c *)
  assert (Hle : op_class o = Some c -> Forall (fun y => snd y <= h) lg).
  { intros Ec. destruct (hid_cases lastf id o) as [E|(c0 & Ec0 & E)]; fold h in E.
    - rewrite E. unfold ids_below in Hb. rewrite Forall_forall in *. intros y Hy. specialize (Hb y Hy). lia.
    - rewrite Ec in Ec0. injection Ec0 as <-. rewrite Forall_forall in *. intros y Hy.
      destruct (Hm y Hy) as (f & Ef & Hf). rewrite E in Ef. injection Ef as <-. exact Hf. }
  (* the recorded last object of class c after the step *)
  assert (Hn_same : op_class o = Some c -> next_lastf lastf id o c = Some h).
  { intros Ec. unfold next_lastf. rewrite Ec, cls_eqb_refl. reflexivity. }
  assert (Hn_other : op_class o <> Some c -> next_lastf lastf id o c = lastf c).
  { intros Ec. unfold next_lastf. destruct (op_class o) as [c0|]; [|reflexivity].
    destruct (cls_eqb c c0) eqn:E; [|reflexivity]. apply cls_eqb_eq in E. subst c0. congruence. }
  assert (Hkeep : op_class o <> Some c -> LInv c lg (next_lastf lastf id o) (S id)).
  { intros Ec. repeat split; try assumption. rewrite (Hn_other Ec). exact Hm. }
  assert (Hnil : LInv c [] (next_lastf lastf id o) (S id)).
  { repeat split; try assumption; constructor. }
  assert (Hsnoc : op_class o = Some c -> LInv c (lg ++ [(c, h)]) (next_lastf lastf id o) (S id)).
  { intros Ec. specialize (Hle Ec). repeat split; try assumption.
    - apply ids_increasing_snoc_le; [exact Hi|exact Hle].
    - apply Forall_app. split; [exact Hb'|]. constructor; [cbn; lia|constructor].
    - apply Forall_app. split.
      + rewrite Forall_forall in *. intros y Hy. exists h. split; [apply Hn_same, Ec|apply Hle, Hy].
      + constructor; [|constructor]. exists h. split; [apply Hn_same, Ec|cbn; lia]. }
  assert (Hone : op_class o = Some Fmt -> c = Fmt -> LInv c [(Fmt, h)] (next_lastf lastf id o) (S id)).
  { intros Ec ->. repeat split; try assumption.
    - constructor; [cbn; lia|constructor].
    - constructor; [|constructor]. exists h. split; [apply Hn_same, Ec|cbn; lia]. }
  destruct o as [| | | | | |ca|cn|c'|]; cbn [log_step op_class] in *;
    try (destruct (cls_eqb c _) eqn:E;
         [apply cls_eqb_true_eq in E; subst; first [apply Hsnoc; reflexivity | apply Hone; reflexivity | exact Hnil]
         |apply cls_eqb_neq in E; apply Hkeep; congruence]);
    try exact Hnil; try (apply Hkeep; discriminate).
  (* AppendAgain ca *)
  destruct ca; cbn [log_step op_class] in *;
    try (apply Hkeep; discriminate);
    (destruct (cls_eqb c _) eqn:E;
      [apply cls_eqb_true_eq in E; subst; apply Hsnoc; reflexivity
      |apply cls_eqb_neq in E; apply Hkeep; congruence]).
Qed.
Lemma log_from_inv c : forall ops lg lastf id, LInv c lg lastf id ->
  ids_increasing (log_from c lg lastf id ops) = true.
Proof.
  induction ops as [|o ops IH]; intros lg lastf id H; [exact (proj1 H)|].
  cbn [log_from]. apply IH, linv_step, H.
Qed.
Theorem class_log_in_insertion_order c ops : ids_increasing (class_log c ops) = true.
Proof.
  apply log_from_inv. repeat split; try constructor. intros c' f E. discriminate.
Qed.

Lemma fmt_log_step lg id o : length lg <= 1 -> length (log_step Fmt lg id o) <= 1.
Proof.
  intros H. destruct o as [| | | | | |ca|cn|c'|]; cbn [log_step op_class]; try exact H;
    try (destruct ca; cbn [cls_eqb rank Nat.eqb]; exact H);
    try (destruct (cls_eqb Fmt _); [cbn; lia|exact H]); cbn; lia.
Qed.
Lemma fmt_log_from : forall ops lg lastf id, length lg <= 1 -> length (log_from Fmt lg lastf id ops) <= 1.
Proof.
  induction ops as [|o ops IH]; intros lg lastf id H; [exact H|]. cbn [log_from]. apply IH, fmt_log_step, H.
Qed.
Theorem at_most_one_formatter ops : length (class_log Fmt ops) <= 1.
Proof. apply fmt_log_from. cbn. lia. Qed.
Lemma log_from_class c : forall ops lg lastf id, Forall (fun y : hnd => fst y = c) lg ->
  Forall (fun y : hnd => fst y = c) (log_from c lg lastf id ops).
Proof.
  induction ops as [|o ops IH]; intros lg lastf id H; [exact H|]. cbn [log_from]. apply IH.
  destruct o as [| | | | | |ca|cn|c'|]; cbn [log_step op_class]; try (destruct (cls_eqb c _) eqn:E); try exact H;
    try (apply Forall_app; split; [exact H|constructor; [reflexivity|constructor]]); try constructor;
    try (apply cls_eqb_eq in E; subst c; reflexivity); try constructor.
  destruct ca; try exact H; (destruct (cls_eqb c _); [|exact H]);
    apply Forall_app; (split; [exact H|constructor; [reflexivity|constructor]]).
Qed.
Lemma class_log_class c ops : Forall (fun y => fst y = c) (class_log c ops).
Proof. apply log_from_class. constructor. Qed.

(* ---- theorem 3: the boolean oracle evaluated on implementation output is implied ---- *)
Lemma sortedb_sorted l : sorted l -> sortedb l = true.
Proof.
  induction 1 as [|y t Hst IH Hall]; [reflexivity|]. cbn [sortedb]. rewrite IH, andb_true_r.
  destruct t as [|z t]; [reflexivity|]. inversion Hall; subst. apply Nat.leb_le. assumption.
Qed.
Lemma of_class_gen_nil l : no_gen l -> of_class Gen l = [].
Proof.
  induction 1 as [|y t Hy _ IH]; [reflexivity|]. rewrite of_class_cons.
  assert (E : cls_eqb (fst y) Gen = false) by (apply cls_eqb_neq; exact Hy). rewrite E. exact IH.
Qed.
Lemma of_class_of_log c : c <> Gen -> forall ops, of_class c (spec_list ops) = class_log c ops.
Proof.
  intros Hc ops. unfold spec_list.
  assert (Hsame : forall l, Forall (fun y : hnd => fst y = c) l -> of_class c l = l).
  { induction 1 as [|y t Hy _ IH]; [reflexivity|]. rewrite of_class_cons, Hy, cls_eqb_refl, IH. reflexivity. }
  assert (Hoth : forall c' l, c' <> c -> Forall (fun y : hnd => fst y = c') l -> of_class c l = []).
  { intros c' l Hne. induction 1 as [|y t Hy _ IH]; [reflexivity|]. rewrite of_class_cons, Hy.
    assert (E : cls_eqb c' c = false) by (apply cls_eqb_neq; exact Hne). rewrite E. exact IH. }
  assert (Happ : forall a b, of_class c (a ++ b) = of_class c a ++ of_class c b).
  { intros a b. unfold of_class. apply filter_app. }
  rewrite !Happ.
  destruct c;
    repeat match goal with
    | |- context [of_class ?c (class_log ?c ops)] => rewrite (Hsame _ (class_log_class c ops))
    | |- context [of_class ?c (class_log ?c' ops)] =>
        rewrite (Hoth c' (class_log c' ops)) by (discriminate || apply class_log_class)
    end; rewrite ?app_nil_r; cbn [app]; try reflexivity.
  contradiction.
Qed.

Theorem oracle_holds cfg ops : cfg_goodb cfg = true -> prop_c17_b (run_cfg cfg ops) = true.
Proof.
  intros Hc. destruct (sorted_inv cfg ops Hc) as [Hs Hg]. unfold prop_c17_b.
  rewrite (sortedb_sorted _ Hs), (of_class_gen_nil _ Hg). cbn [length Nat.eqb andb].
  rewrite (run_is_spec cfg ops Hc).
  rewrite !of_class_of_log by discriminate.
  assert (H1 := at_most_one_formatter ops). apply Nat.leb_le in H1. unfold hnd in *. rewrite H1.
  cbn [forallb]. rewrite !of_class_of_log by discriminate.
  rewrite !class_log_in_insertion_order. reflexivity.
Qed.

(* ---- clearing removes exactly one class ---- *)
Theorem clear_removes_only_class c l :
  of_class c (clear c l) = [] /\ (forall c', c' <> c -> of_class c' (clear c l) = of_class c' l).
Proof. split; [apply of_class_clear_same|intros c' H; apply of_class_clear_other, H]. Qed.

(* ---- the shape the unrepaired code had: refuted ---- *)
Definition cfg_before_repair : sorted_cfg := {|
  nl_shape := SReversedRange; nr_shape := SReversedRange;
  p_attr := PNearLeft [Attr] [Filt; Fmt; Snk];
  p_filter := PNearLeft [Attr; Filt] [Fmt; Snk];
  p_formatter := PNearRight [Attr; Filt] [Snk];
  p_sink := PAppend; p_pipeline := PAppend; fmt_clears_first := true |}.
Theorem before_repair_refuted : exists ops, prop_c17_b (run_cfg cfg_before_repair ops) = false.
Proof. exists [AppendAttr; AppendFilter]. reflexivity. Qed.
(* with the searches repaired but the original class sets, pipelines still break the order *)
Theorem class_sets_without_pipeline_refuted :
  exists ops, prop_c17_b (run_cfg {| nl_shape := SBackward; nr_shape := SBackward;
      p_attr := PNearLeft [Attr] [Filt; Fmt; Snk]; p_filter := PNearLeft [Attr; Filt] [Fmt; Snk];
      p_formatter := PNearRight [Attr; Filt] [Snk]; p_sink := PAppend; p_pipeline := PAppend;
      fmt_clears_first := true |} ops) = false.
Proof. exists [AppendPipeline; AppendSink]. reflexivity. Qed.
