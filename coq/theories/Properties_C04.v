(* C04 — Stopping asynchronous logging drains every accepted message and terminates.
   Property theorems only; each is closed by [exact] of a lemma of ShutdownProofs.v.  They are about
   the model of ShutdownDefs.v (step / run / accept_shutdown / prop_c04_b / stuck_b), which is the
   one extracted to build/m_shutdown and run against recordings of the real library.  The model was
   written for [modelled_skeleton]; tools/s2c/shutdown.py re-reads the skeleton of the five
   functions from /repo/src/qtlogger/ownthreadhandler.h on every run (SrcShutdown.v). *)
From Coq Require Import List Arith.
Import ListNotations.
Require Import QtlVerif.ShutdownDefs QtlVerif.ShutdownProofs QtlVerif.SrcShutdown.

(* the code still has the shape the model was written for (resetOwnThread, moveToOwnThread, the
   destructor, process, Worker::customEvent) *)
Theorem C04_source_skeleton_is_the_modelled_one : src_skeleton = modelled_skeleton.
Proof. reflexivity. Qed.
Print Assumptions C04_source_skeleton_is_the_modelled_one.

(* 1. the invariant, after ANY action list (posts, worker steps, stops, moves, application death,
      in any order and number), with or without an application object, async on or off at start:
      accepted = delivered ++ in-hand ++ queued; pending counts the last two; no backlog without a
      worker; the mutex is held by the stop exactly at its test; a stop past its test has a worker,
      a completed one has none *)
Theorem C04_invariant : forall a w tr, Inv (run (init a w) tr).
Proof. exact run_inv. Qed.
Print Assumptions C04_invariant.

(* whenever no worker exists — in particular whenever a stop has completed — every message
   accepted so far has been delivered, in acceptance order *)
Theorem C04_drained_when_stopped : forall a w tr,
  let s := run (init a w) tr in worker s = false -> log s = accepted s.
Proof. exact drained_when_stopped. Qed.
Print Assumptions C04_drained_when_stopped.

Theorem C04_drained_when_reset_done : forall a w tr,
  let s := run (init a w) tr in rpc s = RDone -> worker s = false /\ log s = accepted s.
Proof. exact drained_when_reset_done. Qed.
Print Assumptions C04_drained_when_reset_done.

(* repeated start/stop cycles never touch a destroyed worker: without a worker no worker step is
   enabled, nothing is queued or counted for it *)
Theorem C04_no_worker_activity_after_stop : forall a w tr,
  let s := run (init a w) tr in worker s = false ->
  step s ATake = None /\ step s ADone = None /\ queue s = [] /\ inflight s = None /\ pending s = 0.
Proof. exact no_worker_activity_after_stop. Qed.
Print Assumptions C04_no_worker_activity_after_stop.

(* the repaired wake-up: a stop that finds no thread after its sleep returns without touching
   anything (two simultaneous stops themselves are outside this one-stop model; the check runs
   them against the direct oracles) *)
Theorem C04_wake_without_thread_returns : forall s s',
  worker s = false -> step s AResetWake = Some s' ->
  rpc s' = RDone /\ mtx s' = false /\ worker s' = false /\ queue s' = queue s /\ inflight s' = inflight s /\
  pending s' = pending s /\ log s' = log s /\ accepted s' = accepted s /\ app s' = app s.
Proof. exact wake_without_thread_returns. Qed.
Print Assumptions C04_wake_without_thread_returns.

(* 2. at all times and across any number of move/reset cycles the delivered list is a prefix of
      the accepted list: nothing twice, nothing reordered, nothing skipped *)
Theorem C04_log_prefix : forall a w tr,
  let s := run (init a w) tr in exists rest, accepted s = log s ++ rest.
Proof. exact log_prefix. Qed.
Print Assumptions C04_log_prefix.

Theorem C04_never_delivered_twice : forall a w tr,
  let s := run (init a w) tr in NoDup (accepted s) -> NoDup (log s).
Proof. exact never_twice. Qed.
Print Assumptions C04_never_delivered_twice.

(* a message logged while no worker exists (after a stop, or during one that has passed its test)
   is delivered by the caller at once; one logged while the worker exists — e.g. during the wait
   loop of a stop — is queued and counted, so the stop keeps waiting for it *)
Theorem C04_post_without_worker_is_synchronous : forall s m s',
  worker s = false -> step s (APost m) = Some s' ->
  log s' = log s ++ [m] /\ queue s' = queue s /\ pending s' = pending s.
Proof. exact post_without_worker_is_synchronous. Qed.
Print Assumptions C04_post_without_worker_is_synchronous.

Theorem C04_post_with_worker_is_queued : forall s m s',
  worker s = true -> step s (APost m) = Some s' ->
  queue s' = queue s ++ [m] /\ pending s' = S (pending s) /\ log s' = log s /\ rpc s' = rpc s.
Proof. exact post_with_worker_is_queued. Qed.
Print Assumptions C04_post_with_worker_is_queued.

(* never dropped: after any accepted post, whatever follows, a state without worker has it in the log *)
Theorem C04_accepted_is_never_dropped : forall s m s' tr,
  Inv s -> step s (APost m) = Some s' -> worker (run s' tr) = false -> In m (log (run s' tr)).
Proof. exact accepted_is_never_dropped. Qed.
Print Assumptions C04_accepted_is_never_dropped.

(* 3. termination with the application alive.
   Full-strength statement (NOT provable in the model, which has no clock and no scheduler):
     "every stop returns within a bounded real time".
   Proved instead: the measure 2|queue|+|in hand| strictly decreases with every worker step, a
   worker step is enabled whenever it is positive, the test with measure 0 completes the stop with
   log = accepted, the test with positive measure waits; and from any point of the wait loop the
   explicit schedule finish_schedule (<= measure + 2 enabled steps) completes the stop with
   everything accepted delivered.  Missing: fairness of the real scheduler, the 10 ms sleeps,
   wait(3000)/terminate(). *)
Theorem C04_worker_step_decreases : forall s a s',
  (a = ATake \/ a = ADone) -> step s a = Some s' -> mu s' < mu s.
Proof. exact worker_step_decreases. Qed.
Print Assumptions C04_worker_step_decreases.

Theorem C04_worker_step_enabled : forall s, Inv s -> app s = true -> worker s = true -> 0 < mu s ->
  exists a s', (a = ATake \/ a = ADone) /\ step s a = Some s'.
Proof. exact worker_step_enabled. Qed.
Print Assumptions C04_worker_step_enabled.

Theorem C04_check_finishes : forall s, Inv s -> rpc s = RCheck -> mu s = 0 ->
  exists s', step s AResetCheck = Some s' /\ rpc s' = RDone /\ worker s' = false /\ log s' = accepted s'.
Proof. exact check_finishes. Qed.
Print Assumptions C04_check_finishes.

Theorem C04_check_waits_for_backlog : forall s, Inv s -> rpc s = RCheck -> 0 < mu s ->
  exists s', step s AResetCheck = Some s' /\ rpc s' = RSleep /\ worker s' = worker s.
Proof. exact check_waits. Qed.
Print Assumptions C04_check_waits_for_backlog.

Theorem C04_reset_terminates_partial : forall s,
  Inv s -> app s = true -> rpc s = RCheck \/ rpc s = RSleep ->
  exists s', run_strict s (finish_schedule s) = Some s' /\ rpc s' = RDone /\ worker s' = false /\
             log s' = accepted s /\ accepted s' = accepted s /\ length (finish_schedule s) <= mu s + 2.
Proof. exact reset_terminates_partial. Qed.
Print Assumptions C04_reset_terminates_partial.

(* 4. Full-strength statement of the property: "a stop returns in bounded time, with or without a
   live QCoreApplication, with or without an event loop ever having run".  It is FALSE of the
   faithful model (and of the code: finding F5).  Refuted by a witness: one post, the application
   object goes away, the destructor's stop starts — no continuation whatsoever completes the stop,
   and the message is never delivered. *)
Theorem C04_stop_returns_without_app_refuted :
  exists s, (exists tr, s = run (init true true) tr) /\ rpc s = RCheck /\
            forall tr, rpc (run s tr) <> RDone /\ log (run s tr) <> accepted (run s tr).
Proof. exact reset_hangs_without_app. Qed.
Print Assumptions C04_stop_returns_without_app_refuted.

Theorem C04_stop_returns_with_no_app_ever_refuted :
  forall tr, rpc (run (run (init false true) [APost 0; AResetStart]) tr) <> RDone.
Proof. exact reset_hangs_with_no_app_ever. Qed.
Print Assumptions C04_stop_returns_with_no_app_ever_refuted.

(* the general form, used by the check to compare "the child timed out" with the model: from a
   state with a backlog, an idle worker and no application object, no stop ever completes *)
Theorem C04_stuck_forever : forall tr s, Inv s -> stuck_b s = true ->
  stuck_b (run s tr) = true /\ worker (run s tr) = true /\ rpc (run s tr) <> RDone.
Proof. exact stuck_forever. Qed.
Print Assumptions C04_stuck_forever.

(* 5. the tie: a recording accepted by the extracted acceptor is a run of the model in which every
   action was enabled, so it ends in a reachable state satisfying the invariant ... *)
Theorem C04_acceptor_sound : forall app0 w0 evs a,
  accept_shutdown app0 w0 evs = Accepted a ->
  (exists tr, run_strict (init app0 w0) tr = Some (ms a) /\ ms a = run (init app0 w0) tr) /\ Inv (ms a).
Proof. exact accept_sound. Qed.
Print Assumptions C04_acceptor_sound.

(* ... the deliveries the recording sink reported are a prefix of the posts the hooks reported ... *)
Theorem C04_accepted_recording_delivers_a_prefix : forall app0 w0 evs a,
  accept_shutdown app0 w0 evs = Accepted a -> exists rest, accepted (ms a) = obs a ++ rest.
Proof. exact accept_obs_prefix. Qed.
Print Assumptions C04_accepted_recording_delivers_a_prefix.

(* ... and a recording that reaches the end of static destruction has delivered everything *)
Theorem C04_accepted_recording_is_complete_at_exit : forall app0 w0 evs a,
  accept_shutdown app0 w0 (evs ++ [EExit]) = Accepted a -> obs a = accepted (ms a) /\ worker (ms a) = false.
Proof. exact accept_exit_complete. Qed.
Print Assumptions C04_accepted_recording_is_complete_at_exit.

(* the boolean oracle the check evaluates on the implementation's (posted, delivered, stopped) *)
Theorem C04_oracle_holds : forall a w tr,
  let s := run (init a w) tr in prop_c04_b (accepted s) (log s) (negb (worker s)) = true.
Proof. exact oracle_holds. Qed.
Print Assumptions C04_oracle_holds.

(* non-vacuity: two move/reset cycles with a post during the wait loop and a post after the stop;
   everything is delivered once, in order, and both stops complete *)
Example C04_nonvacuous :
  let s := run (init true false)
    [AMove; APost 0; APost 1; ATake; AResetStart; AResetCheck; APost 2; ADone; ATake; AResetWake;
     AResetCheck; ADone; ATake; ADone; AResetWake; AResetCheck; APost 3; AMove; APost 4; AResetStart;
     AResetCheck; ATake; ADone; AResetWake; AResetCheck; AAppDie; AResetStart] in
  log s = [0; 1; 2; 3; 4] /\ accepted s = [0; 1; 2; 3; 4] /\ rpc s = RDone /\ worker s = false /\ pending s = 0.
Proof. vm_compute. repeat split. Qed.

(* non-vacuity of the acceptor: a recording of one asynchronous and one synchronous delivery *)
Example C04_acceptor_nonvacuous :
  match accept_shutdown true false
    [EMove; EPost 0; EReturned 0; ETake; EResetLocked; EResetWaiting; EDeliver 0 false; EDone;
     EResetQuit; EStopEnd; EPost 1; EDeliver 1 true; EReturned 1; EAppGone; EExit] with
  | Accepted a => obs a = [0; 1] /\ accepted (ms a) = [0; 1]
  | Rejected _ _ => False
  end.
Proof. vm_compute. split; reflexivity. Qed.

(* and it does reject: the stop quits the thread while message 0 is still queued *)
Example C04_acceptor_rejects_early_quit :
  match accept_shutdown true true [EPost 0; EResetLocked; EResetQuit] with
  | Accepted _ => False
  | Rejected k _ => k = 2
  end.
Proof. vm_compute. reflexivity. Qed.
