(* C04 — Stopping asynchronous logging drains every accepted message and terminates.
   Property theorems only; each is closed by [exact] of a lemma of ShutdownProofs.v.  They are about
   the model of ShutdownDefs.v (step / run / accept_shutdown / prop_c04_b / stuck_b) — any number of
   threads inside resetOwnThread at once — which is the one extracted to build/m_shutdown and run
   against recordings of the real library.  tools/s2c/shutdown.py re-reads the skeleton of the five
   functions from /repo/src/qtlogger/ownthreadhandler.h on every run (SrcShutdown.v); the model's
   two code-dependent switches (re-test of the thread after the relock; decrement of the pending
   count whatever the wrapped handler returned) are COMPUTED from it. *)
From Coq Require Import List Arith.
Import ListNotations.
From Coq Require Import ZArith.
Require Import QtlVerif.ShutdownDefs QtlVerif.ShutdownProofs QtlVerif.SrcShutdown.
Require Import QtlVerif.ShutdownCounterDefs QtlVerif.ShutdownCounterProofs.

(* the code still has the shape the model was written for (resetOwnThread, moveToOwnThread, the
   destructor, process, Worker::customEvent) *)
Theorem C04_source_skeleton_is_the_modelled_one : src_skeleton = modelled_skeleton.
Proof. reflexivity. Qed.
Print Assumptions C04_source_skeleton_is_the_modelled_one.

(* the wait loop of the source re-tests `if (!m_thread) return;` after re-locking *)
Theorem C04_source_rechecks_thread_after_relock : rechecks_after_relock src_skeleton = true.
Proof. reflexivity. Qed.
Print Assumptions C04_source_rechecks_thread_after_relock.
Definition rc_src := rechecks_after_relock src_skeleton.

(* Worker::customEvent discards the result of the wrapped handler: the decrement follows the call
   unconditionally *)
Theorem C04_source_decrements_whatever_the_handler_returns : dec_unconditional src_skeleton = true.
Proof. reflexivity. Qed.
Print Assumptions C04_source_decrements_whatever_the_handler_returns.
Definition du_src := dec_unconditional src_skeleton.

(* 1. the invariant, after ANY action list (posts, worker steps, stops by any of k stopper threads,
      moves, application death, in any order and number), with or without an application object,
      async on or off at start: accepted = delivered ++ in-hand ++ queued; pending counts the last
      two; no backlog without a worker; mutex discipline (held exactly when one stopper is between
      lock and unlock, at most one is; sleepers hold nothing); a stopper holding the mutex has a
      thread; a returned stop means no worker; no stopper ever acted on a cleared thread *)
Theorem C04_invariant : forall a w k tr, Inv (run rc_src du_src (init a w k) tr).
Proof. exact run_inv. Qed.
Print Assumptions C04_invariant.

Theorem C04_stops_mutually_exclusive : forall a w k tr,
  let s := run rc_src du_src (init a w k) tr in cc (stops s) <= 1 /\ (mtx s = true <-> In RCheck (stops s)).
Proof. exact stops_mutually_exclusive. Qed.
Print Assumptions C04_stops_mutually_exclusive.

(* whenever no worker exists — in particular whenever a stop has completed — every message
   accepted so far has been delivered, in acceptance order *)
Theorem C04_drained_when_stopped : forall a w k tr,
  let s := run rc_src du_src (init a w k) tr in worker s = false -> log s = accepted s.
Proof. exact drained_when_stopped. Qed.
Print Assumptions C04_drained_when_stopped.

(* whenever the stop call of ANY stopper has returned (before async mode is switched on again) *)
Theorem C04_drained_when_reset_done : forall a w k tr,
  let s := run rc_src du_src (init a w k) tr in In RDone (stops s) -> worker s = false /\ log s = accepted s.
Proof. exact drained_when_reset_done. Qed.
Print Assumptions C04_drained_when_reset_done.

(* repeated start/stop cycles never touch a destroyed worker: without a worker no worker step is
   enabled, nothing is queued or counted for it *)
Theorem C04_no_worker_activity_after_stop : forall a w k tr,
  let s := run rc_src du_src (init a w k) tr in worker s = false ->
  step rc_src du_src s ATake = None /\ (forall ok, step rc_src du_src s (ADone ok) = None) /\ queue s = [] /\ inflight s = None /\ pending s = 0.
Proof. exact no_worker_activity_after_stop. Qed.
Print Assumptions C04_no_worker_activity_after_stop.

(* switching asynchronous mode on AGAIN while it is on (a second configure(async=true)) changes
   nothing: not the queued backlog, not the pending count, not the stoppers *)
Theorem C04_move_again_is_idempotent : forall s,
  worker s = true -> (mtx s = false -> step rc_src du_src s AMove = Some s) /\ (forall s', step rc_src du_src s AMove = Some s' -> s' = s).
Proof. exact (move_again_is_idempotent rc_src du_src). Qed.
Print Assumptions C04_move_again_is_idempotent.

Theorem C04_move_again_changes_nothing : forall s tr,
  worker s = true -> run rc_src du_src s (AMove :: tr) = run rc_src du_src s tr.
Proof. exact (move_again_changes_nothing rc_src du_src). Qed.
Print Assumptions C04_move_again_changes_nothing.

(* CONCURRENT STOPS.  For every number k of stopper threads and every interleaving with producers,
   worker, moves and application death: no stopper is ever in the error state (= has executed
   m_thread->quit() on a cleared thread), and the quit/wait/clear step is only ever enabled while
   a thread exists *)
Theorem C04_concurrent_stops_safe : forall a w k tr,
  let s := run rc_src du_src (init a w k) tr in
  errorb s = false /\
  (forall i s', step rc_src du_src s (AResetCheck i) = Some s' -> worker s = true /\ errorb s' = false).
Proof. exact concurrent_stops_safe. Qed.
Print Assumptions C04_concurrent_stops_safe.

(* the repaired wake-up, for an arbitrary state: a stopper that finds no thread after its sleep
   returns without taking the mutex or touching anything *)
Theorem C04_wake_without_thread_returns : forall s i s',
  worker s = false -> step rc_src du_src s (AResetWake i) = Some s' ->
  nth_error (stops s') i = Some RDone /\ mtx s' = false /\ worker s' = false /\ queue s' = queue s /\
  inflight s' = inflight s /\ pending s' = pending s /\ log s' = log s /\ accepted s' = accepted s /\ app s' = app s.
Proof. exact wake_without_thread_returns. Qed.
Print Assumptions C04_wake_without_thread_returns.

(* ... and why the re-test matters: with the skeleton as it was before commit a579b9f the switch
   computes to false, and two stoppers reach the error step (both start with one message queued,
   both go to sleep, the worker delivers, the first wakes and clears the thread, the second wakes,
   takes the mutex and quits a cleared thread) *)
Theorem C04_concurrent_stops_refuted_before_repair :
  rechecks_after_relock pre_repair_skeleton = false /\
  exists s, run_strict (rechecks_after_relock pre_repair_skeleton) du_src (init true true 2) two_stops_schedule = Some s
            /\ errorb s = true /\ worker s = false.
Proof. exact concurrent_stops_refuted_before_repair. Qed.
Print Assumptions C04_concurrent_stops_refuted_before_repair.

(* 2. at all times and across any number of move/reset cycles the delivered list is a prefix of
      the accepted list: nothing twice, nothing reordered, nothing skipped *)
Theorem C04_log_prefix : forall a w k tr,
  let s := run rc_src du_src (init a w k) tr in exists rest, accepted s = log s ++ rest.
Proof. exact log_prefix. Qed.
Print Assumptions C04_log_prefix.

Theorem C04_never_delivered_twice : forall a w k tr,
  let s := run rc_src du_src (init a w k) tr in NoDup (accepted s) -> NoDup (log s).
Proof. exact never_twice. Qed.
Print Assumptions C04_never_delivered_twice.

(* a message logged while no worker exists is delivered by the caller at once; one logged while the
   worker exists — e.g. during the wait loop of a stop — is queued and counted *)
Theorem C04_post_without_worker_is_synchronous : forall s m s',
  worker s = false -> step rc_src du_src s (APost m) = Some s' ->
  log s' = log s ++ [m] /\ queue s' = queue s /\ pending s' = pending s.
Proof. exact (post_without_worker_is_synchronous rc_src du_src). Qed.
Print Assumptions C04_post_without_worker_is_synchronous.

Theorem C04_post_with_worker_is_queued : forall s m s',
  worker s = true -> step rc_src du_src s (APost m) = Some s' ->
  queue s' = queue s ++ [m] /\ pending s' = S (pending s) /\ log s' = log s /\ stops s' = stops s.
Proof. exact (post_with_worker_is_queued rc_src du_src). Qed.
Print Assumptions C04_post_with_worker_is_queued.

Theorem C04_accepted_is_never_dropped : forall s m s' tr,
  Inv s -> step rc_src du_src s (APost m) = Some s' -> worker (run rc_src du_src s' tr) = false -> In m (log (run rc_src du_src s' tr)).
Proof. exact accepted_is_never_dropped. Qed.
Print Assumptions C04_accepted_is_never_dropped.

(* 3. termination with the application alive.
   Full-strength statement (NOT provable in the model, which has no clock and no scheduler):
     "every stop returns within a bounded real time".
   Proved instead: the measure 2|queue|+|in hand| strictly decreases with every worker step, a
   worker step is enabled whenever it is positive, the test with measure 0 completes the stop with
   log = accepted, the test with positive measure waits; and from ANY reachable state — any number
   of stoppers anywhere in resetOwnThread — a schedule of at most mu + sm enabled steps (sm = 2 per
   sleeping + 1 per mutex-holding stopper) brings EVERY stopper out of resetOwnThread with
   everything accepted delivered and no error.  Missing: fairness of the real scheduler, the 10 ms
   sleeps, wait(3000)/terminate(). *)
Theorem C04_worker_step_decreases : forall s a s',
  (a = ATake \/ exists ok, a = ADone ok) -> step rc_src du_src s a = Some s' -> mu s' < mu s.
Proof. exact (worker_step_decreases rc_src du_src). Qed.
Print Assumptions C04_worker_step_decreases.

Theorem C04_worker_step_enabled : forall s, Inv s -> app s = true -> 0 < mu s ->
  exists a s', (a = ATake \/ exists ok, a = ADone ok) /\ step rc_src du_src s a = Some s'.
Proof. exact worker_step_enabled. Qed.
Print Assumptions C04_worker_step_enabled.

Theorem C04_check_finishes : forall s i, Inv s -> nth_error (stops s) i = Some RCheck -> mu s = 0 ->
  exists s', step rc_src du_src s (AResetCheck i) = Some s' /\ nth_error (stops s') i = Some RDone /\ worker s' = false /\
             mtx s' = false /\ log s' = accepted s'.
Proof. exact check_finishes. Qed.
Print Assumptions C04_check_finishes.

Theorem C04_check_waits_for_backlog : forall s i, Inv s -> nth_error (stops s) i = Some RCheck -> 0 < mu s ->
  exists s', step rc_src du_src s (AResetCheck i) = Some s' /\ nth_error (stops s') i = Some RSleep /\ worker s' = true /\ mtx s' = false.
Proof. exact check_waits. Qed.
Print Assumptions C04_check_waits_for_backlog.

Theorem C04_all_stops_terminate_partial : forall s,
  Inv s -> app s = true ->
  exists tr s', run_strict rc_src du_src s tr = Some s' /\ (forall r, In r (stops s') -> is_active r = false) /\
                log s' = accepted s' /\ accepted s' = accepted s /\ errorb s' = false /\
                length tr <= mu s + sm (stops s).
Proof. exact all_stops_terminate_partial. Qed.
Print Assumptions C04_all_stops_terminate_partial.

(* 4. Full-strength statement of the property: "a stop returns in bounded time, with or without a
   live QCoreApplication, with or without an event loop ever having run".  It is FALSE of the
   faithful model (and of the code: finding F5).  Refuted by a witness: one post, the application
   object goes away, the destructor's stop starts — no continuation whatsoever lets any stop call
   return, and the message is never delivered. *)
Theorem C04_stop_returns_without_app_refuted :
  exists s, (exists tr, s = run rc_src du_src (init true true 1) tr) /\ In RCheck (stops s) /\
            forall tr, ~ In RDone (stops (run rc_src du_src s tr)) /\ log (run rc_src du_src s tr) <> accepted (run rc_src du_src s tr).
Proof. exact reset_hangs_without_app. Qed.
Print Assumptions C04_stop_returns_without_app_refuted.

Theorem C04_stop_returns_with_no_app_ever_refuted :
  forall tr, ~ In RDone (stops (run rc_src du_src (run rc_src du_src (init false true 1) [APost 0; AResetStart 0]) tr)).
Proof. exact reset_hangs_with_no_app_ever. Qed.
Print Assumptions C04_stop_returns_with_no_app_ever_refuted.

(* the general form, used by the check to compare "the child timed out" with the model *)
Theorem C04_stuck_forever : forall tr s, Inv s -> stuck_b s = true ->
  stuck_b (run rc_src du_src s tr) = true /\ worker (run rc_src du_src s tr) = true /\ ~ In RDone (stops (run rc_src du_src s tr)).
Proof. exact stuck_forever. Qed.
Print Assumptions C04_stuck_forever.

(* 4b. REJECTING HANDLERS.  OwnThreadHandler<> may wrap any Handler, and process() of a filter-like
   handler (Filter, FunctionHandler, a custom Handler) returns false for a message it rejects.  The
   verdict is an input of the model (ADone ok), so every theorem above already holds for every
   sequence of verdicts; in particular a rejected message is counted down exactly like any other,
   the verdicts can be replaced by `true` in any history without changing the run, and no reachable
   state has a leaked count *)
Theorem C04_done_ignores_verdict : forall s ok, step rc_src du_src s (ADone ok) = step rc_src du_src s (ADone true).
Proof. exact (done_ignores_verdict rc_src). Qed.
Print Assumptions C04_done_ignores_verdict.

Theorem C04_rejected_message_is_counted_down : forall s ok s', step rc_src du_src s (ADone ok) = Some s' ->
  exists m, inflight s = Some m /\ inflight s' = None /\ pending s' = pred (pending s) /\
            log s' = log s ++ [m] /\ queue s' = queue s /\ accepted s' = accepted s /\ stops s' = stops s.
Proof. exact (rejected_is_counted_down rc_src). Qed.
Print Assumptions C04_rejected_message_is_counted_down.

Theorem C04_verdicts_are_irrelevant : forall tr s,
  run rc_src du_src s (map (fun a => match a with ADone _ => ADone true | x => x end) tr) = run rc_src du_src s tr.
Proof. exact (run_done_verdicts_irrelevant rc_src). Qed.
Print Assumptions C04_verdicts_are_irrelevant.

Theorem C04_pending_count_never_leaks : forall a w k tr, leaked_b (run rc_src du_src (init a w k) tr) = false.
Proof. exact never_leaks. Qed.
Print Assumptions C04_pending_count_never_leaks.

(* ... and why it matters: were customEvent to return early, before the decrement, when the handler
   rejects (early_return_skeleton; the switch computes to false), then after accept / reject / accept
   with everything handled (log = accepted, nothing queued or in hand, application alive) a stop
   that has begun can never return, whatever happens next *)
Theorem C04_stop_after_rejection_refuted_if_decrement_conditional :
  dec_unconditional early_return_skeleton = false /\
  exists s, run_strict true (dec_unconditional early_return_skeleton) (init true true 1) rejecting_schedule = Some s /\
            log s = accepted s /\ queue s = [] /\ inflight s = None /\ app s = true /\ In RCheck (stops s) /\
            forall rc tr, leaked_b (run rc false s tr) = true /\ ~ In RDone (stops (run rc false s tr)).
Proof. exact stop_after_rejection_hangs_if_decrement_conditional. Qed.
Print Assumptions C04_stop_after_rejection_refuted_if_decrement_conditional.

(* the general form, used by the check to compare "the child timed out" with the model: a leaked
   count stays leaked and no stop returns, for either value of either switch *)
Theorem C04_leak_forever : forall rc du tr s, leaked_b s = true /\ ~ In RDone (stops s) ->
  leaked_b (run rc du s tr) = true /\ ~ In RDone (stops (run rc du s tr)).
Proof. exact leak_forever. Qed.
Print Assumptions C04_leak_forever.

(* 5. the tie: a recording (of one or several stopper threads) accepted by the extracted acceptor is
   a run of the model in which every action was enabled, so it ends in a reachable state
   satisfying the invariant, without error ... *)
Theorem C04_acceptor_sound : forall app0 w0 k evs a,
  accept_shutdown rc_src du_src app0 w0 k evs = Accepted a ->
  (exists tr, run_strict rc_src du_src (init app0 w0 k) tr = Some (ms a) /\ ms a = run rc_src du_src (init app0 w0 k) tr)
  /\ Inv (ms a) /\ errorb (ms a) = false.
Proof. exact accept_sound. Qed.
Print Assumptions C04_acceptor_sound.

(* ... the deliveries the recording sink reported are a prefix of the posts the hooks reported ... *)
Theorem C04_accepted_recording_delivers_a_prefix : forall app0 w0 k evs a,
  accept_shutdown rc_src du_src app0 w0 k evs = Accepted a -> exists rest, accepted (ms a) = obs a ++ rest.
Proof. exact accept_obs_prefix. Qed.
Print Assumptions C04_accepted_recording_delivers_a_prefix.

(* ... and a recording that reaches the end of static destruction has delivered everything *)
Theorem C04_accepted_recording_is_complete_at_exit : forall app0 w0 k evs a,
  accept_shutdown rc_src du_src app0 w0 k (evs ++ [EExit]) = Accepted a -> obs a = accepted (ms a) /\ worker (ms a) = false.
Proof. exact (accept_exit_complete rc_src du_src). Qed.
Print Assumptions C04_accepted_recording_is_complete_at_exit.

(* the boolean oracle the check evaluates on the implementation's (posted, delivered, stopped) *)
Theorem C04_oracle_holds : forall a w k tr,
  let s := run rc_src du_src (init a w k) tr in prop_c04_b (accepted s) (log s) (negb (worker s)) = true.
Proof. exact oracle_holds. Qed.
Print Assumptions C04_oracle_holds.

(* non-vacuity: two move/reset cycles with a post during the wait loop and a post after the stop;
   everything is delivered once, in order, and both stops complete *)
Example C04_nonvacuous :
  let s := run rc_src du_src (init true false 1)
    [AMove; APost 0; APost 1; ATake; AResetStart 0; AResetCheck 0; APost 2; ADone true; ATake; AResetWake 0;
     AResetCheck 0; ADone false; ATake; ADone true; AResetWake 0; AResetCheck 0; APost 3; AMove; APost 4; AResetStart 0;
     AResetCheck 0; ATake; ADone true; AResetWake 0; AResetCheck 0; AAppDie; AResetStart 0] in
  log s = [0; 1; 2; 3; 4] /\ accepted s = [0; 1; 2; 3; 4] /\ stops s = [RDone] /\ worker s = false /\ pending s = 0.
Proof. vm_compute. repeat split. Qed.

(* non-vacuity of the concurrent case: the schedule that crashes the pre-repair code is harmless
   now — the second stopper finds no thread and returns; both stops are done, message delivered *)
Example C04_two_stops_nonvacuous :
  match run_strict rc_src du_src (init true true 2) two_stops_schedule with
  | Some _ => False   (* its last step, the second AResetCheck 1, is no longer enabled ... *)
  | None => let s := run rc_src du_src (init true true 2) two_stops_schedule in
            stops s = [RDone; RDone] /\ log s = [0] /\ worker s = false /\ errorb s = false
  end.
Proof. vm_compute. repeat split. Qed.

(* non-vacuity of the acceptor: one asynchronous and one synchronous delivery; two stoppers, the
   second of which wakes up to find no thread *)
Example C04_acceptor_nonvacuous :
  match accept_shutdown rc_src du_src true false 2
    [EMove; EPost 0; EReturned 0; ETake; EResetLocked 0; EResetWaiting 0; EResetLocked 1; EResetWaiting 1;
     EDeliver 0 false; EDone true; EResetQuit 0; EStopEnd 0; EStopEnd 1; EPost 1; EDeliver 1 true; EReturned 1;
     EAppGone; EExit] with
  | Accepted a => obs a = [0; 1] /\ accepted (ms a) = [0; 1] /\ stops (ms a) = [RDone; RDone]
  | Rejected _ _ => False
  end.
Proof. vm_compute. repeat split. Qed.

(* and it does reject: the stop quits the thread while message 0 is still queued *)
Example C04_acceptor_rejects_early_quit :
  match accept_shutdown rc_src du_src true true 1 [EPost 0; EResetLocked 0; EResetQuit 0] with
  | Accepted _ => False
  | Rejected k _ => k = 2
  end.
Proof. vm_compute. reflexivity. Qed.

(* non-vacuity of the rejecting case: the schedule that hangs a stop under the early-return skeleton
   (accept, reject, accept, stop) completes under the source's: pending is 0, the stop returns *)
Example C04_rejecting_nonvacuous :
  match run_strict rc_src du_src (init true true 1) (rejecting_schedule ++ [AResetCheck 0]) with
  | Some s => stops s = [RDone] /\ log s = [0; 1; 2] /\ pending s = 0 /\ worker s = false /\ leaked_b s = false
  | None => False
  end.
Proof. vm_compute. repeat split. Qed.

(* and the acceptor follows a recording of it (bare handler: accept, reject, accept, reset), while
   under the early-return switch the same recording is not a run: the stop cannot reach its quit *)
Example C04_acceptor_rejecting_nonvacuous :
  let rec := [EPost 0; EReturned 0; EPost 1; EReturned 1; EPost 2; EReturned 2; ETake; EDeliver 0 false; EDone true;
              ETake; EDeliver 1 false; EDone false; ETake; EDeliver 2 false; EDone true; EResetLocked 0; EResetQuit 0; EStopEnd 0] in
  match accept_shutdown rc_src du_src true true 1 rec, accept_shutdown rc_src false true true 1 rec with
  | Accepted a, Rejected k _ => obs a = [0; 1; 2] /\ stops (ms a) = [RDone] /\ k = 16
  | _, _ => False
  end.
Proof. vm_compute. repeat split. Qed.

(* ---- "all backlog sizes": the width of the pending counter ---------------------------------------------------------
   The model keeps [pending : nat] and the stop tests [0 <? pending] (AResetCheck).  The code keeps m_pendingCount in a
   signed machine integer of [src_counter_bits] bits (translated from the member's declared type) and tests
   `loadAcquire() > 0`.  Within the capacity of the counter the two tests are THE SAME test, for every width: *)
Theorem C04_counter_test_is_model_test : forall bits n,
  BinInt.Z.le (BinInt.Z.of_nat n) (counter_capacity bits) -> drain_test bits n = Nat.ltb 0 n.
Proof. exact drain_test_faithful. Qed.
Print Assumptions C04_counter_test_is_model_test.
(* the counter of the source covers every backlog below 2^31 messages (each queued message is a heap-allocated event of
   well over 100 bytes: more than that cannot be queued) *)
Theorem C04_src_counter_covers_every_backlog : forall n,
  BinInt.Z.le (BinInt.Z.of_nat n) 2147483647%Z -> drain_test src_counter_bits n = Nat.ltb 0 n.
Proof. exact (fun n H => drain_test_faithful src_counter_bits n H). Qed.
Print Assumptions C04_src_counter_covers_every_backlog.
(* and the capacity matters: with a 16-bit counter a backlog of 40 000 messages (+1 in hand) reads negative, the drain
   loop is not entered although 40 001 messages are pending - the stop quits the thread over the whole backlog; around a
   multiple of 65 536 it reads zero *)
Theorem C04_narrow_counter_refuted :
  drain_test 16 (BinInt.Z.to_nat 40001%Z) = false /\ Nat.ltb 0 (BinInt.Z.to_nat 40001%Z) = true /\
  drain_test 16 (BinInt.Z.to_nat 32767%Z) = true /\ drain_test 16 (BinInt.Z.to_nat 32768%Z) = false /\
  drain_test 16 (BinInt.Z.to_nat 65536%Z) = false /\ counter_covers 16 40001%Z = false /\
  counter_covers src_counter_bits 40001%Z = true.
Proof. vm_compute. repeat split; reflexivity. Qed.
Print Assumptions C04_narrow_counter_refuted.
