(* C02 — lemmas.  Part 1: facts about accepted traces (the acceptor is sound for the trace-level
   statements of the property).  Part 2: static facts about bracketed skeletons.  Part 3: the
   interleaving invariant — every run of every bracketed skeleton, for any number of threads and any
   schedule, is simulated by the acceptor (refinement), hence has the trace-level properties. *)
From Coq Require Import List Arith Bool Lia.
Import ListNotations.
Require Import QtlVerif.ConcDefs.

Lemma mutex_eqb_spec a b : reflect (a = b) (mutex_eqb a b).
Proof. destruct a, b; cbn; constructor; congruence. Qed.
Lemma upd_same {A} (f : nat -> A) t v : upd f t v t = v.
Proof. unfold upd; rewrite Nat.eqb_refl; reflexivity. Qed.
Lemma upd_other {A} (f : nat -> A) t v t' : t' <> t -> upd f t v t' = f t'.
Proof. intros H; unfold upd. destruct (Nat.eqb_spec t' t); [contradiction|reflexivity]. Qed.
Lemma updm_same {A} (f : mutex -> A) m v : updm f m v m = v.
Proof. unfold updm. destruct m; reflexivity. Qed.
Lemma updm_other {A} (f : mutex -> A) m v m' : m' <> m -> updm f m v m' = f m'.
Proof. intros H. unfold updm. destruct (mutex_eqb_spec m' m); [contradiction|reflexivity]. Qed.

(* ------------------------------------------------------------------ Part 1: accepted traces *)
Lemma delivs_app a b : delivs (a ++ b) = delivs a ++ delivs b.
Proof. induction a as [|[t i|t i sq] a IH]; cbn; [reflexivity|exact IH|rewrite IH; reflexivity]. Qed.
Lemma of_thread_app t a b : of_thread t (a ++ b) = of_thread t a ++ of_thread t b.
Proof. apply filter_app. Qed.
Lemma paired_app a b : paired (a ++ b) = paired a ++ paired b.
Proof. apply flat_map_app. Qed.
Lemma seq0_S k : seq 0 (S k) = seq 0 k ++ [k].
Proof. rewrite seq_S. reflexivity. Qed.

Section Acceptor.
Variable quota : nat -> nat.
Variable n : nat.

Record AInv (tr : list event) (a : astate) : Prop := {
  v_seq : map e_seq (delivs tr) = seq 0 (a_cnt a);
  v_thr : forall t, map e_idx (of_thread t (delivs tr)) = seq 0 (a_next a t);
  v_alt : tr = paired (delivs tr) ++ match a_in a with Some (t, i) => [EEnter t i] | None => [] end;
  v_le : forall t, a_next a t <= quota t;
  v_n : forall t, n <= t -> a_next a t = 0;
  v_in : forall t i, a_in a = Some (t, i) -> i = a_next a t /\ i < quota t /\ t < n
}.

Lemma a0_ainv : AInv [] a0.
Proof. constructor; cbn; intros; try reflexivity; try lia; discriminate. Qed.

Lemma astep_ainv tr a e a' : AInv tr a -> astep quota n a e = Some a' -> AInv (tr ++ [e]) a'.
Proof.
  intros [Hs Ht Ha Hl Hn Hi] H. destruct e as [t i|t i sq]; cbn [astep] in H.
  - destruct (a_in a) as [[t0 i0]|] eqn:Ein; [discriminate|].
    destruct (Nat.ltb_spec t n); cbn [andb] in H; [|discriminate].
    destruct (Nat.eqb_spec i (a_next a t)); cbn [andb] in H; [|discriminate].
    destruct (Nat.ltb_spec i (quota t)); [|discriminate]. injection H as <-.
    constructor; cbn [a_in a_cnt a_next]; rewrite ?delivs_app; cbn [delivs]; rewrite ?app_nil_r; auto.
    + rewrite app_nil_r in Ha. f_equal. exact Ha.
    + intros t' i' E. injection E as <- <-. auto.
  - destruct (a_in a) as [[t0 i0]|] eqn:Ein; [|discriminate].
    destruct (Nat.eqb_spec t t0); cbn [andb] in H; [|discriminate].
    destruct (Nat.eqb_spec i i0); cbn [andb] in H; [|discriminate].
    destruct (Nat.eqb_spec sq (a_cnt a)); [|discriminate]. injection H as <-. subst t0 i0 sq.
    destruct (Hi t i eq_refl) as (Ei & Hlt & Htn).
    constructor; cbn [a_in a_cnt a_next]; rewrite ?delivs_app; cbn [delivs].
    + rewrite map_app, Hs, seq0_S. reflexivity.
    + intros t'. rewrite of_thread_app, map_app, Ht. cbn [of_thread filter e_tid fst].
      destruct (Nat.eq_dec t' t) as [->|Hne].
      * rewrite upd_same, Nat.eqb_refl, seq0_S, <- Ei. reflexivity.
      * rewrite upd_other by exact Hne. destruct (Nat.eqb_spec t t'); [congruence|]. cbn. rewrite app_nil_r. reflexivity.
    + rewrite paired_app. cbn. rewrite app_nil_r. rewrite Ha at 1. rewrite <- app_assoc. reflexivity.
    + intros t'. destruct (Nat.eq_dec t' t) as [->|Hne]; [rewrite upd_same; lia|rewrite upd_other by exact Hne; apply Hl].
    + intros t' Hle. destruct (Nat.eq_dec t' t) as [->|Hne]; [lia|rewrite upd_other by exact Hne; apply Hn; exact Hle].
    + discriminate.
Qed.

Lemma arun_ainv : forall tr2 tr1 a a', AInv tr1 a -> arun quota n a tr2 = Some a' -> AInv (tr1 ++ tr2) a'.
Proof.
  induction tr2 as [|e r IH]; intros tr1 a a' I H; cbn [arun] in H.
  - injection H as <-. rewrite app_nil_r. exact I.
  - destruct (astep quota n a e) as [a1|] eqn:E; [|discriminate].
    replace (tr1 ++ e :: r) with ((tr1 ++ [e]) ++ r) by (rewrite <- app_assoc; reflexivity).
    eapply IH; [eapply astep_ainv; eassumption|exact H].
Qed.

Lemma arun_app : forall tr1 tr2 a, arun quota n a (tr1 ++ tr2) =
  match arun quota n a tr1 with Some a' => arun quota n a' tr2 | None => None end.
Proof.
  induction tr1 as [|e r IH]; intros tr2 a; cbn [arun app]; [reflexivity|].
  destruct (astep quota n a e); [apply IH|reflexivity].
Qed.

Lemma a_final_spec a : a_final quota n a = true -> a_in a = None /\ forall t, t < n -> a_next a t = quota t.
Proof.
  unfold a_final. destruct (a_in a); [discriminate|]. intros H. split; [reflexivity|].
  intros t Ht. rewrite forallb_forall in H. apply Nat.eqb_eq. apply H. apply in_seq. lia.
Qed.

Lemma accept_inv tr : accept_conc quota n tr = true ->
  exists a, AInv tr a /\ a_in a = None /\ forall t, t < n -> a_next a t = quota t.
Proof.
  unfold accept_conc. destruct (arun quota n a0 tr) as [a|] eqn:E; [|discriminate]. intros F.
  exists a. split; [exact (arun_ainv tr [] a0 a a0_ainv E)|apply a_final_spec; exact F].
Qed.

(* no two threads are inside the pipeline at once: every entry is followed at once by the delivery
   of the same message, before any other entry *)
Lemma accept_alternates tr : accept_conc quota n tr = true -> tr = paired (delivs tr).
Proof. intros H. destruct (accept_inv tr H) as (a & I & Ein & _). pose proof (v_alt _ _ I) as E. rewrite Ein, app_nil_r in E. exact E. Qed.

Lemma accept_seq_consecutive tr : accept_conc quota n tr = true ->
  map e_seq (delivs tr) = seq 0 (length (delivs tr)).
Proof.
  intros H. destruct (accept_inv tr H) as (a & I & _ & _). pose proof (v_seq _ _ I) as E.
  assert (L : length (delivs tr) = a_cnt a) by (rewrite <- (map_length e_seq), E, seq_length; reflexivity).
  rewrite L. exact E.
Qed.

(* exactly once and in order: the deliveries of thread t are its messages 0,1,...,quota t - 1 in this order *)
Lemma accept_per_thread tr : accept_conc quota n tr = true ->
  forall t, map e_idx (of_thread t (delivs tr)) = seq 0 (if Nat.ltb t n then quota t else 0).
Proof.
  intros H t. destruct (accept_inv tr H) as (a & I & _ & Hq). rewrite (v_thr _ _ I).
  destruct (Nat.ltb_spec t n); [rewrite Hq by assumption; reflexivity|rewrite (v_n _ _ I) by assumption; reflexivity].
Qed.
End Acceptor.

(* counting form of exactly-once *)
Lemma count_seq i k : count_occ Nat.eq_dec (seq 0 k) i = if Nat.ltb i k then 1 else 0.
Proof.
  induction k as [|k IH]; [reflexivity|]. rewrite seq0_S, count_occ_app, IH. cbn [count_occ].
  destruct (Nat.eq_dec k i) as [->|Hne].
  - destruct (Nat.ltb_spec i i); [lia|]. destruct (Nat.ltb_spec i (S i)); lia.
  - destruct (Nat.ltb_spec i k); destruct (Nat.ltb_spec i (S k)); lia.
Qed.
Lemma accept_exactly_once quota n tr : accept_conc quota n tr = true ->
  forall t i, count_occ Nat.eq_dec (map e_idx (of_thread t (delivs tr))) i
              = if Nat.ltb t n && Nat.ltb i (quota t) then 1 else 0.
Proof.
  intros H t i. rewrite (accept_per_thread quota n tr H t), count_seq.
  destruct (Nat.ltb t n); [reflexivity|]. cbn. reflexivity.
Qed.

(* ------------------------------------------------------------------ Part 2: static facts *)
Lemma firstn_S_nth {A} (sk : list A) n i : nth_error sk n = Some i -> firstn (S n) sk = firstn n sk ++ [i].
Proof.
  revert sk. induction n as [|n IH]; intros [|x sk] H; cbn in H; try discriminate.
  - injection H as ->. reflexivity.
  - change (firstn (S (S n)) (x :: sk)) with (x :: firstn (S n) sk).
    change (firstn (S n) (x :: sk)) with (x :: firstn n sk).
    rewrite (IH sk H). reflexivity.
Qed.
Lemma phase_S g sk n i : nth_error sk n = Some i -> phase_at g sk (S n) = next g (phase_at g sk n) i.
Proof. intros H. unfold phase_at. rewrite (firstn_S_nth sk n i H), fold_left_app. reflexivity. Qed.
Lemma fold_err g l : fold_left (next g) l PErr = PErr.
Proof. induction l as [|i l IH]; [reflexivity|]. cbn [fold_left]. replace (next g PErr i) with PErr; [exact IH|]. destruct i as [m|m| | |]; cbn; try reflexivity; destruct (mutex_eqb m g); reflexivity. Qed.
Lemma phase_ok g sk : shape g sk = true -> forall n, phase_at g sk n <> PErr.
Proof.
  unfold shape, phase_at. intros H n E. rewrite <- (firstn_skipn n sk) in H at 1.
  rewrite fold_left_app, E, fold_err in H. discriminate.
Qed.
Lemma phase_end g sk n : shape g sk = true -> nth_error sk n = None -> phase_at g sk n = P3.
Proof.
  unfold shape, phase_at. intros H E. apply nth_error_None in E. rewrite firstn_all2 by exact E.
  destruct (fold_left (next g) sk P0); try discriminate. reflexivity.
Qed.
Lemma phase_0 g sk : phase_at g sk 0 = P0. Proof. reflexivity. Qed.

(* ------------------------------------------------------------------ Part 3: the interleaving invariant *)
Definition done (p : phase) : nat := match p with P2 | P3 => 1 | _ => 0 end.
Lemma acq_of_app g a b : acq_of g (a ++ b) = acq_of g a ++ acq_of g b.
Proof. unfold acq_of. rewrite filter_app, map_app. reflexivity. Qed.

Section Dyn.
Variable skf : nat -> list instr.
Variable g : mutex.
Variable quota : nat -> nat.
Variable n : nat.
Hypothesis Hshape : forall t, shape g (skf t) = true.
Hypothesis Hq : forall t, n <= t -> quota t = 0.

Notation PH s t := (phase_at g (skf t) (pc (th s t))).

Record Inv (s : state) (a : astate) : Prop := {
  i_own : forall t, owner s g = Some t <-> holding (PH s t) = true;
  i_in : forall t, wph (th s t) <> W0 -> nth_error (skf t) (pc (th s t)) = Some Work;
  i_cnt : forall t, match wph (th s t) with
                    | W2 tmp => tmp = count s /\ count s = length (log s)
                    | W3 tmp => count s = S tmp /\ tmp = length (log s)
                    | _ => True end;
  i_cnt0 : (forall t, match wph (th s t) with W3 _ => False | _ => True end) -> count s = length (log s);
  i_evs : arun quota n a0 (evs s) = Some a;
  i_acnt : a_cnt a = length (log s);
  i_ain1 : forall t, wph (th s t) <> W0 -> a_in a = Some (t, idx (th s t));
  i_ain2 : forall t i, a_in a = Some (t, i) -> wph (th s t) <> W0;
  i_next : forall t, a_next a t = idx (th s t) + done (PH s t);
  i_log : log s = delivs (evs s);
  i_acq1 : (forall t, PH s t <> P1) -> map fst (log s) = acq_of g (acq s);
  i_acq2 : forall t, PH s t = P1 -> map fst (log s) ++ [(t, idx (th s t))] = acq_of g (acq s)
}.

Lemma s0_inv : Inv s0 a0.
Proof.
  constructor; cbn; intros; try reflexivity; try congruence; try lia; try tauto.
  split; discriminate.
Qed.

Lemma work_phase p : next g p Work <> PErr -> p = P1.
Proof. destruct p; cbn; congruence. Qed.
Lemma at_work s a t : Inv s a -> wph (th s t) <> W0 -> PH s t = P1.
Proof.
  intros I H. pose proof (i_in _ _ I t H) as En. apply work_phase.
  rewrite <- (phase_S g (skf t) _ _ En). apply phase_ok. apply Hshape.
Qed.
Lemma hold_unique s a t t' : Inv s a -> holding (PH s t) = true -> holding (PH s t') = true -> t = t'.
Proof. intros I H1 H2. apply (i_own _ _ I) in H1. apply (i_own _ _ I) in H2. congruence. Qed.
Lemma w0_dec w : {w = W0} + {w <> W0}.
Proof. destruct w; [left; reflexivity|right; discriminate..]. Qed.
Lemma w0_if_not_work s a t : Inv s a -> nth_error (skf t) (pc (th s t)) <> Some Work -> wph (th s t) = W0.
Proof. intros I H. destruct (w0_dec (wph (th s t))) as [E|E]; [exact E|]. exfalso. apply H. apply (i_in _ _ I). exact E. Qed.
Lemma others_w0 s a t t' : Inv s a -> holding (PH s t) = true -> t' <> t -> wph (th s t') = W0.
Proof.
  intros I H Hne. destruct (w0_dec (wph (th s t'))) as [E|E]; [exact E|]. exfalso. apply Hne.
  apply (hold_unique s a t' t I); [rewrite (at_work s a t' I E); reflexivity|exact H].
Qed.

Ltac sp t' t := destruct (Nat.eq_dec t' t) as [->|?Hne];
  [rewrite ?upd_same in *|rewrite ?upd_other in * by assumption]; cbn [pc wph idx mk_t] in *.

(* a step of thread t that neither touches g nor the pipeline *)
Lemma transfer_inv s a t pc' o' acq' :
  Inv s a -> wph (th s t) = W0 -> phase_at g (skf t) pc' = PH s t -> o' g = owner s g ->
  acq_of g acq' = acq_of g (acq s) ->
  Inv {| th := upd (th s) t (mk_t pc' W0 (idx (th s t))); owner := o'; count := count s; log := log s;
         acq := acq'; evs := evs s |} a.
Proof.
  intros I Hw Hp Ho Ha. pose proof I as [I1 I2 I3 I4 I5 I6 I7 I8 I9 I10 I11 I12].
  constructor; cbn [th owner count log acq evs]; try assumption.
  - intros t'. rewrite Ho. sp t' t; [rewrite Hp|]; apply I1.
  - intros t'. sp t' t; [congruence|apply I2].
  - intros t'. sp t' t; [exact Logic.I|apply I3].
  - intros H. apply I4. intros t'. specialize (H t'). sp t' t; [rewrite Hw; exact Logic.I|exact H].
  - intros t'. sp t' t; [congruence|apply I7].
  - intros t' i E. specialize (I8 t' i E). sp t' t; [congruence|exact I8].
  - intros t'. sp t' t; [rewrite Hp|]; apply I9.
  - intros H. rewrite Ha. apply I11. intros t'. specialize (H t'). sp t' t; [rewrite <- Hp; exact H|exact H].
  - intros t' H. rewrite Ha. sp t' t; [rewrite Hp in H|]; apply I12; exact H.
Qed.

Lemma next_other p m : m <> g -> next g p (Lock m) = p /\ next g p (Unlock m) = p.
Proof. intros H. cbn. destruct (mutex_eqb_spec m g); [contradiction|]. split; reflexivity. Qed.
Lemma acq_of_other m t i l : m <> g -> acq_of g (l ++ [(m, t, i)]) = acq_of g l.
Proof. intros H. rewrite acq_of_app. unfold acq_of at 2. cbn. destruct (mutex_eqb_spec m g); [contradiction|]. cbn. apply app_nil_r. Qed.
Lemma acq_of_same t i l : acq_of g (l ++ [(g, t, i)]) = acq_of g l ++ [(t, i)].
Proof. rewrite acq_of_app. unfold acq_of at 2. cbn. destruct (mutex_eqb_spec g g); [|contradiction]. reflexivity. Qed.

Lemma step_inv s a t s' : Inv s a -> step skf quota s t = Some s' -> exists a', Inv s' a'.
Proof.
  intros I H. pose proof I as [I1 I2 I3 I4 I5 I6 I7 I8 I9 I10 I11 I12].
  unfold step in H. destruct (Nat.leb_spec (quota t) (idx (th s t))) as [|Hlt]; [discriminate|].
  assert (Htn : t < n). { destruct (Nat.lt_ge_cases t n) as [|Hge]; [assumption|]. rewrite (Hq t Hge) in Hlt. lia. }
  destruct (nth_error (skf t) (pc (th s t))) as [i|] eqn:En.
  2:{ (* the call returns *)
    injection H as <-. exists a.
    assert (Hw : wph (th s t) = W0) by (apply (w0_if_not_work s a t I); congruence).
    pose proof (phase_end g (skf t) _ (Hshape t) En) as Hp.
    constructor; cbn [th owner count log acq evs]; try assumption.
    - intros t'. sp t' t; [|apply I1]. rewrite phase_0. cbn. rewrite I1, Hp. cbn. tauto.
    - intros t'. sp t' t; [congruence|apply I2].
    - intros t'. sp t' t; [exact Logic.I|apply I3].
    - intros H. apply I4. intros t'. specialize (H t'). sp t' t; [rewrite Hw; exact Logic.I|exact H].
    - intros t'. sp t' t; [congruence|apply I7].
    - intros t' i E. specialize (I8 t' i E). sp t' t; [congruence|exact I8].
    - intros t'. sp t' t; [|apply I9]. rewrite I9, Hp, phase_0. cbn. lia.
    - intros H. apply I11. intros t'. specialize (H t'). sp t' t; [rewrite Hp; discriminate|exact H].
    - intros t' H. sp t' t; [rewrite phase_0 in H; discriminate|apply I12; exact H]. }
  pose proof (phase_S g (skf t) _ _ En) as HS.
  pose proof (phase_ok g (skf t) (Hshape t) (S (pc (th s t)))) as Hok. rewrite HS in Hok.
  destruct i as [m|m| | |].
  - (* Lock m *)
    destruct (owner s m) eqn:Eo; [discriminate|]. injection H as <-. exists a.
    assert (Hw : wph (th s t) = W0) by (apply (w0_if_not_work s a t I); congruence).
    destruct (mutex_eqb_spec m g) as [->|Hm].
    2:{ apply transfer_inv; try assumption.
        - rewrite HS. apply (next_other _ m Hm).
        - apply updm_other. congruence.
        - apply acq_of_other. exact Hm. }
    assert (Hnobody : forall t', holding (PH s t') = false).
    { intros t'. destruct (holding (PH s t')) eqn:E; [|reflexivity]. apply I1 in E. congruence. }
    assert (Hp0 : PH s t = P0).
    { cbn in Hok. destruct (mutex_eqb_spec g g); [|contradiction]. destruct (PH s t); congruence. }
    assert (Hp1 : phase_at g (skf t) (S (pc (th s t))) = P1).
    { rewrite HS, Hp0. cbn. destruct (mutex_eqb_spec g g); [reflexivity|contradiction]. }
    constructor; cbn [th owner count log acq evs]; try assumption.
    + intros t'. rewrite updm_same. sp t' t; [rewrite Hp1; cbn; tauto|].
      rewrite Hnobody. split; [intros E; injection E as <-; contradiction|discriminate].
    + intros t'. sp t' t; [congruence|apply I2].
    + intros t'. sp t' t; [exact Logic.I|apply I3].
    + intros H. apply I4. intros t'. specialize (H t'). sp t' t; [rewrite Hw; exact Logic.I|exact H].
    + intros t'. sp t' t; [congruence|apply I7].
    + intros t' i E. specialize (I8 t' i E). sp t' t; [congruence|exact I8].
    + intros t'. sp t' t; [|apply I9]. rewrite I9, Hp0, Hp1. reflexivity.
    + intros H. specialize (H t). rewrite upd_same in H. cbn [pc mk_t] in H. congruence.
    + intros t' H. rewrite acq_of_same. sp t' t.
      * f_equal. apply I11. intros t'' E. specialize (Hnobody t''). rewrite E in Hnobody. discriminate.
      * specialize (Hnobody t'). rewrite H in Hnobody. discriminate.
  - (* Unlock m *)
    destruct (owner s m) as [o|] eqn:Eo; [|discriminate]. destruct (Nat.eqb_spec o t) as [->|]; [|discriminate].
    injection H as <-. exists a.
    assert (Hw : wph (th s t) = W0) by (apply (w0_if_not_work s a t I); congruence).
    destruct (mutex_eqb_spec m g) as [->|Hm].
    2:{ apply transfer_inv; try assumption; try reflexivity.
        - rewrite HS. apply (next_other _ m Hm).
        - apply updm_other. congruence. }
    assert (Hp2 : PH s t = P2).
    { cbn in Hok. destruct (mutex_eqb_spec g g); [|contradiction]. destruct (PH s t); congruence. }
    assert (Hp3 : phase_at g (skf t) (S (pc (th s t))) = P3).
    { rewrite HS, Hp2. cbn. destruct (mutex_eqb_spec g g); [reflexivity|contradiction]. }
    assert (Hhold : holding (PH s t) = true) by (rewrite Hp2; reflexivity).
    constructor; cbn [th owner count log acq evs]; try assumption.
    + intros t'. rewrite updm_same. sp t' t; [rewrite Hp3; cbn; split; discriminate|].
      split; [discriminate|]. intros E. exfalso. apply Hne. apply (hold_unique s a t' t I E Hhold).
    + intros t'. sp t' t; [congruence|apply I2].
    + intros t'. sp t' t; [exact Logic.I|apply I3].
    + intros H. apply I4. intros t'. specialize (H t'). sp t' t; [rewrite Hw; exact Logic.I|exact H].
    + intros t'. sp t' t; [congruence|apply I7].
    + intros t' i E. specialize (I8 t' i E). sp t' t; [congruence|exact I8].
    + intros t'. sp t' t; [|apply I9]. rewrite I9, Hp2, Hp3. reflexivity.
    + intros H. apply I11. intros t'. specialize (H t'). sp t' t; [congruence|exact H].
    + intros t' H. sp t' t; [congruence|apply I12; exact H].
  - (* Work: the pipeline run *)
    pose proof (work_phase _ Hok) as Hp1.
    assert (Hhold : holding (PH s t) = true) by (rewrite Hp1; reflexivity).
    pose proof (fun t' => others_w0 s a t t' I Hhold) as Hoth.
    destruct (wph (th s t)) as [| |tmp|tmp] eqn:Ew.
    + (* enter *)
      injection H as <-.
      assert (Hnone : a_in a = None).
      { destruct (a_in a) as [[t' i']|] eqn:Ea; [|reflexivity]. pose proof (i_ain2 _ _ I t' i' Ea) as Hx.
        destruct (Nat.eq_dec t' t) as [->|Hne]; [congruence|]. rewrite (Hoth t' Hne) in Hx. congruence. }
      exists {| a_in := Some (t, idx (th s t)); a_cnt := a_cnt a; a_next := a_next a |}.
      constructor; cbn [th owner count log acq evs a_in a_cnt a_next]; try assumption.
      * intros t'. sp t' t; apply I1.
      * intros t'. sp t' t; [intros _; exact En|apply I2].
      * intros t'. sp t' t; [exact Logic.I|apply I3].
      * intros H. apply I4. intros t'. specialize (H t'). sp t' t; [rewrite Ew; exact Logic.I|exact H].
      * rewrite arun_app, I5. cbn [arun astep]. rewrite Hnone.
        destruct (Nat.ltb_spec t n); [|lia]. rewrite I9, Hp1. cbn [done]. rewrite Nat.add_0_r, Nat.eqb_refl.
        destruct (Nat.ltb_spec (idx (th s t)) (quota t)); [|lia]. reflexivity.
      * intros t'. sp t' t; [reflexivity|]. intros Hx. rewrite (Hoth t' Hne) in Hx. congruence.
      * intros t' i E. injection E as <- <-. rewrite upd_same. cbn. discriminate.
      * intros t'. sp t' t; apply I9.
      * rewrite delivs_app. cbn. rewrite app_nil_r. exact I10.
      * intros H. apply I11. intros t'. specialize (H t'). sp t' t; exact H.
      * intros t' H. sp t' t; apply I12; exact H.
    + (* read the counter *)
      injection H as <-. exists a.
      assert (Hin : wph (th s t) <> W0) by (rewrite Ew; discriminate).
      constructor; cbn [th owner count log acq evs]; try assumption.
      * intros t'. sp t' t; apply I1.
      * intros t'. sp t' t; [intros _; exact En|apply I2].
      * intros t'. sp t' t; [|apply I3]. split; [reflexivity|]. apply I4. intros t'.
        destruct (Nat.eq_dec t' t) as [->|Hne]; [rewrite Ew; exact Logic.I|rewrite (Hoth t' Hne); exact Logic.I].
      * intros H. apply I4. intros t'. specialize (H t'). sp t' t; [rewrite Ew; exact Logic.I|exact H].
      * intros t'. sp t' t; [intros _; apply I7; exact Hin|apply I7].
      * intros t' i E. specialize (I8 t' i E). sp t' t; [discriminate|exact I8].
      * intros t'. sp t' t; apply I9.
      * intros H. apply I11. intros t'. specialize (H t'). sp t' t; exact H.
      * intros t' H. sp t' t; apply I12; exact H.
    + (* write the counter *)
      injection H as <-. exists a.
      assert (Hin : wph (th s t) <> W0) by (rewrite Ew; discriminate).
      pose proof (I3 t) as Hc. rewrite Ew in Hc. destruct Hc as [Hc1 Hc2].
      constructor; cbn [th owner count log acq evs]; try assumption.
      * intros t'. sp t' t; apply I1.
      * intros t'. sp t' t; [intros _; exact En|apply I2].
      * intros t'. sp t' t; [split; congruence|]. rewrite (Hoth t' Hne). exact Logic.I.
      * intros H. specialize (H t). rewrite upd_same in H. cbn in H. contradiction.
      * intros t'. sp t' t; [intros _; apply I7; exact Hin|apply I7].
      * intros t' i E. specialize (I8 t' i E). sp t' t; [discriminate|exact I8].
      * intros t'. sp t' t; apply I9.
      * intros H. apply I11. intros t'. specialize (H t'). sp t' t; exact H.
      * intros t' H. sp t' t; apply I12; exact H.
    + (* deliver and leave *)
      injection H as <-.
      assert (Hin : wph (th s t) <> W0) by (rewrite Ew; discriminate).
      pose proof (I3 t) as Hc. rewrite Ew in Hc. destruct Hc as [Hc1 Hc2].
      assert (Hp2 : phase_at g (skf t) (S (pc (th s t))) = P2) by (rewrite HS, Hp1; reflexivity).
      exists {| a_in := None; a_cnt := S (a_cnt a); a_next := upd (a_next a) t (S (idx (th s t))) |}.
      constructor; cbn [th owner count log acq evs a_in a_cnt a_next]; try assumption.
      * intros t'. sp t' t; [|apply I1]. rewrite Hp2. rewrite I1, Hp1. cbn. tauto.
      * intros t'. sp t' t; [congruence|apply I2].
      * intros t'. sp t' t; [exact Logic.I|]. rewrite (Hoth t' Hne). exact Logic.I.
      * intros _. rewrite app_length. cbn. lia.
      * rewrite arun_app, I5. cbn [arun astep]. rewrite (I7 t Hin), !Nat.eqb_refl.
        replace (tmp =? a_cnt a) with true by (symmetry; apply Nat.eqb_eq; lia). reflexivity.
      * rewrite app_length. cbn. lia.
      * intros t'. sp t' t; [congruence|]. intros Hx. rewrite (Hoth t' Hne) in Hx. congruence.
      * discriminate.
      * intros t'. sp t' t; [rewrite Hp2; cbn; lia|apply I9].
      * rewrite delivs_app. cbn. rewrite I10. reflexivity.
      * intros _. rewrite map_app. cbn. apply I12. exact Hp1.
      * intros t' H. exfalso. sp t' t; [congruence|].
        apply Hne. apply (hold_unique s a t' t I); [rewrite H; reflexivity|exact Hhold].
  - (* Flush *)
    injection H as <-. exists a.
    assert (Hw : wph (th s t) = W0) by (apply (w0_if_not_work s a t I); congruence).
    apply transfer_inv; try assumption; try reflexivity; try (rewrite HS; reflexivity).
  - (* Other *)
    injection H as <-. exists a.
    assert (Hw : wph (th s t) = W0) by (apply (w0_if_not_work s a t I); congruence).
    apply transfer_inv; try assumption; try reflexivity; try (rewrite HS; reflexivity).
Qed.

Theorem run_inv sched : forall s a, Inv s a -> exists a', Inv (run skf quota s sched) a'.
Proof.
  induction sched as [|t r IH]; intros s a I; cbn [run]; [exists a; exact I|].
  destruct (step skf quota s t) as [s'|] eqn:E; [|eapply IH; exact I].
  destruct (step_inv s a t s' I E) as [a' I']. eapply IH; exact I'.
Qed.
Definition reach (s : state) : Prop := exists sched, s = run skf quota s0 sched.
Lemma reach_inv s : reach s -> exists a, Inv s a.
Proof. intros [sched ->]. apply (run_inv sched s0 a0 s0_inv). Qed.

(* 1. at most one thread is inside the pipeline *)
Theorem mutual_exclusion_g s t1 t2 : reach s -> inside s t1 = true -> inside s t2 = true -> t1 = t2.
Proof.
  intros R H1 H2. destruct (reach_inv s R) as [a I]. unfold inside in *.
  apply (hold_unique s a t1 t2 I).
  - rewrite (at_work s a t1 I); [reflexivity|]. destruct (wph (th s t1)); congruence.
  - rewrite (at_work s a t2 I); [reflexivity|]. destruct (wph (th s t2)); congruence.
Qed.

(* the lock itself: owner g = Some t exactly while t is between Lock g and Unlock g *)
Theorem owner_iff_section s t : reach s -> (owner s g = Some t <-> holding (PH s t) = true).
Proof. intros R. destruct (reach_inv s R) as [a I]. apply (i_own _ _ I). Qed.

(* every reachable event trace is a prefix the acceptor takes; the sink log is its deliveries *)
Theorem trace_accepted_prefix s : reach s -> exists a, arun quota n a0 (evs s) = Some a /\ log s = delivs (evs s).
Proof. intros R. destruct (reach_inv s R) as [a I]. exists a. split; [apply (i_evs _ _ I)|apply (i_log _ _ I)]. Qed.

Lemma finished_spec s : finishedb n quota s = true -> forall t, idx (th s t) = quota t \/ (n <= t).
Proof.
  unfold finishedb. rewrite forallb_forall. intros H t. destruct (Nat.lt_ge_cases t n) as [Hl|Hg]; [left|right; exact Hg].
  apply Nat.eqb_eq. apply H. apply in_seq. lia.
Qed.

(* a finished run started nothing it did not complete: every thread is back at pc 0, outside *)
Lemma finished_quiet s a t : Inv s a -> reach s -> idx (th s t) = quota t -> pc (th s t) = 0 /\ wph (th s t) = W0.
Proof.
  intros _ [sched ->]. revert t. 
  assert (G : forall sched s, (forall t, idx (th s t) = quota t -> pc (th s t) = 0 /\ wph (th s t) = W0) ->
             (forall t, idx (th s t) <= quota t) ->
             forall t, idx (th (run skf quota s sched) t) = quota t ->
                       pc (th (run skf quota s sched) t) = 0 /\ wph (th (run skf quota s sched) t) = W0).
  { clear. induction sched as [|u r IH]; intros s H Hle t; cbn [run]; [apply H|].
    destruct (step skf quota s u) as [s'|] eqn:E; [|apply IH; assumption].
    apply IH; clear IH.
    - intros t' Ht'. unfold step in E. destruct (Nat.leb_spec (quota u) (idx (th s u))) as [|Hlt]; [discriminate|].
      destruct (nth_error (skf u) (pc (th s u))) as [[m|m| | |]|];
        [destruct (owner s m); [discriminate|]|destruct (owner s m) as [o|]; [destruct (Nat.eqb o u); [|discriminate]|discriminate]
        |destruct (wph (th s u))| | |]; injection E as <-; cbn [th] in *;
        (destruct (Nat.eq_dec t' u) as [->|Hne]; [rewrite upd_same in *; cbn [idx pc wph mk_t] in *; try lia; split; reflexivity
                                                 |rewrite upd_other in * by assumption; apply H; exact Ht']).
    - intros t'. unfold step in E. destruct (Nat.leb_spec (quota u) (idx (th s u))) as [|Hlt]; [discriminate|].
      destruct (nth_error (skf u) (pc (th s u))) as [[m|m| | |]|];
        [destruct (owner s m); [discriminate|]|destruct (owner s m) as [o|]; [destruct (Nat.eqb o u); [|discriminate]|discriminate]
        |destruct (wph (th s u))| | |]; injection E as <-; cbn [th] in *;
        (destruct (Nat.eq_dec t' u) as [->|Hne]; [rewrite upd_same; cbn [idx mk_t]; lia|rewrite upd_other by assumption; apply Hle]). }
  intros t. apply G; cbn; intros; [split; reflexivity|lia].
Qed.

(* 2. a complete schedule's trace is accepted *)
Theorem complete_trace_accepted s : reach s -> finishedb n quota s = true -> accept_conc quota n (evs s) = true.
Proof.
  intros R F. destruct (reach_inv s R) as [a I]. unfold accept_conc. rewrite (i_evs _ _ I).
  pose proof (finished_spec s F) as Fs.
  assert (Q : forall t, t < n -> pc (th s t) = 0 /\ wph (th s t) = W0).
  { intros t Ht. destruct (Fs t) as [E|E]; [|lia]. apply (finished_quiet s a t I R E). }
  unfold a_final. destruct (a_in a) as [[t i]|] eqn:Ea.
  - exfalso. pose proof (i_ain2 _ _ I t i Ea) as Hx.
    destruct (Nat.lt_ge_cases t n) as [Hl|Hg]; [destruct (Q t Hl); congruence|].
    (* a thread outside 0..n-1 never moves *)
    pose proof (arun_ainv quota n _ [] a0 a (a0_ainv quota n) (i_evs _ _ I)) as V.
    destruct (v_in _ _ _ _ V t i Ea) as (_ & _ & Hl). lia.
  - apply forallb_forall. intros t Ht. apply in_seq in Ht. apply Nat.eqb_eq.
    rewrite (i_next _ _ I). destruct (Q t) as [Ep _]; [lia|]. rewrite Ep, phase_0. cbn.
    destruct (Fs t); lia.
Qed.

(* 3. serialisability: the sink log of a complete run is the log of the sequential execution of the whole
   messages in the order in which their critical sections on g were entered (lock acquisition order) *)
Lemma log_is_serial_of_order l : map e_seq l = seq 0 (length l) -> l = serial_log (map fst l).
Proof.
  unfold serial_log. rewrite map_length. generalize 0. induction l as [|[[t i] sq] l IH]; intros k H; [reflexivity|].
  cbn in *. injection H as -> H. f_equal. apply IH. exact H.
Qed.
Theorem serialisable_g s : reach s -> finishedb n quota s = true ->
  log s = serial_log (acq_of g (acq s)).
Proof.
  intros R F. destruct (reach_inv s R) as [a I].
  pose proof (complete_trace_accepted s R F) as Acc.
  pose proof (accept_seq_consecutive quota n _ Acc) as Hs. rewrite <- (i_log _ _ I) in Hs.
  rewrite (log_is_serial_of_order _ Hs) at 1. f_equal.
  apply (i_acq1 _ _ I). intros t E.
  pose proof (finished_spec s F t) as [Ei|Hg].
  - destruct (finished_quiet s a t I R Ei) as [Ep _]. rewrite Ep, phase_0 in E. discriminate.
  - (* threads beyond n never move: pc = 0 *)
    assert (pc (th s t) = 0) as Ep.
    { destruct (finished_quiet s a t I R) as [Ep _]; [|exact Ep].
      destruct R as [sched ->]. clear -Hq Hg. 
      assert (G : forall sched s, idx (th s t) = 0 -> idx (th (run skf quota s sched) t) = 0).
      { clear -Hq Hg. induction sched as [|u r IH]; intros s H; cbn [run]; [exact H|].
        destruct (step skf quota s u) as [s'|] eqn:E; [|apply IH; exact H]. apply IH.
        unfold step in E. destruct (Nat.leb_spec (quota u) (idx (th s u))) as [|Hlt]; [discriminate|].
        assert (u <> t) by (intros ->; rewrite (Hq t Hg) in Hlt; lia).
        destruct (nth_error (skf u) (pc (th s u))) as [[m|m| | |]|];
        [destruct (owner s m); [discriminate|]|destruct (owner s m) as [o|]; [destruct (Nat.eqb o u); [|discriminate]|discriminate]
        |destruct (wph (th s u))| | |]; injection E as <-; cbn [th]; rewrite upd_other by congruence; exact H. }
      rewrite (Hq t Hg). apply G. reflexivity. }
    rewrite Ep, phase_0 in E. discriminate.
Qed.
End Dyn.

(* ------------------------------------------------------------------ Part 4: statements for every bracketed skeleton *)
Definition threads_below (n : nat) (quota : nat -> nat) : Prop := forall t, n <= t -> quota t = 0.

(* the threads of a run may enter through different skeletons [skf t]; what the theorems need is ONE mutex that brackets
   every one of them *)
Definition guard_of (skf : nat -> list instr) : Prop := exists g, forall t, shape g (skf t) = true.
Lemma bracketed_guard sk : bracketed sk = true -> exists g, shape g sk = true.
Proof. unfold bracketed. intros H. apply orb_prop in H as [H|H]; [exists L|exists M]; exact H. Qed.
Lemma uni_guard sk : bracketed sk = true -> guard_of (uni sk).
Proof. intros B. destruct (bracketed_guard sk B) as [g H]. exists g. intros t. exact H. Qed.
Lemma fam_guard sks skf : bracketed_family sks = true -> (forall t, In (skf t) sks) -> guard_of skf.
Proof.
  unfold bracketed_family. intros H A. apply orb_prop in H as [H|H]; [exists L|exists M]; intros t;
    rewrite forallb_forall in H; apply H; apply A.
Qed.

Theorem mutual_exclusion skf quota n : guard_of skf -> threads_below n quota ->
  forall sched t1 t2, inside (run skf quota s0 sched) t1 = true -> inside (run skf quota s0 sched) t2 = true -> t1 = t2.
Proof.
  intros B Hq sched t1 t2. destruct B as [g Hs].
  apply (mutual_exclusion_g skf g quota n Hs Hq). exists sched. reflexivity.
Qed.

Theorem trace_accepted skf quota n : guard_of skf -> threads_below n quota ->
  forall sched, let s := run skf quota s0 sched in
  (exists a, arun quota n a0 (evs s) = Some a) /\ log s = delivs (evs s) /\
  (finishedb n quota s = true -> accept_conc quota n (evs s) = true).
Proof.
  intros B Hq sched s. destruct B as [g Hs].
  assert (R : reach skf quota s) by (exists sched; reflexivity).
  destruct (trace_accepted_prefix skf g quota n Hs Hq s R) as (a & Ha & Hl).
  split; [exists a; exact Ha|]. split; [exact Hl|]. apply (complete_trace_accepted skf g quota n Hs Hq s R).
Qed.

Theorem serialisable skf quota n : guard_of skf -> threads_below n quota ->
  forall sched, let s := run skf quota s0 sched in finishedb n quota s = true ->
  exists g, (forall t, shape g (skf t) = true) /\ log s = serial_log (acq_of g (acq s)).
Proof.
  intros B Hq sched s F. destruct B as [g Hs]. exists g. split; [exact Hs|].
  apply (serialisable_g skf g quota n Hs Hq s); [exists sched; reflexivity|exact F].
Qed.

(* sequence numbers along the sink log are 0,1,2,... at every moment of every run *)
Theorem seq_consecutive skf quota n : guard_of skf -> threads_below n quota ->
  forall sched, let s := run skf quota s0 sched in map e_seq (log s) = seq 0 (length (log s)).
Proof.
  intros B Hq sched s. destruct (trace_accepted skf quota n B Hq sched) as ([a Ha] & Hl & _). fold s in Ha, Hl.
  pose proof (arun_ainv quota n _ [] a0 a (a0_ainv quota n) Ha) as V. cbn [app] in V.
  pose proof (v_seq _ _ _ _ V) as E. rewrite <- Hl in E.
  assert (Len : length (log s) = a_cnt a) by (rewrite <- (map_length e_seq), E, seq_length; reflexivity).
  rewrite Len. exact E.
Qed.

(* in a complete run thread t's messages reach the sink exactly once each, in the order t logged them *)
Theorem per_thread_order skf quota n : guard_of skf -> threads_below n quota ->
  forall sched, let s := run skf quota s0 sched in finishedb n quota s = true ->
  forall t, map e_idx (of_thread t (log s)) = seq 0 (quota t).
Proof.
  intros B Hq sched s F t. destruct (trace_accepted skf quota n B Hq sched) as (_ & Hl & Acc). fold s in Hl, Acc.
  rewrite Hl, (accept_per_thread quota n _ (Acc F) t).
  destruct (Nat.ltb_spec t n); [reflexivity|]. rewrite (Hq t) by assumption. reflexivity.
Qed.
Theorem exactly_once skf quota n : guard_of skf -> threads_below n quota ->
  forall sched, let s := run skf quota s0 sched in finishedb n quota s = true ->
  forall t i, count_occ Nat.eq_dec (map e_idx (of_thread t (log s))) i = if Nat.ltb i (quota t) then 1 else 0.
Proof. intros B Hq sched s F t i. unfold s in *. rewrite (per_thread_order skf quota n B Hq sched F t). apply count_seq. Qed.

(* while no thread is between the write-back of the counter and the delivery, the counter equals the number
   of deliveries: no update of SeqNumberAttr::m_count is ever lost *)
Theorem no_lost_update skf quota n : guard_of skf -> threads_below n quota ->
  forall sched, let s := run skf quota s0 sched in
  (forall t, inside s t = false) -> count s = length (log s).
Proof.
  intros B Hq sched s H. destruct B as [g Hs].
  destruct (reach_inv skf g quota n Hs Hq s) as [a I]; [exists sched; reflexivity|].
  apply (i_cnt0 _ _ _ _ _ _ I). intros t. specialize (H t). unfold inside in H. destruct (wph (th s t)); try discriminate; exact Logic.I.
Qed.

(* the acceptor is at least as strict as the direct boolean oracle *)
Lemma list_eqb_refl l : list_eqb l l = true.
Proof. induction l as [|x l IH]; [reflexivity|]. cbn. rewrite Nat.eqb_refl. exact IH. Qed.
Lemma alternates_paired l : alternates (paired l) = true.
Proof. induction l as [|[[t i] sq] l IH]; [reflexivity|]. cbn. rewrite !Nat.eqb_refl. exact IH. Qed.
Theorem accept_implies_oracle quota n tr : accept_conc quota n tr = true -> prop_c02_b quota n tr = true.
Proof.
  intros H. unfold prop_c02_b. rewrite (accept_alternates quota n tr H) at 1. rewrite alternates_paired.
  rewrite (accept_seq_consecutive quota n tr H), list_eqb_refl. cbn [andb].
  apply andb_true_intro. split.
  - apply forallb_forall. intros t Ht. apply in_seq in Ht. rewrite (accept_per_thread quota n tr H t).
    destruct (Nat.ltb_spec t n); [|lia]. apply list_eqb_refl.
  - apply forallb_forall. intros e He. apply Nat.ltb_lt.
    destruct (Nat.lt_ge_cases (e_tid e) n) as [Hl|Hg]; [exact Hl|]. exfalso.
    pose proof (accept_per_thread quota n tr H (e_tid e)) as E.
    destruct (Nat.ltb_spec (e_tid e) n); [lia|]. cbn in E.
    assert (In e (of_thread (e_tid e) (delivs tr))) as Hi by (apply filter_In; split; [exact He|apply Nat.eqb_refl]).
    destruct (of_thread (e_tid e) (delivs tr)); [exact Hi|discriminate].
Qed.

(* ------------------------------------------------------------------ Part 5: sequential schedules realise every accepted trace *)
Lemma run_app skf quota : forall a b s, run skf quota s (a ++ b) = run skf quota (run skf quota s a) b.
Proof. induction a as [|t a IH]; intros b s; cbn [run app]; [reflexivity|]. destruct (step skf quota s t); apply IH. Qed.
Lemma run_cons skf quota s t r s1 : step skf quota s t = Some s1 -> run skf quota s (t :: r) = run skf quota s1 r.
Proof. intros H. cbn [run]. rewrite H. reflexivity. Qed.
Definition owns (s : state) (t : nat) (hl hm : bool) : Prop :=
  owner s L = (if hl then Some t else None) /\ owner s M = (if hm then Some t else None).
Definition emits (p : phase) : bool := match p with P0 | P1 => true | _ => false end.

Section Solo.
Variable skf : nat -> list instr.
Variable g : mutex.
Variable quota : nat -> nat.
Hypothesis Hshape : forall t, shape g (skf t) = true.

Lemma fold_not_err rest p : fold_left (next g) rest p = P3 -> p <> PErr.
Proof. intros H E. rewrite E, fold_err in H. discriminate. Qed.

Lemma solo_suffix t : forall rest pre s hl hm,
  skf t = pre ++ rest -> pc (th s t) = length pre -> wph (th s t) = W0 -> idx (th s t) < quota t ->
  owns s t hl hm -> wf_from rest hl hm = true ->
  fold_left (next g) rest (phase_at g (skf t) (length pre)) = P3 ->
  let p := phase_at g (skf t) (length pre) in
  let s' := run skf quota s (repeat t (length rest + (if emits p then 3 else 0))) in
  pc (th s' t) = length (skf t) /\ wph (th s' t) = W0 /\ idx (th s' t) = idx (th s t) /\ owns s' t false false /\
  (forall t', t' <> t -> th s' t' = th s t') /\
  (if emits p then log s' = log s ++ [(t, idx (th s t), count s)] /\ count s' = S (count s) /\
                   evs s' = evs s ++ [EEnter t (idx (th s t)); EDeliver t (idx (th s t)) (count s)]
   else log s' = log s /\ count s' = count s /\ evs s' = evs s).
Proof.
  induction rest as [|i rest IH]; intros pre s hl hm Esk Hpc Hw Hlt Hown Hwf Hfold p s'.
  - subst p s'. cbn [fold_left] in Hfold. rewrite Hfold. cbn [emits length Nat.add repeat run].
    cbn in Hwf. apply andb_prop in Hwf as [H1 H2]. destruct hl, hm; try discriminate.
    rewrite Esk, app_nil_r. destruct Hown as [O1 O2]. repeat split; auto.
  - assert (Hnth : nth_error (skf t) (pc (th s t)) = Some i).
    { rewrite Hpc, Esk, nth_error_app2 by lia. rewrite Nat.sub_diag. reflexivity. }
    assert (Esk' : skf t = (pre ++ [i]) ++ rest) by (rewrite <- app_assoc; exact Esk).
    assert (Hlen : length (pre ++ [i]) = S (length pre)) by (rewrite app_length; cbn; lia).
    pose proof (phase_S g (skf t) _ _ Hnth) as HS. rewrite Hpc in HS.
    cbn [fold_left] in Hfold. rewrite <- HS in Hfold.
    pose proof (fold_not_err _ _ Hfold) as Hne. rewrite HS in Hne.
    pose proof Hfold as Hfold'. rewrite HS in Hfold'.
    assert (Hq : Nat.leb (quota t) (idx (th s t)) = false) by (apply Nat.leb_gt; exact Hlt).
    destruct Hown as [HoL HoM].
    (* a plain step: advances pc, keeps the handler state *)
    assert (Plain : forall (o' : mutex -> option nat) (acq' : list (mutex * nat * nat)),
      step skf quota s t = Some {| th := upd (th s) t (mk_t (S (pc (th s t))) W0 (idx (th s t))); owner := o'; count := count s;
                                  log := log s; acq := acq'; evs := evs s |} ->
      forall (hl' hm' : bool), o' L = (if hl' then Some t else None) -> o' M = (if hm' then Some t else None) ->
      wf_from rest hl' hm' = true -> emits (next g p i) = emits p ->
      let s' := run skf quota s (repeat t (length (i :: rest) + (if emits p then 3 else 0))) in
      pc (th s' t) = length (skf t) /\ wph (th s' t) = W0 /\ idx (th s' t) = idx (th s t) /\ owns s' t false false /\
      (forall t', t' <> t -> th s' t' = th s t') /\
      (if emits p then log s' = log s ++ [(t, idx (th s t), count s)] /\ count s' = S (count s) /\
                       evs s' = evs s ++ [EEnter t (idx (th s t)); EDeliver t (idx (th s t)) (count s)]
       else log s' = log s /\ count s' = count s /\ evs s' = evs s)).
    { intros o' acq' Hstep hl' hm' H1 H2 Hwf' Hem s1. subst s1. cbn [length Nat.add repeat]. rewrite (run_cons _ _ _ _ _ _ Hstep).
      match goal with |- context [run skf quota ?S1 _] => set (s1 := S1) end.
      specialize (IH (pre ++ [i]) s1 hl' hm' Esk').
      rewrite Hlen, HS in IH. cbv zeta in IH. fold p in IH. rewrite Hem in IH.
      assert (T1 : th s1 t = mk_t (S (pc (th s t))) W0 (idx (th s t))) by (unfold s1; cbn [th]; apply upd_same).
      rewrite T1 in IH. cbn [pc wph idx mk_t] in IH.
      change (log s1) with (log s) in IH. change (count s1) with (count s) in IH. change (evs s1) with (evs s) in IH.
      destruct (IH ltac:(lia) eq_refl Hlt (conj H1 H2) Hwf' Hfold') as (A & B & C & D & E & F).
      split; [exact A|]. split; [exact B|]. split; [exact C|]. split; [exact D|]. split; [|exact F].
      intros t' Ht'. rewrite (E t' Ht'). unfold s1. cbn [th]. apply upd_other. exact Ht'. }
    subst p s'. set (p := phase_at g (skf t) (length pre)) in *.
    destruct i as [m|m| | |].
    + (* Lock m *)
      assert (Hfree : owner s m = None /\ (if mutex_eqb m L then negb hl else negb hm) = true /\
                      wf_from rest (if mutex_eqb m L then true else hl) (if mutex_eqb m L then hm else true) = true).
      { destruct m; cbn [wf_from] in Hwf; apply andb_prop in Hwf as [H1 H2]; cbn [mutex_eqb].
        - destruct hl; [discriminate|]. repeat split; assumption.
        - destruct hm; [discriminate|]. repeat split; assumption. }
      destruct Hfree as (Ho & _ & Hwf').
      eapply Plain with (o' := updm (owner s) m (Some t)) (acq' := acq s ++ [(m, t, idx (th s t))]); [| | |exact Hwf'|].
      * unfold step. rewrite Hq, Hnth, Ho. reflexivity.
      * destruct m; cbn [mutex_eqb]; [apply updm_same|rewrite updm_other by discriminate; exact HoL].
      * destruct m; cbn [mutex_eqb]; [rewrite updm_other by discriminate; exact HoM|apply updm_same].
      * cbn [next] in *. destruct (mutex_eqb m g); [|reflexivity]. destruct p; try reflexivity; congruence.
    + (* Unlock m *)
      assert (Hheld : owner s m = Some t /\
                      wf_from rest (if mutex_eqb m L then false else hl) (if mutex_eqb m L then hm else false) = true).
      { destruct m; cbn [wf_from] in Hwf; apply andb_prop in Hwf as [H1 H2]; cbn [mutex_eqb].
        - destruct hl; [|discriminate]. split; assumption.
        - destruct hm; [|discriminate]. split; assumption. }
      destruct Hheld as (Ho & Hwf').
      eapply Plain with (o' := updm (owner s) m None) (acq' := acq s); [| | |exact Hwf'|].
      * unfold step. rewrite Hq, Hnth, Ho, Nat.eqb_refl. reflexivity.
      * destruct m; cbn [mutex_eqb]; [apply updm_same|rewrite updm_other by discriminate; exact HoL].
      * destruct m; cbn [mutex_eqb]; [rewrite updm_other by discriminate; exact HoM|apply updm_same].
      * cbn [next] in *. destruct (mutex_eqb m g); [|reflexivity]. destruct p; try reflexivity; congruence.
    + (* Work: four steps *)
      assert (Hp1 : p = P1) by (apply (work_phase g); exact Hne).
      rewrite Hp1 in *. cbn [emits]. cbn [next] in Hfold, HS.
      replace (length (Work :: rest) + 3) with (4 + (length rest + 0)) by (cbn; lia).
      cbn [repeat Nat.add].
      set (ts := th s t) in *.
      assert (S1 : step skf quota s t = Some {| th := upd (th s) t (mk_t (pc ts) W1 (idx ts)); owner := owner s; count := count s;
                      log := log s; acq := acq s; evs := evs s ++ [EEnter t (idx ts)] |}).
      { unfold step. fold ts. rewrite Hq, Hnth, Hw. reflexivity. }
      rewrite (run_cons _ _ _ _ _ _ S1). match goal with |- context [run skf quota ?X _] => set (s1 := X) end.
      assert (T1 : th s1 t = mk_t (pc ts) W1 (idx ts)) by (unfold s1; cbn [th]; apply upd_same).
      assert (S2 : step skf quota s1 t = Some {| th := upd (th s1) t (mk_t (pc ts) (W2 (count s)) (idx ts)); owner := owner s; count := count s;
                      log := log s; acq := acq s; evs := evs s ++ [EEnter t (idx ts)] |}).
      { unfold step. rewrite T1. cbn [pc wph idx mk_t]. rewrite Hq, Hnth. reflexivity. }
      rewrite (run_cons _ _ _ _ _ _ S2). match goal with |- context [run skf quota ?X _] => set (s2 := X) end.
      assert (T2 : th s2 t = mk_t (pc ts) (W2 (count s)) (idx ts)) by (unfold s2; cbn [th]; apply upd_same).
      assert (S3 : step skf quota s2 t = Some {| th := upd (th s2) t (mk_t (pc ts) (W3 (count s)) (idx ts)); owner := owner s; count := S (count s);
                      log := log s; acq := acq s; evs := evs s ++ [EEnter t (idx ts)] |}).
      { unfold step. rewrite T2. cbn [pc wph idx mk_t]. rewrite Hq, Hnth. reflexivity. }
      rewrite (run_cons _ _ _ _ _ _ S3). match goal with |- context [run skf quota ?X _] => set (s3 := X) end.
      assert (T3 : th s3 t = mk_t (pc ts) (W3 (count s)) (idx ts)) by (unfold s3; cbn [th]; apply upd_same).
      assert (S4 : step skf quota s3 t = Some {| th := upd (th s3) t (mk_t (S (pc ts)) W0 (idx ts)); owner := owner s; count := S (count s);
                      log := log s ++ [(t, idx ts, count s)]; acq := acq s;
                      evs := (evs s ++ [EEnter t (idx ts)]) ++ [EDeliver t (idx ts) (count s)] |}).
      { unfold step. rewrite T3. cbn [pc wph idx mk_t]. rewrite Hq, Hnth. reflexivity. }
      rewrite (run_cons _ _ _ _ _ _ S4). match goal with |- context [run skf quota ?X _] => set (s4 := X) end.
      assert (T4 : th s4 t = mk_t (S (pc ts)) W0 (idx ts)) by (unfold s4; cbn [th]; apply upd_same).
      specialize (IH (pre ++ [Work]) s4 hl hm Esk'). rewrite Hlen, HS in IH. cbv zeta in IH. cbn [emits] in IH.
      rewrite T4 in IH. cbn [pc wph idx mk_t] in IH.
      destruct (IH ltac:(lia) eq_refl Hlt (conj HoL HoM) Hwf Hfold') as (A & B & C & D & E & F1 & F2 & F3).
      split; [exact A|]. split; [exact B|]. split; [exact C|]. split; [exact D|]. split; [|split; [|split]].
      * intros t' Ht'. rewrite (E t' Ht'). unfold s4, s3, s2, s1. cbn [th]. rewrite !upd_other by exact Ht'. reflexivity.
      * rewrite F1. reflexivity.
      * rewrite F2. reflexivity.
      * rewrite F3. unfold s4. cbn [evs]. rewrite <- app_assoc. reflexivity.
    + (* Flush *)
      eapply Plain with (o' := owner s) (acq' := acq s) (hl' := hl) (hm' := hm); try assumption; try reflexivity.
      unfold step. rewrite Hq, Hnth. reflexivity.
    + (* Other *)
      eapply Plain with (o' := owner s) (acq' := acq s) (hl' := hl) (hm' := hm); try assumption; try reflexivity.
      unfold step. rewrite Hq, Hnth. reflexivity.
Qed.
End Solo.

Definition quiet (s : state) : Prop :=
  (forall t, pc (th s t) = 0 /\ wph (th s t) = W0) /\ owner s L = None /\ owner s M = None.
Lemma s0_quiet : quiet s0. Proof. repeat split. Qed.

Section Realise.
Variable skf : nat -> list instr.
Variable g : mutex.
Variable quota : nat -> nat.
Variable n : nat.
Hypothesis Hshape : forall t, shape g (skf t) = true.
Hypothesis Hsolo : forall t, solo_ok (skf t) = true.

Lemma shape_fold t : fold_left (next g) (skf t) P0 = P3.
Proof. pose proof (Hshape t) as H. unfold shape in H. destruct (fold_left (next g) (skf t) P0); try discriminate. reflexivity. Qed.

(* a thread running alone from a quiet state processes exactly one whole message and leaves a quiet state *)
Lemma whole_message s t : quiet s -> idx (th s t) < quota t ->
  let s' := run skf quota s (repeat t (length (skf t) + 4)) in
  quiet s' /\ idx (th s' t) = S (idx (th s t)) /\ (forall t', t' <> t -> th s' t' = th s t') /\
  log s' = log s ++ [(t, idx (th s t), count s)] /\ count s' = S (count s) /\
  evs s' = evs s ++ [EEnter t (idx (th s t)); EDeliver t (idx (th s t)) (count s)].
Proof.
  intros (Hq & HoL & HoM) Hlt s'. subst s'.
  replace (length (skf t) + 4) with ((length (skf t) + 3) + 1) by lia. rewrite repeat_app, run_app.
  destruct (Hq t) as [Hpc Hw].
  pose proof (solo_suffix skf g quota t (skf t) [] s false false eq_refl Hpc Hw Hlt (conj HoL HoM) (Hsolo t) (shape_fold t)) as H.
  cbv zeta in H. cbn [length emits phase_at firstn fold_left] in H.
  set (s1 := run skf quota s (repeat t (length (skf t) + 3))) in *.
  destruct H as (A & B & C & [D1 D2] & E & F1 & F2 & F3).
  assert (St : step skf quota s1 t = Some {| th := upd (th s1) t (mk_t 0 W0 (S (idx (th s1 t)))); owner := owner s1; count := count s1;
                                             log := log s1; acq := acq s1; evs := evs s1 |}).
  { unfold step. replace (Nat.leb (quota t) (idx (th s1 t))) with false by (symmetry; apply Nat.leb_gt; lia).
    replace (nth_error (skf t) (pc (th s1 t))) with (@None instr) by (symmetry; apply nth_error_None; lia). reflexivity. }
  cbn [repeat]. rewrite (run_cons _ _ _ _ _ _ St). unfold quiet. cbn [run th owner count log acq evs].
  split; [|split; [|split; [|split; [|split]]]].
  - split; [|split; assumption]. intros t'. destruct (Nat.eq_dec t' t) as [->|Hne].
    + rewrite upd_same. split; reflexivity.
    + rewrite upd_other by exact Hne. rewrite (E t' Hne). apply Hq.
  - rewrite upd_same. cbn. rewrite C. reflexivity.
  - intros t' Hne. rewrite upd_other by exact Hne. apply E. exact Hne.
  - exact F1.
  - exact F2.
  - exact F3.
Qed.

Definition Rel (s : state) (a : astate) : Prop :=
  quiet s /\ a_in a = None /\ a_cnt a = count s /\ (forall t, a_next a t = idx (th s t)).

Lemma realise : forall D s a a', Rel s a -> arun quota n a (paired D) = Some a' ->
  Rel (run skf quota s (whole_msgs skf (map fst D))) a' /\
  evs (run skf quota s (whole_msgs skf (map fst D))) = evs s ++ paired D.
Proof.
  induction D as [|[[t i] sq] D IH]; intros s a a' R H.
  - cbn in H. injection H as <-. cbn. rewrite app_nil_r. split; [exact R|reflexivity].
  - destruct R as (Hq & Hin & Hcnt & Hnext).
    cbn [paired flat_map app e_tid e_idx e_seq fst snd] in H. change (flat_map _ D) with (paired D) in H.
    cbn [arun astep] in H. rewrite Hin in H.
    destruct (Nat.ltb_spec t n) as [Htn|]; cbn [andb] in H; [|discriminate].
    destruct (Nat.eqb_spec i (a_next a t)) as [Ei|]; cbn [andb] in H; [|discriminate].
    destruct (Nat.ltb_spec i (quota t)) as [Hlt|]; [|discriminate].
    cbn [a_in a_cnt a_next] in H. rewrite !Nat.eqb_refl in H. cbn [andb] in H.
    destruct (Nat.eqb_spec sq (a_cnt a)) as [Es|]; [|discriminate].
    rewrite Hnext in Ei. subst i.
    destruct (whole_message s t Hq Hlt) as (Q2 & I2 & O2 & L2 & C2 & E2).
    cbn [map fst whole_msgs flat_map]. change (flat_map _ (map fst D)) with (whole_msgs skf (map fst D)). rewrite run_app.
    set (s2 := run skf quota s (repeat t (length (skf t) + 4))) in *.
    destruct (IH s2 {| a_in := None; a_cnt := S (a_cnt a); a_next := upd (a_next a) t (S (idx (th s t))) |} a') as [R' Ev'].
    + repeat split; try apply Q2; cbn [a_in a_cnt a_next]; [congruence|].
      intros t'. destruct (Nat.eq_dec t' t) as [->|Hne]; [rewrite upd_same; congruence|rewrite upd_other by exact Hne; rewrite (O2 t' Hne); apply Hnext].
    + exact H.
    + split; [exact R'|]. rewrite Ev', E2, Es, Hcnt, <- app_assoc. reflexivity.
Qed.

Lemma s0_rel : Rel s0 a0. Proof. repeat split. Qed.

(* every accepted trace IS the trace of a run of the model: the sequential schedule that executes the whole messages
   in delivery order *)
Theorem accepted_is_model_trace_g tr : accept_conc quota n tr = true ->
  let s := run skf quota s0 (whole_msgs skf (map fst (delivs tr))) in evs s = tr /\ finishedb n quota s = true.
Proof.
  intros A s. pose proof (accept_alternates quota n tr A) as Et. unfold accept_conc in A.
  destruct (arun quota n a0 tr) as [a|] eqn:Ea; [|discriminate]. destruct (a_final_spec quota n a A) as [_ Hn].
  rewrite Et in Ea. destruct (realise (delivs tr) s0 a0 a s0_rel Ea) as [(Hq & _ & _ & Hnext) Ev]. fold s in Hq, Hnext, Ev.
  split; [rewrite Ev, <- Et; reflexivity|]. apply forallb_forall. intros t Ht. apply in_seq in Ht. apply Nat.eqb_eq.
  rewrite <- Hnext. apply Hn. lia.
Qed.
End Realise.

Lemma map_fst_serial o : map fst (serial_log o) = o.
Proof. unfold serial_log. generalize 0. induction o as [|x o IH]; intros k; [reflexivity|]. cbn. rewrite IH. reflexivity. Qed.

Definition solo_family (skf : nat -> list instr) : Prop := forall t, solo_ok (skf t) = true.
Theorem accepted_is_model_trace skf quota n tr : guard_of skf -> solo_family skf ->
  accept_conc quota n tr = true ->
  let s := run skf quota s0 (whole_msgs skf (map fst (delivs tr))) in evs s = tr /\ finishedb n quota s = true.
Proof. intros [g Hs] So A. exact (accepted_is_model_trace_g skf g quota n Hs So tr A). Qed.

(* serialisability, schedule form: the sink log of ANY complete schedule is the sink log of the sequential schedule that
   runs the whole messages one after the other in the order in which the guarding mutex was acquired *)
Theorem serialisable_schedule skf quota n : guard_of skf -> solo_family skf -> threads_below n quota ->
  forall sched, let s := run skf quota s0 sched in finishedb n quota s = true ->
  exists g, (forall t, shape g (skf t) = true) /\ log (run skf quota s0 (whole_msgs skf (acq_of g (acq s)))) = log s.
Proof.
  intros B So Hq sched s F. destruct (serialisable skf quota n B Hq sched F) as (g & Hs & Hl). fold s in Hl.
  exists g. split; [exact Hs|].
  destruct (trace_accepted skf quota n B Hq sched) as (_ & Hlog & Acc). fold s in Hlog, Acc. specialize (Acc F).
  destruct (accepted_is_model_trace skf quota n (evs s) B So Acc) as [Ev _].
  rewrite <- Hlog in Ev.
  assert (Eo : map fst (log s) = acq_of g (acq s)) by (rewrite Hl at 1; apply map_fst_serial).
  rewrite Eo in Ev.
  destruct (trace_accepted skf quota n B Hq (whole_msgs skf (acq_of g (acq s)))) as (_ & Hlog' & _).
  rewrite Hlog', Ev. symmetry. exact Hlog.
Qed.

(* ------------------------------------------------------------------ Part 6: the fatal path — flush() also runs under the guard *)
Lemma flush_guarded_spec g : forall rest pre, flush_guarded_from g rest (fold_left (next g) pre P0) = true ->
  forall n, nth_error (pre ++ rest) n = Some Flush -> length pre <= n -> holding (phase_at g (pre ++ rest) n) = true.
Proof.
  induction rest as [|i rest IH]; intros pre H n Hn Hle.
  - rewrite app_nil_r in Hn. assert (nth_error pre n = None) by (apply nth_error_None; lia). congruence.
  - cbn [flush_guarded_from] in H. apply andb_prop in H as [Hi Hr].
    destruct (Nat.eq_dec n (length pre)) as [->|Hne].
    + rewrite nth_error_app2 in Hn by lia. rewrite Nat.sub_diag in Hn. cbn in Hn. injection Hn as ->.
      unfold phase_at. replace (length pre) with (length pre + 0) by lia. rewrite firstn_app_2. cbn [firstn]. rewrite app_nil_r. exact Hi.
    + replace (pre ++ i :: rest) with ((pre ++ [i]) ++ rest) in * by (rewrite <- app_assoc; reflexivity).
      apply IH; [rewrite fold_left_app; exact Hr|exact Hn|rewrite app_length; cbn; lia].
Qed.

(* every sink-touching instruction of every thread's skeleton lies in the critical section of one and the same mutex *)
Definition sinks_guard_of (skf : nat -> list instr) : Prop := exists g, forall t, guarded_by g (skf t) = true.
Theorem sink_exclusion skf quota n : sinks_guard_of skf -> threads_below n quota ->
  forall sched t1 t2, at_sink skf (run skf quota s0 sched) t1 = true -> at_sink skf (run skf quota s0 sched) t2 = true -> t1 = t2.
Proof.
  intros [g G] Hq sched t1 t2 H1 H2.
  assert (Hs : forall t, shape g (skf t) = true) by (intros t; specialize (G t); unfold guarded_by in G; apply andb_prop in G; apply G).
  assert (Hf : forall t, flush_guarded_from g (skf t) P0 = true) by (intros t; specialize (G t); unfold guarded_by in G; apply andb_prop in G; apply G).
  destruct (reach_inv skf g quota n Hs Hq (run skf quota s0 sched)) as [a I]; [exists sched; reflexivity|].
  assert (Hold : forall t, at_sink skf (run skf quota s0 sched) t = true ->
                           holding (phase_at g (skf t) (pc (th (run skf quota s0 sched) t))) = true).
  { intros t H. unfold at_sink in H. destruct (nth_error (skf t) (pc (th (run skf quota s0 sched) t))) as [[m|m| | |]|] eqn:En; try discriminate.
    - assert (E : phase_at g (skf t) (pc (th (run skf quota s0 sched) t)) = P1).
      { apply (work_phase g). rewrite <- (phase_S g (skf t) _ _ En). apply phase_ok. apply Hs. }
      rewrite E. reflexivity.
    - apply (flush_guarded_spec g (skf t) [] (Hf t) _ En). cbn. lia. }
  apply (hold_unique skf g quota n (run skf quota s0 sched) a t1 t2 I (Hold t1 H1) (Hold t2 H2)).
Qed.

(* families: the skeletons the threads of one run may use *)
Lemma uni_sinks_guard sk : sinks_guarded sk = true -> sinks_guard_of (uni sk).
Proof.
  unfold sinks_guarded. intros G. apply orb_prop in G as [G|G]; [exists L|exists M]; intros t; exact G.
Qed.
Lemma fam_sinks_guard sks skf : guarded_family sks = true -> (forall t, In (skf t) sks) -> sinks_guard_of skf.
Proof.
  unfold guarded_family. intros H A. apply orb_prop in H as [H|H]; [exists L|exists M]; intros t;
    rewrite forallb_forall in H; apply H; apply A.
Qed.
Lemma uni_solo sk : solo_ok sk = true -> solo_family (uni sk).
Proof. intros H t. exact H. Qed.
Lemma fam_solo sks skf : forallb solo_ok sks = true -> (forall t, In (skf t) sks) -> solo_family skf.
Proof. intros H A t. rewrite forallb_forall in H. apply H. apply A. Qed.
Lemma fam_bracketed_of_guarded sks : guarded_family sks = true -> bracketed_family sks = true.
Proof.
  unfold guarded_family, bracketed_family. intros H. apply orb_prop in H as [H|H]; apply orb_true_intro; [left|right];
    apply forallb_forall; intros sk Hin; rewrite forallb_forall in H; specialize (H sk Hin); unfold guarded_by in H;
    apply andb_prop in H; apply H.
Qed.

(* ---- two pipeline objects: the components are independent -------------------------------------- *)
Lemma arun2_proj qa na qb nb tr : forall a b,
  arun2 qa na qb nb (a, b) tr =
  match arun qa na a (proj_pipe PA tr), arun qb nb b (proj_pipe PB tr) with
  | Some a', Some b' => Some (a', b')
  | _, _ => None
  end.
Proof.
  induction tr as [|[p e] r IH]; intros a b; [reflexivity|].
  destruct p; cbn [arun2 astep2 proj_pipe flat_map fst snd app arun].
  - fold (proj_pipe PA r). fold (proj_pipe PB r).
    destruct (astep qa na a e) as [a'|]; [apply IH|reflexivity].
  - fold (proj_pipe PA r). fold (proj_pipe PB r).
    destruct (astep qb nb b e) as [b'|]; [apply IH|].
    destruct (arun qa na a (proj_pipe PA r)); reflexivity.
Qed.

(* what pipeline B does never changes pipeline A's state (its counter, its per-thread positions) *)
Theorem two_pipes_component_A qa na qb nb tr a b a' b' :
  arun2 qa na qb nb (a, b) tr = Some (a', b') -> arun qa na a (proj_pipe PA tr) = Some a'.
Proof.
  rewrite arun2_proj. destruct (arun qa na a (proj_pipe PA tr)); [|discriminate].
  destruct (arun qb nb b (proj_pipe PB tr)); [|discriminate]. intros H. injection H as -> _. reflexivity.
Qed.
Theorem two_pipes_component_B qa na qb nb tr a b a' b' :
  arun2 qa na qb nb (a, b) tr = Some (a', b') -> arun qb nb b (proj_pipe PB tr) = Some b'.
Proof.
  rewrite arun2_proj. destruct (arun qa na a (proj_pipe PA tr)); [|discriminate].
  destruct (arun qb nb b (proj_pipe PB tr)); [|discriminate]. intros H. injection H as _ ->. reflexivity.
Qed.

(* the two-pipeline acceptor = the single-pipeline acceptor on each pipeline's own events *)
Theorem accept_two_split qa na qb nb tr :
  accept_two qa na qb nb tr = accept_conc qa na (proj_pipe PA tr) && accept_conc qb nb (proj_pipe PB tr).
Proof.
  unfold accept_two, accept_conc. rewrite arun2_proj.
  destruct (arun qa na a0 (proj_pipe PA tr)) as [a|]; [|reflexivity].
  destruct (arun qb nb a0 (proj_pipe PB tr)) as [b|]; [reflexivity|].
  cbn. rewrite Bool.andb_false_r. reflexivity.
Qed.

Theorem accept_two_implies_oracles qa na qb nb tr : accept_two qa na qb nb tr = true ->
  prop_c02_b qa na (proj_pipe PA tr) = true /\ prop_c02_b qb nb (proj_pipe PB tr) = true.
Proof.
  rewrite accept_two_split. intros H. apply andb_prop in H as [HA HB].
  split; apply accept_implies_oracle; assumption.
Qed.
