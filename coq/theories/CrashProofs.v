(* C10 — lemmas about CrashDefs.v *)
From Coq Require Import List Arith Bool ZArith Lia.
Import ListNotations.
Require Import QtlVerif.CrashDefs.

(* ------------------------------------------------------------------ finite maps *)
Lemma name_eqb_spec a b : reflect (a = b) (name_eqb a b).
Proof. destruct a, b; cbn; try (constructor; congruence); destruct (Nat.eqb_spec i i0); constructor; congruence. Qed.
Lemma name_eqb_refl a : name_eqb a a = true.
Proof. destruct (name_eqb_spec a a); [reflexivity|contradiction]. Qed.
Lemma get_put_same d n f : get (put d n f) n = Some f.
Proof. unfold put. cbn. rewrite name_eqb_refl. reflexivity. Qed.
Lemma get_del_other d n m : n <> m -> get (del d m) n = get d n.
Proof.
  intros H. induction d as [|[k f] r IH]; [reflexivity|]. cbn [del get].
  destruct (name_eqb_spec m k) as [->|Hmk].
  - rewrite IH. destruct (name_eqb_spec n k); [contradiction|reflexivity].
  - cbn [get]. rewrite IH. reflexivity.
Qed.
Lemma get_del_same d n : get (del d n) n = None.
Proof.
  induction d as [|[k f] r IH]; [reflexivity|]. cbn [del].
  destruct (name_eqb_spec n k) as [->|H]; [exact IH|]. cbn [get].
  destruct (name_eqb_spec n k); [contradiction|exact IH].
Qed.
Lemma get_put_other d n m f : n <> m -> get (put d m f) n = get d n.
Proof. intros H. unfold put. cbn [get]. destruct (name_eqb_spec n m); [contradiction|]. apply get_del_other, H. Qed.
Lemma get_in_names d n f : get d n = Some f -> In n (names d).
Proof.
  induction d as [|[k g] r IH]; [discriminate|]. cbn [get names map fst].
  destruct (name_eqb_spec n k) as [->|H]; [left; reflexivity|]. intros E. right. apply IH, E.
Qed.
Lemma get_none_not_in d n : get d n = None -> ~ In n (names d).
Proof.
  induction d as [|[k g] r IH]; [intros _ []|]. cbn [get names map fst].
  destruct (name_eqb_spec n k) as [->|H]; [discriminate|]. intros E [H1|H1]; [congruence|]. exact (IH E H1).
Qed.
Lemma has_false_get d n : has d n = false -> get d n = None.
Proof. unfold has. destruct (get d n); [discriminate|reflexivity]. Qed.

(* ------------------------------------------------------------------ held records *)
Lemma rec_eqb_eq a b : rec_eqb a b = true -> a = b.
Proof.
  unfold rec_eqb. intros H. apply andb_true_iff in H. destruct H as [H1 H2].
  apply Nat.eqb_eq in H1, H2. destruct a, b; cbn in *; congruence.
Qed.
Lemma rec_eqb_refl a : rec_eqb a a = true.
Proof. unfold rec_eqb. rewrite !Nat.eqb_refl. reflexivity. Qed.
Definition mem_rec (r : rec) (l : list rec) : bool := existsb (rec_eqb r) l.
Lemma mem_rec_In r l : mem_rec r l = true <-> In r l.
Proof.
  unfold mem_rec. rewrite existsb_exists. split.
  - intros (x & Hx & E). apply rec_eqb_eq in E. subst. exact Hx.
  - intros H. exists r. split; [exact H|apply rec_eqb_refl].
Qed.
(* r is in an intact file *)
Definition holds (d : fs) (r : rec) : Prop :=
  exists n f, get d n = Some f /\ complete f = true /\ In r (recs f).
(* well-formed directory: names are unique, the active file holds whole records only *)
Definition wf_fs (d : fs) : Prop :=
  NoDup (names d) /\ (forall f, get d Active = Some f -> complete f = true).

Lemma in_get d : NoDup (names d) -> forall n f, In (n, f) d -> get d n = Some f.
Proof.
  induction d as [|[k g] r IH]; intros Hnd n f Hin; [destruct Hin|].
  cbn [names map fst] in Hnd. inversion Hnd as [|? ? Hk Hr]; subst.
  destruct Hin as [E|Hin].
  - inversion E; subst. cbn [get]. rewrite name_eqb_refl. reflexivity.
  - cbn [get]. destruct (name_eqb_spec n k) as [->|Hne].
    + exfalso. apply Hk. change (In k (map fst r)). apply in_map_iff. exists (k, f). split; [reflexivity|exact Hin].
    + apply IH; assumption.
Qed.
Lemma get_in d n f : get d n = Some f -> In (n, f) d.
Proof.
  induction d as [|[k g] r IH]; [discriminate|]. cbn [get].
  destruct (name_eqb_spec n k) as [->|H]; [intros E; inversion E; left; reflexivity|]. intros E. right. apply IH, E.
Qed.
Lemma rec_in_holds d r : NoDup (names d) -> (rec_in r d = true <-> holds d r).
Proof.
  intros Hnd. unfold rec_in, holds. rewrite existsb_exists. split.
  - intros ([n f] & Hin & H). cbn [snd] in H. apply andb_true_iff in H. destruct H as [Hc Hm].
    exists n, f. split; [apply in_get; assumption|]. split; [exact Hc|]. apply mem_rec_In, Hm.
  - intros (n & f & Hg & Hc & Hi). exists (n, f). split; [apply get_in, Hg|]. cbn [snd].
    rewrite Hc. cbn. apply mem_rec_In, Hi.
Qed.

(* ------------------------------------------------------------------ names under del / put *)
Lemma names_del d m n : In n (names (del d m)) -> In n (names d) /\ n <> m.
Proof.
  induction d as [|[k g] r IH]; [intros []|]. cbn [del].
  destruct (name_eqb_spec m k) as [->|Hmk].
  - intros H. destruct (IH H) as [H1 H2]. split; [right; exact H1|exact H2].
  - cbn [names map fst]. intros [E|H]; [subst; split; [left; reflexivity|congruence]|].
    destruct (IH H) as [H1 H2]. split; [right; exact H1|exact H2].
Qed.
Lemma nodup_del d m : NoDup (names d) -> NoDup (names (del d m)).
Proof.
  induction d as [|[k g] r IH]; intros H; [constructor|]. cbn [names map fst] in H. inversion H as [|? ? Hk Hr]; subst.
  cbn [del]. destruct (name_eqb_spec m k) as [->|Hmk]; [apply IH, Hr|].
  cbn [names map fst]. constructor; [|apply IH, Hr]. intros Hin. apply names_del in Hin. apply Hk, (proj1 Hin).
Qed.
Lemma nodup_put d n f : NoDup (names d) -> NoDup (names (put d n f)).
Proof.
  intros H. unfold put. cbn [names map fst]. constructor; [|apply nodup_del, H].
  intros Hin. apply names_del in Hin. destruct Hin as [_ Hne]. congruence.
Qed.

Lemma wf_step d s ok : wf_fs d -> wf_fs (apply_step d s ok).
Proof.
  intros Hwf. pose proof Hwf as [Hnd Hac]. unfold apply_step. destruct ok; cbn [negb]; [|exact Hwf].
  destruct s.
  - exact Hwf.
  - destruct (get d Active) as [fa|] eqn:Ea; [|exact Hwf].
    destruct (get d (Rot i)) eqn:Er; [exact Hwf|].
    split; [apply nodup_put, nodup_del, Hnd|]. intros f. rewrite get_put_other by discriminate. rewrite get_del_same. discriminate.
  - split; [apply nodup_put, Hnd|]. intros f. rewrite get_put_other by discriminate. apply Hac.
  - destruct (get d (Rot i)); [|exact Hwf].
    split; [apply nodup_put, Hnd|]. intros f'. rewrite get_put_other by discriminate. apply Hac.
  - destruct (get d (RotGz i)); [|exact Hwf].
    split; [apply nodup_put, Hnd|]. intros f'. rewrite get_put_other by discriminate. apply Hac.
  - split; [apply nodup_del, Hnd|]. intros f. rewrite get_del_other by discriminate. apply Hac.
  - split; [apply nodup_del, Hnd|]. intros f. destruct (name_eqb_spec Active n) as [<-|Hne].
    + rewrite get_del_same. discriminate.
    + rewrite get_del_other by exact Hne. apply Hac.
  - destruct append.
    + destruct (get d Active) eqn:Ea; [exact Hwf|].
      split; [apply nodup_put, Hnd|]. intros f. rewrite get_put_same. intros E; inversion E; reflexivity.
    + split; [apply nodup_put, Hnd|]. intros f. rewrite get_put_same. intros E; inversion E; reflexivity.
  - destruct (get d Active) as [fa|] eqn:Ea; [|exact Hwf].
    split; [apply nodup_put, Hnd|]. intros f. rewrite get_put_same. intros E; inversion E; subst. cbn [complete]. apply Hac. reflexivity.
Qed.
Lemma wf_run d p : wf_fs d -> wf_fs (run_steps d p).
Proof. revert d. induction p as [|[s ok] t IH]; intros d H; [exact H|]. cbn [run_steps fold_left fst snd]. apply IH, wf_step, H. Qed.

(* ------------------------------------------------------------------ one safe step keeps every held record, or retires it *)
Definition step_gone (d : fs) (s : step) (ok : bool) : list rec :=
  match s, ok with SUnlinkVictim n, true => match get d n with Some f => recs f | None => [] end | _, _ => [] end.
Lemma retired_cons d s ok t : retired d ((s, ok) :: t) = step_gone d s ok ++ retired (apply_step d s ok) t.
Proof. reflexivity. Qed.

Lemma subset_recs_in a b r : subset_recs a b = true -> In r a -> In r b.
Proof.
  unfold subset_recs. rewrite forallb_forall. intros H Hi. apply mem_rec_In. apply H, Hi.
Qed.

Lemma step_keeps d s ok r : wf_fs d -> (negb ok || safe_step d s) = true -> holds d r ->
  holds (apply_step d s ok) r \/ In r (step_gone d s ok).
Proof.
  intros [Hnd Hac] Hs (n & f & Hg & Hc & Hi).
  unfold apply_step, step_gone. destruct ok; cbn [negb orb] in *; [|left; exists n, f; tauto].
  destruct s; cbn [safe_step] in Hs.
  - left; exists n, f; tauto.
  - (* rename *)
    destruct (get d Active) as [fa|] eqn:Ea; [|left; exists n, f; tauto].
    destruct (get d (Rot i)) eqn:Er; [left; exists n, f; tauto|].
    left. destruct (name_eqb_spec n Active) as [->|Hna].
    + exists (Rot i), fa. rewrite get_put_same. rewrite Ea in Hg. inversion Hg; subst. tauto.
    + exists n, f. assert (n <> Rot i) by (intros ->; congruence).
      rewrite get_put_other, get_del_other by assumption. tauto.
  - (* create .gz *)
    left. exists n, f. apply negb_true_iff, has_false_get in Hs.
    assert (n <> RotGz i) by (intros ->; congruence). rewrite get_put_other by assumption. tauto.
  - (* write .gz *)
    destruct (get d (Rot i)) as [fp|] eqn:Ep; [|left; exists n, f; tauto].
    left. exists n, f. assert (n <> RotGz i).
    { intros ->. rewrite Hg in Hs. rewrite Hc in Hs. discriminate. }
    rewrite get_put_other by assumption. tauto.
  - (* close .gz *)
    destruct (get d (RotGz i)) as [g|] eqn:Eg; [|left; exists n, f; tauto].
    left. destruct (name_eqb_spec n (RotGz i)) as [->|Hne].
    + eexists _, _. rewrite get_put_same. split; [reflexivity|]. cbn [recs complete]. rewrite Eg in Hg. inversion Hg; subst. tauto.
    + exists n, f. rewrite get_put_other by assumption. tauto.
  - (* unlink the original *)
    left. destruct (name_eqb_spec n (Rot i)) as [->|Hne].
    + rewrite Hg in Hs. destruct (get d (RotGz i)) as [g|] eqn:Eg; [|discriminate].
      apply andb_true_iff in Hs. destruct Hs as [Hcg Hsub].
      exists (RotGz i), g. rewrite get_del_other by discriminate. split; [exact Eg|]. split; [exact Hcg|].
      eapply subset_recs_in; eassumption.
    + exists n, f. rewrite get_del_other by assumption. tauto.
  - (* retention *)
    destruct (name_eqb_spec n n0) as [->|Hne].
    + right. rewrite Hg. exact Hi.
    + left. exists n, f. rewrite get_del_other by assumption. tauto.
  - (* open active *)
    left. destruct append.
    + destruct (get d Active) eqn:Ea; [exists n, f; tauto|].
      exists n, f. assert (n <> Active) by (intros ->; congruence). rewrite get_put_other by assumption. tauto.
    + cbn [orb] in Hs. apply negb_true_iff, has_false_get in Hs.
      exists n, f. assert (n <> Active) by (intros ->; congruence). rewrite get_put_other by assumption. tauto.
  - (* append *)
    destruct (get d Active) as [fa|] eqn:Ea; [|left; exists n, f; tauto].
    left. destruct (name_eqb_spec n Active) as [->|Hne].
    + eexists _, _. rewrite get_put_same. split; [reflexivity|]. cbn [recs complete].
      rewrite Ea in Hg. inversion Hg; subst. split; [exact Hc|]. apply in_or_app. left. exact Hi.
    + exists n, f. rewrite get_put_other by assumption. tauto.
Qed.

(* an effective append puts the record into the (intact) active file *)
Lemma append_holds d r : wf_fs d -> has d Active = true -> holds (apply_step d (SAppend r) true) r.
Proof.
  intros [Hnd Hac] Hh. unfold apply_step. cbn [negb]. unfold has in Hh.
  destruct (get d Active) as [fa|] eqn:Ea; [|discriminate].
  eexists _, _. rewrite get_put_same. split; [reflexivity|]. cbn [recs complete].
  split; [apply Hac; reflexivity|]. apply in_or_app. right. left. reflexivity.
Qed.

(* ------------------------------------------------------------------ safe step lists, any prefix *)
Lemma all_safe_app d p q : all_safe d (p ++ q) = all_safe d p && all_safe (run_steps d p) q.
Proof.
  revert d. induction p as [|[s ok] t IH]; intros d; [reflexivity|].
  cbn [app all_safe run_steps fold_left fst snd]. rewrite IH. rewrite andb_assoc. reflexivity.
Qed.
Lemma all_safe_firstn d p k : all_safe d p = true -> all_safe d (firstn k p) = true.
Proof.
  revert d p. induction k as [|k IH]; intros d p H; [reflexivity|].
  destruct p as [|[s ok] t]; [reflexivity|]. cbn [firstn all_safe] in *.
  apply andb_true_iff in H. destruct H as [H1 H2]. rewrite H1. cbn. apply IH, H2.
Qed.
Lemma run_steps_app d p q : run_steps d (p ++ q) = run_steps (run_steps d p) q.
Proof. unfold run_steps. apply fold_left_app. Qed.

(* the core: along a safe step list every record that was held, or that was appended on the way,
   is held at the end or went with a retention victim *)
Theorem safe_trace_keeps p : forall d, wf_fs d -> all_safe d p = true ->
  forall r, holds d r \/ In r (flushed d p) -> holds (run_steps d p) r \/ In r (retired d p).
Proof.
  induction p as [|[s ok] t IH]; intros d Hwf Hsafe r Hr.
  - destruct Hr as [H|[]]. left. exact H.
  - cbn [all_safe] in Hsafe. apply andb_true_iff in Hsafe. destruct Hsafe as [Hs Ht].
    cbn [run_steps fold_left fst snd]. rewrite retired_cons.
    assert (Hwf' : wf_fs (apply_step d s ok)) by (apply wf_step, Hwf).
    assert (Hcase : holds (apply_step d s ok) r \/ In r (step_gone d s ok) \/ In r (flushed (apply_step d s ok) t)).
    { destruct Hr as [H|H].
      - destruct (step_keeps d s ok r Hwf Hs H) as [H1|H1]; [left; exact H1|right; left; exact H1].
      - cbn [flushed] in H. apply in_app_or in H. destruct H as [H|H]; [|right; right; exact H].
        destruct s; try destruct H. destruct ok; [|destruct H].
        destruct (has d Active) eqn:Eh; [|destruct H]. destruct H as [<-|[]].
        left. apply append_holds; assumption. }
    destruct Hcase as [H|[H|H]].
    + destruct (IH _ Hwf' Ht r (or_introl H)) as [H1|H1]; [left; exact H1|right; apply in_or_app; right; exact H1].
    + right. apply in_or_app. left. exact H.
    + destruct (IH _ Hwf' Ht r (or_intror H)) as [H1|H1]; [left; exact H1|right; apply in_or_app; right; exact H1].
Qed.

(* ------------------------------------------------------------------ the translated order is the canonical one *)
Lemma nats_eqb_eq a : forall b, nats_eqb a b = true -> a = b.
Proof.
  induction a as [|x a IH]; destruct b as [|y b]; cbn; try discriminate; [reflexivity|].
  intros H. apply andb_true_iff in H. destruct H as [H1 H2]. apply Nat.eqb_eq in H1. subst. f_equal. apply IH, H2.
Qed.
Lemma rcode_inj a b : rstmt_code a = rstmt_code b -> a = b.
Proof. destruct a as [| | | | |[|]], b as [| | | | |[|]]; cbn; intros H; try discriminate H; reflexivity. Qed.
Lemma ccode_inj a b : cstmt_code a = cstmt_code b -> a = b.
Proof. destruct a, b; cbn; intros H; try discriminate H; reflexivity. Qed.
Lemma map_inj {A} (f : A -> nat) (Hf : forall a b, f a = f b -> a = b) : forall l1 l2, map f l1 = map f l2 -> l1 = l2.
Proof.
  induction l1 as [|x l1 IH]; destruct l2 as [|y l2]; cbn; intros H; try discriminate H; [reflexivity|].
  inversion H. f_equal; [apply Hf; assumption|apply IH; assumption].
Qed.
Record src_good (s : crash_src) : Prop := {
  sg_rot : s_rotate s = canon_rotate; sg_cmp : s_compress s = canon_compress;
  sg_keep : s_keep_minus s = 1; sg_plus : s_index_plus s = 1;
  sg_gz : s_index_counts_gz s = true; sg_app : s_start_append s = true }.
Lemma src_goodb_good s : src_goodb s = true -> src_good s.
Proof.
  unfold src_goodb. intros H.
  repeat (apply andb_true_iff in H; let H2 := fresh "G" in destruct H as [H H2]).
  constructor; try assumption; try (apply Nat.eqb_eq; assumption).
  - apply (map_inj rstmt_code rcode_inj). apply nats_eqb_eq. exact H.
  - apply (map_inj cstmt_code ccode_inj). apply nats_eqb_eq. assumption.
Qed.

(* ------------------------------------------------------------------ the next index is free, as plain and as .gz *)
Lemma fold_max_ge (f : name -> option nat) : forall l m,
  m <= fold_left (fun m n => match f n with Some i => Nat.max m i | None => m end) l m.
Proof.
  induction l as [|x l IH]; intros m; cbn [fold_left]; [lia|].
  destruct (f x); [eapply Nat.le_trans; [|apply IH]; lia|apply IH].
Qed.
Lemma fold_max_in (f : name -> option nat) : forall l m n i, In n l -> f n = Some i ->
  i <= fold_left (fun m n => match f n with Some i => Nat.max m i | None => m end) l m.
Proof.
  induction l as [|x l IH]; intros m n i Hin Hf; [destruct Hin|]. cbn [fold_left].
  destruct Hin as [->|Hin].
  - rewrite Hf. eapply Nat.le_trans; [|apply fold_max_ge]. lia.
  - eapply IH; eassumption.
Qed.
Theorem next_index_free src d : src_good src ->
  has d (Rot (next_index src d)) = false /\ has d (RotGz (next_index src d)) = false.
Proof.
  intros G. unfold has. split.
  - destruct (get d (Rot (next_index src d))) eqn:E; [|reflexivity]. exfalso.
    apply get_in_names in E. unfold next_index in *. rewrite (sg_plus src G) in *.
    pose proof (fold_max_in (counted src) (names d) 0 _ _ E eq_refl). lia.
  - destruct (get d (RotGz (next_index src d))) eqn:E; [|reflexivity]. exfalso.
    apply get_in_names in E. unfold next_index in *. rewrite (sg_plus src G) in *.
    assert (Hc : counted src (RotGz (1 + fold_left (fun m n => match counted src n with Some i => Nat.max m i | None => m end) (names d) 0))
                 = Some (1 + fold_left (fun m n => match counted src n with Some i => Nat.max m i | None => m end) (names d) 0)).
    { cbn [counted]. rewrite (sg_gz src G). reflexivity. }
    pose proof (fold_max_in (counted src) (names d) 0 _ _ E Hc). lia.
Qed.

(* ------------------------------------------------------------------ every step of a rotation is safe *)
Lemma victim_steps_safe flt ev : forall vs k d, all_safe d (victim_steps flt ev k vs) = true.
Proof.
  induction vs as [|v vs IH]; intros k d; [reflexivity|]. cbn [victim_steps all_safe safe_step].
  rewrite orb_true_r. cbn. apply IH.
Qed.

Lemma canon_compress_steps flt ev i :
  compress_steps flt ev i canon_compress false =
  (SCreateGz i, okf flt ev FCreateGz) ::
  (if okf flt ev FCreateGz then [(SWriteGz i, true); (SCloseGz i, true); (SUnlinkPlain i, okf flt ev FUnlinkPlain)] else []).
Proof. unfold canon_compress. cbn [compress_steps app]. destruct (okf flt ev FCreateGz); reflexivity. Qed.

Lemma compress_safe flt ev i d : wf_fs d -> has d (RotGz i) = false ->
  all_safe d (compress_steps flt ev i canon_compress false) = true.
Proof.
  intros [Hnd Hac] Hfree. rewrite canon_compress_steps.
  cbn [all_safe safe_step]. rewrite Hfree. cbn [negb]. rewrite orb_true_r. cbn [andb].
  destruct (okf flt ev FCreateGz) eqn:E1; [|reflexivity].
  cbn [all_safe safe_step negb orb andb].
  (* state after create *)
  set (d1 := apply_step d (SCreateGz i) true).
  assert (G1 : get d1 (RotGz i) = Some {| recs := []; complete := false |}) by (unfold d1, apply_step; cbn [negb]; apply get_put_same).
  rewrite G1. cbn [complete negb andb].
  set (d2 := apply_step d1 (SWriteGz i) true).
  set (d3 := apply_step d2 (SCloseGz i) true).
  destruct (okf flt ev FUnlinkPlain); cbn [negb orb]; [|reflexivity].
  rewrite andb_true_r.
  (* the original, if present, is covered by the closed .gz *)
  assert (P1 : get d1 (Rot i) = get d (Rot i)) by (unfold d1, apply_step; cbn [negb]; apply get_put_other; discriminate).
  destruct (get d (Rot i)) as [fp|] eqn:Ep.
  - assert (G2 : get d2 (RotGz i) = Some {| recs := recs fp; complete := false |}).
    { unfold d2, apply_step. cbn [negb]. rewrite P1. apply get_put_same. }
    assert (P2 : get d2 (Rot i) = Some fp).
    { unfold d2, apply_step. cbn [negb]. rewrite P1. rewrite get_put_other by discriminate. exact P1. }
    assert (G3 : get d3 (RotGz i) = Some {| recs := recs fp; complete := true |}).
    { unfold d3, apply_step. cbn [negb]. rewrite G2. cbn [recs]. apply get_put_same. }
    assert (P3 : get d3 (Rot i) = Some fp).
    { unfold d3, apply_step. cbn [negb]. rewrite G2. rewrite get_put_other by discriminate. exact P2. }
    rewrite P3, G3. cbn [complete recs andb]. unfold subset_recs. apply forallb_forall. intros r Hr. apply mem_rec_In, Hr.
  - assert (P2 : get d2 (Rot i) = None).
    { unfold d2, apply_step. cbn [negb]. rewrite P1. exact P1. }
    assert (P3 : get d3 (Rot i) = None).
    { unfold d3, apply_step. cbn [negb]. destruct (get d2 (RotGz i)); [rewrite get_put_other by discriminate|]; exact P2. }
    rewrite P3. reflexivity.
Qed.

Lemma rename_keeps_gz_free d i ok : has d (RotGz i) = false -> has (apply_step d (SRename i) ok) (RotGz i) = false.
Proof.
  intros H. unfold apply_step. destruct ok; cbn [negb]; [|exact H].
  destruct (get d Active); [|exact H]. destruct (get d (Rot i)); [exact H|].
  unfold has in *. rewrite get_put_other, get_del_other by discriminate. exact H.
Qed.

Lemma apply_close d o : apply_step d SCloseActive o = d.
Proof. destruct o; reflexivity. Qed.

Theorem rotate_safe src c flt ev opened d : src_good src -> wf_fs d ->
  all_safe d (rotate_prog src c flt ev opened d) = true.
Proof.
  intros G Hwf. unfold rotate_prog. rewrite (sg_rot src G). unfold canon_rotate.
  cbn [rotate_steps]. rewrite (sg_cmp src G).
  set (i := next_index src d).
  destruct (next_index_free src d G) as [_ Hgz]. fold i in Hgz.
  cbn [all_safe safe_step]. rewrite !orb_true_r. cbn [andb]. rewrite !apply_close.
  set (d1 := apply_step d (SRename i) (okf flt ev FRename)).
  assert (Hwf1 : wf_fs d1) by (apply wf_step, Hwf).
  assert (Hgz1 : has d1 (RotGz i) = false) by (apply rename_keeps_gz_free, Hgz).
  rewrite all_safe_app. apply andb_true_iff. split.
  - destruct (okf flt ev FRename && has d Active && negb (has d (Rot i)) && cCompress c); [|reflexivity].
    apply compress_safe; assumption.
  - rewrite all_safe_app. rewrite victim_steps_safe. cbn [andb all_safe safe_step]. rewrite orb_true_r. reflexivity.
Qed.

(* after a rotation whose reopen does not fail the active file exists: logging continues *)
Lemma run_last_open d p : has (run_steps d (p ++ [(SOpenActive true, true)])) Active = true.
Proof.
  rewrite run_steps_app. generalize (run_steps d p). intros dd.
  cbn [run_steps fold_left fst snd]. unfold apply_step. cbn [negb]. unfold has.
  destruct (get dd Active) eqn:E; [rewrite E; reflexivity|].
  rewrite get_put_same. reflexivity.
Qed.
Theorem rotate_reopens src c flt ev opened d : src_good src -> okf flt ev FOpenActive = true ->
  has (run_steps d (rotate_prog src c flt ev opened d)) Active = true.
Proof.
  intros G Hok. unfold rotate_prog. rewrite (sg_rot src G). unfold canon_rotate. cbn [rotate_steps].
  rewrite Hok. rewrite !app_comm_cons, !app_assoc. apply run_last_open.
Qed.

(* ------------------------------------------------------------------ whole histories *)
Lemma write_safe src c flt inited ev opened d r : src_good src -> wf_fs d ->
  all_safe d (fst (write_steps src c flt inited ev opened d r)) = true.
Proof.
  intros G Hwf. unfold write_steps. cbn [fst].
  rewrite all_safe_app. apply andb_true_iff. split.
  - destruct (negb inited && cStartup c && (0 <? asize d)%Z && rotates c); [apply rotate_safe; assumption|reflexivity].
  - rewrite all_safe_app. apply andb_true_iff. split.
    + match goal with |- all_safe ?dd (if ?b then _ else _) = true => destruct b; [apply rotate_safe; [assumption|apply wf_run, Hwf]|reflexivity] end.
    + cbn [all_safe safe_step]. rewrite orb_true_r. reflexivity.
Qed.
Lemma writes_safe src c flt : src_good src -> forall rs inited ev opened d, wf_fs d ->
  all_safe d (writes_steps src c flt inited ev opened d rs) = true.
Proof.
  intros G. induction rs as [|r rs IH]; intros inited ev opened d Hwf; [reflexivity|].
  cbn [writes_steps]. rewrite all_safe_app. apply andb_true_iff. split.
  - apply write_safe; assumption.
  - apply IH. apply wf_run, Hwf.
Qed.
Theorem history_safe src c flt d0 rs : src_good src -> wf_fs d0 ->
  all_safe d0 (history_steps src c flt d0 rs) = true.
Proof.
  intros G Hwf. unfold history_steps. rewrite all_safe_app. apply andb_true_iff. split.
  - unfold start_steps. rewrite (sg_app src G). cbn [all_safe safe_step]. rewrite orb_true_r. reflexivity.
  - apply writes_safe; [assumption|apply wf_run, Hwf].
Qed.

(* C10, all at once: any directory (also one a crash left), any configuration, any record list, at
   most one failing rename / create / unlink / open, any crash point k *)
Theorem no_loss_history src c flt d0 rs k r : src_good src -> wf_fs d0 ->
  holds d0 r \/ In r (flushed d0 (firstn k (history_steps src c flt d0 rs))) ->
  holds (crash_dir d0 (history_steps src c flt d0 rs) k) r
  \/ In r (retired d0 (firstn k (history_steps src c flt d0 rs))).
Proof.
  intros G Hwf Hr. unfold crash_dir. apply safe_trace_keeps; try assumption.
  apply all_safe_firstn, history_safe; assumption.
Qed.

(* as long as the retention has removed nothing (count limit off, or not reached), nothing at all is
   lost: in particular a complete original that a kill inside the compression window left next to an
   unfinished .gz outlives every rotation of the sinks started afterwards *)
Corollary idle_retention_keeps_all src c flt d0 rs k r : src_good src -> wf_fs d0 ->
  retired d0 (firstn k (history_steps src c flt d0 rs)) = [] ->
  holds d0 r \/ In r (flushed d0 (firstn k (history_steps src c flt d0 rs))) ->
  holds (crash_dir d0 (history_steps src c flt d0 rs) k) r.
Proof.
  intros G Hwf Hn Hr. destruct (no_loss_history src c flt d0 rs k r G Hwf Hr) as [H|H]; [exact H|].
  rewrite Hn in H. destruct H.
Qed.

(* one rotating write in isolation (the statement of DESIGN 4/C10 theorem 1 and 2) *)
Theorem no_loss_rotation src c flt ev opened d k r : src_good src -> wf_fs d -> holds d r ->
  holds (run_steps d (firstn k (rotate_prog src c flt ev opened d))) r
  \/ In r (retired d (firstn k (rotate_prog src c flt ev opened d))).
Proof.
  intros G Hwf Hr. apply safe_trace_keeps; [assumption| |left; exact Hr].
  apply all_safe_firstn, rotate_safe; assumption.
Qed.

(* the boolean oracle is the property: [prop_c10_b pre gone post] says exactly that every record of
   an intact file of pre is held in post or listed in gone *)
Theorem oracle_spec pre gone post : NoDup (names pre) -> NoDup (names post) ->
  (prop_c10_b pre gone post = true <-> forall r, holds pre r -> holds post r \/ In r gone).
Proof.
  intros Hp Hq. unfold prop_c10_b. rewrite forallb_forall. split.
  - intros H r (n & f & Hg & Hc & Hi). specialize (H (n, f) (get_in _ _ _ Hg)). cbn [snd] in H. rewrite Hc in H.
    rewrite forallb_forall in H. specialize (H r Hi). apply orb_true_iff in H. destruct H as [H|H].
    + left. apply rec_in_holds; assumption.
    + right. apply mem_rec_In, H.
  - intros H [n f] Hin. cbn [snd]. destruct (complete f) eqn:Hc; [|reflexivity].
    apply forallb_forall. intros r Hi. apply orb_true_iff.
    destruct (H r) as [H1|H1].
    + exists n, f. split; [apply in_get; assumption|]. tauto.
    + left. apply rec_in_holds; assumption.
    + right. apply mem_rec_In, H1.
Qed.
Lemma nodup_names_spec l : nodup_names l = true -> NoDup l.
Proof.
  induction l as [|n l IH]; intros H; [constructor|]. cbn [nodup_names] in H. apply andb_true_iff in H. destruct H as [H1 H2].
  constructor; [|apply IH, H2]. intros Hin. apply negb_true_iff in H1.
  assert (existsb (name_eqb n) l = true) by (apply existsb_exists; exists n; split; [exact Hin|apply name_eqb_refl]). congruence.
Qed.

(* the complete rotation with one failing step: nothing lost, and the sink ends with an active file
   unless it was the reopen that failed *)
Theorem no_loss_rotation_full src c flt ev opened d r : src_good src -> wf_fs d -> holds d r ->
  holds (run_steps d (rotate_prog src c flt ev opened d)) r \/ In r (retired d (rotate_prog src c flt ev opened d)).
Proof. intros G Hwf Hr. apply safe_trace_keeps; [assumption|apply rotate_safe; assumption|left; exact Hr]. Qed.

(* a variant of the source order in which the original is removed before the output is closed (the
   buffered .gz bytes reach the disk at close): used to show that the theorems depend on the order *)
Definition bad_src : crash_src := {|
  s_rotate := canon_rotate;
  s_compress := [COpenIn; CCreateOut; CReadCrc; CWriteHeader; CReadAll; CWriteBody; CWriteTrailer; CCloseIn; CRemoveOrig; CCloseOut];
  s_keep_minus := 1; s_index_plus := 1; s_index_counts_gz := true; s_start_append := true |}.

(* ------------------------------------------------------------------ retention policy of the model *)
Lemma insert_key_in n l x : In x (insert_key n l) -> x = n \/ In x l.
Proof.
  induction l as [|m l IH]; cbn [insert_key]; [intros [H|[]]; left; congruence|].
  destruct (key n <=? key m); cbn [In]; [intros [H|H]; [left; congruence|right; exact H]|].
  intros [H|H]; [right; left; exact H|]. destruct (IH H) as [H1|H1]; [left; exact H1|right; right; exact H1].
Qed.
Lemma sort_names_in l x : In x (sort_names l) -> In x l.
Proof.
  induction l as [|m l IH]; [intros []|]. unfold sort_names. cbn [fold_right]. intros H.
  apply insert_key_in in H. destruct H as [->|H]; [left; reflexivity|right; apply IH, H].
Qed.
(* a victim is a rotated name of the directory, retention is on (N > 0), and at least N - 1 rotated
   names are newer (greater (index, plain < gz) key): the N - 1 newest rotated files are never removed,
   nor is the active file *)
Theorem victims_spec src c d v : In v (victims src c d) ->
  (0 < cN c)%Z /\ In v (names d) /\ v <> Active /\
  Z.to_nat (cN c - Z.of_nat (s_keep_minus src)) <= count_greater v (rotated d).
Proof.
  unfold victims. destruct (cN c <=? 0)%Z eqn:EN; [intros []|]. intros H.
  apply filter_In in H. destruct H as [H1 H2]. apply sort_names_in in H1. unfold rotated in H1.
  apply filter_In in H1. destruct H1 as [H3 H4].
  split; [apply Z.leb_gt in EN; exact EN|]. split; [exact H3|]. split; [intros ->; discriminate|].
  apply Nat.leb_le, H2.
Qed.
