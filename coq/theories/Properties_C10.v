(* C10 — A crash or I/O failure during rotation does not destroy flushed records.
   Property theorems only; each is closed by [exact] of a lemma of CrashProofs.v, instantiated at
   [src_crash], the statement order of rotate()/compressFile() and the index/retention rules that
   tools/s2c/crash.py reads from /repo/src/qtlogger/sinks/{rotatingfilesink,filesink}.cpp on every run.
   Vocabulary: a directory is a finite map name -> (whole records, intact?); [holds d r] = record r is
   in an intact file of d; a history is a list of (step, ok) — one step per mutation system call;
   [crash_dir d0 tr k] = d0 after the first k steps; [flushed] = records whose write reached the
   active file; [retired] = records of the whole files removed by retention; [fault] = at most one
   failing rename / create(.gz) / unlink / open(O_CREAT) call (write/close errors on the .gz are not
   in C10's fault set: those steps never fail in the model — finding F8). *)
From Coq Require Import List Arith Bool ZArith.
Import ListNotations.
Require Import QtlVerif.CrashDefs QtlVerif.CrashProofs QtlVerif.SrcCrash.

(* the translated order is the data-preserving one: close, index, rename, compress (open input,
   create .gz, write, close, remove original), cleanup, reopen(Append); index = 1 + max over plain
   and .gz; constructor opens with Append *)
Theorem C10_source_order_good : src_goodb src_crash = true.
Proof. vm_compute. reflexivity. Qed.
Print Assumptions C10_source_order_good.

(* 1. one rotating write, killed after ANY prefix k of its steps, with or without compression, with
      any single fault (or none): every record of an intact file is still in an intact file, or
      went with a whole file removed by retention *)
Theorem C10_no_loss_at_any_crash_point : forall c flt ev opened d k r, wf_fs d -> holds d r ->
  holds (run_steps d (firstn k (rotate_prog src_crash c flt ev opened d))) r
  \/ In r (retired d (firstn k (rotate_prog src_crash c flt ev opened d))).
Proof. exact (fun c flt ev opened d k r => no_loss_rotation src_crash c flt ev opened d k r (src_goodb_good _ C10_source_order_good)). Qed.
Print Assumptions C10_no_loss_at_any_crash_point.

(* 2. the whole rotation with one failing rename / create / unlink / open step, the program
      continuing as the code does: same conclusion; and unless the reopen itself failed the sink ends
      with an active file (logging continues) *)
Theorem C10_no_loss_on_single_failure : forall c e s opened d r, wf_fs d -> holds d r ->
  (holds (run_steps d (rotate_prog src_crash c (Some (e, s)) e opened d)) r
   \/ In r (retired d (rotate_prog src_crash c (Some (e, s)) e opened d)))
  /\ (okf (Some (e, s)) e FOpenActive = true ->
      has (run_steps d (rotate_prog src_crash c (Some (e, s)) e opened d)) Active = true).
Proof.
  exact (fun c e s opened d r Hwf Hr =>
    conj (no_loss_rotation_full src_crash c (Some (e, s)) e opened d r (src_goodb_good _ C10_source_order_good) Hwf Hr)
         (rotate_reopens src_crash c (Some (e, s)) e opened d (src_goodb_good _ C10_source_order_good))).
Qed.
Print Assumptions C10_no_loss_on_single_failure.

(* 3. a sink started on ANY directory d0 (in particular one a crash or a failure left: incomplete
      .gz next to its original, both copies, no active file, ...), writing any records under any
      configuration, again with at most one fault and killed at any point k: every record that was
      in an intact file of d0, and every record that reached the active file before k, is in an
      intact file or went with a whole file removed by retention *)
Theorem C10_restart_preserves : forall c flt d0 rs k r, wf_fs d0 ->
  holds d0 r \/ In r (flushed d0 (firstn k (history_steps src_crash c flt d0 rs))) ->
  holds (crash_dir d0 (history_steps src_crash c flt d0 rs) k) r
  \/ In r (retired d0 (firstn k (history_steps src_crash c flt d0 rs))).
Proof. exact (fun c flt d0 rs k r => no_loss_history src_crash c flt d0 rs k r (src_goodb_good _ C10_source_order_good)). Qed.
Print Assumptions C10_restart_preserves.

(* 3b. never overwrites: every step of every history is locally safe — a .gz is created only under a
      name that does not exist, written only while incomplete, an original is unlinked only when a
      complete .gz holds its records, the active file is never truncated (rename itself refuses an
      existing target); and the next index is free both as plain and as .gz name *)
Theorem C10_never_overwrites : forall c flt d0 rs, wf_fs d0 ->
  all_safe d0 (history_steps src_crash c flt d0 rs) = true.
Proof. exact (fun c flt d0 rs => history_safe src_crash c flt d0 rs (src_goodb_good _ C10_source_order_good)). Qed.
Print Assumptions C10_never_overwrites.
Theorem C10_next_index_skips_plain_and_gz : forall d,
  has d (Rot (next_index src_crash d)) = false /\ has d (RotGz (next_index src_crash d)) = false.
Proof. exact (fun d => next_index_free src_crash d (src_goodb_good _ C10_source_order_good)). Qed.
Print Assumptions C10_next_index_skips_plain_and_gz.

(* 3c. "beyond the retention policy": the files the model's retention removes ([retired] collects
      their records) are rotated files of the directory, never the active file, only when N > 0, and
      never one of the N - 1 newest by (index, plain < .gz) *)
Theorem C10_retention_spares_newest : forall c d v, In v (victims src_crash c d) ->
  (0 < cN c)%Z /\ In v (names d) /\ v <> Active /\ Z.to_nat (cN c - 1) <= count_greater v (rotated d).
Proof. exact (fun c d v => victims_spec src_crash c d v). Qed.
Print Assumptions C10_retention_spares_newest.

(* 3d. restart after a kill, retention idle: as long as the retention of the sinks started afterwards
      has removed nothing (count limit off or not reached), EVERY record of an intact file of the
      directory the crash left and every record flushed since is in an intact file - whatever else
      the directory holds (e.g. the complete original next to an unfinished .gz that a kill inside
      the compression window leaves), through any number of further rotations *)
Theorem C10_idle_retention_loses_nothing : forall c flt d0 rs k r, wf_fs d0 ->
  retired d0 (firstn k (history_steps src_crash c flt d0 rs)) = [] ->
  holds d0 r \/ In r (flushed d0 (firstn k (history_steps src_crash c flt d0 rs))) ->
  holds (crash_dir d0 (history_steps src_crash c flt d0 rs) k) r.
Proof. exact (fun c flt d0 rs k r => idle_retention_keeps_all src_crash c flt d0 rs k r (src_goodb_good _ C10_source_order_good)). Qed.
Print Assumptions C10_idle_retention_loses_nothing.

(* the boolean oracle evaluated on the real directories is exactly the property *)
Theorem C10_oracle_spec : forall pre gone post, NoDup (names pre) -> NoDup (names post) ->
  (prop_c10_b pre gone post = true <-> forall r, holds pre r -> holds post r \/ In r gone).
Proof. exact oracle_spec. Qed.
Print Assumptions C10_oracle_spec.

(* non-vacuity.  A compressing history with retention (L = 20, N = 2): killed before the unlink of
   the original (k = 17) the records 2,3 are in two intact files; the records 0,1 go with the file
   retention removes.  And the theorems do depend on the translated order: with "remove the original
   before the output is closed" the kill point k = 16 leaves record 2 in no intact file. *)
Definition ex_cfg : cfg := {| cL := 20; cN := 2; cCompress := true; cStartup := false |}.
Definition ex_recs : list rec := [(0, 7); (1, 7); (2, 7); (3, 7); (4, 7); (5, 7)].
Example C10_nonvacuous :
  length (history_steps src_crash ex_cfg None [] ex_recs) = 22 /\
  prop_c10_b (crash_dir [] (history_steps src_crash ex_cfg None [] ex_recs) 13)
             (retired [] (firstn 17 (history_steps src_crash ex_cfg None [] ex_recs)))
             (crash_dir [] (history_steps src_crash ex_cfg None [] ex_recs) 17) = true /\
  rec_in (2, 7) (crash_dir [] (history_steps src_crash ex_cfg None [] ex_recs) 22) = true /\
  retired [] (history_steps src_crash ex_cfg None [] ex_recs) = [(0, 7); (1, 7)] /\
  src_goodb bad_src = false /\
  rec_in (2, 7) (crash_dir [] (history_steps bad_src ex_cfg None [] ex_recs) 13) = true /\
  rec_in (2, 7) (crash_dir [] (history_steps bad_src ex_cfg None [] ex_recs) 16) = false.
Proof. vm_compute. repeat split; reflexivity. Qed.

(* non-vacuity of 3d, the restart scenario of the check: the directory a kill between creating and
   closing the .gz of rotation 3 leaves (complete original P3 next to an empty G3, older G1 G2, no
   active file), then a sink with Compression and a count limit of 10 that is not reached writing three
   records of which the last two rotate (indices 4 and 5; the unfinished pair blocks index 3): the
   retention runs twice and removes nothing, the original is still there with its record, and so is
   every record. *)
Definition ex_cfg10 : cfg := {| cL := 8; cN := 10; cCompress := true; cStartup := false |}.
Definition ex_left : fs :=
  [(RotGz 1, {| recs := [(0, 7)]; complete := true |}); (RotGz 2, {| recs := [(1, 7)]; complete := true |});
   (Rot 3, {| recs := [(2, 7)]; complete := true |}); (RotGz 3, {| recs := []; complete := false |})].
Definition ex_more : list rec := [(100, 7); (101, 8); (102, 8)].
Example C10_restart_on_unfinished_gz :
  retired ex_left (history_steps src_crash ex_cfg10 None ex_left ex_more) = [] /\
  map fst (filter (fun sp => match fst sp with SRename _ => true | _ => false end)
                  (history_steps src_crash ex_cfg10 None ex_left ex_more)) = [SRename 4; SRename 5] /\
  get (run_steps ex_left (history_steps src_crash ex_cfg10 None ex_left ex_more)) (Rot 3)
    = Some {| recs := [(2, 7)]; complete := true |} /\
  forallb (fun r => rec_in r (run_steps ex_left (history_steps src_crash ex_cfg10 None ex_left ex_more)))
          [(0, 7); (1, 7); (2, 7); (100, 7); (101, 8); (102, 8)] = true /\
  (* with a count limit that IS reached (N = 3) the original goes - as a whole file taken by retention, oldest first *)
  retired ex_left (history_steps src_crash {| cL := 8; cN := 3; cCompress := true; cStartup := false |} None ex_left ex_more)
    = [(0, 7); (1, 7); (2, 7)].
Proof. vm_compute. repeat split; reflexivity. Qed.
