(* C07 — No log file outgrows the size limit; records are never split.
   Property theorems only; each is closed by [exact] of a lemma of RotateProofs.v, instantiated at
   [src_shape], the decision shapes tools/src2coq.py reads from rotatingfilesink.cpp / filesink.cpp /
   iodevicesink.cpp on every run.  [run src_shape c t0 ops] is the model the check executes against
   the real sink (coq/extract/Ex_rotate.v extracts these very definitions).
   Quantification: every op list [ops] (Write of any payload and any message type / Advance of the wall clock, never
   backwards / Restart / PutForeign), every configuration [c] (any L, any N, all 8 option sets, three
   timestamp granularities, any base name and suffix, any time zone offset within +-24 h), any start time.  Hypothesis [clean c ops]:
   nobody else creates files that follow the sink's own rotated-name scheme (PutForeign names are
   rejected by the sink's recogniser).  The model's wall clock saturates at 9999-12-31. *)
From Coq Require Import List ZArith Sorted.
Import ListNotations.
Require Import QtlVerif.RotateDefs QtlVerif.RotateProofs QtlVerif.SrcRotate.
Local Open Scope Z_scope.

(* the translated source has exactly the decision shapes the lemmas are proved for (by computation) *)
Theorem C07_source_shape : shape_eqb src_shape std_shape = true.
Proof. vm_compute. reflexivity. Qed.
Print Assumptions C07_source_shape.

(* L > 0, N <> 1: the active file and every rotated file (present or removed, before compression) is at most L bytes or a single record *)
Theorem C07_size_bound : forall c t0 ops, clean c ops -> let w := run src_shape c t0 ops in 0 < cL c -> cN c <> 1 ->
  (size (act w) <= cL c \/ (length (act w) <= 1)%nat) /\
  Forall (fun f => size (fcont f) <= cL c \/ (length (fcont f) <= 1)%nat) (gone w ++ rot w).
Proof. exact (fun c t0 ops H => T_size_bound src_shape C07_source_shape c t0 ops H). Qed.
Print Assumptions C07_size_bound.

(* every file is a list of WHOLE records of the history (payload + its newline): a record lies entirely within one file *)
Theorem C07_never_split : forall c t0 ops, clean c ops -> let w := run src_shape c t0 ops in hist w = contents (gone w) ++ contents (rot w) ++ act w /\ Forall (fun r => exists p, rbytes r = p ++ [10%N]) (hist w).
Proof. exact (fun c t0 ops H => conj (T_history_conserved src_shape C07_source_shape c t0 ops H) (proj1 (T_records_whole src_shape C07_source_shape c t0 ops H))). Qed.
Print Assumptions C07_never_split.

(* the QtMsgType of a message is no parameter of the sink: the same history with ANY other assignment of types (every record
   fatal, say) produces the same directory, the same ghost data, hence the same verdict of every theorem above.  (The size
   bound itself already quantifies over all types: [Write] carries the type and [ops] is arbitrary.) *)
Theorem C07_message_type_irrelevant : forall c t0 ops (f : mtype -> mtype),
  run src_shape c t0 (map (retype f) ops) = run src_shape c t0 ops /\ (clean c ops -> clean c (map (retype f) ops)).
Proof. exact (fun c t0 ops f => conj (T_retype_run src_shape c f t0 ops) (clean_retype c f ops)). Qed.
Print Assumptions C07_message_type_irrelevant.

(* a formatted message: what is measured AND written is the formatted text (set, possibly empty); the raw text is no parameter
   of the sink - any two raw texts give the same world, hence the same verdict of every theorem above; and the record added is
   the shown text plus its newline (C05_record_is_the_shown_text) *)
Theorem C07_raw_text_of_a_formatted_message_irrelevant : forall c t0 ops ty raw raw' f,
  run src_shape c t0 (ops ++ [WriteMsg ty raw (Some f)]) = run src_shape c t0 (ops ++ [WriteMsg ty raw' (Some f)]).
Proof. exact (fun c t0 ops ty raw raw' f => T_raw_text_irrelevant src_shape c t0 ops ty raw raw' f). Qed.
Print Assumptions C07_raw_text_of_a_formatted_message_irrelevant.
Theorem C07_size_counts_the_shown_text : forall c t0 ops ty raw fmt, clean c ops -> let w := run src_shape c t0 ops in
  hist (run src_shape c t0 (ops ++ [WriteMsg ty raw fmt])) =
    hist w ++ [{| rbytes := shown_text raw fmt ++ [10%N]; rid := length (hist w); rday := day_of c (now w) |}]
  /\ clean c (ops ++ [WriteMsg ty raw fmt]).
Proof. exact (fun c t0 ops ty raw fmt H => conj (T_shown_text_written src_shape c t0 ops ty raw fmt C07_source_shape H) (clean_write_msg c ops ty raw fmt H)). Qed.
Print Assumptions C07_size_counts_the_shown_text.

(* the boolean oracle of the check *)
Theorem C07_oracle_holds : forall c t0 ops, clean c ops -> let w := run src_shape c t0 ops in prop_c07_b std_shape c (snap_of w) = true.
Proof. exact (fun c t0 ops H => proj1 (proj2 (proj2 (T_oracles src_shape C07_source_shape c t0 ops H)))). Qed.
Print Assumptions C07_oracle_holds.

(* non-vacuity: L = 4; records of 2, 2 (fits exactly), 1 (rotates), 6 (over-limit, alone), 1 bytes - the last one, which rotates, is fatal *)
Example C07_nonvacuous :
  let c := {| cL := 4; cN := 0; startup := false; daily := false; compress := false; cgran := G1ms; cbase := [97%N]; csuffix := []; ctz := 0 |} in
  let w := run src_shape c 0 [Write TInfo [120%N]; Write TFatal [120%N]; Write TDebug []; Write TWarning [1%N; 2%N; 3%N; 4%N; 5%N]; Write TFatal []] in
  (map (fun f => size (fcont f)) (rot w), size (act w)) = ([4; 1; 6], 1).
Proof. vm_compute. reflexivity. Qed.

(* non-vacuity for formatted messages: L = 4; three messages whose formatted text is EMPTY (1 byte each with the newline) over
   a 5-byte raw text share one file, the fourth - no formatted text, the raw text shown - does not fit and rotates *)
Example C07_formatted_empty_nonvacuous :
  let c := {| cL := 4; cN := 0; startup := false; daily := false; compress := false; cgran := G1ms; cbase := [97%N]; csuffix := []; ctz := 0 |} in
  let raw := [1%N; 2%N; 3%N; 4%N; 5%N] in
  let w := run src_shape c 0 [WriteMsg TInfo raw (Some []); WriteMsg TInfo raw (Some []); WriteMsg TFatal raw (Some []); WriteMsg TInfo raw None] in
  (map (fun f => size (fcont f)) (rot w), size (act w)) = ([3], 6).
Proof. vm_compute. reflexivity. Qed.
