(* C02 — signal sinks: lemmas.  Accepted traces (Qt's AutoConnection delivery rule) have the trace-level form of the
   property at the receiver; every trace of the generative model is accepted. *)
From Coq Require Import List Arith Bool Lia Permutation.
Import ListNotations.
Require Import QtlVerif.ConcDefs QtlVerif.ConcProofs QtlVerif.ConcSigDefs.

Lemma entry_eqb_eq a b : entry_eqb a b = true -> a = b.
Proof.
  destruct a as [[t i] q], b as [[t' i'] q']. unfold entry_eqb, e_tid, e_idx, e_seq; cbn.
  intros H. apply andb_prop in H as [H H3]. apply andb_prop in H as [H1 H2].
  apply Nat.eqb_eq in H1, H2, H3. congruence.
Qed.
Lemma entry_eqb_refl a : entry_eqb a a = true.
Proof. unfold entry_eqb. rewrite !Nat.eqb_refl. reflexivity. Qed.
Lemma entries_eqb_eq : forall a b, entries_eqb a b = true -> a = b.
Proof.
  induction a as [|x a IH]; intros [|y b] H; cbn in H; try discriminate; [reflexivity|].
  apply andb_prop in H as [H1 H2]. apply entry_eqb_eq in H1. apply IH in H2. congruence.
Qed.
Lemma entries_eqb_refl : forall a, entries_eqb a a = true.
Proof. induction a as [|x a IH]; cbn; [reflexivity|rewrite entry_eqb_refl, IH; reflexivity]. Qed.

Definition optl (o : option entry) : list entry := match o with Some e => [e] | None => [] end.
Definition pend (s : sstate) : list entry := optl (s_dir s) ++ s_q s.

Lemma sxs_app a b : sxs (a ++ b) = sxs a ++ sxs b.
Proof. induction a as [|[e|e|e] a IH]; cbn; rewrite ?IH; reflexivity. Qed.
Lemma sss_app a b : sss (a ++ b) = sss a ++ sss b.
Proof. induction a as [|[e|e|e] a IH]; cbn; rewrite ?IH; reflexivity. Qed.
Lemma sqs_app a b : sqs (a ++ b) = sqs a ++ sqs b.
Proof. induction a as [|[e|e|e] a IH]; cbn; rewrite ?IH; reflexivity. Qed.

Section Sig.
Variable home : nat.

(* well-formed acceptor states *)
Record SWf (s : sstate) : Prop := {
  w_dir : forall e, s_dir s = Some e -> e_tid e = home;
  w_q : forall e, In e (s_q s) -> e_tid e <> home
}.
Lemma ss0_wf : SWf ss0.
Proof. constructor; cbn; [discriminate|tauto]. Qed.

Ltac step_cases H s ev :=
  destruct ev as [e|e|e]; cbn [sstep] in H;
  [ destruct (s_cur s) as [c|] eqn:Ec; [discriminate|]; destruct (s_dir s) as [d|] eqn:Ed; [discriminate|];
    injection H as <-
  | destruct (s_cur s) as [c|] eqn:Ec; [|discriminate]; destruct (s_dir s) as [d|] eqn:Ed; [discriminate|];
    destruct (entry_eqb e c) eqn:Eec; [apply entry_eqb_eq in Eec; subst c|discriminate];
    destruct (Nat.eqb_spec (e_tid e) home) as [Eh|Eh]; injection H as <-
  | destruct (s_dir s) as [d|] eqn:Ed;
    [ destruct (entry_eqb e d) eqn:Eed; [apply entry_eqb_eq in Eed; subst d|discriminate]; injection H as <-
    | destruct (s_q s) as [|h r] eqn:Eq; [discriminate|];
      destruct (entry_eqb e h) eqn:Eeh; [apply entry_eqb_eq in Eeh; subst h|discriminate]; injection H as <- ] ].

Lemma sstep_wf s ev s' : SWf s -> sstep home s ev = Some s' -> SWf s'.
Proof.
  intros [W1 W2] H. step_cases H s ev; constructor; cbn [s_cur s_dir s_q]; try discriminate; auto.
  - intros e' E. injection E as <-. exact Eh.
  - intros e' Hin. apply in_app_or in Hin as [Hin|[<-|[]]]; auto.
  - intros e' Hin. apply W2. right. exact Hin.
Qed.

Lemma of_thread_home_q l : (forall e, In e l -> e_tid e <> home) -> of_thread home l = [].
Proof.
  induction l as [|x l IH]; intros H; [reflexivity|]. cbn.
  destruct (Nat.eqb_spec (e_tid x) home) as [E|E]; [exfalso; apply (H x); [left; reflexivity|exact E]|].
  apply IH. intros e Hin. apply H. right. exact Hin.
Qed.
Lemma of_thread_one_other t e : e_tid e <> t -> of_thread t [e] = [].
Proof. intros H. cbn. destruct (Nat.eqb_spec (e_tid e) t); [contradiction|reflexivity]. Qed.

(* one step: emissions and receptions, thread by thread *)
Lemma sstep_thread t s ev s' : SWf s -> sstep home s ev = Some s' ->
  of_thread t (pend s) ++ of_thread t (sss [ev]) = of_thread t (sqs [ev]) ++ of_thread t (pend s').
Proof.
  intros [W1 W2] H. unfold pend. step_cases H s ev; cbn [s_cur s_dir s_q sss sqs optl]; rewrite ?Ed; cbn [optl app].
  - cbn. rewrite app_nil_r. reflexivity.
  - change (e :: s_q s) with ([e] ++ s_q s). rewrite of_thread_app.
    destruct (Nat.eq_dec t home) as [->|Hne].
    + rewrite (of_thread_home_q _ W2). cbn [app]. rewrite app_nil_r. reflexivity.
    + rewrite (of_thread_one_other t e) by congruence. cbn [app]. rewrite app_nil_r. reflexivity.
  - rewrite of_thread_app. reflexivity.
  - change (e :: s_q s) with ([e] ++ s_q s). rewrite of_thread_app. cbn [of_thread filter]. rewrite app_nil_r. reflexivity.
  - change (e :: r) with ([e] ++ r). rewrite of_thread_app. cbn [of_thread filter]. rewrite app_nil_r. reflexivity.
Qed.

Lemma sstep_perm s ev s' : sstep home s ev = Some s' -> Permutation (pend s ++ sss [ev]) (sqs [ev] ++ pend s').
Proof.
  intros H. unfold pend. step_cases H s ev; cbn [s_cur s_dir s_q sss sqs optl]; rewrite ?Ed; cbn [optl app]; rewrite ?app_nil_r.
  - apply Permutation_refl.
  - apply Permutation_sym. apply Permutation_cons_append.
  - apply Permutation_refl.
  - apply Permutation_refl.
  - apply Permutation_refl.
Qed.

Lemma sstep_emit s ev s' : sstep home s ev = Some s' -> optl (s_cur s) ++ sxs [ev] = sss [ev] ++ optl (s_cur s').
Proof.
  intros H. step_cases H s ev; cbn [s_cur s_dir s_q sss sxs optl app]; rewrite ?Ec; cbn [optl app]; rewrite ?app_nil_r; reflexivity.
Qed.

Lemma srun_wf : forall tr s s', SWf s -> srun home s tr = Some s' -> SWf s'.
Proof.
  induction tr as [|ev r IH]; intros s s' W H; cbn [srun] in H; [injection H as <-; exact W|].
  destruct (sstep home s ev) as [s1|] eqn:E; [|discriminate]. eapply IH; [eapply sstep_wf; eassumption|exact H].
Qed.

Lemma srun_thread t : forall tr s s', SWf s -> srun home s tr = Some s' ->
  of_thread t (pend s) ++ of_thread t (sss tr) = of_thread t (sqs tr) ++ of_thread t (pend s').
Proof.
  induction tr as [|ev r IH]; intros s s' W H; cbn [srun] in H.
  - injection H as <-. cbn. rewrite app_nil_r. reflexivity.
  - destruct (sstep home s ev) as [s1|] eqn:E; [|discriminate].
    pose proof (sstep_thread t s ev s1 W E) as H1. pose proof (IH s1 s' (sstep_wf s ev s1 W E) H) as H2.
    change (ev :: r) with ([ev] ++ r). rewrite sss_app, sqs_app, !of_thread_app.
    rewrite app_assoc, H1, <- app_assoc, H2, app_assoc. reflexivity.
Qed.

Lemma srun_perm : forall tr s s', srun home s tr = Some s' -> Permutation (pend s ++ sss tr) (sqs tr ++ pend s').
Proof.
  induction tr as [|ev r IH]; intros s s' H; cbn [srun] in H.
  - injection H as <-. cbn. rewrite app_nil_r. apply Permutation_refl.
  - destruct (sstep home s ev) as [s1|] eqn:E; [|discriminate].
    pose proof (sstep_perm s ev s1 E) as H1. pose proof (IH s1 s' H) as H2.
    change (ev :: r) with ([ev] ++ r). rewrite sss_app, sqs_app.
    rewrite app_assoc. eapply Permutation_trans; [apply Permutation_app_tail; exact H1|].
    rewrite <- !app_assoc. apply Permutation_app_head. exact H2.
Qed.

Lemma srun_emit : forall tr s s', srun home s tr = Some s' -> optl (s_cur s) ++ sxs tr = sss tr ++ optl (s_cur s').
Proof.
  induction tr as [|ev r IH]; intros s s' H; cbn [srun] in H.
  - injection H as <-. cbn. rewrite app_nil_r. reflexivity.
  - destruct (sstep home s ev) as [s1|] eqn:E; [|discriminate].
    pose proof (sstep_emit s ev s1 E) as H1. pose proof (IH s1 s' H) as H2.
    change (ev :: r) with ([ev] ++ r). rewrite sss_app, sxs_app.
    rewrite app_assoc, H1, <- app_assoc, H2, app_assoc. reflexivity.
Qed.

(* no emission by the receiver's thread: nothing is ever called directly, the receiver sees the FIFO *)
Lemma sstep_fifo s ev s' : sstep home s ev = Some s' -> s_dir s = None ->
  (forall e, In e (sss [ev]) -> e_tid e <> home) ->
  s_dir s' = None /\ s_q s ++ sss [ev] = sqs [ev] ++ s_q s'.
Proof.
  intros H D F. step_cases H s ev; cbn [s_cur s_dir s_q sss sqs app]; rewrite ?app_nil_r; try discriminate.
  - split; reflexivity.
  - exfalso. apply (F e); [left; reflexivity|exact Eh].
  - split; reflexivity.
  - split; reflexivity.
Qed.
Lemma srun_fifo : forall tr s s', srun home s tr = Some s' -> s_dir s = None ->
  (forall e, In e (sss tr) -> e_tid e <> home) -> s_q s ++ sss tr = sqs tr ++ s_q s'.
Proof.
  induction tr as [|ev r IH]; intros s s' H D F; cbn [srun] in H.
  - injection H as <-. cbn. rewrite app_nil_r. reflexivity.
  - destruct (sstep home s ev) as [s1|] eqn:E; [|discriminate].
    change (ev :: r) with ([ev] ++ r) in *. rewrite sss_app in F. rewrite sss_app, sqs_app.
    destruct (sstep_fifo s ev s1 E D) as [D1 H1]; [intros e Hin; apply F; apply in_or_app; left; exact Hin|].
    pose proof (IH s1 s' H D1) as H2.
    rewrite app_assoc, H1, <- app_assoc, H2, app_assoc; [reflexivity|].
    intros e Hin. apply F. apply in_or_app. right. exact Hin.
Qed.

Lemma accept_final tr : accept_sig home tr = true ->
  exists s, srun home ss0 tr = Some s /\ s_cur s = None /\ s_dir s = None /\ s_q s = [].
Proof.
  unfold accept_sig. destruct (srun home ss0 tr) as [s|]; [|discriminate]. unfold s_quiet.
  destruct (s_cur s) eqn:E1; [discriminate|]. destruct (s_dir s) eqn:E2; [discriminate|]. destruct (s_q s) eqn:E3; [|discriminate].
  intros _. exists s. repeat split; assumption.
Qed.

(* the signal sink emits every message exactly once, in pipeline order *)
Theorem sig_emits_in_pipeline_order tr : accept_sig home tr = true -> sss tr = sxs tr.
Proof.
  intros H. destruct (accept_final tr H) as (s & R & C & _ & _).
  pose proof (srun_emit tr ss0 s R) as E. rewrite C in E. cbn in E. rewrite app_nil_r in E. symmetry. exact E.
Qed.
(* per producing thread the receiver gets exactly that thread's messages, in that thread's order *)
Theorem sig_per_thread tr : accept_sig home tr = true -> forall t, of_thread t (sqs tr) = of_thread t (sxs tr).
Proof.
  intros H t. rewrite <- (sig_emits_in_pipeline_order tr H). destruct (accept_final tr H) as (s & R & _ & D & Q).
  pose proof (srun_thread t tr ss0 s ss0_wf R) as E. unfold pend in E. rewrite D, Q in E. cbn in E.
  rewrite app_nil_r in E. symmetry. exact E.
Qed.
(* exactly once: the receptions are a permutation of the pipeline's deliveries *)
Theorem sig_exactly_once tr : accept_sig home tr = true -> Permutation (sqs tr) (sxs tr).
Proof.
  intros H. rewrite <- (sig_emits_in_pipeline_order tr H). destruct (accept_final tr H) as (s & R & _ & D & Q).
  pose proof (srun_perm tr ss0 s R) as E. unfold pend in E. rewrite D, Q in E. cbn in E. rewrite app_nil_r in E.
  apply Permutation_sym. exact E.
Qed.
(* when the receiver's thread does not log, the receiver sees pipeline order *)
Theorem sig_fifo tr : accept_sig home tr = true -> emits_from home (sxs tr) = false -> sqs tr = sxs tr.
Proof.
  intros H F. pose proof (sig_emits_in_pipeline_order tr H) as ES. destruct (accept_final tr H) as (s & R & _ & D & Q).
  assert (F' : forall e, In e (sss tr) -> e_tid e <> home).
  { intros e Hin Eh. rewrite ES in Hin. unfold emits_from in F.
    assert (existsb (fun e => Nat.eqb (e_tid e) home) (sxs tr) = true); [|congruence].
    apply existsb_exists. exists e. split; [exact Hin|apply Nat.eqb_eq; exact Eh]. }
  pose proof (srun_fifo tr ss0 s R eq_refl F') as E. rewrite Q in E. cbn in E. rewrite app_nil_r in E.
  rewrite <- ES. symmetry. exact E.
Qed.
Theorem sig_fifo_seq_consecutive tr : accept_sig home tr = true -> emits_from home (sxs tr) = false ->
  map e_seq (sxs tr) = seq 0 (length (sxs tr)) -> map e_seq (sqs tr) = seq 0 (length (sqs tr)).
Proof. intros H F C. rewrite (sig_fifo tr H F). exact C. Qed.

Theorem sig_accept_implies_oracle tr : accept_sig home tr = true -> prop_sig_b home tr = true.
Proof.
  intros H. unfold prop_sig_b.
  rewrite (sig_emits_in_pipeline_order tr H), entries_eqb_refl.
  rewrite (Permutation_length (sig_exactly_once tr H)), Nat.eqb_refl. cbn [andb].
  apply andb_true_intro. split.
  - apply forallb_forall. intros t _. rewrite (sig_per_thread tr H t). apply entries_eqb_refl.
  - destruct (emits_from home (sxs tr)) eqn:F; [reflexivity|]. rewrite (sig_fifo tr H F). apply entries_eqb_refl.
Qed.

(* ---- generative model: every trace it produces is taken by the acceptor ---- *)
Lemma srun_app : forall a b s, srun home s (a ++ b) = match srun home s a with Some s' => srun home s' b | None => None end.
Proof.
  induction a as [|ev r IH]; intros b s; cbn [srun app]; [reflexivity|].
  destruct (sstep home s ev); [apply IH|reflexivity].
Qed.
Lemma sgen_step_ok s a : s_dir s = None ->
  srun home s (snd (sgen_step home s a)) = Some (fst (sgen_step home s a)) /\ s_dir (fst (sgen_step home s a)) = None.
Proof.
  intros D. destruct a as [e| |]; cbn [sgen_step].
  - destruct (s_cur s) eqn:Ec; rewrite ?D; cbn; [split; [reflexivity|exact D]|]. rewrite Ec, D. split; reflexivity.
  - destruct (s_cur s) as [c|] eqn:Ec; rewrite ?D; [|cbn; split; [reflexivity|exact D]].
    destruct (Nat.eqb_spec (e_tid c) home) as [Eh|Eh]; cbn; rewrite Ec, D, entry_eqb_refl.
    + destruct (Nat.eqb_spec (e_tid c) home); [|contradiction]. cbn. rewrite entry_eqb_refl. split; reflexivity.
    + destruct (Nat.eqb_spec (e_tid c) home); [contradiction|]. split; reflexivity.
  - rewrite D. destruct (s_q s) as [|h r] eqn:Eq; cbn; [split; [reflexivity|exact D]|].
    rewrite D, Eq, entry_eqb_refl. split; reflexivity.
Qed.
Theorem sgen_accepted : forall acts s, s_dir s = None ->
  srun home s (snd (sgen home s acts)) = Some (fst (sgen home s acts)) /\ s_dir (fst (sgen home s acts)) = None.
Proof.
  induction acts as [|a r IH]; intros s D; cbn [sgen]; [split; [reflexivity|exact D]|].
  destruct (sgen_step_ok s a D) as [H1 D1]. destruct (sgen_step home s a) as [s1 t1]. cbn [fst snd] in *.
  destruct (IH s1 D1) as [H2 D2]. destruct (sgen home s1 r) as [s2 t2]. cbn [fst snd] in *.
  rewrite srun_app, H1. split; assumption.
Qed.
Theorem sgen_complete_accepted acts : s_quiet (fst (sgen home ss0 acts)) = true -> accept_sig home (snd (sgen home ss0 acts)) = true.
Proof.
  intros Q. unfold accept_sig. destruct (sgen_accepted acts ss0 eq_refl) as [H _]. rewrite H. exact Q.
Qed.
End Sig.
