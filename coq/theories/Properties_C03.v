(* C03 — Asynchronous hand-off preserves message content and order.
   Property theorems only; each is closed by [exact] of a lemma of AsyncProofs.v.

   The protocol model (AsyncDefs.v) transcribes OwnThreadHandler::process (worker branch) and
   Worker::customEvent; it is proved for the skeletons the code has today, so the skeletons translated from
   /repo on every run (SrcAsync.v) must EQUAL the expected ones modulo [AOther], and the member table of
   LogMessage's copy constructor must pass [copy_ok] (first three obligations).
   ASSUMPTION (outside the model, stated in the evidence): Qt's posted-event queue delivers the events posted
   to one receiver at equal priority in posting order — [queue] is a FIFO list.
   The same definitions are extracted (coq/extract/Ex_async.v): the check runs [accept_async] on the ticketed
   traces of the real library and [copy_msg_with src_copy_cfg] on the real messages. *)
From Coq Require Import List Arith Bool.
Import ListNotations.
Require Import QtlVerif.AsyncDefs QtlVerif.AsyncProofs QtlVerif.SrcAsync.

(* (a) translated source = what the model was written for *)
Theorem C03_src_process_skeleton : strip_other src_process = expected_process.
Proof. vm_compute. reflexivity. Qed.
Print Assumptions C03_src_process_skeleton.
Theorem C03_src_custom_event_skeleton : strip_other src_custom_event = expected_custom_event.
Proof. vm_compute. reflexivity. Qed.
Print Assumptions C03_src_custom_event_skeleton.
Theorem C03_src_copy_constructor_complete : copy_ok src_copy_cfg = true.
Proof. vm_compute. reflexivity. Qed.
Print Assumptions C03_src_copy_constructor_complete.

(* while the own thread runs, Logger::processMessage never flushes the sinks from the calling thread (its fatal branch is
   guarded by !ownThreadIsRunning()): no sink entry point is reached on a producer thread *)
Theorem C03_src_no_caller_flush_while_worker_runs : src_caller_flushes_while_worker_runs = false.
Proof. vm_compute. reflexivity. Qed.
Print Assumptions C03_src_no_caller_flush_while_worker_runs.

(* 1. the copy handed to the worker shows a sink exactly what the original shows: type, text, file, line, function,
   category (null == ""), time, steady time, thread id, formatted text, attributes — whatever the worker thread's
   own clock / thread id / the caller's freed buffers ([amb]) contain at that moment *)
Theorem C03_copy_faithful : forall amb m, obs (copy_msg_with src_copy_cfg amb m) = obs m.
Proof. exact (fun amb m => copy_faithful src_copy_cfg amb m C03_src_copy_constructor_complete). Qed.
Print Assumptions C03_copy_faithful.
Theorem C03_copy_faithful_generic : forall cfg amb m, copy_ok cfg = true -> obs (copy_msg_with cfg amb m) = obs m.
Proof. exact copy_faithful. Qed.
Print Assumptions C03_copy_faithful_generic.
(* ... and [copy_ok] is not stronger than needed: leaving any one member to its default initialiser, or keeping any
   one of the caller's pointers, is observable *)
Theorem C03_dropped_field_refuted : forall f,
  obs (copy_msg_with (with_kind good_cfg f Fresh) wit_amb wit_m) <> obs wit_m.
Proof. exact dropped_field_refuted. Qed.
Print Assumptions C03_dropped_field_refuted.
Theorem C03_aliased_pointer_refuted : forall f, is_ptr f = true ->
  obs (copy_msg_with (with_kind good_cfg f Alias) wit_amb wit_m) <> obs wit_m.
Proof. exact aliased_pointer_refuted. Qed.
Print Assumptions C03_aliased_pointer_refuted.

(* 2. queue invariant, for every action list (= every interleaving of any number of producers and the worker):
   pending = |queue| + (1 if the worker is mid-delivery); the copies of the posted messages, in post order, are
   exactly delivered ++ in-flight ++ queued *)
Theorem C03_queue_inv : forall cp acts, let s := run cp s0 acts in
  pending s = length (queue s) + length (olist (inflight s)) /\
  map (cpi cp) (posted s) = slog s ++ olist (inflight s) ++ queue s.
Proof. exact (fun cp acts => queue_inv cp (run cp s0 acts) (ex_intro _ acts eq_refl)). Qed.
Print Assumptions C03_queue_inv.

(* 3. at quiescence the sink has received what a synchronous logger would have delivered for the same messages in
   post order: same observations at the same positions *)
Theorem C03_async_equals_sync : forall amb acts, let s := run (copy_msg_with src_copy_cfg amb) s0 acts in
  quiescent s -> sink_view (slog s) = sink_view (posted s).
Proof.
  exact (fun amb acts => async_equals_sync src_copy_cfg amb (run (copy_msg_with src_copy_cfg amb) s0 acts)
                           C03_src_copy_constructor_complete (ex_intro _ acts eq_refl)).
Qed.
Print Assumptions C03_async_equals_sync.

(* 3b. time stamps as the sinks see them THROUGH a formatting handler.  The relative time formats of PatternFormatter
   (%{time process}, %{time boot}) take their value from the steady time stamp carried by the message, not from the clock
   at the moment the handler runs (translated from TimeToken::appendToString) ... *)
Theorem C03_src_relative_time_from_message : andb (tsrc_is_message src_time_process) (tsrc_is_message src_time_boot) = true.
Proof. vm_compute. reflexivity. Qed.
Print Assumptions C03_src_relative_time_from_message.
(* ... hence, for every schedule and WHENEVER the logger thread gets round to a message ([clk_worker] arbitrary), the
   text a sink behind such a formatter receives is the text of the synchronous run of the same messages in post order *)
Theorem C03_rendered_time_same_as_synchronous : forall amb fmt clk_worker clk_caller acts,
  let s := run (copy_msg_with src_copy_cfg amb) s0 acts in quiescent s ->
  rendered_from TSMessage fmt clk_worker 0 (map snd (slog s)) = rendered_from TSMessage fmt clk_caller 0 (map snd (posted s)).
Proof.
  exact (fun amb fmt cw cc acts => rendered_time_async_equals_sync src_copy_cfg amb fmt cw cc
           (run (copy_msg_with src_copy_cfg amb) s0 acts) C03_src_copy_constructor_complete (ex_intro _ acts eq_refl)).
Qed.
Print Assumptions C03_rendered_time_same_as_synchronous.
(* ... while a formatter that reads the clock when it runs shows the sink the queueing delay: refuted for every message *)
Theorem C03_rendered_time_from_clock_refuted : forall amb m, exists fmt clk_worker clk_caller,
  rendered_from TSClock fmt clk_worker 0 [copy_msg_with src_copy_cfg amb m] <> rendered_from TSClock fmt clk_caller 0 [m].
Proof. exact (rendered_time_from_clock_refuted src_copy_cfg). Qed.
Print Assumptions C03_rendered_time_from_clock_refuted.

(* 4. FIFO: for every trace the acceptor takes (in particular every trace of the model, see below) the deliveries
   are a prefix of the posts; each producer's messages are posted in program order; and a call that returned
   before another began is delivered first *)
Theorem C03_fifo : forall t x, xrun x0 t = Some x -> posts t = delivs t ++ x_q x.
Proof. exact taken_fifo. Qed.
Print Assumptions C03_fifo.
Theorem C03_per_producer_order : forall t x p, xrun x0 t = Some x ->
  map snd (of_prod p (posts t)) = seq 0 (x_next x p + flag (x_ph x p)).
Proof. exact taken_per_producer. Qed.
Print Assumptions C03_per_producer_order.
Theorem C03_fifo_real_time : forall t1 t2 t3 pa ia pb ib x,
  let t := t1 ++ VRet pa ia :: t2 ++ VCall pb ib :: t3 in
  xrun x0 t = Some x -> In (pb, ib) (delivs t) ->
  exists l1 l2 l3, delivs t = l1 ++ (pa, ia) :: l2 ++ (pb, ib) :: l3.
Proof. exact taken_real_time. Qed.
Print Assumptions C03_fifo_real_time.
Theorem C03_accepted_complete_trace : forall quota n t, accept_async quota n t = true ->
  delivs t = posts t /\ forall p, p < n -> map snd (of_prod p (delivs t)) = seq 0 (quota p).
Proof. exact (fun quota n t A => conj (accept_fifo quota n t A) (accept_per_producer quota n t A)). Qed.
Print Assumptions C03_accepted_complete_trace.

(* 5. the logging call never runs a sink and never waits for one: producer actions leave the sink log alone; the
   mutex is held by producers only, exactly between post and release; posting is enabled as soon as M is free —
   independently of the queue, of the worker and of the sink *)
Theorem C03_producer_never_runs_sink : forall cp s a s', is_producer_action a = true -> step cp s a = Some s' -> slog s' = slog s.
Proof. exact producer_never_runs_sink. Qed.
Print Assumptions C03_producer_never_runs_sink.
Theorem C03_mutex_only_around_post : forall cp acts p, let s := run cp s0 acts in mtx s = Some p <-> pph (prod s p) = PPosted.
Proof. exact (fun cp acts p => mutex_only_around_post cp (run cp s0 acts) p (ex_intro _ acts eq_refl)). Qed.
Print Assumptions C03_mutex_only_around_post.
Theorem C03_post_never_waits_for_sink : forall cp s p m, pph (prod s p) = PCalled m -> mtx s = None ->
  exists s', step cp s (APost p) = Some s'.
Proof. exact post_never_waits_for_sink. Qed.
Print Assumptions C03_post_never_waits_for_sink.

(* tie: every trace of the model is taken by the acceptor (so 4. applies to it), its deliveries/posts are the sink
   log / the posted list, and a complete run is accepted *)
Theorem C03_model_traces_taken : forall cp acts, let s := run cp s0 acts in
  exists x, xrun x0 (tr s) = Some x /\ map it_id (slog s) = delivs (tr s) /\ map it_id (posted s) = posts (tr s).
Proof. exact (fun cp acts => trace_taken cp (run cp s0 acts) (ex_intro _ acts eq_refl)). Qed.
Print Assumptions C03_model_traces_taken.
Theorem C03_complete_model_trace_accepted : forall cp quota n acts, let s := run cp s0 acts in
  finished quota n s -> accept_async quota n (tr s) = true.
Proof. exact (fun cp quota n acts => complete_trace_accepted cp quota n (run cp s0 acts) (ex_intro _ acts eq_refl)). Qed.
Print Assumptions C03_complete_model_trace_accepted.

Definition ex_m_thr : msg :=
  {| m_type := 1; m_text := [1]; m_file := None; m_line := [1]; m_func := None; m_cat := None; m_time := [1]; m_steady := [1];
     m_tid := [1]; m_fmt := None; m_attrs := [] |}.
(* 7. all handler work happens on the logger thread, the logging call itself never runs a sink — whether the application
   object existed when moveToOwnThread() was called ([app] = true) or was created afterwards ([app] = false): the translated
   moveToOwnThread() moves the worker unconditionally *)
Theorem C03_worker_moved_unconditionally : src_worker_move = WMAlways.
Proof. exact (eq_refl WMAlways). Qed.
Print Assumptions C03_worker_moved_unconditionally.
Theorem C03_sink_steps_on_logger_thread : forall cp s a s' app,
  step cp s a = Some s' -> slog s' <> slog s -> exec_thread src_worker_move app a = TOwn.
Proof. exact (fun cp s a s' app => sink_steps_on_logger_thread cp s a s' app). Qed.
Print Assumptions C03_sink_steps_on_logger_thread.
Theorem C03_producer_steps_on_caller_thread : forall app a, is_producer_action a = true -> exec_thread src_worker_move app a = TCaller.
Proof. exact (producer_steps_on_caller_thread src_worker_move). Qed.
Print Assumptions C03_producer_steps_on_caller_thread.
Theorem C03_conditional_move_refuted :
  exists cp s s', step cp s ADone = Some s' /\ slog s' <> slog s /\ exec_thread WMIfApp false ADone = TCaller.
Proof. exact conditional_move_refuted. Qed.
Print Assumptions C03_conditional_move_refuted.
Example C03_threads_nonvacuous :
  map (exec_thread src_worker_move false) [ACall 0 (ex_m_thr); APost 0; ATake; ADone] = [TCaller; TCaller; TOwn; TOwn] /\
  map (exec_thread src_worker_move true) [ATake; ADone] = [TOwn; TOwn] /\
  map (exec_thread WMIfApp false) [ATake; ADone] = [TCaller; TCaller] /\ map (exec_thread WMIfApp true) [ATake; ADone] = [TOwn; TOwn].
Proof. vm_compute. repeat split; reflexivity. Qed.

(* non-vacuity: two producers, the worker lagging behind; null file and function on one message *)
Definition ex_m (k : nat) (f : option bytes) : msg :=
  {| m_type := k; m_text := [k]; m_file := f; m_line := [k]; m_func := f; m_cat := Some [99]; m_time := [k]; m_steady := [k];
     m_tid := [k]; m_fmt := None; m_attrs := [([1], [k])] |}.
Example C03_nonvacuous :
  let cp := copy_msg_with src_copy_cfg wit_amb in
  let s := run cp s0 [ACall 0 (ex_m 1 None); ACall 1 (ex_m 2 (Some [7])); APost 1; ATake; ARel 1; APost 0; ARet 1;
                      ACall 1 (ex_m 3 (Some [8])); ARel 0; APost 1; ADone; ARet 0; ARel 1; ATake; ARet 1; ADone; ATake; ADone] in
  map it_id (slog s) = [(1, 0); (0, 0); (1, 1)] /\ quiescent s /\ pending s = 0 /\
  accept_async (fun p => match p with 0 => 1 | 1 => 2 | _ => 0 end) 2 (tr s) = true /\
  map (fun x => m_file (snd x)) (slog s) = [Some [7]; Some []; Some [8]] /\ sink_view (slog s) = sink_view (posted s) /\
  (* rendered on the worker at clock 50+k, synchronously at clock k: the same three texts, namely the messages' own stamps *)
  rendered_from src_time_boot (fun b => 9 :: b) (fun k => [50 + k]) 0 (map snd (slog s)) = [[9; 2]; [9; 1]; [9; 3]] /\
  rendered_from src_time_process (fun b => 9 :: b) (fun k => [k]) 0 (map snd (posted s)) = [[9; 2]; [9; 1]; [9; 3]] /\
  rendered_from TSClock (fun b => 9 :: b) (fun k => [50 + k]) 0 (map snd (slog s)) = [[9; 50]; [9; 51]; [9; 52]].
Proof. vm_compute. repeat split; reflexivity. Qed.
