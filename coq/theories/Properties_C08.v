(* C08 — Compressed rotated files are valid gzip of exactly the rotated log.
   Property theorems only; each is closed by [exact] of a lemma of GzipProofs.v, instantiated at
   [src_gz] / [src_compress_steps], the configuration and the step order tools/s2c/gzip.py reads from
   /repo/src/qtlogger/sinks/rotatingfilesink.cpp on every run.  zlib is an oracle: [deflate],
   [inflate] and the two zlib header bytes are universally quantified, constrained only by
   "inflate undoes deflate and stops at its end", "a deflate stream is not empty", "the zlib header
   has two bytes" (validated on every sampled file by the check, with Python's zlib). *)
From Coq Require Import List NArith.
Import ListNotations.
Require Import QtlVerif.GzipDefs QtlVerif.GzipProofs QtlVerif.SrcGzip.
Local Open Scope N_scope.

(* the translated constants are the ones RFC 1952 needs (decided by computation) *)
Theorem C08_source_configuration_good : cfg_goodb src_gz = true.
Proof. vm_compute. reflexivity. Qed.
Print Assumptions C08_source_configuration_good.

(* 1. table-driven CRC (polynomial, initial value, final xor, index mask of the source) = the
      bit-at-a-time CRC-32, for ALL data *)
Theorem C08_crc_table_correct : forall d, wf_bytes d -> crc32 src_gz d = crc32_bitwise d.
Proof. exact (fun d => crc_table_correct src_gz d (cfg_goodb_good _ C08_source_configuration_good)). Qed.
Print Assumptions C08_crc_table_correct.

(* 2. the running CRC carried across ANY split into chunks = CRC of the whole; in particular the
      8 KiB read loop of the source *)
Theorem C08_crc_chunking : forall chunks, crc_chunks src_gz chunks = crc32 src_gz (concat chunks).
Proof. exact (crc_chunking src_gz). Qed.
Print Assumptions C08_crc_chunking.
Theorem C08_file_crc_correct : forall d, wf_bytes d -> file_crc src_gz d = crc32_bitwise d.
Proof. exact (fun d => file_crc_correct src_gz d (cfg_goodb_good _ C08_source_configuration_good)). Qed.
Print Assumptions C08_file_crc_correct.

(* 3. with the guard and the offsets of the source, what is written between header and trailer is
      exactly the raw deflate stream inside qCompress's output (length prefix, zlib header and
      Adler-32 cut off), and the guard never suppresses it *)
Theorem C08_slice_is_raw_deflate : forall deflate zhdr,
  (forall d, deflate d <> []) -> length zhdr = 2%nat ->
  forall d, g_guard src_gz < lenN (qcompress deflate zhdr d) /\ slice src_gz (qcompress deflate zhdr d) = deflate d.
Proof. exact (fun df zh H1 H2 d => slice_is_raw_deflate df zh H1 H2 src_gz d (cfg_goodb_good _ C08_source_configuration_good)). Qed.
Print Assumptions C08_slice_is_raw_deflate.

(* 4. the file compressFile() writes for ANY content d is the RFC 1952 member of d, the RFC 1952
      reader decodes it back to d, and its CRC32 / ISIZE fields are those of d *)
Theorem C08_gzip_roundtrip : forall deflate inflate zhdr,
  (forall d rest, inflate (deflate d ++ rest) = Some (d, rest)) ->
  (forall d, deflate d <> []) -> length zhdr = 2%nat ->
  forall d, wf_bytes d ->
    compress_file deflate zhdr src_gz d = g_header src_gz ++ deflate d ++ le32 (crc32_bitwise d) ++ le32 (lenN d mod two32)
    /\ gunzip inflate (compress_file deflate zhdr src_gz d) = Some d.
Proof.
  exact (fun df inf zh H0 H1 H2 d Hw =>
    conj (compress_file_is_gzip_member df zh H1 H2 src_gz d (cfg_goodb_good _ C08_source_configuration_good) Hw
          : compress_file df zh src_gz d = g_header src_gz ++ df d ++ le32 (crc32_bitwise d) ++ le32 (lenN d mod two32))
         (compressed_file_decodes df inf zh H0 H1 H2 src_gz d (cfg_goodb_good _ C08_source_configuration_good) Hw)).
Qed.
Print Assumptions C08_gzip_roundtrip.

(* header bytes: ID1 ID2 CM=8 FLG=0, ten bytes *)
Theorem C08_header_conforms :
  length (g_header src_gz) = 10%nat /\ nth 0 (g_header src_gz) 0 = 31 /\ nth 1 (g_header src_gz) 0 = 139 /\
  nth 2 (g_header src_gz) 0 = 8 /\ nth 3 (g_header src_gz) 0 = 0 /\ wf_bytes (g_header src_gz).
Proof. exact (header_conforms src_gz (cfg_goodb_good _ C08_source_configuration_good)). Qed.
Print Assumptions C08_header_conforms.

(* 5. in the translated order of compressFile()'s file operations the original is removed exactly
      once, as the last operation, after header, body and trailer were written and the output closed *)
Theorem C08_original_removed_last :
  (exists pre, src_compress_steps = pre ++ [CRemoveOrig] /\ ~ In CRemoveOrig pre) /\
  before CCloseOut CRemoveOrig src_compress_steps = true /\ before CWriteTrailer CCloseOut src_compress_steps = true /\
  before CWriteBody CWriteTrailer src_compress_steps = true /\ before CWriteHeader CWriteBody src_compress_steps = true.
Proof. exact (removed_last_spec src_compress_steps (eq_refl true)). Qed.
Print Assumptions C08_original_removed_last.

(* the boolean oracle the check evaluates on the files the implementation wrote holds of the model,
   and accepts only files the reader decodes to the expected bytes *)
Theorem C08_oracle_holds : forall deflate inflate zhdr,
  (forall d rest, inflate (deflate d ++ rest) = Some (d, rest)) ->
  (forall d, deflate d <> []) -> length zhdr = 2%nat ->
  forall d, wf_bytes d -> prop_c08_b inflate d (compress_file deflate zhdr src_gz d) = true.
Proof. exact (fun df inf zh H0 H1 H2 d Hw => oracle_holds df inf zh H0 H1 H2 src_gz d (cfg_goodb_good _ C08_source_configuration_good) Hw). Qed.
Print Assumptions C08_oracle_holds.
Theorem C08_oracle_sound : forall inflate expected file,
  prop_c08_b inflate expected file = true -> gunzip inflate file = Some expected.
Proof. exact oracle_sound. Qed.
Print Assumptions C08_oracle_sound.

(* non-vacuity: the zlib hypotheses are satisfiable (toy self-delimiting codec), and with it the
   model's file for "hi\n" + a 0xFF byte decodes to itself and carries CRC-32 0x9D2BA4E2... computed
   by the bitwise definition *)
Example C08_nonvacuous :
  gunzip toy_inflate (compress_file toy_deflate [120; 94] src_gz [104; 105; 10; 255]) = Some [104; 105; 10; 255]
  /\ (forall d rest, toy_inflate (toy_deflate d ++ rest) = Some (d, rest))
  /\ crc32_bitwise [49; 50; 51; 52; 53; 54; 55; 56; 57] = 0xCBF43926.
Proof. split; [vm_compute; reflexivity|split; [exact toy_inflate_deflate|vm_compute; reflexivity]]. Qed.
