(* C04 — Stopping asynchronous logging drains every accepted message and terminates.
   Executable model of the stop protocol of OwnThreadHandler (ownthreadhandler.h): process(),
   Worker::customEvent(), moveToOwnThread(), resetOwnThread(), the destructor; the application
   object (QCoreApplication::instance()) as one bit.  Definitions only: this file must keep
   compiling (and extracting) when a proof elsewhere breaks.

   What is a step of what:
     APost m       OwnThreadHandler::process under m_mutex: with a worker  pending++ ; postEvent
                   (the message joins the FIFO event queue of the worker), without a worker the
                   caller runs the pipeline itself (synchronous delivery).
     ATake         Qt hands the first posted event to Worker::customEvent.  ENABLED ONLY WHILE THE
                   APPLICATION OBJECT EXISTS: QCoreApplication::notifyInternal2 returns at once for
                   a QThread-started thread when QCoreApplication::self is null, and the event is
                   then deleted undelivered (customEvent never runs, pending is never decremented).
     ADone ok      customEvent: BaseHandler::process has returned `ok` (the wrapped handler has
                   seen the message; ok = false: it REJECTED it — a filter, a FunctionHandler, any
                   Handler may; a Logger/Pipeline never does), THEN pending--.  The code discards
                   the result: the decrement happens whatever `ok` is (switch du, below).
     AResetStart i resetOwnThread called by stopper thread i: lock; `if (!m_thread) return`.
                   SEVERAL threads may be inside resetOwnThread at once (one entry of `stops` each).
     AResetCheck   the loop test `pending > 0`: true -> unlock and sleep (RSleep); false -> quit,
                   wait/terminate, clear thread, clear worker, unlock (RDone).  The mutex is held
                   from the test to the end, hence one step.
     AResetWake    relock after the sleep; `if (!m_thread) return;` (a stop that wakes up and finds
                   no thread returns without touching anything).
     AAppDie       ~QCoreApplication (self = nullptr).
     AMove         moveToOwnThread: when no thread exists new thread, new worker, start; when one
                   exists (a second configure(async)) it returns at once and changes nothing.
   Process exit is AAppDie (if an application object ever existed) followed by AResetStart from the
   destructor of the function-local static Logger. *)
From Coq Require Import List Arith Bool.
Import ListNotations.

(* where one caller of resetOwnThread is.  RError: it executed `m_thread->quit()` although the
   thread had been cleared by another stop — the null dereference of the code before a579b9f.
   With the re-test after the relock it is unreachable (ShutdownProofs.concurrent_stops_safe). *)
Inductive rstate := RIdle | RCheck | RSleep | RDone | RError.

Record st := mk_st {
  app : bool;              (* QCoreApplication::instance() != nullptr *)
  worker : bool;           (* m_thread / m_worker non-null (and the thread runs) *)
  queue : list nat;        (* posted LogEvents not yet handed to customEvent, FIFO *)
  inflight : option nat;   (* message customEvent is processing *)
  pending : nat;           (* m_pendingCount *)
  mtx : bool;              (* m_mutex held by a caller of resetOwnThread *)
  stops : list rstate;     (* one entry per thread that ever calls resetOwnThread (stopper) *)
  log : list nat;          (* what the sinks have received, in order *)
  accepted : list nat      (* messages whose process() call took place, in order *)
}.

Inductive act :=
| APost (m : nat) | ATake | ADone (ok : bool)   (* ok : what the wrapped handler's process() returned *)
| AResetStart (i : nat) | AResetCheck (i : nat) | AResetWake (i : nat)   (* i : which stopper *)
| AAppDie | AMove.

Definition opt_list (o : option nat) : list nat := match o with Some x => [x] | None => [] end.

Fixpoint upd (l : list rstate) (i : nat) (v : rstate) : list rstate :=
  match l, i with
  | [], _ => []
  | _ :: t, O => v :: t
  | x :: t, S j => x :: upd t j v
  end.
Definition startable (r : rstate) : bool := match r with RIdle | RDone => true | _ => false end.
(* moveToOwnThread starts a new stop/start round: stops that had returned are idle callers again *)
Definition undone (r : rstate) : rstate := match r with RDone => RIdle | x => x end.

(* rc : the code re-tests `if (!m_thread) return;` after the relock in the wait loop (translated
   from the source: rechecks_after_relock src_skeleton)
   du : Worker::customEvent decrements m_pendingCount whatever the wrapped handler returned
   (translated from the source: dec_unconditional src_skeleton).  With du = false a message the
   handler rejects is handled but never counted down. *)
Definition step (rc du : bool) (s : st) (a : act) : option st :=
  match a with
  | APost m =>
      if mtx s then None else
      if worker s
      then Some (mk_st (app s) true (queue s ++ [m]) (inflight s) (S (pending s)) false (stops s)
                       (log s) (accepted s ++ [m]))
      else Some (mk_st (app s) false (queue s) (inflight s) (pending s) false (stops s)
                       (log s ++ [m]) (accepted s ++ [m]))
  | ATake =>
      match app s, worker s, inflight s, queue s with
      | true, true, None, m :: q =>
          Some (mk_st true true q (Some m) (pending s) (mtx s) (stops s) (log s) (accepted s))
      | _, _, _, _ => None
      end
  | ADone ok =>
      match inflight s with
      | Some m => Some (mk_st (app s) (worker s) (queue s) None
                              (if du || ok then pred (pending s) else pending s) (mtx s) (stops s)
                              (log s ++ [m]) (accepted s))
      | None => None
      end
  | AResetStart i =>      (* lock; if (!m_thread) return; *)
      match nth_error (stops s) i with
      | Some r =>
          if startable r && negb (mtx s) then
            if worker s
            then Some (mk_st (app s) true (queue s) (inflight s) (pending s) true (upd (stops s) i RCheck) (log s) (accepted s))
            else Some (mk_st (app s) false (queue s) (inflight s) (pending s) false (upd (stops s) i RDone) (log s) (accepted s))
          else None
      | None => None
      end
  | AResetCheck i =>      (* the loop test, holding the mutex *)
      match nth_error (stops s) i with
      | Some RCheck =>
          if worker s then
            if Nat.ltb 0 (pending s)
            then (* unlock; sleep *)
                 Some (mk_st (app s) true (queue s) (inflight s) (pending s) false (upd (stops s) i RSleep) (log s) (accepted s))
            else (* quit; wait/terminate; disconnect; clear thread; clear worker; unlock *)
                 Some (mk_st (app s) false (queue s) (inflight s) (pending s) false (upd (stops s) i RDone) (log s) (accepted s))
          else (* m_thread->quit() on a cleared QPointer *)
               Some (mk_st (app s) false (queue s) (inflight s) (pending s) (mtx s) (upd (stops s) i RError) (log s) (accepted s))
      | _ => None
      end
  | AResetWake i =>       (* relock after the sleep; with rc: if (!m_thread) return; *)
      match nth_error (stops s) i with
      | Some RSleep =>
          if mtx s then None else
          if worker s || negb rc
          then Some (mk_st (app s) (worker s) (queue s) (inflight s) (pending s) true (upd (stops s) i RCheck) (log s) (accepted s))
          else Some (mk_st (app s) false (queue s) (inflight s) (pending s) false (upd (stops s) i RDone) (log s) (accepted s))
      | _ => None
      end
  | AAppDie =>
      Some (mk_st false (worker s) (queue s) (inflight s) (pending s) (mtx s) (stops s) (log s) (accepted s))
  | AMove =>              (* moveToOwnThread: lock; if (m_thread) return; new thread and worker *)
      if mtx s then None
      else if worker s then Some s   (* already asynchronous: `if (m_thread) return *this;` — nothing is touched *)
      else Some (mk_st (app s) true (queue s) (inflight s) (pending s) false (map undone (stops s)) (log s) (accepted s))
  end.

(* an arbitrary action list: actions that are not enabled are skipped *)
Fixpoint run (rc du : bool) (s : st) (tr : list act) : st :=
  match tr with
  | [] => s
  | a :: r => match step rc du s a with Some s' => run rc du s' r | None => run rc du s r end
  end.

(* every action must be enabled *)
Fixpoint run_strict (rc du : bool) (s : st) (tr : list act) : option st :=
  match tr with
  | [] => Some s
  | a :: r => match step rc du s a with Some s' => run_strict rc du s' r | None => None end
  end.

(* a : an application object exists; w : asynchronous mode already on; k : number of stoppers *)
Definition init (a w : bool) (k : nat) : st := mk_st a w [] None 0 false (repeat RIdle k) [] [].

(* the backlog can never be handed to the worker any more (decidable form of "the stop hangs") *)
Definition stuck_b (s : st) : bool :=
  negb (app s) && worker s
  && match inflight s with None => true | Some _ => false end
  && match queue s with [] => false | _ :: _ => true end.

(* the pending count is larger than what is queued or in hand: a count has leaked, the wait loop of
   a stop can never see zero again (decidable form of the second way a stop can hang; unreachable
   with du = true, ShutdownProofs.never_leaks) *)
Definition leaked_b (s : st) : bool :=
  worker s && Nat.ltb (length (queue s) + length (opt_list (inflight s))) (pending s).

Definition is_active (r : rstate) : bool := match r with RCheck | RSleep => true | _ => false end.
Definition errorb (s : st) : bool := existsb (fun r => match r with RError => true | _ => false end) (stops s).

(* termination measures: of the worker with a live application, and of the stoppers once the
   backlog is empty *)
Definition mu (s : st) : nat := 2 * length (queue s) + length (opt_list (inflight s)).
Definition sw (r : rstate) : nat := match r with RSleep => 2 | RCheck => 1 | _ => 0 end.
Fixpoint sm (l : list rstate) : nat := match l with [] => 0 | r :: t => sw r + sm t end.
Fixpoint drain_schedule (q : nat) : list act :=
  match q with O => [] | S q' => ATake :: ADone true :: drain_schedule q' end.

(* ------------------------------------------------------------------ recorded traces --------- *)
(* What h_shutdown records, totally ordered by the order of its write(2) calls:
     EPost m          hook own.locked on a producer thread whose current message is m
     ETake            hook worker.before_process
     EDeliver m sync  the recording sink has finished with m (sync = on the caller's thread)
     EDone ok         hook worker.decremented; ok = what the recording handler returned for the
                      message it had just been given (false: the wrapped handler rejected it)
     EResetLocked i   hook reset.locked on stopper thread i (past `if (!m_thread) return`, mutex held)
     EResetWaiting i  hook reset.waiting (loop test was true; unlock/sleep/relock follow)
     EResetQuit i     hook reset.quit (loop test was false; quit/wait/clear follow)
     EStopEnd i       a stop call of thread i is known to have returned (explicit resetOwnThread(),
                      or exec() returned after aboutToQuit)
     EAppGone         ~QCoreApplication has returned
     EMove            moveToOwnThread() (called with the logger lock held, so no post interleaves)
     EReturned m      the logging call for m has returned to the producer
     EExit            static destruction is over (atexit handler registered before the logger) *)
Inductive ev :=
| EPost (m : nat) | ETake | EDeliver (m : nat) (sync : bool) | EDone (ok : bool)
| EResetLocked (i : nat) | EResetWaiting (i : nat) | EResetQuit (i : nat) | EStopEnd (i : nat)
| EAppGone | EMove | EReturned (m : nat) | EExit.

Record acc := mk_acc { ms : st; obs : list nat }.

Fixpoint list_eqb (a b : list nat) : bool :=
  match a, b with
  | [], [] => true
  | x :: a', y :: b' => Nat.eqb x y && list_eqb a' b'
  | _, _ => false
  end.
Definition mem (m : nat) (l : list nat) : bool := existsb (Nat.eqb m) l.

Definition wake_if_asleep (s : st) (i : nat) : list act :=
  match nth_error (stops s) i with Some RSleep => [AResetWake i] | _ => [] end.

Definition astep (rc du : bool) (a : acc) (e : ev) : option acc :=
  let s := ms a in
  match e with
  | EPost m =>
      if mem m (accepted s) then None else
      if negb (worker s) && negb (list_eqb (log s) (obs a)) then None else
      match step rc du s (APost m) with Some s' => Some (mk_acc s' (obs a)) | None => None end
  | ETake =>
      match step rc du s ATake with Some s' => Some (mk_acc s' (obs a)) | None => None end
  | EDeliver m true =>
      if negb (worker s) && list_eqb (log s) (obs a ++ [m]) then Some (mk_acc s (obs a ++ [m])) else None
  | EDeliver m false =>
      match inflight s with
      | Some m' => if Nat.eqb m m' && list_eqb (log s) (obs a) then Some (mk_acc s (obs a ++ [m])) else None
      | None => None
      end
  | EDone ok =>
      match step rc du s (ADone ok) with
      | Some s' => if list_eqb (log s') (obs a) then Some (mk_acc s' (obs a)) else None
      | None => None
      end
  | EResetLocked i =>
      if worker s
      then match step rc du s (AResetStart i) with Some s' => Some (mk_acc s' (obs a)) | None => None end
      else None
  | EResetWaiting i =>
      match run_strict rc du s (wake_if_asleep s i ++ [AResetCheck i]) with
      | Some s' => match nth_error (stops s') i with Some RSleep => Some (mk_acc s' (obs a)) | _ => None end
      | None => None
      end
  | EResetQuit i =>
      match run_strict rc du s (wake_if_asleep s i ++ [AResetCheck i]) with
      | Some s' => match nth_error (stops s') i with
                   | Some RDone => if list_eqb (obs a) (accepted s') then Some (mk_acc s' (obs a)) else None
                   | _ => None
                   end
      | None => None
      end
  | EStopEnd i =>
      match nth_error (stops s) i with
      | Some RDone => Some a
      | Some RIdle =>      (* no thread: returned at once, no hook fired *)
          if worker s then None
          else match step rc du s (AResetStart i) with Some s' => Some (mk_acc s' (obs a)) | None => None end
      | Some RSleep =>     (* woke up, found no thread (another stop completed), returned: no hook fired *)
          if worker s then None
          else match step rc du s (AResetWake i) with
               | Some s' => match nth_error (stops s') i with Some RDone => Some (mk_acc s' (obs a)) | _ => None end
               | None => None
               end
      | _ => None
      end
  | EAppGone =>
      match step rc du s AAppDie with Some s' => Some (mk_acc s' (obs a)) | None => None end
  | EMove =>
      if worker s then Some a
      else if list_eqb (log s) (obs a)   (* no synchronous delivery is under way: it holds the mutex *)
           then match step rc du s AMove with Some s' => Some (mk_acc s' (obs a)) | None => None end
           else None
  | EReturned m => if mem m (accepted s) then Some a else None
  | EExit => if negb (worker s) && list_eqb (obs a) (accepted s) then Some a else None
  end.

(* Accepted: the whole trace was followed; Rejected k: the k-th event (from 0) is not possible in
   the model after the ones before it (the state reached before it is returned) *)
Inductive verdict := Accepted (a : acc) | Rejected (k : nat) (a : acc).

Fixpoint accept_from (rc du : bool) (k : nat) (a : acc) (evs : list ev) : verdict :=
  match evs with
  | [] => Accepted a
  | e :: r => match astep rc du a e with Some a' => accept_from rc du (S k) a' r | None => Rejected k a end
  end.
Definition accept_shutdown (rc du : bool) (app0 worker0 : bool) (nstop : nat) (evs : list ev) : verdict :=
  accept_from rc du 0 (mk_acc (init app0 worker0 nstop) []) evs.

(* boolean oracle on the observations alone (no model state): the delivered list is a prefix of
   the posted list *)
Fixpoint prefix_b (a b : list nat) : bool :=
  match a, b with
  | [], _ => true
  | x :: a', y :: b' => Nat.eqb x y && prefix_b a' b'
  | _ :: _, [] => false
  end.
Definition prop_c04_b (posted delivered : list nat) (stopped : bool) : bool :=
  if stopped then list_eqb delivered posted else prefix_b delivered posted.

(* ------------------------------------------------------------------ code skeletons ---------- *)
(* The shape of the five functions, as tools/s2c/shutdown.py reads it from ownthreadhandler.h.
   The theorems are proved for the model above, which was written for [modelled_skeleton]; the
   property file carries the obligation  src_skeleton = modelled_skeleton. *)
Inductive instr :=
| SLock | SUnlock | SRelock
| SRetIfNoThread | SRetIfThread
| SWhilePending (body : list instr)
| SSleep | SQuit | SWaitElseTerminate | SClearThread | SClearWorker
| SNewThread | SIfApp (body : list instr) | SThreadToAppThread | SConnectAboutToQuitReset
| SConnectAboutToQuitResetKept (* the connection handle is stored in m_aboutToQuitConnection *)
| SDisconnectAboutToQuit
| SConnectFinishedDeleteThread | SNewWorker | SWorkerToThread | SConnectFinishedDeleteWorker | SStartThread
| SIfWorker (thn els : list instr) | SIncPending | SPostEvent | SProcessBase | SDecPending
| SIfLogEvent (body : list instr) | SIfCast (body : list instr)
| SRetIfRejected (* `if (!BaseHandler::process(...)) return;` — leaves customEvent when the wrapped handler returned false *)
| SCallReset | SReturn | SOther.

Record skeleton := mk_skeleton {
  sk_reset : list instr; sk_move : list instr; sk_dtor : list instr;
  sk_process : list instr; sk_custom_event : list instr }.

(* does the wait loop re-test the thread after re-locking?  (SRelock ... SRetIfNoThread inside
   the SWhilePending body of resetOwnThread) *)
Fixpoint has_recheck (l : list instr) (seen_relock : bool) : bool :=
  match l with
  | [] => false
  | SRelock :: t => has_recheck t true
  | SRetIfNoThread :: t => seen_relock || has_recheck t seen_relock
  | _ :: t => has_recheck t seen_relock
  end.
Definition rechecks_after_relock (sk : skeleton) : bool :=
  existsb (fun x => match x with SWhilePending b => has_recheck b false | _ => false end) (sk_reset sk).

(* is the decrement of customEvent executed whatever BaseHandler::process returned?  i.e. the call
   is a plain statement (SProcessBase: result discarded) directly followed by SDecPending, inside
   the two guards *)
Fixpoint proc_then_dec (l : list instr) : bool :=
  match l with
  | [] => false
  | SProcessBase :: t => match t with SDecPending :: _ => true | _ => proc_then_dec t end
  | _ :: t => proc_then_dec t
  end.
Definition guarded_body (x : instr) : list instr :=
  match x with SIfLogEvent b => b | SIfCast b => b | _ => [x] end.
Definition dec_unconditional (sk : skeleton) : bool :=
  proc_then_dec (flat_map guarded_body (flat_map guarded_body (sk_custom_event sk))).

Definition modelled_skeleton : skeleton := {|
  sk_reset := [SLock; SRetIfNoThread; SWhilePending [SUnlock; SSleep; SRelock; SRetIfNoThread]; SQuit;
               SWaitElseTerminate; SDisconnectAboutToQuit; SClearThread; SClearWorker; SUnlock];
  sk_move := [SLock; SRetIfThread; SNewThread; SIfApp [SThreadToAppThread; SConnectAboutToQuitResetKept];
              SConnectFinishedDeleteThread; SNewWorker; SWorkerToThread; SConnectFinishedDeleteWorker;
              SStartThread; SReturn; SUnlock];
  sk_dtor := [SCallReset];
  sk_process := [SLock; SIfWorker [SIncPending; SPostEvent] [SProcessBase]; SReturn; SUnlock];
  sk_custom_event := [SIfLogEvent [SIfCast [SProcessBase; SDecPending]]] |}.

(* resetOwnThread as it was before commit a579b9f (no re-test after the relock) *)
Definition pre_repair_skeleton : skeleton := {|
  sk_reset := [SLock; SRetIfNoThread; SWhilePending [SUnlock; SSleep; SRelock]; SQuit;
               SWaitElseTerminate; SDisconnectAboutToQuit; SClearThread; SClearWorker; SUnlock];
  sk_move := sk_move modelled_skeleton; sk_dtor := sk_dtor modelled_skeleton;
  sk_process := sk_process modelled_skeleton; sk_custom_event := sk_custom_event modelled_skeleton |}.

(* customEvent leaving early, before the decrement, when the wrapped handler rejected the message *)
Definition early_return_skeleton : skeleton := {|
  sk_reset := sk_reset modelled_skeleton; sk_move := sk_move modelled_skeleton; sk_dtor := sk_dtor modelled_skeleton;
  sk_process := sk_process modelled_skeleton;
  sk_custom_event := [SIfLogEvent [SIfCast [SRetIfRejected; SDecPending]]] |}.
