(* C04 — Stopping asynchronous logging drains every accepted message and terminates.
   Executable model of the stop protocol of OwnThreadHandler (ownthreadhandler.h): process(),
   Worker::customEvent(), moveToOwnThread(), resetOwnThread(), the destructor; the application
   object (QCoreApplication::instance()) as one bit.  Definitions only: this file must keep
   compiling (and extracting) when a proof elsewhere breaks.

   What is a step of what:
     APost m       OwnThreadHandler::process under m_mutex: with a worker  pending++ ; postEvent
                   (the message joins the FIFO event queue of the worker), without a worker the
                   caller runs the pipeline itself (synchronous delivery).
     ATake         Qt hands the first posted event to Worker::customEvent.  ENABLED ONLY WHILE THE
                   APPLICATION OBJECT EXISTS: QCoreApplication::notifyInternal2 returns at once for
                   a QThread-started thread when QCoreApplication::self is null, and the event is
                   then deleted undelivered (customEvent never runs, pending is never decremented).
     ADone         customEvent: BaseHandler::process has returned (the sinks have the message),
                   THEN pending--.
     AResetStart   resetOwnThread: lock; `if (!m_thread) return`.
     AResetCheck   the loop test `pending > 0`: true -> unlock and sleep (RSleep); false -> quit,
                   wait/terminate, clear thread, clear worker, unlock (RDone).  The mutex is held
                   from the test to the end, hence one step.
     AResetWake    relock after the sleep; `if (!m_thread) return;` (a stop that wakes up and finds
                   no thread returns without touching anything).
     AAppDie       ~QCoreApplication (self = nullptr).
     AMove         moveToOwnThread when no thread exists: new thread, new worker, start.
   Process exit is AAppDie (if an application object ever existed) followed by AResetStart from the
   destructor of the function-local static Logger. *)
From Coq Require Import List Arith Bool.
Import ListNotations.

Inductive rstate := RIdle | RCheck | RSleep | RDone.

Record st := mk_st {
  app : bool;              (* QCoreApplication::instance() != nullptr *)
  worker : bool;           (* m_worker != nullptr (and its thread runs) *)
  queue : list nat;        (* posted LogEvents not yet handed to customEvent, FIFO *)
  inflight : option nat;   (* message customEvent is processing *)
  pending : nat;           (* m_pendingCount *)
  mtx : bool;              (* m_mutex held by resetOwnThread *)
  rpc : rstate;            (* where resetOwnThread is *)
  log : list nat;          (* what the sinks have received, in order *)
  accepted : list nat      (* messages whose process() call took place, in order *)
}.

Inductive act :=
| APost (m : nat) | ATake | ADone | AResetStart | AResetCheck | AResetWake | AAppDie | AMove.

Definition opt_list (o : option nat) : list nat := match o with Some x => [x] | None => [] end.

Definition step (s : st) (a : act) : option st :=
  match a with
  | APost m =>
      if mtx s then None else
      if worker s
      then Some (mk_st (app s) true (queue s ++ [m]) (inflight s) (S (pending s)) false (rpc s)
                       (log s) (accepted s ++ [m]))
      else Some (mk_st (app s) false (queue s) (inflight s) (pending s) false (rpc s)
                       (log s ++ [m]) (accepted s ++ [m]))
  | ATake =>
      match app s, worker s, inflight s, queue s with
      | true, true, None, m :: q =>
          Some (mk_st true true q (Some m) (pending s) (mtx s) (rpc s) (log s) (accepted s))
      | _, _, _, _ => None
      end
  | ADone =>
      match inflight s with
      | Some m => Some (mk_st (app s) (worker s) (queue s) None (pred (pending s)) (mtx s) (rpc s)
                              (log s ++ [m]) (accepted s))
      | None => None
      end
  | AResetStart =>
      match rpc s, mtx s with
      | RIdle, false | RDone, false =>
          if worker s
          then Some (mk_st (app s) true (queue s) (inflight s) (pending s) true RCheck (log s) (accepted s))
          else Some (mk_st (app s) false (queue s) (inflight s) (pending s) false RDone (log s) (accepted s))
      | _, _ => None
      end
  | AResetCheck =>
      match rpc s with
      | RCheck =>
          if Nat.ltb 0 (pending s)
          then Some (mk_st (app s) (worker s) (queue s) (inflight s) (pending s) false RSleep (log s) (accepted s))
          else Some (mk_st (app s) false (queue s) (inflight s) (pending s) false RDone (log s) (accepted s))
      | _ => None
      end
  | AResetWake =>
      match rpc s, mtx s with
      | RSleep, false =>
          if worker s
          then Some (mk_st (app s) true (queue s) (inflight s) (pending s) true RCheck (log s) (accepted s))
          else (* `if (!m_thread) return;` after the relock: another stop completed meanwhile *)
               Some (mk_st (app s) false (queue s) (inflight s) (pending s) false RDone (log s) (accepted s))
      | _, _ => None
      end
  | AAppDie =>
      Some (mk_st false (worker s) (queue s) (inflight s) (pending s) (mtx s) (rpc s) (log s) (accepted s))
  | AMove =>
      match rpc s, mtx s, worker s with
      | RIdle, false, false | RDone, false, false =>
          Some (mk_st (app s) true (queue s) (inflight s) (pending s) false RIdle (log s) (accepted s))
      | _, _, _ => None
      end
  end.

(* an arbitrary action list: actions that are not enabled are skipped *)
Fixpoint run (s : st) (tr : list act) : st :=
  match tr with
  | [] => s
  | a :: r => match step s a with Some s' => run s' r | None => run s r end
  end.

(* every action must be enabled *)
Fixpoint run_strict (s : st) (tr : list act) : option st :=
  match tr with
  | [] => Some s
  | a :: r => match step s a with Some s' => run_strict s' r | None => None end
  end.

(* a : an application object exists; w : asynchronous mode already switched on *)
Definition init (a w : bool) : st := mk_st a w [] None 0 false RIdle [] [].

(* the backlog can never be handed to the worker any more (decidable form of "the stop hangs") *)
Definition stuck_b (s : st) : bool :=
  negb (app s) && worker s
  && match inflight s with None => true | Some _ => false end
  && match queue s with [] => false | _ :: _ => true end.

(* termination measure of the worker with a live application *)
Definition mu (s : st) : nat := 2 * length (queue s) + length (opt_list (inflight s)).
(* the schedule that lets the worker finish the backlog and the stop complete *)
Fixpoint drain_schedule (q : nat) : list act :=
  match q with O => [] | S q' => ATake :: ADone :: drain_schedule q' end.
Definition finish_schedule (s : st) : list act :=
  (match inflight s with Some _ => [ADone] | None => [] end) ++ drain_schedule (length (queue s))
  ++ (match rpc s with RSleep => [AResetWake] | _ => [] end) ++ [AResetCheck].

(* ------------------------------------------------------------------ recorded traces --------- *)
(* What h_shutdown records, totally ordered by the order of its write(2) calls:
     EPost m          hook own.locked on a producer thread whose current message is m
     ETake            hook worker.before_process
     EDeliver m sync  the recording sink has finished with m (sync = on the caller's thread)
     EDone            hook worker.decremented
     EResetLocked     hook reset.locked (past `if (!m_thread) return`, mutex held)
     EResetWaiting    hook reset.waiting (loop test was true; unlock/sleep/relock follow)
     EResetQuit       hook reset.quit (loop test was false; quit/wait/clear follow)
     EStopEnd         a stop is known to have returned (explicit resetOwnThread(), or exec()
                      returned after aboutToQuit)
     EAppGone         ~QCoreApplication has returned
     EMove            moveToOwnThread() (called with the logger lock held, so no post interleaves)
     EReturned m      the logging call for m has returned to the producer
     EExit            static destruction is over (atexit handler registered before the logger) *)
Inductive ev :=
| EPost (m : nat) | ETake | EDeliver (m : nat) (sync : bool) | EDone
| EResetLocked | EResetWaiting | EResetQuit | EStopEnd | EAppGone | EMove | EReturned (m : nat) | EExit.

Record acc := mk_acc { ms : st; obs : list nat }.

Fixpoint list_eqb (a b : list nat) : bool :=
  match a, b with
  | [], [] => true
  | x :: a', y :: b' => Nat.eqb x y && list_eqb a' b'
  | _, _ => false
  end.
Definition mem (m : nat) (l : list nat) : bool := existsb (Nat.eqb m) l.

Definition wake_if_asleep (s : st) : list act :=
  match rpc s with RSleep => [AResetWake] | _ => [] end.

Definition astep (a : acc) (e : ev) : option acc :=
  let s := ms a in
  match e with
  | EPost m =>
      if mem m (accepted s) then None else
      if negb (worker s) && negb (list_eqb (log s) (obs a)) then None else
      match step s (APost m) with Some s' => Some (mk_acc s' (obs a)) | None => None end
  | ETake =>
      match step s ATake with Some s' => Some (mk_acc s' (obs a)) | None => None end
  | EDeliver m true =>
      if negb (worker s) && list_eqb (log s) (obs a ++ [m]) then Some (mk_acc s (obs a ++ [m])) else None
  | EDeliver m false =>
      match inflight s with
      | Some m' => if Nat.eqb m m' && list_eqb (log s) (obs a) then Some (mk_acc s (obs a ++ [m])) else None
      | None => None
      end
  | EDone =>
      match step s ADone with
      | Some s' => if list_eqb (log s') (obs a) then Some (mk_acc s' (obs a)) else None
      | None => None
      end
  | EResetLocked =>
      if worker s
      then match step s AResetStart with Some s' => Some (mk_acc s' (obs a)) | None => None end
      else None
  | EResetWaiting =>
      match run_strict s (wake_if_asleep s ++ [AResetCheck]) with
      | Some s' => match rpc s' with RSleep => Some (mk_acc s' (obs a)) | _ => None end
      | None => None
      end
  | EResetQuit =>
      match run_strict s (wake_if_asleep s ++ [AResetCheck]) with
      | Some s' => match rpc s' with
                   | RDone => if list_eqb (obs a) (accepted s') then Some (mk_acc s' (obs a)) else None
                   | _ => None
                   end
      | None => None
      end
  | EStopEnd =>
      match rpc s, worker s with
      | RDone, false => Some a
      | RIdle, false => match step s AResetStart with Some s' => Some (mk_acc s' (obs a)) | None => None end
      | _, _ => None
      end
  | EAppGone =>
      match step s AAppDie with Some s' => Some (mk_acc s' (obs a)) | None => None end
  | EMove =>
      if worker s then Some a
      else if list_eqb (log s) (obs a)   (* no synchronous delivery is under way: it holds the mutex *)
           then match step s AMove with Some s' => Some (mk_acc s' (obs a)) | None => None end
           else None
  | EReturned m => if mem m (accepted s) then Some a else None
  | EExit => if negb (worker s) && list_eqb (obs a) (accepted s) then Some a else None
  end.

(* Accepted: the whole trace was followed; Rejected k: the k-th event (from 0) is not possible in
   the model after the ones before it (the state reached before it is returned) *)
Inductive verdict := Accepted (a : acc) | Rejected (k : nat) (a : acc).

Fixpoint accept_from (k : nat) (a : acc) (evs : list ev) : verdict :=
  match evs with
  | [] => Accepted a
  | e :: r => match astep a e with Some a' => accept_from (S k) a' r | None => Rejected k a end
  end.
Definition accept_shutdown (app0 worker0 : bool) (evs : list ev) : verdict :=
  accept_from 0 (mk_acc (init app0 worker0) []) evs.

(* boolean oracle on the observations alone (no model state): the delivered list is a prefix of
   the posted list *)
Fixpoint prefix_b (a b : list nat) : bool :=
  match a, b with
  | [], _ => true
  | x :: a', y :: b' => Nat.eqb x y && prefix_b a' b'
  | _ :: _, [] => false
  end.
Definition prop_c04_b (posted delivered : list nat) (stopped : bool) : bool :=
  if stopped then list_eqb delivered posted else prefix_b delivered posted.

(* ------------------------------------------------------------------ code skeletons ---------- *)
(* The shape of the five functions, as tools/s2c/shutdown.py reads it from ownthreadhandler.h.
   The theorems are proved for the model above, which was written for [modelled_skeleton]; the
   property file carries the obligation  src_skeleton = modelled_skeleton. *)
Inductive instr :=
| SLock | SUnlock | SRelock
| SRetIfNoThread | SRetIfThread
| SWhilePending (body : list instr)
| SSleep | SQuit | SWaitElseTerminate | SClearThread | SClearWorker
| SNewThread | SIfApp (body : list instr) | SThreadToAppThread | SConnectAboutToQuitReset
| SConnectAboutToQuitResetKept (* the connection handle is stored in m_aboutToQuitConnection *)
| SDisconnectAboutToQuit
| SConnectFinishedDeleteThread | SNewWorker | SWorkerToThread | SConnectFinishedDeleteWorker | SStartThread
| SIfWorker (thn els : list instr) | SIncPending | SPostEvent | SProcessBase | SDecPending
| SIfLogEvent (body : list instr) | SIfCast (body : list instr)
| SCallReset | SReturn | SOther.

Record skeleton := mk_skeleton {
  sk_reset : list instr; sk_move : list instr; sk_dtor : list instr;
  sk_process : list instr; sk_custom_event : list instr }.

Definition modelled_skeleton : skeleton := {|
  sk_reset := [SLock; SRetIfNoThread; SWhilePending [SUnlock; SSleep; SRelock; SRetIfNoThread]; SQuit;
               SWaitElseTerminate; SDisconnectAboutToQuit; SClearThread; SClearWorker; SUnlock];
  sk_move := [SLock; SRetIfThread; SNewThread; SIfApp [SThreadToAppThread; SConnectAboutToQuitResetKept];
              SConnectFinishedDeleteThread; SNewWorker; SWorkerToThread; SConnectFinishedDeleteWorker;
              SStartThread; SReturn; SUnlock];
  sk_dtor := [SCallReset];
  sk_process := [SLock; SIfWorker [SIncPending; SPostEvent] [SProcessBase]; SReturn; SUnlock];
  sk_custom_event := [SIfLogEvent [SIfCast [SProcessBase; SDecPending]]] |}.
