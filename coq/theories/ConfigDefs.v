(* C19 — executable model of the two configuration front-ends (configure.cpp), of the handlers they
   build (category filter / regexp filter restricted to a closed menu, pattern formatter restricted
   to a closed menu, the stateful PrettyFormatter, the SGR-stripping formatter, the console sinks,
   the file sink) and of installMessageHandler / restorePreviousMessageHandler (logger.cpp).
   Definitions only: this file must keep compiling (and extracting) when a proof breaks. *)
From Coq Require Import List NArith ZArith Bool Arith String Ascii.
Import ListNotations.
Local Open Scope N_scope.

(* ------------------------------------------------------------------ strings = UTF-16 code units *)
Definition qstr := list N.
Fixpoint qs (s : string) : qstr :=
  match s with EmptyString => [] | String a r => N_of_ascii a :: qs r end.
Fixpoint seqb (a b : qstr) : bool :=
  match a, b with [], [] => true | x :: a', y :: b' => (x =? y) && seqb a' b' | _, _ => false end.
Fixpoint prefixb (p s : qstr) : bool :=
  match p, s with [], _ => true | x :: p', y :: s' => (x =? y) && prefixb p' s' | _ :: _, [] => false end.
Fixpoint containsb (p s : qstr) : bool :=
  prefixb p s || match s with [] => false | _ :: s' => containsb p s' end.
Definition suffixb (p s : qstr) : bool := prefixb (rev p) (rev s).
Definition emptyb (s : qstr) : bool := match s with [] => true | _ => false end.
Fixpoint join (sep : qstr) (l : list qstr) : qstr :=
  match l with [] => [] | [x] => x | x :: r => x ++ sep ++ join sep r end.

(* ------------------------------------------------------------------ messages *)
(* QtMsgType; qt_enum is Qt's numeric order (0 debug, 1 warning, 2 critical, 3 fatal, 4 info) *)
Inductive mtype := Debug | Warning | Critical | Fatal | Info.
Definition qt_enum (t : mtype) : N :=
  match t with Debug => 0 | Warning => 1 | Critical => 2 | Fatal => 3 | Info => 4 end.
Definition mtype_eqb (a b : mtype) : bool := qt_enum a =? qt_enum b.
Definition type_name (t : mtype) : qstr :=
  match t with Debug => qs "debug" | Warning => qs "warning" | Critical => qs "critical"
             | Fatal => qs "fatal" | Info => qs "info" end.
(* m_tid: any key that distinguishes the emitting threads (only equality is used);
   m_time: the text of QDateTime::toString("dd.MM.yyyy hh:mm:ss") for the message's time stamp,
   supplied by the environment (QDateTime is outside the model);
   m_day: the calendar day of the time stamp (days since the epoch; only equality is used — daily
   rotation of the log file compares the message's date with the date of the file) *)
Record msg := { m_type : mtype; m_cat : qstr; m_text : qstr; m_tid : N; m_time : qstr; m_day : N }.

(* ------------------------------------------------------------------ ANSI SGR sequences *)
(* a character class as a list of inclusive ranges, as read from the regular expression *)
Definition cclass := list (N * N).
Definition in_class (cls : cclass) (c : N) : bool :=
  existsb (fun r => (fst r <=? c) && (c <=? snd r)) cls.
Definition sgr_class : cclass := [(48, 57); (59, 59)].          (* [0-9;] *)
Definition ESC : N := 27.
Definition LBR : N := 91.                                       (* [ *)
Definition LM : N := 109.                                       (* m *)
Fixpoint skip_params (cls : cclass) (s : qstr) : qstr :=
  match s with c :: r => if in_class cls c then skip_params cls r else s | [] => [] end.
(* Some rest when s starts with a complete sequence ESC [ cls* m *)
Definition match_head (cls : cclass) (s : qstr) : option qstr :=
  match s with
  | c1 :: c2 :: r =>
      if (c1 =? ESC) && (c2 =? LBR) then
        match skip_params cls r with
        | c3 :: r' => if c3 =? LM then Some r' else None
        | [] => None
        end
      else None
  | _ => None
  end.
(* QString::remove(QRegularExpression(ESC \[ cls* m)): one left-to-right pass over the
   non-overlapping matches; a failed attempt resumes one character further *)
Fixpoint strip_fuel (cls : cclass) (fuel : nat) (s : qstr) : qstr :=
  match fuel with
  | O => s
  | S f => match s with
           | [] => []
           | c :: r => match match_head cls s with
                       | Some r' => strip_fuel cls f r'
                       | None => c :: strip_fuel cls f r
                       end
           end
  end.
Definition strip (cls : cclass) (s : qstr) : qstr := strip_fuel cls (S (List.length s)) s.
Definition strip_sgr (s : qstr) : qstr := strip sgr_class s.

(* ------------------------------------------------------------------ PrettyFormatter (stateful) *)
Definition esc_seq (body : string) : qstr := ESC :: LBR :: qs body ++ [LM].
Definition c_reset := esc_seq "0".
Definition c_darkGray := esc_seq "90".
Definition c_bold := esc_seq "1".
Definition c_green := esc_seq "32".
Definition c_greenBold := esc_seq "1;32".
Definition c_orange := esc_seq "38;5;172".
Definition c_darkOrange := esc_seq "38;5;208".
Definition c_redBold := esc_seq "1;31".
Definition c_darkRedBold := esc_seq "1;38;5;88".
Definition letter (t : mtype) : N :=
  match t with Debug => 32 | Warning => 87 | Critical => 69 | Fatal => 70 | Info => 73 end.
Definition letter_color (t : mtype) : option qstr :=
  match t with Info => Some c_greenBold | Warning => Some c_darkOrange | Critical => Some c_redBold
             | Fatal => Some c_darkRedBold | Debug => None end.
Definition msg_color (t : mtype) : option qstr :=
  match t with Info => Some c_green | Warning => Some c_orange | Critical => Some c_redBold
             | Fatal => Some c_darkRedBold | Debug => None end.
Definition s_default : qstr := qs "default".
Definition SP : N := 32.

Record pstate := { threads : list (N * nat); next_index : nat; cat_width : nat }.
Definition p0 : pstate := {| threads := []; next_index := 0; cat_width := 0 |}.
Fixpoint tlook (k : N) (l : list (N * nat)) : option nat :=
  match l with [] => None | (k', v) :: r => if k =? k' then Some v else tlook k r end.
Fixpoint dec_nat (fuel n : nat) (acc : qstr) : qstr :=
  match fuel with
  | O => acc
  | S f => let d := N.of_nat (n mod 10) in
           if Nat.ltb n 10 then (48 + d) :: acc else dec_nat f (n / 10) ((48 + d) :: acc)
  end.
Definition show_nat (n : nat) : qstr := dec_nat (S n) n [].
Definition wrap (on : bool) (code body : qstr) : qstr := if on then code ++ body ++ c_reset else body.
Definition wrap_opt (on : bool) (code : option qstr) (body : qstr) : qstr :=
  match code with Some c => wrap on c body | None => body end.

Definition pretty (colorize : bool) (max_cat : nat) (st : pstate) (m : msg) : pstate * qstr :=
  let t := m_type m in
  let cat := m_cat m in
  let is_def := seqb cat s_default in
  let '(thr, idx, nxt) :=
    match tlook (m_tid m) (threads st) with
    | Some i => (threads st, i, next_index st)
    | None => (threads st ++ [(m_tid m, next_index st)], next_index st, S (next_index st))
    end in
  let typ := wrap_opt colorize (letter_color t) [letter t] in
  let thread_part :=
    if Nat.ltb 1 (List.length thr) then
      if Nat.eqb idx 0
      then repeat SP (if Nat.ltb 100 nxt then 5%nat else if Nat.ltb 10 nxt then 4%nat else 3%nat)
      else wrap colorize c_bold ([84] ++ show_nat idx ++ [SP])
    else [] in
  let cat_len := if is_def then 0%nat else (List.length cat + 3)%nat in
  let cat_part := if is_def then [] else wrap colorize c_darkGray ([91] ++ cat ++ [93; SP]) in
  let w := if Nat.ltb 0 max_cat
           then (if Nat.ltb (cat_width st) cat_len then Nat.min cat_len max_cat else cat_width st)
           else cat_width st in
  let pad := if Nat.ltb 0 max_cat then repeat SP (w - cat_len) else [] in
  let body := wrap_opt colorize (msg_color t) (m_text m) in
  ({| threads := thr; next_index := nxt; cat_width := w |},
   m_time m ++ [SP] ++ typ ++ [SP] ++ thread_part ++ cat_part ++ pad ++ body).

(* ------------------------------------------------------------------ menus (own few-line models) *)
(* category rules: exact name, name + trailing wildcard ("name*": the category starts with name), or
   wildcard + name + wildcard ("*name*": the category contains name; name itself has no wildcard),
   optional typed suffix; last match wins *)
Inductive rkind := KExact | KPrefix | KContains.
Record crule := { r_name : qstr; r_kind : rkind; r_type : option mtype; r_enabled : bool }.
Definition rule_matches (r : crule) (cat : qstr) (t : mtype) : bool :=
  (match r_kind r with KExact => seqb (r_name r) cat | KPrefix => prefixb (r_name r) cat
                     | KContains => containsb (r_name r) cat end)
  && match r_type r with None => true | Some t' => mtype_eqb t t' end.
Definition cat_pass (rs : list crule) (cat : qstr) (t : mtype) : bool :=
  fold_left (fun en r => if rule_matches r cat t then r_enabled r else en) rs true.
Definition rule_text (r : crule) : qstr :=
  (match r_kind r with KContains => qs "*" | _ => [] end) ++ r_name r
  ++ (match r_kind r with KExact => [] | _ => qs "*" end)
  ++ match r_type r with Some t => qs "." ++ type_name t | None => [] end
  ++ qs "=" ++ (if r_enabled r then qs "true" else qs "false").
Definition rules_text (rs : list crule) : qstr := join (qs ";") (map rule_text rs).
(* regular-expression filter: literal with an optional anchor *)
Inductive rx := RxContains (l : qstr) | RxPrefix (l : qstr) | RxSuffix (l : qstr).
Definition rx_match (r : rx) (s : qstr) : bool :=
  match r with RxContains l => containsb l s | RxPrefix l => prefixb l s | RxSuffix l => suffixb l s end.
Definition rx_text (r : rx) : qstr :=
  match r with RxContains l => l | RxPrefix l => qs "^" ++ l | RxSuffix l => l ++ qs "$" end.
(* message pattern: literals, the three placeholders message / type / category, and the
   conditional sections %{if-<type>} ... %{endif} (patternformatter.cpp: a section marker sets /
   clears the condition attached to every following token; sections do not nest) *)
Inductive ptok := PLit (s : qstr) | PMessage | PType | PCategory | PIf (t : mtype) | PEndif.
Definition ptok_text (t : ptok) : qstr :=
  match t with PLit s => s | PMessage => qs "%{message}" | PType => qs "%{type}"
             | PCategory => qs "%{category}" | PIf t => qs "%{if-" ++ type_name t ++ qs "}"
             | PEndif => qs "%{endif}" end.
Definition pattern_text (p : list ptok) : qstr := List.concat (map ptok_text p).
Definition ptok_value (m : msg) (t : ptok) : qstr :=
  match t with PLit s => s | PMessage => m_text m | PType => type_name (m_type m)
             | PCategory => m_cat m | PIf _ | PEndif => [] end.
Definition cond_holds (c : option mtype) (m : msg) : bool :=
  match c with None => true | Some t => mtype_eqb t (m_type m) end.
Fixpoint pattern_go (c : option mtype) (p : list ptok) (m : msg) : qstr :=
  match p with
  | [] => []
  | PIf t :: r => pattern_go (Some t) r m
  | PEndif :: r => pattern_go None r m
  | tok :: r => (if cond_holds c m then ptok_value m tok else []) ++ pattern_go c r m
  end.
(* does the pattern yield any token at all?  (no token: format() returns the message itself) *)
Definition ptok_is_token (t : ptok) : bool :=
  match t with PLit s => negb (emptyb s) | PIf _ | PEndif => false | _ => true end.
(* the text PatternFormatter::format returns.  It is never a null QString (the result buffer is
   reserved even when no section applies), so an empty result is shown as an empty record and
   does NOT fall back to the raw message (LogMessage::isFormatted) *)
Definition pattern_format (p : list ptok) (m : msg) : qstr :=
  if existsb ptok_is_token p then pattern_go None p m else m_text m.

(* ------------------------------------------------------------------ handlers and their evaluation *)
Inductive cmode := CAuto | CAlways | CNever.                    (* ColorMode *)
Record fparams := { f_path : qstr; f_rotating : bool; f_size : Z; f_count : Z;
                    f_startup : bool; f_daily : bool; f_compress : bool }.
Inductive handler :=
| HCat (rs : list crule) | HRegex (r : rx)
| HPattern (p : list ptok) | HPretty (colorize : bool) (maxcat : nat) | HStrip (cls : cclass)
| HStdout (m : cmode) | HStderr (m : cmode) | HPlatform (m : cmode) | HSyslog (ident : qstr)
| HFile (f : fparams).
(* where a sink writes.  OStderr (the `stderr` key) and OPlatform (the platform log, which is a
   StdErrSink on this platform) share the process's stderr stream *)
Inductive out_id := OStdout | OStderr | OPlatform | OSyslog | OFile.
Definition out_code (o : out_id) : N :=
  match o with OStdout => 0 | OStderr => 1 | OPlatform => 2 | OSyslog => 3 | OFile => 4 end.
Definition out_eqb (a b : out_id) : bool := out_code a =? out_code b.
Definition event := (out_id * qstr)%type.
Record env := { tty_out : bool; tty_err : bool }.               (* isatty(1), isatty(2) *)
Definition colors_enabled (m : cmode) (tty : bool) : bool :=
  match m with CAlways => true | CNever => false | CAuto => tty end.
(* ColoredConsole::colorize *)
Definition sink_prefix (t : mtype) : qstr :=
  match t with Debug => esc_seq "90" | Info => esc_seq "32" | Warning => esc_seq "33"
             | Critical => esc_seq "31" | Fatal => esc_seq "1;91" end.
Definition console_text (on : bool) (t : mtype) (s : qstr) : qstr :=
  if on then sink_prefix t ++ s ++ c_reset else s.
Definition shown (m : msg) (fmt : option qstr) : qstr :=
  match fmt with Some f => f | None => m_text m end.
Definition syslog_text (m : msg) : qstr :=
  if seqb (m_cat m) s_default then m_text m else m_cat m ++ qs ": " ++ m_text m.

(* one handler on one message: (new formatter state, continue?, new formatted text, events) *)
Definition hstep (e : env) (h : handler) (st : pstate) (m : msg) (fmt : option qstr)
  : pstate * bool * option qstr * list event :=
  match h with
  | HCat rs => (st, cat_pass rs (m_cat m) (m_type m), fmt, [])
  | HRegex r => (st, rx_match r (m_text m), fmt, [])
  | HPattern p => (st, true, Some (pattern_format p m), [])
  | HPretty c w => let (st', s) := pretty c w st m in (st', true, Some s, [])
  | HStrip cls => (st, true, Some (strip cls (shown m fmt)), [])
  | HStdout cm => (st, true, fmt, [(OStdout, console_text (colors_enabled cm (tty_out e)) (m_type m) (shown m fmt))])
  | HStderr cm => (st, true, fmt, [(OStderr, console_text (colors_enabled cm (tty_err e)) (m_type m) (shown m fmt))])
  | HPlatform cm => (st, true, fmt, [(OPlatform, console_text (colors_enabled cm (tty_err e)) (m_type m) (shown m fmt))])
  | HSyslog _ => (st, true, fmt, [(OSyslog, syslog_text m)])
  | HFile _ => (st, true, fmt, [(OFile, shown m fmt)])
  end.
(* Pipeline::process of a non-scoped pipeline: handlers in order, stop at the first that returns false *)
Fixpoint run_msg (e : env) (hs : list (handler * pstate)) (m : msg) (fmt : option qstr)
  : list (handler * pstate) * list event :=
  match hs with
  | [] => ([], [])
  | (h, st) :: t =>
      let '(st', go, fmt', ev) := hstep e h st m fmt in
      if go then let (t', ev') := run_msg e t m fmt' in ((h, st') :: t', ev ++ ev')
      else ((h, st') :: t, ev)
  end.
Fixpoint run_all (e : env) (hs : list (handler * pstate)) (ms : list msg) : list event :=
  match ms with
  | [] => []
  | m :: r => let (hs', ev) := run_msg e hs m None in ev ++ run_all e hs' r
  end.
Definition run (e : env) (l : list handler) (ms : list msg) : list event :=
  run_all e (map (fun h => (h, p0)) l) ms.
Definition project (o : out_id) (evs : list event) : list qstr :=
  map snd (filter (fun ev => out_eqb (fst ev) o) evs).
(* the text of a stream: every record followed by a newline *)
Definition NL : N := 10.
Definition stream_text (recs : list qstr) : qstr := List.concat (map (fun r => r ++ [NL]) recs).
Definition on_stderr (ev : event) : bool := out_eqb (fst ev) OStderr || out_eqb (fst ev) OPlatform.
Definition stderr_records (evs : list event) : list qstr := map snd (filter on_stderr evs).

(* ------------------------------------------------------------------ INI front-end *)
Inductive bkey := KStdout | KStdoutColor | KStderr | KStderrColor | KPlatform
                | KStartup | KDaily | KCompress | KAsync.
(* the settings object: string keys (absent and empty are the same to configure()), boolean and
   integer keys optional *)
Record ini := {
  k_rules : list crule; k_regexp : option rx; k_pattern : list ptok;
  k_stdout : option bool; k_stdout_color : option bool; k_stderr : option bool;
  k_stderr_color : option bool; k_platform : option bool;
  k_syslog : qstr; k_path : qstr; k_max_size : option Z; k_max_count : option Z;
  k_startup : option bool; k_daily : option bool; k_compress : option bool; k_async : option bool }.
Definition rawb (s : ini) (k : bkey) : option bool :=
  match k with KStdout => k_stdout s | KStdoutColor => k_stdout_color s | KStderr => k_stderr s
             | KStderrColor => k_stderr_color s | KPlatform => k_platform s | KStartup => k_startup s
             | KDaily => k_daily s | KCompress => k_compress s | KAsync => k_async s end.
(* `settings.value(group + "/key", default).toBool()` *)
Definition readb (s : ini) (kd : bkey * bool) : bool :=
  match rawb s (fst kd) with Some b => b | None => snd kd end.
Definition readz (o : option Z) (d : Z) : Z := match o with Some z => z | None => d end.

Inductive slot := SRules | SRegexp | SFormatter | SStdout | SStderr | SPlatform | SSyslog | SFile.
(* what tools/s2c/config.py reads from configure(Pipeline*, const QSettings&, group) *)
Record ini_src := {
  i_order : list slot;                       (* order of the `*pipeline << …` statements *)
  i_stdout_en : bkey * bool; i_stdout_col : bkey * bool;     (* key read, default *)
  i_stderr_en : bkey * bool; i_stderr_col : bkey * bool;
  i_platform_en : bkey * bool;
  i_startup : bkey * bool; i_daily : bkey * bool; i_compress : bkey * bool; i_async : bkey * bool;
  i_max_size : Z; i_max_count : Z;
  i_color_on : cmode; i_color_off : cmode;   (* `color ? ColorMode::X : ColorMode::Y` *)
  i_platform_mode : cmode;                   (* StdErrSink's default colour mode *)
  i_def_colorize : bool; i_def_maxcat : nat; (* PrettyFormatter::instance() *)
  i_async_moves : bool }.                    (* async => moveToOwnThread() *)

Definition console_slot (src : ini_src) (s : ini) (en col : bkey * bool) (mk : cmode -> handler) : list handler :=
  if readb s en || readb s col
  then [mk (if readb s col then i_color_on src else i_color_off src)] else [].
(* the file sink the `path` key builds: always the rotating sink, options from the keys *)
Definition ini_fparams (src : ini_src) (s : ini) : fparams :=
  {| f_path := k_path s; f_rotating := true;
     f_size := readz (k_max_size s) (i_max_size src);
     f_count := readz (k_max_count s) (i_max_count src);
     f_startup := readb s (i_startup src); f_daily := readb s (i_daily src);
     f_compress := readb s (i_compress src) |}.
Definition slot_handlers (src : ini_src) (s : ini) (sl : slot) : list handler :=
  match sl with
  | SRules => if emptyb (rules_text (k_rules s)) then [] else [HCat (k_rules s)]
  | SRegexp => match k_regexp s with
               | Some r => if emptyb (rx_text r) then [] else [HRegex r]
               | None => [] end
  | SFormatter => if emptyb (pattern_text (k_pattern s))
                  then [HPretty (i_def_colorize src) (i_def_maxcat src)]
                  else [HPattern (k_pattern s)]
  | SStdout => console_slot src s (i_stdout_en src) (i_stdout_col src) HStdout
  | SStderr => console_slot src s (i_stderr_en src) (i_stderr_col src) HStderr
  | SPlatform => if readb s (i_platform_en src) then [HPlatform (i_platform_mode src)] else []
  | SSyslog => if emptyb (k_syslog s) then [] else [HSyslog (k_syslog s)]
  | SFile => if emptyb (k_path s) then [] else [HFile (ini_fparams src s)]
  end.
Definition build_ini (src : ini_src) (s : ini) : list handler :=
  flat_map (slot_handlers src s) (i_order src).
Definition ini_async (src : ini_src) (s : ini) : bool := readb s (i_async src) && i_async_moves src.

(* the documented configuration (docs/configuration.md: key table, defaults; the console keys
   choose stdout / stderr, `*_color` asks for colours when the stream is a terminal) *)
Definition doc_ini : ini_src := {|
  i_order := [SRules; SRegexp; SFormatter; SStdout; SStderr; SPlatform; SSyslog; SFile];
  i_stdout_en := (KStdout, false); i_stdout_col := (KStdoutColor, false);
  i_stderr_en := (KStderr, false); i_stderr_col := (KStderrColor, false);
  i_platform_en := (KPlatform, true);
  i_startup := (KStartup, true); i_daily := (KDaily, false); i_compress := (KCompress, false);
  i_async := (KAsync, false);
  i_max_size := 1048576; i_max_count := 5;
  i_color_on := CAuto; i_color_off := CNever; i_platform_mode := CNever;
  i_def_colorize := false; i_def_maxcat := 0; i_async_moves := true |}.

(* ---- what the keys SAY (specification, independent of the handler list) ---- *)
Definition passes (s : ini) (m : msg) : bool :=
  cat_pass (k_rules s) (m_cat m) (m_type m)
  && match k_regexp s with Some r => rx_match r (m_text m) | None => true end.
(* the formatter the keys select, as a state machine over the passing messages *)
Definition fmt_step (s : ini) (st : pstate) (m : msg) : pstate * qstr :=
  if emptyb (pattern_text (k_pattern s)) then pretty false 0 st m else (st, pattern_format (k_pattern s) m).
Definition getb (o : option bool) (d : bool) : bool := match o with Some b => b | None => d end.
Definition want_stdout (s : ini) := getb (k_stdout s) false || getb (k_stdout_color s) false.
Definition want_stderr (s : ini) := getb (k_stderr s) false || getb (k_stderr_color s) false.
Definition want_platform (s : ini) := getb (k_platform s) true.
Definition want_syslog (s : ini) := negb (emptyb (k_syslog s)).
Definition want_file (s : ini) := negb (emptyb (k_path s)).
Definition configured (s : ini) (o : out_id) : bool :=
  match o with OStdout => want_stdout s | OStderr => want_stderr s | OPlatform => want_platform s
             | OSyslog => want_syslog s | OFile => want_file s end.
Definition all_outputs : list out_id := [OStdout; OStderr; OPlatform; OSyslog; OFile].
(* what one output shows for a passing message whose formatted text is f *)
Definition render (s : ini) (e : env) (o : out_id) (m : msg) (f : qstr) : qstr :=
  match o with
  | OStdout => console_text (getb (k_stdout_color s) false && tty_out e) (m_type m) f
  | OStderr => console_text (getb (k_stderr_color s) false && tty_err e) (m_type m) f
  | OPlatform => f
  | OSyslog => syslog_text m
  | OFile => f
  end.
Fixpoint spec_from (s : ini) (e : env) (st : pstate) (ms : list msg) : list event :=
  match ms with
  | [] => []
  | m :: r =>
      if passes s m then
        let (st', f) := fmt_step s st m in
        map (fun o => (o, render s e o m f)) (filter (configured s) all_outputs) ++ spec_from s e st' r
      else spec_from s e st r
  end.
Definition spec_events (s : ini) (e : env) (ms : list msg) : list event := spec_from s e p0 ms.
(* the formatted texts of the passing messages, in order *)
Fixpoint formatted_from (s : ini) (st : pstate) (ms : list msg) : list (msg * qstr) :=
  match ms with
  | [] => []
  | m :: r => if passes s m then let (st', f) := fmt_step s st m in (m, f) :: formatted_from s st' r
              else formatted_from s st r
  end.
Definition formatted (s : ini) (ms : list msg) := formatted_from s p0 ms.

(* ------------------------------------------------------------------ one-line front-end *)
Record oneline := { o_path : qstr; o_size : Z; o_count : Z;
                    o_startup : bool; o_daily : bool; o_compress : bool; o_async : bool }.
Inductive oslot := OPrettyS | OPlatformS | OStripS | OFileS.
Record ol_src := {
  ol_order : list oslot; ol_colorize : bool; ol_maxcat : nat; ol_platform_mode : cmode;
  ol_strip_class : cclass;
  ol_rot_size : bool; ol_rot_startup : bool; ol_rot_daily : bool;   (* what selects the rotating sink *)
  ol_async_moves : bool }.
Definition ol_rotating (src : ol_src) (a : oneline) : bool :=
  (ol_rot_size src && Z.ltb 0 (o_size a)) || (ol_rot_startup src && o_startup a)
  || (ol_rot_daily src && o_daily a).
Definition ol_fparams (src : ol_src) (a : oneline) : fparams :=
  {| f_path := o_path a; f_rotating := ol_rotating src a; f_size := o_size a;
     f_count := o_count a; f_startup := o_startup a; f_daily := o_daily a;
     f_compress := o_compress a |}.
Definition oslot_handlers (src : ol_src) (a : oneline) (sl : oslot) : list handler :=
  match sl with
  | OPrettyS => [HPretty (ol_colorize src) (ol_maxcat src)]
  | OPlatformS => [HPlatform (ol_platform_mode src)]
  | OStripS => if emptyb (o_path a) then [] else [HStrip (ol_strip_class src)]
  | OFileS => if emptyb (o_path a) then [] else [HFile (ol_fparams src a)]
  end.
Definition build_oneline (src : ol_src) (a : oneline) : list handler :=
  flat_map (oslot_handlers src a) (ol_order src).
Definition oneline_async (src : ol_src) (a : oneline) : bool := o_async a && ol_async_moves src.
Definition doc_oneline : ol_src := {|
  ol_order := [OPrettyS; OPlatformS; OStripS; OFileS]; ol_colorize := true; ol_maxcat := 15;
  ol_platform_mode := CNever; ol_strip_class := sgr_class;
  ol_rot_size := true; ol_rot_startup := true; ol_rot_daily := true; ol_async_moves := true |}.
(* ------------------------------------------------------------------ boolean oracles *)
(* INI: the observed text of the three capturable streams against what the keys say *)
Definition spec_stdout (s : ini) (e : env) (ms : list msg) : qstr :=
  stream_text (project OStdout (spec_events s e ms)).
Definition spec_stderr (s : ini) (e : env) (ms : list msg) : qstr :=
  stream_text (stderr_records (spec_events s e ms)).
Definition spec_file (s : ini) (e : env) (ms : list msg) : qstr :=
  stream_text (project OFile (spec_events s e ms)).
Definition prop_ini_b (s : ini) (e : env) (ms : list msg) (obs_out obs_err obs_file : qstr) : bool :=
  seqb obs_out (spec_stdout s e ms) && seqb obs_err (spec_stderr s e ms) && seqb obs_file (spec_file s e ms).
(* one-line: the log file holds the console text minus its colour codes *)
Definition prop_oneline_b (console file : qstr) : bool := seqb file (strip_sgr console).


(* ------------------------------------------------------------------ which file holds which record *)
(* The `daily` / `startup` options speak about FILES, not streams: lines written on an earlier day
   (or by an earlier run) are moved to <base>.<date>.<index>.<suffix>.  Records are abstracted to the
   day they were written (the texts are the business of the stream oracles above); the log file
   found at start holds npre lines last modified on day d0.  Model of FileSink /
   RotatingFileSink::send for a SYNCHRONOUS stream (the clock at processing = the message's time)
   restricted to what this property needs: rotation by size and the retention limit are NOT
   modelled (C05-C09) - the check applies the layout oracle only to cases where neither can
   trigger (f_size <= 0 or far above the volume; f_count <= 0 or above the number of rotations). *)
Definition rfile := (N * nat * list N)%type.     (* date in the name, index, days of its records *)
Record flay := { fl_date : N;                    (* m_currentLogDate *)
                 fl_active : list N;             (* the file at `path` *)
                 fl_rot : list rfile }.          (* rotated files, in the order they were made *)
Definition nonemptyb {A} (l : list A) : bool := match l with [] => false | _ => true end.
(* findNextIndexForDate: one more than the highest index used with that date *)
Definition next_rot_index (d : N) (rot : list rfile) : nat :=
  S (fold_left (fun mx (r : rfile) => if fst (fst r) =? d then Nat.max mx (snd (fst r)) else mx) rot 0%nat).
(* rotate(): nothing when maxFileCount == 1; the rotated name carries m_currentLogDate *)
Definition fl_rotate (count : Z) (now : N) (s : flay) : flay :=
  if (count =? 1)%Z then s else
    {| fl_date := now; fl_active := [];
       fl_rot := fl_rot s ++ [(fl_date s, next_rot_index (fl_date s) (fl_rot s), fl_active s)] |}.
(* init() at the first send: the date of a non-empty file is its modification date *)
Definition fl_init (f : fparams) (pre : list N) (d0 now : N) : flay :=
  let s := {| fl_date := if nonemptyb pre then d0 else now; fl_active := pre; fl_rot := [] |} in
  if f_startup f && nonemptyb pre then fl_rotate (f_count f) now s else s.
(* send() of a message dated d (checkDailyRotation, then the write) *)
Definition fl_send (f : fparams) (s : flay) (d : N) : flay :=
  let s1 := if f_daily f && negb (d =? fl_date s) && nonemptyb (fl_active s)
            then let s' := fl_rotate (f_count f) d s in
                 {| fl_date := d; fl_active := fl_active s'; fl_rot := fl_rot s' |}
            else s in
  {| fl_date := fl_date s1; fl_active := fl_active s1 ++ [d]; fl_rot := fl_rot s1 |}.
Definition layout (f : fparams) (npre : nat) (d0 : N) (days : list N) : flay :=
  let pre := repeat d0 npre in
  if f_rotating f then
    match days with
    | [] => {| fl_date := d0; fl_active := pre; fl_rot := [] |}
    | d :: _ => fold_left (fl_send f) days (fl_init f pre d0 d)
    end
  else {| fl_date := d0; fl_active := pre ++ days; fl_rot := [] |}.     (* plain FileSink: append *)
(* what can be seen in the directory: per rotated file its date, index and number of records; the
   number of records of the active file *)
Definition lay_obs (s : flay) : list (N * nat * nat) * nat :=
  (map (fun r : rfile => (fst r, List.length (snd r))) (fl_rot s), List.length (fl_active s)).
(* the days of the records that reach the file *)
Definition ini_file_days (s : ini) (ms : list msg) : list N :=
  if want_file s then map m_day (filter (passes s) ms) else [].
Definition ol_file_days (a : oneline) (ms : list msg) : list N :=
  if emptyb (o_path a) then [] else map m_day ms.

(* ---- what the options SAY about the files (specification, independent of the sink chosen) ---- *)
Record fwant := { w_startup : bool; w_daily : bool; w_size : Z; w_count : Z }.
Definition ini_want (s : ini) : fwant :=
  {| w_startup := getb (k_startup s) true; w_daily := getb (k_daily s) false;
     w_size := readz (k_max_size s) 1048576; w_count := readz (k_max_count s) 5 |}.
Definition ol_want (a : oneline) : fwant :=
  {| w_startup := o_startup a; w_daily := o_daily a; w_size := o_size a; w_count := o_count a |}.
Fixpoint chunks (ns : list nat) (l : list N) : list (list N) :=
  match ns with [] => [] | n :: r => firstn n l :: chunks r (skipn n l) end.
Definition nsum (ns : list nat) : nat := fold_right Nat.add 0%nat ns.
Definition single_day (d : N) (c : list N) : bool := nonemptyb c && forallb (N.eqb d) c.
Fixpoint forallb2 {A B} (p : A -> B -> bool) (a : list A) (b : list B) : bool :=
  match a, b with [] , [] => true | x :: a', y :: b' => p x y && forallb2 p a' b' | _, _ => false end.
Definition rotation_off (w : fwant) : bool :=
  (w_count w =? 1)%Z || (negb (w_startup w) && negb (w_daily w) && (w_size w <=? 0)%Z).
(* obs: the rotated files in (date, index) order with their record counts, and the count of the
   active file.  The records, in order, are the npre old lines (day d0) followed by one per entry of
   days (that the TEXT is preserved is checked by the stream oracles on the concatenation).
   - nothing is lost or duplicated by moving files around;
   - documented: maxFileCount == 1 disables rotation; no option => no rotated file;
   - daily: no file mixes days, a rotated file is named after the day of its lines (so lines of an
     earlier day are NOT left in the active file once a message of another day arrives);
   - startup: the lines found at start are alone in the first rotated file. *)
Definition prop_layout_b (w : fwant) (npre : nat) (d0 : N) (days : list N)
           (obs : list (N * nat * nat) * nat) : bool :=
  let rot := fst obs in
  let all := repeat d0 npre ++ days in
  let ns := map snd rot in
  let rest := skipn (nsum ns) all in
  Nat.eqb (nsum ns + snd obs) (List.length all)
  && (if rotation_off w then negb (nonemptyb rot) else true)
  && (if w_daily w && negb (w_count w =? 1)%Z
      then forallb2 (fun (r : N * nat * nat) c => single_day (fst (fst r)) c) rot (chunks ns all)
           && match rest with [] => true | d :: _ => forallb (N.eqb d) rest end
      else true)
  && (if w_startup w && negb (w_count w =? 1)%Z && Nat.ltb 0 npre && nonemptyb days
      then match rot with r :: _ => (fst (fst r) =? d0) && Nat.eqb (snd r) npre | [] => false end
      else true).

(* ------------------------------------------------------------------ install / restore *)
(* Qt's current message handler.  Logger = the static Logger::messageHandler, shared by every
   Logger object of the process *)
Inductive mh := Default | Logger | Foreign (n : nat).
Definition mh_eqb (a b : mh) : bool :=
  match a, b with Default, Default | Logger, Logger => true | Foreign x, Foreign y => Nat.eqb x y
                | _, _ => false end.
Definition is_logger (h : mh) : bool := mh_eqb h Logger.
(* who gets a message emitted through Qt's macros: Qt's default handler, a foreign handler, the
   pipeline of logger object k, or nobody (Logger::messageHandler with no active logger) *)
Inductive recv := RDefault | RForeign (n : nat) | RLogger (k : nat) | RNone.
Definition recv_eqb (a b : recv) : bool :=
  match a, b with RDefault, RDefault | RNone, RNone => true | RForeign x, RForeign y => Nat.eqb x y
                | RLogger x, RLogger y => Nat.eqb x y | _, _ => false end.
Definition memb (k : nat) (l : list nat) : bool := existsb (Nat.eqb k) l.
Definition remove_id (k : nat) (l : list nat) : list nat := filter (fun j => negb (Nat.eqb j k)) l.
(* cur: Qt's current handler; saved: g_previousMessageHandler (None = nullptr); active:
   g_activeLogger; alive: the Logger objects that exist (0 = the singleton Logger::instance(),
   others = stack / scoped / heap loggers made with the public constructor) *)
Record ist := { cur : mh; saved : option mh; active : option nat; alive : list nat }.
Inductive iop := Install (k : nat) | Restore | ForeignInstall (n : nat) | ForeignReset
               | Create (k : nat) | Destroy (k : nat).
(* shape of the functions as read from logger.cpp *)
Record inst_src := {
  n_save_unless_own : bool;      (* `if (prev != messageHandler) g_previous = prev;` (false: always saves) *)
  n_restore_guard : bool;        (* `if (!g_previous) return;` *)
  n_putback_foreign : bool;      (* `if (prev != messageHandler) qInstallMessageHandler(prev);` *)
  n_clear_saved : bool;          (* `g_previous = nullptr;` *)
  n_dtor_clears_active : bool;   (* ~Logger: `g_activeLogger.testAndSetOrdered(this, nullptr)` *)
  n_dtor_clears_saved : bool }.  (* ~Logger of the active logger also resets g_previous (today: no) *)
Definition doc_inst : inst_src :=
  {| n_save_unless_own := true; n_restore_guard := true; n_putback_foreign := true; n_clear_saved := true;
     n_dtor_clears_active := true; n_dtor_clears_saved := false |}.
Definition is_active (s : ist) (k : nat) : bool :=
  match active s with Some j => Nat.eqb j k | None => false end.
(* qInstallMessageHandler(h) returns the old handler (the default one when none was set).
   Calls on a logger that does not exist (and creating one that does) are not calls: no effect *)
Definition istep (src : inst_src) (s : ist) (o : iop) : ist :=
  match o with
  | Install k =>
      if memb k (alive s) then
        let prev := cur s in
        {| cur := Logger;
           saved := if n_save_unless_own src && is_logger prev then saved s else Some prev;
           active := Some k; alive := alive s |}
      else s
  | Restore =>
      match saved s with
      | None => if n_restore_guard src then s
                else (* qInstallMessageHandler(nullptr) = the default handler *)
                  {| cur := if n_putback_foreign src && negb (is_logger (cur s)) then cur s else Default;
                     saved := None; active := active s; alive := alive s |}
      | Some p => let prev := cur s in
                  {| cur := if n_putback_foreign src && negb (is_logger prev) then prev else p;
                     saved := if n_clear_saved src then None else saved s;
                     active := active s; alive := alive s |}
      end
  | ForeignInstall n => {| cur := Foreign n; saved := saved s; active := active s; alive := alive s |}
  | ForeignReset => {| cur := Default; saved := saved s; active := active s; alive := alive s |}
  | Create k => if memb k (alive s) then s
                else {| cur := cur s; saved := saved s; active := active s; alive := k :: alive s |}
  | Destroy k =>
      if memb k (alive s) then
        {| cur := cur s;
           saved := if n_dtor_clears_saved src && is_active s k then None else saved s;
           active := if n_dtor_clears_active src && is_active s k then None else active s;
           alive := remove_id k (alive s) |}
      else s
  end.
Definition i0 : ist := {| cur := Default; saved := None; active := None; alive := [0%nat] |}.
Definition irun (src : inst_src) (ops : list iop) : ist := fold_left (istep src) ops i0.
(* Logger::messageHandler: `auto logger = g_activeLogger; if (!logger) return; logger->processMessage` *)
Definition receiver (s : ist) : recv :=
  match cur s with
  | Default => RDefault
  | Foreign n => RForeign n
  | Logger => match active s with Some k => RLogger k | None => RNone end
  end.
(* the observable: after each call, which handler is current and who receives a message *)
Fixpoint iexec (src : inst_src) (s : ist) (ops : list iop) : list (mh * recv) :=
  match ops with [] => [] | o :: r => let s' := istep src s o in (cur s', receiver s') :: iexec src s' r end.
Definition itrace (src : inst_src) (ops : list iop) : list (mh * recv) := iexec src i0 ops.
(* on a trace of current handlers: the handler that was current just before the logger's handler
   last took over from a non-logger handler *)
Fixpoint last_takeover (prev : mh) (cs : list mh) (acc : option mh) : option mh :=
  match cs with
  | [] => acc
  | c :: r => last_takeover c r (if is_logger c && negb (is_logger prev) then Some prev else acc)
  end.
(* who receives messages while handler h is current (h not the logger's) *)
Definition recv_of (h : mh) : recv :=
  match h with Default => RDefault | Foreign n => RForeign n | Logger => RNone end.
(* Qt delivers to the current handler; the logger's handler can only deliver to a logger that exists *)
Definition recv_ok (c : mh) (r : recv) (al : list nat) : bool :=
  match c with
  | Logger => match r with RLogger k => memb k al | RNone => true | _ => false end
  | _ => recv_eqb r (recv_of c)
  end.
Definition alive_after (al : list nat) (o : iop) : list nat :=
  match o with
  | Create k => if memb k al then al else k :: al
  | Destroy k => remove_id k al
  | _ => al
  end.
(* oracle on an OBSERVED trace: every call has the specified effect.
   - install by an existing logger makes the logger's handler current and that logger the receiver;
   - a foreign call installs what it says;
   - restore: if the logger's handler is current, the handler that was current before the logger's
     handler last took over is current again AND receives the messages - whichever Logger objects
     did the installs and whether or not they still exist; otherwise the current handler stays;
   - creating a logger changes nothing; destroying one never replaces a non-logger handler (what
     it does while the logger's handler is current is not specified by the property) *)
Fixpoint trace_ok_from (prev : mh) (acc : option mh) (al : list nat) (ops : list iop)
         (obs : list (mh * recv)) : bool :=
  match ops, obs with
  | [], [] => true
  | o :: ops', (c, r) :: obs' =>
      let acc' := if is_logger c && negb (is_logger prev) then Some prev else acc in
      let al' := alive_after al o in
      (match o with
       | Install k => if memb k al then is_logger c && recv_eqb r (RLogger k) else mh_eqb c prev
       | ForeignInstall n => mh_eqb c (Foreign n)
       | ForeignReset => mh_eqb c Default
       | Restore => if is_logger prev
                    then match acc with Some p => mh_eqb c p | None => false end
                    else mh_eqb c prev
       | Create _ => mh_eqb c prev
       | Destroy _ => is_logger prev || mh_eqb c prev
       end) && recv_ok c r al' && trace_ok_from c acc' al' ops' obs'
  | _, _ => false
  end.
Definition prop_install_b (ops : list iop) (obs : list (mh * recv)) : bool :=
  trace_ok_from Default None [0%nat] ops obs.

(* ------------------------------------------------------------------ several PrettyFormatter objects in one process *)
(* A process may hold several PrettyFormatter objects (two sub-pipelines each with formatPretty(), a
   second Logger, a re-configuration).  The thread-index table and the category width are members of
   the OBJECT: what one object returns is a function of the messages IT has formatted, whatever the
   other objects saw and whichever threads passed through them first. *)
Definition pcfg := (bool * nat)%type.                            (* colorize, maxCategoryWidth *)
(* the records one object returns for the messages it formats, in order *)
Fixpoint pretty_seq (c : bool) (w : nat) (st : pstate) (ms : list msg) : list qstr :=
  match ms with
  | [] => []
  | m :: r => let (st', s) := pretty c w st m in s :: pretty_seq c w st' r
  end.
Fixpoint upd {A : Type} (k : nat) (x : A) (l : list A) : list A :=
  match l, k with
  | [], _ => []
  | _ :: t, O => x :: t
  | h :: t, S k' => h :: upd k' x t
  end.
(* one delivery: message (snd op) is formatted by object number (fst op) *)
Definition multi_step (cfgs : list pcfg) (sts : list pstate) (op : nat * msg)
  : list pstate * list (nat * qstr) :=
  match nth_error cfgs (fst op), nth_error sts (fst op) with
  | Some (c, w), Some st => let (st', s) := pretty c w st (snd op) in (upd (fst op) st' sts, [(fst op, s)])
  | _, _ => (sts, [])
  end.
Fixpoint multi_run (cfgs : list pcfg) (sts : list pstate) (ops : list (nat * msg)) : list (nat * qstr) :=
  match ops with
  | [] => []
  | op :: r => let (sts', out) := multi_step cfgs sts op in out ++ multi_run cfgs sts' r
  end.
Definition multi (cfgs : list pcfg) (ops : list (nat * msg)) : list (nat * qstr) :=
  multi_run cfgs (map (fun _ => p0) cfgs) ops.
Definition out_of (k : nat) (outs : list (nat * qstr)) : list qstr :=
  map snd (filter (fun o => Nat.eqb (fst o) k) outs).
Definition seen_by (k : nat) (ops : list (nat * msg)) : list msg :=
  map snd (filter (fun o => Nat.eqb (fst o) k) ops).
Fixpoint lseqb (a b : list qstr) : bool :=
  match a, b with [], [] => true | x :: a', y :: b' => seqb x y && lseqb a' b' | _, _ => false end.
(* oracle on the OBSERVED records (object number, text): every record belongs to an existing object
   and the records of each object are what a fresh formatter with that object's parameters returns for
   the messages delivered to that object *)
Definition prop_multi_b (cfgs : list pcfg) (ops : list (nat * msg)) (outs : list (nat * qstr)) : bool :=
  forallb (fun o => Nat.ltb (fst o) (List.length cfgs)) outs
  && forallb (fun k => match nth_error cfgs k with
                       | Some (c, w) => lseqb (out_of k outs) (pretty_seq c w p0 (seen_by k ops))
                       | None => false
                       end) (seq 0 (List.length cfgs)).
(* the thread label inside a record is not visible to the other oracles' vocabulary; for the report:
   the index an object has given to a thread after a sequence of messages *)
Fixpoint pretty_state (c : bool) (w : nat) (st : pstate) (ms : list msg) : pstate :=
  match ms with [] => st | m :: r => pretty_state c w (fst (pretty c w st m)) r end.
