(* C20 — "header-only users get precisely the behaviour of the library build": executable model of the part of
   the C preprocessor that decides WHICH TEXT of the sources a build sees: conditional groups (if / ifdef / ifndef /
   elif / else / endif), define / undef of the macros they test, local includes and the pragma-once rule.
   Definitions only.

   The two distributions compile the same source text under different macro environments: the library build
   defines QTLOGGER_STATIC and QTLOGGER_LIBRARY, the single header defines QTLOGGER_DECL_SPEC and neither of the
   other two.  A conditional group that takes different branches in the two environments gives header-only users
   other code than the library build although the header is a faithful amalgamation.  The model is run (extracted)
   on the real sources against g++ -E, and [confined] is the decision the check evaluates on every tree: the
   divergence of the two builds stays inside the KNOWN groups (logger_global.h: the expansion of QTLOGGER_EXPORT and
   the default of QTLOGGER_DECL_SPEC), see AmalgamCondProofs.confined_sound.

   Macros, group ids: numbers (the translator in checks/c20.py numbers them).  A condition that mentions anything
   the model does not track (macros of Qt / the compiler, value comparisons) is opaque: its truth value comes from
   the table [opq] (filled from what g++ -E did); [ms] lists the tracked macros it mentions, so that it counts as
   "mentioning" them. *)
From Coq Require Import List NArith Bool Arith.
Import ListNotations.

Inductive cond :=
| CDef (m : N)                      (* defined(m) *)
| CNot (c : cond)
| CAnd (a b : cond)
| COr (a b : cond)
| CLit (b : bool)
| COpq (k : N) (ms : list N).

Inductive line :=
| LIf (id : N) (c : cond)           (* if / ifdef / ifndef; id = number of the group *)
| LElif (id : N) (c : cond)
| LElse (id : N)
| LEndif
| LDefine (m : N)
| LUndef (m : N)
| LInclude (f : nat)                (* local include, resolved by the translator to file number f *)
| LOnce.                            (* pragma once *)

Definition memN (x : N) (l : list N) : bool := existsb (N.eqb x) l.
Definition mem_nat (x : nat) (l : list nat) : bool := existsb (Nat.eqb x) l.

Fixpoint eval (opq : N -> bool) (e : list N) (c : cond) : bool :=
  match c with
  | CDef m => memN m e
  | CNot a => negb (eval opq e a)
  | CAnd a b => eval opq e a && eval opq e b
  | COr a b => eval opq e a || eval opq e b
  | CLit b => b
  | COpq k _ => opq k
  end.

Fixpoint macros (c : cond) : list N :=
  match c with
  | CDef m => [m]
  | CNot a => macros a
  | CAnd a b | COr a b => macros a ++ macros b
  | CLit _ => []
  | COpq _ ms => ms
  end.

(* one open conditional: [par] the enclosing text is active, [done] a branch of this chain has been taken,
   [on] the current branch is active, [isk] the chain is one of the known ones *)
Record frame := mkframe { par : bool; done : bool; on : bool; isk : bool }.
(* [taken]: ids of the groups entered (reversed); [bad]: the tree left the shape the theorem needs (see step);
   [too_deep]: include nesting deeper than the fuel *)
Record st := mkst { env : list N; once : list nat; taken : list N; bad : bool; too_deep : bool }.

Definition set_bad (s : st) : st := mkst (env s) (once s) (taken s) true (too_deep s).
Definition set_too_deep (s : st) : st := mkst (env s) (once s) (taken s) (bad s) true.
Definition record (id : N) (s : st) : st := mkst (env s) (once s) (id :: taken s) (bad s) (too_deep s).
Definition add_macro (m : N) (s : st) : st := mkst (m :: env s) (once s) (taken s) (bad s) (too_deep s).
Definition del_macro (m : N) (s : st) : st :=
  mkst (filter (fun x => negb (N.eqb x m)) (env s)) (once s) (taken s) (bad s) (too_deep s).
Definition add_once (f : nat) (s : st) : st := mkst (env s) (f :: once s) (taken s) (bad s) (too_deep s).

Definition active (stk : list frame) : bool := match stk with [] => true | f :: _ => on f end.
Definition in_k (stk : list frame) : bool := match stk with [] => false | f :: _ => isk f end.

Section Model.
  Variable K : list N.          (* ids of the known groups *)
  Variable M : list N.          (* macros the groups outside K mention *)
  Variable opq : N -> bool.
  Variable fs : list (list line).

  (* inside a known chain nothing but define/undef of macros outside M and the chain's own elif/else/endif may
     occur; anything else sets [bad] *)
  Definition chk_k (stk : list frame) (s : st) : st := if in_k stk then set_bad s else s.
  Definition chk_m (stk : list frame) (m : N) (s : st) : st := if in_k stk && memN m M then set_bad s else s.

  Definition step (cur : nat) (l : line) (stk : list frame) (s : st) : list frame * st :=
    match l with
    | LIf id c =>
      let s0 := chk_k stk s in
      let v := active stk && eval opq (env s0) c in
      (mkframe (active stk) v v (memN id K) :: stk, if v then record id s0 else s0)
    | LElif id c =>
      match stk with
      | [] => ([], set_bad s)
      | f :: r =>
        let s0 := if Bool.eqb (isk f) (memN id K) then s else set_bad s in
        let v := par f && negb (done f) && eval opq (env s0) c in
        (mkframe (par f) (done f || v) v (isk f) :: r, if v then record id s0 else s0)
      end
    | LElse id =>
      match stk with
      | [] => ([], set_bad s)
      | f :: r =>
        let s0 := if Bool.eqb (isk f) (memN id K) then s else set_bad s in
        let v := par f && negb (done f) in
        (mkframe (par f) true v (isk f) :: r, if v then record id s0 else s0)
      end
    | LEndif => match stk with [] => ([], set_bad s) | _ :: r => (r, s) end
    | LDefine m => let s0 := chk_m stk m s in (stk, if active stk then add_macro m s0 else s0)
    | LUndef m => let s0 := chk_m stk m s in (stk, if active stk then del_macro m s0 else s0)
    | LOnce => let s0 := chk_k stk s in (stk, if active stk then add_once cur s0 else s0)
    | LInclude _ => (stk, s)        (* handled by run_lines *)
    end.

  Section Lines.
    Variable rec_file : nat -> st -> st.       (* an included file, at smaller fuel *)
    Fixpoint run_lines (cur : nat) (ls : list line) (stk : list frame) (s : st) : st :=
      match ls with
      | [] => match stk with [] => s | _ :: _ => set_bad s end       (* unterminated conditional *)
      | LInclude f :: r =>
        let s0 := chk_k stk s in
        if active stk && negb (mem_nat f (once s0)) then run_lines cur r stk (rec_file f s0)
        else run_lines cur r stk s0
      | l :: r => let (stk', s') := step cur l stk s in run_lines cur r stk' s'
      end.
  End Lines.

  Fixpoint run_file (fuel : nat) (f : nat) (s : st) : st :=
    match fuel with
    | O => set_too_deep s
    | S k => run_lines (run_file k) f (nth f fs []) [] s
    end.
End Model.

Definition init (e : list N) : st := mkst e [] [] false false.
Definition depth_fuel (fs : list (list line)) : nat := S (S (length fs)).

(* the macros mentioned by the conditions of the groups outside K *)
Definition line_macros (K : list N) (l : line) : list N :=
  match l with
  | LIf id c | LElif id c => if memN id K then [] else macros c
  | _ => []
  end.
Definition mentioned_nonk (K : list N) (fs : list (list line)) : list N :=
  flat_map (fun f => flat_map (line_macros K) f) fs.

(* one translation unit: file [root] of [fs] under the environment [e] *)
Definition run_tu (K : list N) (opq : N -> bool) (fs : list (list line)) (root : nat) (e : list N) : st :=
  run_file K (mentioned_nonk K fs) opq fs (depth_fuel fs) root (init e).
Definition branches (K : list N) (opq : N -> bool) (fs : list (list line)) (root : nat) (e : list N) : list N :=
  rev (taken (run_tu K opq fs root e)).

Definition not_k (K : list N) (id : N) : bool := negb (memN id K).
Definition agree_b (M e1 e2 : list N) : bool := forallb (fun m => Bool.eqb (memN m e1) (memN m e2)) M.

(* THE DECISION the check evaluates: the two environments agree on every macro a group outside K mentions, and the
   known chains contain nothing but define/undef of macros no other group mentions *)
Definition confined (K : list N) (opq : N -> bool) (fs : list (list line)) (root : nat) (e1 e2 : list N) : bool :=
  agree_b (mentioned_nonk K fs) e1 e2
  && negb (bad (run_tu K opq fs root e1)) && negb (bad (run_tu K opq fs root e2)).
