(* C05 — File rotation never loses, duplicates, reorders or splits a record.
   Property theorems only; each is closed by [exact] of a lemma of RotateProofs.v, instantiated at
   [src_shape], the decision shapes tools/src2coq.py reads from rotatingfilesink.cpp / filesink.cpp /
   iodevicesink.cpp on every run.  [run src_shape c t0 ops] is the model the check executes against
   the real sink (coq/extract/Ex_rotate.v extracts these very definitions).
   Quantification: every op list [ops] (Write of any payload and any message type / Advance of the wall clock, never
   backwards / Restart / PutForeign), every configuration [c] (any L, any N, all 8 option sets, three
   timestamp granularities, any base name and suffix, any time zone offset within +-24 h), any start time.  Hypothesis [clean c ops]:
   nobody else creates files that follow the sink's own rotated-name scheme (PutForeign names are
   rejected by the sink's recogniser).  The model's wall clock saturates at 9999-12-31. *)
From Coq Require Import List ZArith Sorted.
Import ListNotations.
Require Import QtlVerif.RotateDefs QtlVerif.RotateProofs QtlVerif.SrcRotate.
Local Open Scope Z_scope.

(* the translated source has exactly the decision shapes the lemmas are proved for (by computation) *)
Theorem C05_source_shape : shape_eqb src_shape std_shape = true.
Proof. vm_compute. reflexivity. Qed.
Print Assumptions C05_source_shape.

(* files removed by retention, then the rotated files in rotation order, then the active file hold exactly the records written, in order (records carry bytes, sequence number and day) *)
Theorem C05_history_conserved : forall c t0 ops, clean c ops -> let w := run src_shape c t0 ops in hist w = contents (gone w) ++ contents (rot w) ++ act w.
Proof. exact (fun c t0 ops H => T_history_conserved src_shape C05_source_shape c t0 ops H). Qed.
Print Assumptions C05_history_conserved.

(* the same, byte for byte (compressed files count with their decompressed content; C08 supplies that) *)
Theorem C05_bytes_conserved : forall c t0 ops, clean c ops -> let w := run src_shape c t0 ops in bytes_of (hist w) = bytes_of (contents (gone w)) ++ bytes_of (contents (rot w)) ++ bytes_of (act w).
Proof. exact (fun c t0 ops H => T_bytes_conserved src_shape C05_source_shape c t0 ops H). Qed.
Print Assumptions C05_bytes_conserved.

(* what can be read back is the history minus the records of whole files removed by retention: a suffix *)
Theorem C05_only_whole_removed_files_missing : forall c t0 ops, clean c ops -> let w := run src_shape c t0 ops in contents (rot w) ++ act w = skipn (length (contents (gone w))) (hist w).
Proof. exact (fun c t0 ops H => T_survivors_contiguous src_shape C05_source_shape c t0 ops H). Qed.
Print Assumptions C05_only_whole_removed_files_missing.

(* with N <= 0 it is the whole history *)
Theorem C05_nothing_missing_without_retention : forall c t0 ops, clean c ops -> let w := run src_shape c t0 ops in cN c <= 0 -> gone w = [] /\ hist w = contents (rot w) ++ act w.
Proof. exact (fun c t0 ops H => T_no_delete src_shape C05_source_shape c t0 ops H). Qed.
Print Assumptions C05_nothing_missing_without_retention.

(* each record is its payload followed by one newline that belongs to it; sequence numbers are 0,1,2,... *)
Theorem C05_records_whole_and_terminated : forall c t0 ops, clean c ops -> let w := run src_shape c t0 ops in Forall (fun r => exists p, rbytes r = p ++ [10%N]) (hist w) /\ ids_from 0 (hist w) = true.
Proof. exact (fun c t0 ops H => T_records_whole src_shape C05_source_shape c t0 ops H). Qed.
Print Assumptions C05_records_whole_and_terminated.

(* a message with a raw text and, optionally, a formatted text (set by a formatter; the EMPTY string counts as set): the record
   that enters the history is the SHOWN text followed by one newline - also when the shown text itself ends in a newline, is a
   lone newline or is empty - and the extended history is again one all the theorems here speak about *)
Theorem C05_record_is_the_shown_text : forall c t0 ops ty raw fmt, clean c ops -> let w := run src_shape c t0 ops in
  hist (run src_shape c t0 (ops ++ [WriteMsg ty raw fmt])) =
    hist w ++ [{| rbytes := shown_text raw fmt ++ [10%N]; rid := length (hist w); rday := day_of c (now w) |}]
  /\ clean c (ops ++ [WriteMsg ty raw fmt]).
Proof. exact (fun c t0 ops ty raw fmt H => conj (T_shown_text_written src_shape c t0 ops ty raw fmt C05_source_shape H) (clean_write_msg c ops ty raw fmt H)). Qed.
Print Assumptions C05_record_is_the_shown_text.

(* rotation order can be read off the names: sorting the present files by (date, index, name) leaves them as rotated *)
Theorem C05_rotation_order_is_name_order : forall c t0 ops, clean c ops -> let w := run src_shape c t0 ops in isort std_shape c (rot w) = rot w.
Proof. exact (fun c t0 ops H => T_rotation_order_is_name_order src_shape C05_source_shape c t0 ops H). Qed.
Print Assumptions C05_rotation_order_is_name_order.

(* the boolean oracle the check evaluates on the implementation's directory holds on every model world *)
Theorem C05_oracle_holds : forall c t0 ops, clean c ops -> let w := run src_shape c t0 ops in prop_c05_b std_shape c (snap_of w) = true.
Proof. exact (fun c t0 ops H => proj1 (T_oracles src_shape C05_source_shape c t0 ops H)). Qed.
Print Assumptions C05_oracle_holds.

(* non-vacuity: a history with size, daily and startup rotations, compression, a restart, a foreign
   file and a removal by retention *)
Example C05_nonvacuous :
  let w := run src_shape {| cL := 4; cN := 3; startup := true; daily := true; compress := true; cgran := G1s; cbase := [97%N]; csuffix := [108%N]; ctz := 0 |} 1700000000000
   [Write TInfo [97%N]; Write TInfo [98%N; 98%N]; Advance 86400000; Write TInfo [99%N]; Restart; Write TInfo [100%N; 100%N; 100%N];
   PutForeign [120%N] [1%N]; Write TCritical [101%N]; Write TInfo [102%N]] in
  (length (hist w), length (gone w), length (rot w), length (act w), prop_c05_b std_shape {| cL := 4; cN := 3; startup := true; daily := true; compress := true; cgran := G1s; cbase := [97%N]; csuffix := [108%N]; ctz := 0 |} (snap_of w)) = (6%nat, 2%nat, 2%nat, 2%nat, true).
Proof. vm_compute. reflexivity. Qed.

(* non-vacuity of the shown-text theorem: payloads that end in a newline, a lone newline, an empty formatted text over a
   non-empty raw text - every record is the shown text plus ONE more newline, byte for byte (L = 3 rotates between them) *)
Example C05_newline_payloads :
  let c := {| cL := 3; cN := 0; startup := false; daily := false; compress := false; cgran := G1ms; cbase := [97%N]; csuffix := []; ctz := 0 |} in
  let w := run src_shape c 0 [WriteMsg TInfo [120%N; 10%N] None; WriteMsg TInfo [10%N] None; WriteMsg TFatal [114%N; 97%N; 119%N] (Some []);
                              WriteMsg TInfo [114%N] (Some [102%N; 10%N])] in
  (map rbytes (hist w), map (fun f => bytes_of (fcont f)) (rot w), bytes_of (act w)) =
  ([[120%N; 10%N; 10%N]; [10%N; 10%N]; [10%N]; [102%N; 10%N; 10%N]], [[120%N; 10%N; 10%N]; [10%N; 10%N; 10%N]], [102%N; 10%N; 10%N]).
Proof. vm_compute. reflexivity. Qed.
