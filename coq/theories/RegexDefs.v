(* C16 — executable model of the regular-expression subset used by the RegExpFilter check:
   literals, classes (ranges, negation), '.', concatenation, alternation, * + ?, anchors ^ $,
   over Unicode code points (QRegularExpression always compiles with PCRE2_UTF: one character of
   the subject is one code point, a surrogate pair counts once).  Matching is by Brzozowski
   derivatives that carry the two facts the anchors need (are we at the start of the subject; does
   '$' hold here).  Definitions only — the proofs are in RegexProofs.v. *)
From Coq Require Import List NArith Bool.
Import ListNotations.
Local Open Scope N_scope.

(* one-character items *)
Inductive cset :=
| CLit (c : N)                                (* the character itself *)
| CDot                                        (* '.' : anything but LF (PCRE2 newline = LF, no DOTALL) *)
| CCls (neg : bool) (ranges : list (N * N)).  (* [a-bc-d] / [^a-bc-d] *)
Definition in_ranges (c : N) (rs : list (N * N)) : bool :=
  existsb (fun r => (fst r <=? c) && (c <=? snd r)) rs.
Definition cset_mem (s : cset) (c : N) : bool :=
  match s with
  | CLit a => N.eqb a c
  | CDot => negb (N.eqb c 10)
  | CCls neg rs => xorb neg (in_ranges c rs)
  end.

Inductive re :=
| Emp                      (* matches nothing; only arises as a derivative *)
| Eps                      (* (?:) *)
| Chr (s : cset)
| Bol                      (* ^  : start of the subject (no MULTILINE) *)
| Eol                      (* $  : end of the subject, or before a final LF (no DOLLAR_ENDONLY) *)
| Cat (a b : re)
| Alt (a b : re)
| Star (a : re)
| Plus (a : re)
| Opt (a : re).

(* '$' holds in front of the remaining subject [s] *)
Definition dollar (s : list N) : bool :=
  match s with [] => true | [c] => N.eqb c 10 | _ => false end.
Definition isnil {A} (l : list A) : bool := match l with [] => true | _ => false end.

(* can [r] match the empty word here?  bs: at the start of the subject; ee: '$' holds here *)
Fixpoint nul (bs ee : bool) (r : re) : bool :=
  match r with
  | Emp => false | Eps => true | Chr _ => false
  | Bol => bs | Eol => ee
  | Cat a b => nul bs ee a && nul bs ee b
  | Alt a b => nul bs ee a || nul bs ee b
  | Star _ => true
  | Plus a => nul bs ee a
  | Opt _ => true
  end.

(* syntactic equality, used only to keep derivatives small *)
Fixpoint ranges_eqb (a b : list (N * N)) : bool :=
  match a, b with
  | [], [] => true
  | (x, y) :: a', (u, v) :: b' => N.eqb x u && N.eqb y v && ranges_eqb a' b'
  | _, _ => false
  end.
Definition cset_eqb (a b : cset) : bool :=
  match a, b with
  | CLit x, CLit y => N.eqb x y
  | CDot, CDot => true
  | CCls n1 r1, CCls n2 r2 => Bool.eqb n1 n2 && ranges_eqb r1 r2
  | _, _ => false
  end.
Fixpoint re_eqb (a b : re) : bool :=
  match a, b with
  | Emp, Emp | Eps, Eps | Bol, Bol | Eol, Eol => true
  | Chr s, Chr t => cset_eqb s t
  | Cat a1 a2, Cat b1 b2 | Alt a1 a2, Alt b1 b2 => re_eqb a1 b1 && re_eqb a2 b2
  | Star a1, Star b1 | Plus a1, Plus b1 | Opt a1, Opt b1 => re_eqb a1 b1
  | _, _ => false
  end.
Definition mkCat (a b : re) : re :=
  match a, b with
  | Emp, _ => Emp
  | _, Emp => Emp
  | Eps, _ => b
  | _, _ => Cat a b
  end.
Definition alt_dedupe (a b : re) : re :=
  if re_eqb a b then a
  else match b with
       | Alt b1 b2 => if re_eqb a b1 then b else Alt a b
       | _ => Alt a b
       end.
Definition mkAlt (a b : re) : re :=
  match a, b with
  | Emp, _ => b
  | _, Emp => a
  | _, _ => alt_dedupe a b
  end.

(* derivative by the character [c] read at a position where (bs, ee) hold *)
Fixpoint der (bs ee : bool) (c : N) (r : re) : re :=
  match r with
  | Emp | Eps | Bol | Eol => Emp
  | Chr s => if cset_mem s c then Eps else Emp
  | Cat a b => let d := mkCat (der bs ee c a) b in
               if nul bs ee a then mkAlt d (der bs ee c b) else d
  | Alt a b => mkAlt (der bs ee c a) (der bs ee c b)
  | Star a => mkCat (der bs ee c a) (Star a)
  | Plus a => mkCat (der bs ee c a) (Star a)
  | Opt a => der bs ee c a
  end.

(* search: does [r0] match some factor of the subject?  [cur] is the union of the threads started
   at earlier positions; a new thread of [r0] is started at every position *)
Fixpoint scan (r0 cur : re) (bs : bool) (s : list N) : bool :=
  let cur' := mkAlt cur r0 in
  let ee := dollar s in
  nul bs ee cur' ||
  match s with
  | [] => false
  | c :: s' => scan r0 (der bs ee c cur') false s'
  end.
Definition search (r : re) (s : list N) : bool := scan r Emp true s.
(* whole-subject match (used only to show that search is not anchored matching) *)
Fixpoint whole (r : re) (bs : bool) (s : list N) : bool :=
  match s with
  | [] => nul bs true r
  | c :: s' => whole (der bs (dollar s) c r) false s'
  end.

(* UTF-16 code units -> code points; None when ill-formed (unpaired surrogate) *)
Definition is_hi (u : N) : bool := (55296 <=? u) && (u <=? 56319).
Definition is_lo (u : N) : bool := (56320 <=? u) && (u <=? 57343).
Fixpoint decode16 (s : list N) : option (list N) :=
  match s with
  | [] => Some []
  | u :: t =>
      if is_hi u then
        match t with
        | l :: t' => if is_lo l
                     then option_map (cons (65536 + (u - 55296) * 1024 + (l - 56320))) (decode16 t')
                     else None
        | [] => None
        end
      else if is_lo u then None
      else option_map (cons u) (decode16 t)
  end.
(* what QRegularExpression::match(text).hasMatch() returns for a pattern of the subset: an
   ill-formed subject makes pcre2_match fail with a UTF error, which Qt reports as "no match" *)
Definition regex_search16 (r : re) (text : list N) : bool :=
  match decode16 text with Some cps => search r cps | None => false end.

(* ---- PCRE syntax of an expression (what the harness hands to QRegularExpression) ---- *)
Definition hexdigit (d : N) : N := if d <? 10 then 48 + d else 87 + d.
Fixpoint hex_go (fuel : nat) (n : N) (acc : list N) : list N :=
  match fuel with
  | O => acc
  | S f => let acc' := hexdigit (N.modulo n 16) :: acc in
           if N.div n 16 =? 0 then acc' else hex_go f (N.div n 16) acc'
  end.
Definition esc (c : N) : list N := [92; 120; 123] ++ hex_go 8 c [] ++ [125].     (* \x{H} *)
Definition alnum (c : N) : bool :=
  ((48 <=? c) && (c <=? 57)) || ((65 <=? c) && (c <=? 90)) || ((97 <=? c) && (c <=? 122)).
Definition pp_chr (c : N) : list N := if alnum c then [c] else esc c.
Definition pp_range (r : N * N) : list N :=
  if N.eqb (fst r) (snd r) then esc (fst r) else esc (fst r) ++ [45] ++ esc (snd r).
Definition grp (s : list N) : list N := [40; 63; 58] ++ s ++ [41].                (* (?:s) *)
Fixpoint pp (r : re) : list N :=
  let atom x := match x with Chr _ => pp x | _ => grp (pp x) end in
  let fac x := match x with Alt _ _ => grp (pp x) | _ => pp x end in
  match r with
  | Emp => [40; 63; 33; 41]                                                       (* (?!) *)
  | Eps => grp []
  | Chr (CLit c) => pp_chr c
  | Chr CDot => [46]
  | Chr (CCls neg rs) => [91] ++ (if neg then [94] else []) ++ concat (map pp_range rs) ++ [93]
  | Bol => [94]
  | Eol => [36]
  | Cat a b => fac a ++ fac b
  | Alt a b => pp a ++ [124] ++ pp b
  | Star a => atom a ++ [42]
  | Plus a => atom a ++ [43]
  | Opt a => atom a ++ [63]
  end.
(* expressions the printer renders as valid PCRE with the modelled meaning: no empty class, no
   [Emp], class bounds ordered and outside the surrogate block *)
Definition range_ok (r : N * N) : bool :=
  (fst r <=? snd r) && (snd r <? 1114112) && negb ((fst r <=? 57343) && (55296 <=? snd r)).
Fixpoint printable (r : re) : bool :=
  match r with
  | Emp => false
  | Eps | Bol | Eol | Chr CDot => true
  | Chr (CLit c) => range_ok (c, c)
  | Chr (CCls _ rs) => negb (isnil rs) && forallb range_ok rs
  | Cat a b | Alt a b => printable a && printable b
  | Star a | Plus a | Opt a => printable a
  end.
