(* C13 — JSON output is always valid, complete and lossless; compact = one line.
   Property theorems only; each is closed by [exact] of a lemma of JsonProofs.v, instantiated at
   [src_json_cfg], the configuration tools/s2c/json.py reads from /repo/src/qtlogger/logmessage.h
   (allAttributes(), qtMsgTypeToString) and formatters/jsonformatter.cpp on every run.  The model
   ([json_format], [write_doc], [sort_keys], [parse_doc], [prop_c13_b]) is the one that is extracted
   and run byte for byte against the real JsonFormatter.
   Strings are lists of 16-bit units: the theorems cover every QString, well-formed Unicode or not. *)
From Coq Require Import List NArith ZArith.
Import ListNotations.
Require Import QtlVerif.JsonDefs QtlVerif.JsonProofs QtlVerif.SrcJson.
Local Open Scope N_scope.

(* the translated source passes the decidable well-formedness check (by computation): the eight
   built-in names carry the accessors the property names, names are distinct, custom attributes are
   overlaid, flag true selects Compact, the type names are the documented ones *)
Theorem C13_source_configuration_good : json_cfg_goodb src_json_cfg = true.
Proof. vm_compute. reflexivity. Qed.
Print Assumptions C13_source_configuration_good.

(* parse (write v) = v for the writer model, both modes, every value over 16-bit strings; what is
   left of the text is nothing (compact) or the final line feed (indented) *)
Theorem C13_parse_write_compact : forall v, wf v -> forall fuel, (fuel > size v)%nat ->
  parse fuel (write_doc true v) = Some (v, []).
Proof. exact (parse_write_doc true). Qed.
Print Assumptions C13_parse_write_compact.

Theorem C13_parse_write_indented : forall v, wf v -> forall fuel, (fuel > size v)%nat ->
  parse fuel (write_doc false v) = Some (v, [10]).
Proof. exact (parse_write_doc false). Qed.
Print Assumptions C13_parse_write_indented.

(* hence the writer is injective: the oracle's equality test on renderings is equality of values *)
Theorem C13_writer_injective : forall a b, wf a -> wf b -> json_eqb a b = true -> a = b.
Proof. exact json_eqb_true. Qed.
Print Assumptions C13_writer_injective.

(* valid and lossless: for every message and either mode the formatter's text is one JSON value —
   the sorted object of all attributes — followed by nothing but the final line break *)
Theorem C13_valid_and_lossless : forall flag m, wf_msg m ->
  parse_doc (json_format src_json_cfg flag m) = Some (sort_keys (all_attributes src_json_cfg m))
  /\ forall fuel, (fuel > size (sort_keys (all_attributes src_json_cfg m)))%nat ->
       parse fuel (json_format src_json_cfg flag m) = Some (sort_keys (all_attributes src_json_cfg m), nl flag).
Proof.
  exact (fun flag m Hm => conj (format_roundtrip src_json_cfg C13_source_configuration_good flag m Hm)
                               (format_parse_rest src_json_cfg C13_source_configuration_good flag m Hm)).
Qed.
Print Assumptions C13_valid_and_lossless.

Theorem C13_exactly_one_object : forall flag m, wf_msg m ->
  exists kv, parse_doc (json_format src_json_cfg flag m) = Some (JObj kv).
Proof. exact (exactly_one_object src_json_cfg C13_source_configuration_good). Qed.
Print Assumptions C13_exactly_one_object.

(* complete: from the parsed text, every built-in field (type name, line, file, function, category,
   message text, time, thread id) not shadowed by a custom attribute, and every custom attribute at
   its last setting (string / integer / bool / null / list / map value, nested maps in QVariantMap's
   key order), is found under its name with exactly its value *)
Theorem C13_fields_recovered : forall flag m, wf_msg m ->
  exists kv, parse_doc (json_format src_json_cfg flag m) = Some (JObj kv)
    /\ (forall k f, In (k, f) spec_fields -> has_key k (mattrs m) = false -> look k kv = Some (field_value spec_type_name f m))
    /\ (forall pre k v post, mattrs m = pre ++ (k, v) :: post -> has_key k post = false -> look k kv = Some (sort_keys v)).
Proof. exact (fields_recovered src_json_cfg C13_source_configuration_good). Qed.
Print Assumptions C13_fields_recovered.

(* numeric attribute values: whatever numeric QVariant type carries the integer z (int, uint, qlonglong,
   qulonglong, double, float) inside the range of that type (|z| <= 2^53), the record holds the number z,
   and the decimal text of a number identifies it (2147483648 held by a uint does not come back as
   -2147483648) *)
Theorem C13_numeric_types_recovered : forall flag m pre k t z post, wf_msg m ->
  mattrs m = pre ++ (k, num_value t z) :: post -> has_key k post = false -> num_in_range t z = true ->
  exists kv, parse_doc (json_format src_json_cfg flag m) = Some (JObj kv) /\ look k kv = Some (JNum z).
Proof. exact (numeric_attribute_recovered src_json_cfg C13_source_configuration_good). Qed.
Print Assumptions C13_numeric_types_recovered.

Theorem C13_number_text_identifies_value : forall a b, num_chars a = num_chars b -> a = b.
Proof. exact num_chars_inj. Qed.
Print Assumptions C13_number_text_identifies_value.

(* and nothing else: the record has no member that is neither a built-in field nor an attribute of this message *)
Theorem C13_nothing_else : forall flag m, wf_msg m ->
  exists kv, parse_doc (json_format src_json_cfg flag m) = Some (JObj kv)
    /\ forall k, In k (map fst kv) -> is_spec_name k = true \/ has_key k (mattrs m) = true.
Proof. exact (record_has_nothing_else src_json_cfg C13_source_configuration_good). Qed.
Print Assumptions C13_nothing_else.

(* a value whose maps are already in QVariantMap form is recovered identically *)
Theorem C13_canonical_value_unchanged : forall v, canonical v -> sort_keys v = v.
Proof. exact sort_keys_canonical. Qed.
Print Assumptions C13_canonical_value_unchanged.

Theorem C13_null_pointers_render_empty : forall flag m, wf_msg m ->
  exists kv, parse_doc (json_format src_json_cfg flag m) = Some (JObj kv)
    /\ (mfile m = None -> has_key k_file (mattrs m) = false -> look k_file kv = Some (JStr []))
    /\ (mfunc m = None -> has_key k_function (mattrs m) = false -> look k_function kv = Some (JStr []))
    /\ (mcat m = None -> has_key k_category (mattrs m) = false -> look k_category kv = Some (JStr [])).
Proof. exact (null_pointers_render_empty src_json_cfg C13_source_configuration_good). Qed.
Print Assumptions C13_null_pointers_render_empty.

(* the type is recovered, not just its name: the documented names are pairwise distinct *)
Theorem C13_type_name_identifies_type : forall a b, a < 5 -> b < 5 -> spec_type_name a = spec_type_name b -> a = b.
Proof. exact spec_type_name_injective. Qed.
Print Assumptions C13_type_name_identifies_type.

(* compact = one line: no character below U+0020 in the record, in particular neither LF nor CR *)
Theorem C13_compact_no_control_character : forall m, Forall (fun c => 32 <= c) (json_format src_json_cfg true m).
Proof. exact (compact_record_one_line src_json_cfg C13_source_configuration_good). Qed.
Print Assumptions C13_compact_no_control_character.

Theorem C13_compact_no_newline : forall v, ~ In 10 (write_doc true v) /\ ~ In 13 (write_doc true v).
Proof. exact compact_one_line. Qed.
Print Assumptions C13_compact_no_newline.

(* the boolean oracle the check evaluates on the implementation's output holds of the model's output *)
Theorem C13_oracle_holds : forall flag m, wf_msg m -> prop_c13_b flag m (json_format src_json_cfg flag m) = true.
Proof. exact (oracle_holds src_json_cfg C13_source_configuration_good). Qed.
Print Assumptions C13_oracle_holds.

(* non-vacuity: a message with a quote, a backslash, a line feed, U+2028 and an astral character, a
   null file pointer, and attributes (a repeated name, a nested map, a list, a negative number) *)
Definition ex_msg : lmsg := {|
  mtype := 2; mtext := [97; 34; 92; 10; 8232; 55357; 56832]; mfmt := Some [120]; mfile := None; mfunc := Some [102];
  mcat := Some [110; 101; 116]; mline := 42%Z; mtime := [50; 48]; mtid := 7%Z;
  mattrs := [([117], JNum 1%Z); ([122], JObj [([98], JBool true); ([97], JNull)]); ([117], JNum (-5)%Z);
             ([108], JArr [JStr [9]; JNum 0%Z])] |}.
Example C13_nonvacuous :
  json_format src_json_cfg true ex_msg
  = [123; 34;99;97;116;101;103;111;114;121;34; 58; 34;110;101;116;34; 44;
     34;102;105;108;101;34; 58; 34;34; 44;
     34;102;117;110;99;116;105;111;110;34; 58; 34;102;34; 44;
     34;108;34; 58; 91; 34;92;116;34; 44; 48; 93; 44;
     34;108;105;110;101;34; 58; 52;50; 44;
     34;109;101;115;115;97;103;101;34; 58; 34;97;92;34;92;92;92;110;8232;55357;56832;34; 44;
     34;116;104;114;101;97;100;73;100;34; 58; 55; 44;
     34;116;105;109;101;34; 58; 34;50;48;34; 44;
     34;116;121;112;101;34; 58; 34;99;114;105;116;105;99;97;108;34; 44;
     34;117;34; 58; 45;53; 44;
     34;122;34; 58; 123; 34;97;34; 58; 110;117;108;108; 44; 34;98;34; 58; 116;114;117;101; 125; 125]
  /\ prop_c13_b true ex_msg (json_format src_json_cfg true ex_msg) = true
  /\ parse_doc (json_format src_json_cfg false ex_msg) = Some (sort_keys (all_attributes src_json_cfg ex_msg)).
Proof. vm_compute. repeat split. Qed.
(* non-vacuity of the numeric types: the boundary values are inside the ranges, the stored number is the
   value, and one step outside the 32-bit ranges the C++ conversion (and the model) wraps *)
Example C13_numeric_nonvacuous :
  map (fun tz => (num_in_range (fst tz) (snd tz), num_value (fst tz) (snd tz)))
      [(TInt, 2147483647%Z); (TUInt, 2147483648%Z); (TUInt, 4294967295%Z); (TULongLong, 9007199254740992%Z);
       (TLongLong, (-9007199254740992)%Z); (TDouble, 9007199254740992%Z); (TFloat, (-16777216)%Z)]
  = [(true, JNum 2147483647%Z); (true, JNum 2147483648%Z); (true, JNum 4294967295%Z); (true, JNum 9007199254740992%Z);
     (true, JNum (-9007199254740992)%Z); (true, JNum 9007199254740992%Z); (true, JNum (-16777216)%Z)]
  /\ (num_in_range TInt 2147483648%Z, num_value TInt 2147483648%Z) = (false, JNum (-2147483648)%Z)
  /\ (num_in_range TUInt (-1)%Z, num_value TUInt (-1)%Z) = (false, JNum 4294967295%Z)
  /\ num_chars 2147483648%Z <> num_chars (-2147483648)%Z.
Proof. vm_compute. repeat split. discriminate. Qed.

(* ---- front ends (round 8): the formatter OBJECT an application gets from SimplePipeline::formatToJson(flag) or
   JsonFormatter::instance() is in the mode it asked for, whatever formatter objects the process obtained before
   (src_json_front is translated from simplepipeline.cpp / jsonformatter.h on every run) *)
Theorem C13_source_front_ends_good : front_goodb src_json_front = true.
Proof. vm_compute. reflexivity. Qed.
Print Assumptions C13_source_front_ends_good.

Theorem C13_front_end_gives_the_requested_mode : forall cs c m,
  front_format src_json_cfg src_json_front cs c m = json_format src_json_cfg (requested c) m.
Proof. exact (front_format_is_requested_format src_json_cfg src_json_front C13_source_front_ends_good). Qed.
Print Assumptions C13_front_end_gives_the_requested_mode.

Theorem C13_fluent_compact_is_one_line_after_any_history : forall cs m,
  Forall (fun c => 32 <= c) (front_format src_json_cfg src_json_front cs (CFluent true) m).
Proof.
  intros cs m. rewrite C13_front_end_gives_the_requested_mode.
  exact (compact_record_one_line src_json_cfg C13_source_configuration_good m).
Qed.
Print Assumptions C13_fluent_compact_is_one_line_after_any_history.

Theorem C13_front_end_oracle_holds : forall cs c m, wf_msg m ->
  prop_c13_b (requested c) m (front_format src_json_cfg src_json_front cs c m) = true.
Proof.
  intros cs c m W. rewrite C13_front_end_gives_the_requested_mode.
  exact (oracle_holds src_json_cfg C13_source_configuration_good (requested c) m W).
Qed.
Print Assumptions C13_front_end_oracle_holds.

(* a front end that hands out ONE shared object created by the first request does not have the property *)
Theorem C13_shared_formatter_object_refuted :
  exists cs, snd (obtain shared_front (obtain_all shared_front None cs) (CFluent true)) = false.
Proof. exact shared_front_refuted. Qed.
Print Assumptions C13_shared_formatter_object_refuted.

Example C13_front_nonvacuous :
  front_format src_json_cfg src_json_front [CFluent false; CInstance; CFluent true; CFluent false] (CFluent true) ex_msg
  = json_format src_json_cfg true ex_msg
  /\ front_format src_json_cfg src_json_front [CFluent true] CInstance ex_msg = json_format src_json_cfg false ex_msg
  /\ json_format src_json_cfg true ex_msg <> json_format src_json_cfg false ex_msg.
Proof. vm_compute. repeat split. discriminate. Qed.
