(* C19 — lemmas about the models of ConfigDefs.v *)
From Coq Require Import List NArith ZArith Bool Arith Lia String Ascii.
Import ListNotations.
Require Import QtlVerif.ConfigDefs.
Local Open Scope N_scope.

(* ================================================================== install / restore *)
Lemma mh_eqb_refl h : mh_eqb h h = true.
Proof. destruct h; cbn; try reflexivity. apply Nat.eqb_refl. Qed.
Lemma mh_eqb_eq a b : mh_eqb a b = true -> a = b.
Proof. destruct a, b; cbn; try discriminate; try reflexivity. intros H. apply Nat.eqb_eq in H. congruence. Qed.
Lemma recv_eqb_refl r : recv_eqb r r = true.
Proof. destruct r; cbn; try reflexivity; apply Nat.eqb_refl. Qed.
Lemma is_logger_true h : is_logger h = true <-> h = Logger.
Proof. destruct h; cbn; split; congruence. Qed.
Lemma is_logger_false h : is_logger h = false <-> h <> Logger.
Proof. destruct h; cbn; split; congruence. Qed.
Lemma memb_remove j k l : memb j (remove_id k l) = memb j l && negb (Nat.eqb j k).
Proof.
  unfold memb, remove_id. induction l as [|x t IH]; cbn [filter existsb]; [reflexivity|].
  destruct (Nat.eqb x k) eqn:Exk; cbn [negb].
  - rewrite IH. destruct (Nat.eqb j x) eqn:Ejx; cbn [orb]; [|reflexivity].
    apply Nat.eqb_eq in Ejx, Exk. subst. rewrite Nat.eqb_refl. cbn. rewrite andb_false_r. reflexivity.
  - cbn [existsb]. rewrite IH. destruct (Nat.eqb j x) eqn:Ejx; cbn [orb]; [|reflexivity].
    apply Nat.eqb_eq in Ejx. subst. rewrite Exk. reflexivity.
Qed.
Lemma remove_notin k l : memb k l = false -> remove_id k l = l.
Proof.
  unfold memb, remove_id. induction l as [|x t IH]; cbn [filter existsb]; [reflexivity|].
  intros H. apply orb_false_iff in H as [H1 H2]. rewrite Nat.eqb_sym in H1. rewrite H1. cbn [negb].
  f_equal. apply IH, H2.
Qed.
Local Arguments memb : simpl never.
Local Arguments remove_id : simpl never.

Definition dstep := istep doc_inst.
Lemma dstep_eq s o : dstep s o =
  match o with
  | Install k => if memb k (alive s)
                 then {| cur := Logger; saved := if is_logger (cur s) then saved s else Some (cur s);
                         active := Some k; alive := alive s |}
                 else s
  | Restore => match saved s with
               | None => s
               | Some p => {| cur := if is_logger (cur s) then p else cur s; saved := None;
                              active := active s; alive := alive s |}
               end
  | ForeignInstall n => {| cur := Foreign n; saved := saved s; active := active s; alive := alive s |}
  | ForeignReset => {| cur := Default; saved := saved s; active := active s; alive := alive s |}
  | Create k => if memb k (alive s) then s
                else {| cur := cur s; saved := saved s; active := active s; alive := k :: alive s |}
  | Destroy k => if memb k (alive s)
                 then {| cur := cur s; saved := saved s;
                         active := if is_active s k then None else active s;
                         alive := remove_id k (alive s) |}
                 else s
  end.
Proof.
  unfold dstep. destruct o as [k| |n| |k|k]; cbn; try reflexivity.
  destruct (saved s); destruct (is_logger (cur s)); reflexivity.
Qed.

(* the logger never holds its own handler as the one to reinstate; whenever its handler is current
   it has something to reinstate; g_activeLogger never points to a logger that no longer exists *)
Definition IInv (s : ist) : Prop :=
  saved s <> Some Logger /\ (cur s = Logger -> saved s <> None)
  /\ (forall k, active s = Some k -> memb k (alive s) = true).
Lemma dstep_inv s o : IInv s -> IInv (dstep s o).
Proof.
  intros [H1 [H2 H3]]. rewrite dstep_eq. destruct o as [k| |n| |k|k].
  - destruct (memb k (alive s)) eqn:Ek; [|repeat split; assumption]. repeat split; cbn.
    + destruct (is_logger (cur s)) eqn:E; [exact H1|]. apply is_logger_false in E. congruence.
    + intros _. destruct (is_logger (cur s)) eqn:E; [apply H2, is_logger_true, E|discriminate].
    + intros k' E. injection E as E. subst k'. exact Ek.
  - destruct (saved s) as [p|] eqn:Es; [|repeat split; [rewrite Es; discriminate|rewrite Es; exact H2|exact H3]].
    repeat split; cbn; [discriminate| |exact H3]. destruct (is_logger (cur s)) eqn:E.
    + intros E2. subst p. contradiction H1. reflexivity.
    + intros E2. apply is_logger_false in E. contradiction.
  - repeat split; cbn; [exact H1|discriminate|exact H3].
  - repeat split; cbn; [exact H1|discriminate|exact H3].
  - destruct (memb k (alive s)) eqn:Ek; [repeat split; assumption|]. repeat split; cbn; [exact H1|exact H2|].
    intros j E. unfold memb. cbn [existsb]. fold (memb j (alive s)). rewrite (H3 j E). apply orb_true_r.
  - destruct (memb k (alive s)) eqn:Ek; [|repeat split; assumption]. repeat split; cbn; [exact H1|exact H2|].
    intros j E. unfold is_active in E. destruct (active s) as [a|] eqn:Ea; [|discriminate].
    destruct (Nat.eqb a k) eqn:Eak; [discriminate|]. injection E as E. subst a.
    change (memb j (remove_id k (alive s)) = true). rewrite memb_remove, (H3 j eq_refl), Eak. reflexivity.
Qed.
Lemma i0_inv : IInv i0.
Proof. repeat split; cbn; discriminate. Qed.
Lemma fold_inv ops : forall s, IInv s -> IInv (fold_left dstep ops s).
Proof. induction ops as [|o r IH]; intros s H; cbn; [exact H|]. apply IH, dstep_inv, H. Qed.
Theorem run_inv ops : IInv (irun doc_inst ops).
Proof. apply (fold_inv ops i0 i0_inv). Qed.
Corollary never_saves_itself ops : saved (irun doc_inst ops) <> Some Logger.
Proof. apply run_inv. Qed.

Lemma install_twice s k : dstep (dstep s (Install k)) (Install k) = dstep s (Install k).
Proof.
  rewrite (dstep_eq s). destruct (memb k (alive s)) eqn:Ek.
  - rewrite dstep_eq. cbn. rewrite Ek. reflexivity.
  - rewrite dstep_eq, Ek. reflexivity.
Qed.
(* an install by ANOTHER logger object while the logger's handler is current keeps what is saved *)
Lemma install_other_keeps_saved s j k : memb j (alive s) = true ->
  saved (dstep (dstep s (Install j)) (Install k)) = saved (dstep s (Install j)).
Proof.
  intros Ej. rewrite (dstep_eq s), Ej. rewrite dstep_eq. cbn [alive cur saved].
  destruct (memb k (alive s)); reflexivity.
Qed.
Lemma restore_idempotent s : dstep (dstep s Restore) Restore = dstep s Restore.
Proof.
  rewrite (dstep_eq s Restore). destruct (saved s) eqn:E.
  - rewrite dstep_eq. cbn. reflexivity.
  - rewrite dstep_eq, E. reflexivity.
Qed.
Lemma restore_keeps_nonlogger s : cur s <> Logger -> cur (dstep s Restore) = cur s.
Proof.
  intros H. rewrite dstep_eq. destruct (saved s); [|reflexivity]. cbn.
  apply is_logger_false in H. rewrite H. reflexivity.
Qed.
(* a logger object going away changes neither the current handler nor the one to reinstate *)
Lemma destroy_keeps_handlers s k : cur (dstep s (Destroy k)) = cur s /\ saved (dstep s (Destroy k)) = saved s.
Proof. rewrite dstep_eq. destruct (memb k (alive s)); split; reflexivity. Qed.
Lemma create_keeps_handlers s k :
  cur (dstep s (Create k)) = cur s /\ saved (dstep s (Create k)) = saved s /\ active (dstep s (Create k)) = active s.
Proof. rewrite dstep_eq. destruct (memb k (alive s)); repeat split; reflexivity. Qed.
Lemma irun_snoc ops o : irun doc_inst (ops ++ [o]) = dstep (irun doc_inst ops) o.
Proof. unfold irun. rewrite fold_left_app. reflexivity. Qed.
Lemma irun_app ops ops' : irun doc_inst (ops ++ ops') = fold_left dstep ops' (irun doc_inst ops).
Proof. unfold irun. rewrite fold_left_app. reflexivity. Qed.
Lemma receiver_nonlogger s : cur s <> Logger -> receiver s = recv_of (cur s).
Proof. unfold receiver, recv_of. destruct (cur s); congruence. Qed.

(* after any history: Install by an existing logger, any number of further Installs, then Restore
   gives back the handler that was current before, if it was not the logger's *)
Theorem install_n_restore ops k n : cur (irun doc_inst ops) <> Logger -> memb k (alive (irun doc_inst ops)) = true ->
  cur (irun doc_inst (ops ++ repeat (Install k) (S n) ++ [Restore])) = cur (irun doc_inst ops).
Proof.
  intros H Hk. rewrite app_assoc, irun_snoc, irun_app. set (s := irun doc_inst ops) in *.
  assert (E : fold_left dstep (repeat (Install k) (S n)) s = dstep s (Install k)).
  { cbn [repeat fold_left]. generalize s. clear. induction n as [|m IH]; intros s; [reflexivity|].
    cbn [repeat fold_left]. rewrite install_twice. apply IH. }
  rewrite E. rewrite !dstep_eq. rewrite Hk. cbn. apply is_logger_false in H. rewrite H. cbn. reflexivity.
Qed.

(* ---- object lifetime: between a state in which a non-logger handler h is current and a Restore,
   Logger objects may be created, installed (each any number of times) and destroyed in any order;
   if the logger's handler is current at the end, Restore reinstates h and h receives the messages
   - also when every logger that was installed is gone ---- *)
Definition logger_op (o : iop) : bool :=
  match o with Install _ | Create _ | Destroy _ => true | _ => false end.
Lemma lifetime_inv mid : forallb logger_op mid = true -> forall s0 s, cur s0 <> Logger ->
  ((cur s = cur s0 /\ saved s = saved s0) \/ (cur s = Logger /\ saved s = Some (cur s0))) ->
  let s' := fold_left dstep mid s in
  (cur s' = cur s0 /\ saved s' = saved s0) \/ (cur s' = Logger /\ saved s' = Some (cur s0)).
Proof.
  induction mid as [|o r IH]; intros Hm s0 s H0 H; cbn [fold_left]; [exact H|].
  cbn [forallb] in Hm. apply andb_true_iff in Hm as [Ho Hr]. apply (IH Hr s0 _ H0).
  rewrite dstep_eq. destruct o as [k| |n| |k|k]; try discriminate.
  - destruct (memb k (alive s)); [|exact H]. right. cbn. split; [reflexivity|].
    destruct H as [[E1 E2]|[E1 E2]].
    + rewrite E1. apply is_logger_false in H0. rewrite H0. reflexivity.
    + rewrite E1. cbn. exact E2.
  - destruct (memb k (alive s)); exact H.
  - destruct (memb k (alive s)); exact H.
Qed.
Theorem lifetime_restore s mid : cur s <> Logger -> forallb logger_op mid = true ->
  let s' := fold_left dstep mid s in
  cur s' = Logger ->
  cur (dstep s' Restore) = cur s /\ receiver (dstep s' Restore) = recv_of (cur s).
Proof.
  intros H0 Hm s' Hc.
  destruct (lifetime_inv mid Hm s s H0 (or_introl (conj eq_refl eq_refl))) as [[E1 E2]|[E1 E2]];
    fold s' in E1, E2; [congruence|].
  assert (E : cur (dstep s' Restore) = cur s).
  { rewrite dstep_eq, E2. cbn. rewrite E1. reflexivity. }
  split; [exact E|]. rewrite receiver_nonlogger; rewrite E; [reflexivity|exact H0].
Qed.
(* what today's code does in between (the property is silent about it): once the ACTIVE logger is
   destroyed while the logger's handler is current, messages reach nobody until a restore or a
   further install *)
Lemma destroy_active_swallows s k : memb k (alive s) = true ->
  receiver (dstep (dstep s (Install k)) (Destroy k)) = RNone.
Proof.
  intros Hk. rewrite (dstep_eq s), Hk. rewrite dstep_eq. cbn [alive]. rewrite Hk.
  unfold receiver, is_active. cbn. rewrite Nat.eqb_refl. reflexivity.
Qed.
Lemma install_receives s k : memb k (alive s) = true -> receiver (dstep s (Install k)) = RLogger k.
Proof. intros Hk. rewrite dstep_eq, Hk. reflexivity. Qed.

(* ---- the restore theorem in terms of the observable trace of current handlers ---- *)
Definition lt_acc (prev : mh) (acc : option mh) (c : mh) : option mh :=
  if is_logger c && negb (is_logger prev) then Some prev else acc.
Definition J (s : ist) (acc : option mh) (al : list nat) : Prop :=
  IInv s /\ (cur s = Logger -> saved s = acc) /\ alive s = al.
Lemma lt_acc_same h acc : lt_acc h acc h = acc.
Proof. unfold lt_acc. rewrite andb_negb_r. reflexivity. Qed.
Lemma J_step s acc al o : J s acc al ->
  J (dstep s o) (lt_acc (cur s) acc (cur (dstep s o))) (alive_after al o).
Proof.
  intros [HI [HJ HA]]. split; [apply dstep_inv, HI|]. subst al. rewrite dstep_eq.
  destruct HI as [H1 [H2 H3]]. destruct o as [k| |n| |k|k]; cbn [alive_after].
  - destruct (memb k (alive s)); [|rewrite lt_acc_same; split; [exact HJ|reflexivity]].
    unfold lt_acc. cbn. split; [|reflexivity].
    destruct (is_logger (cur s)) eqn:E; cbn; intros _; [apply HJ, is_logger_true, E|reflexivity].
  - destruct (saved s) as [p|] eqn:Es.
    + cbn. split; [|reflexivity]. destruct (is_logger (cur s)) eqn:E.
      * intros E2. subst p. contradiction H1. reflexivity.
      * intros E2. apply is_logger_false in E. contradiction.
    + rewrite lt_acc_same. split; [|reflexivity]. intros E2. specialize (H2 E2). contradiction H2. reflexivity.
  - cbn. split; [discriminate|reflexivity].
  - cbn. split; [discriminate|reflexivity].
  - destruct (memb k (alive s)); rewrite lt_acc_same; (split; [exact HJ|reflexivity]).
  - destruct (memb k (alive s)) eqn:Ek; rewrite lt_acc_same; cbn; (split; [exact HJ|]); [reflexivity|].
    symmetry. apply remove_notin, Ek.
Qed.
Lemma last_takeover_step prev c r acc :
  last_takeover prev (c :: r) acc = last_takeover c r (lt_acc prev acc c).
Proof. reflexivity. Qed.
Lemma J_run ops : forall s acc al, J s acc al ->
  J (fold_left dstep ops s) (last_takeover (cur s) (map fst (iexec doc_inst s ops)) acc)
    (fold_left alive_after ops al).
Proof.
  induction ops as [|o r IH]; intros s acc al H; cbn [fold_left iexec map fst]; [exact H|].
  rewrite last_takeover_step. apply (IH (dstep s o)). apply J_step, H.
Qed.
Lemma J0 : J i0 None [0%nat].
Proof. split; [apply i0_inv|]. cbn. split; [discriminate|reflexivity]. Qed.
Theorem restore_reinstates ops : cur (irun doc_inst ops) = Logger ->
  exists p, last_takeover Default (map fst (itrace doc_inst ops)) None = Some p
            /\ p <> Logger /\ cur (dstep (irun doc_inst ops) Restore) = p
            /\ receiver (dstep (irun doc_inst ops) Restore) = recv_of p.
Proof.
  intros Hc. destruct (J_run ops i0 None _ J0) as [[H1 [H2 H3]] [HJ _]].
  change (fold_left dstep ops i0) with (irun doc_inst ops) in *.
  change (cur i0) with Default in HJ. fold (itrace doc_inst ops) in HJ.
  specialize (HJ Hc). specialize (H2 Hc).
  destruct (saved (irun doc_inst ops)) as [p|] eqn:Es; [|contradiction].
  assert (Hp : p <> Logger) by congruence.
  assert (E : cur (dstep (irun doc_inst ops) Restore) = p).
  { rewrite dstep_eq, Es. cbn. apply is_logger_true in Hc. rewrite Hc. reflexivity. }
  exists p. split; [symmetry; exact HJ|]. split; [exact Hp|]. split; [exact E|].
  rewrite receiver_nonlogger; rewrite E; [reflexivity|exact Hp].
Qed.
Theorem restore_leaves_other ops : cur (irun doc_inst ops) <> Logger ->
  cur (dstep (irun doc_inst ops) Restore) = cur (irun doc_inst ops).
Proof. apply restore_keeps_nonlogger. Qed.
Theorem active_logger_exists ops k : active (irun doc_inst ops) = Some k -> memb k (alive (irun doc_inst ops)) = true.
Proof. apply run_inv. Qed.

(* the boolean oracle holds of every trace of the model *)
Lemma recv_ok_inv s : IInv s -> recv_ok (cur s) (receiver s) (alive s) = true.
Proof.
  intros [_ [_ H3]]. unfold recv_ok, receiver. destruct (cur s) as [| |n]; cbn; [reflexivity| |apply Nat.eqb_refl].
  destruct (active s) as [k|]; [apply H3; reflexivity|reflexivity].
Qed.
Lemma trace_ok_model ops : forall s acc al, J s acc al ->
  trace_ok_from (cur s) acc al ops (iexec doc_inst s ops) = true.
Proof.
  induction ops as [|o r IH]; intros s acc al H; cbn [iexec trace_ok_from]; [reflexivity|].
  fold dstep. pose proof (J_step s acc al o H) as HS.
  apply andb_true_iff. split; [apply andb_true_iff; split|].
  - destruct H as [[H1 [H2 H3]] [HJ HA]]. subst al. rewrite dstep_eq. destruct o as [k| |n| |k|k].
    + destruct (memb k (alive s)); [cbn; apply Nat.eqb_refl|apply mh_eqb_refl].
    + destruct (is_logger (cur s)) eqn:E.
      * apply is_logger_true in E. specialize (HJ E). specialize (H2 E).
        destruct (saved s) as [p|] eqn:Es; [|contradiction]. rewrite <- HJ. cbn.
        apply mh_eqb_refl.
      * destruct (saved s); cbn; rewrite ?E; apply mh_eqb_refl.
    + cbn. apply Nat.eqb_refl.
    + reflexivity.
    + destruct (memb k (alive s)); apply mh_eqb_refl.
    + destruct (memb k (alive s)); cbn; rewrite mh_eqb_refl; apply orb_true_r.
  - destruct HS as [HI [_ HA]]. rewrite <- HA. apply recv_ok_inv, HI.
  - apply (IH (dstep s o)). exact HS.
Qed.
Theorem install_oracle_holds ops : prop_install_b ops (itrace doc_inst ops) = true.
Proof. apply (trace_ok_model ops i0 None _ J0). Qed.

(* ================================================================== the SGR stripper *)
Section Strip.
Variable cls : cclass.
Lemma skip_params_length s : (List.length (skip_params cls s) <= List.length s)%nat.
Proof. induction s as [|c r IH]; cbn; [lia|]. destruct (in_class cls c); cbn; lia. Qed.
(* the parameters skipped, and what follows them *)
Lemma skip_params_split s : exists ps, s = ps ++ skip_params cls s /\ forallb (in_class cls) ps = true.
Proof.
  induction s as [|c r [ps [E F]]]; [exists []; split; reflexivity|]. cbn.
  destruct (in_class cls c) eqn:Ec.
  - exists (c :: ps). split; [cbn; f_equal; exact E|cbn; rewrite Ec; exact F].
  - exists []. split; reflexivity.
Qed.
Lemma skip_params_head s c r : skip_params cls s = c :: r -> in_class cls c = false.
Proof.
  induction s as [|d t IH]; cbn; [discriminate|]. destruct (in_class cls d) eqn:Ed; [exact IH|].
  intros E. injection E as E1 E2. subst. exact Ed.
Qed.
Lemma skip_params_app ps r : forallb (in_class cls) ps = true ->
  skip_params cls (ps ++ r) = skip_params cls r.
Proof.
  induction ps as [|c t IH]; [reflexivity|]. cbn. intros H. apply andb_true_iff in H as [H1 H2].
  rewrite H1. apply IH, H2.
Qed.
Lemma match_head_length s r' : match_head cls s = Some r' -> (List.length r' + 3 <= List.length s)%nat.
Proof.
  destruct s as [|c1 [|c2 r]]; cbn; try discriminate.
  destruct ((c1 =? ESC) && (c2 =? LBR)); [|discriminate].
  pose proof (skip_params_length r) as L. destruct (skip_params cls r) as [|c3 t]; [discriminate|].
  destruct (c3 =? LM); [|discriminate]. intros E. injection E as E. subst. cbn in *. lia.
Qed.
(* a complete sequence at the head: ESC [ params m *)
Definition seq_at_head (s r' : qstr) : Prop :=
  exists ps, forallb (in_class cls) ps = true /\ s = ESC :: LBR :: ps ++ LM :: r'.
Lemma match_head_some s r' : match_head cls s = Some r' -> seq_at_head s r'.
Proof.
  destruct s as [|c1 [|c2 r]]; cbn; try discriminate.
  destruct (c1 =? ESC) eqn:E1; [|discriminate]. destruct (c2 =? LBR) eqn:E2; [|discriminate]. cbn.
  destruct (skip_params_split r) as [ps [E F]].
  destruct (skip_params cls r) as [|c3 t] eqn:Es; [discriminate|].
  destruct (c3 =? LM) eqn:E3; [|discriminate]. intros H. injection H as H. subst t.
  apply N.eqb_eq in E1, E2, E3. subst c1 c2 c3. exists ps. split; [exact F|]. rewrite E. reflexivity.
Qed.
Hypothesis m_not_param : in_class cls LM = false.
Lemma match_head_complete s r' : seq_at_head s r' -> match_head cls s = Some r'.
Proof.
  intros [ps [F E]]. subst s. cbn. rewrite (skip_params_app ps (LM :: r') F). cbn.
  rewrite m_not_param. reflexivity.
Qed.
Lemma seq_at_head_unique s r1 r2 : seq_at_head s r1 -> seq_at_head s r2 -> r1 = r2.
Proof.
  intros H1 H2. apply match_head_complete in H1, H2. congruence.
Qed.

Lemma strip_fuel_indep f1 : forall f2 s, (List.length s <= f1)%nat -> (List.length s <= f2)%nat ->
  strip_fuel cls f1 s = strip_fuel cls f2 s.
Proof.
  induction f1 as [|f1 IH]; intros f2 s L1 L2.
  - destruct s; [|cbn in L1; lia]. destruct f2; reflexivity.
  - destruct f2 as [|f2]; [destruct s; [reflexivity|cbn in L2; lia]|].
    destruct s as [|c r]; [reflexivity|]. cbn [strip_fuel].
    destruct (match_head cls (c :: r)) as [r'|] eqn:E.
    + apply match_head_length in E. cbn in *. apply IH; lia.
    + f_equal. cbn in *. apply IH; lia.
Qed.
(* the unfolding equation of the scanner *)
Lemma strip_nil : strip cls [] = [].
Proof. reflexivity. Qed.
Lemma strip_cons c r : strip cls (c :: r) =
  match match_head cls (c :: r) with Some r' => strip cls r' | None => c :: strip cls r end.
Proof.
  unfold strip.
  change (strip_fuel cls (S (List.length (c :: r))) (c :: r))
    with (match match_head cls (c :: r) with
          | Some r' => strip_fuel cls (List.length (c :: r)) r'
          | None => c :: strip_fuel cls (List.length (c :: r)) r end).
  destruct (match_head cls (c :: r)) as [r'|] eqn:E.
  - apply match_head_length in E. apply strip_fuel_indep; cbn in *; lia.
  - reflexivity.
Qed.

(* specification: scan from the left; a complete sequence at the current position is removed as a
   whole (its parameter run is maximal because `m` is not a parameter), any other character is
   kept and the scan resumes right after it *)
Inductive Strip : qstr -> qstr -> Prop :=
| St_nil : Strip [] []
| St_seq : forall s r r', seq_at_head s r -> Strip r r' -> Strip s r'
| St_chr : forall c r r', (forall t, ~ seq_at_head (c :: r) t) -> Strip r r' -> Strip (c :: r) (c :: r').
Lemma strip_spec_len n : forall s, (List.length s <= n)%nat -> Strip s (strip cls s).
Proof.
  induction n as [|n IH]; intros s L.
  - destruct s; [constructor|cbn in L; lia].
  - destruct s as [|c r]; [constructor|]. rewrite strip_cons.
    destruct (match_head cls (c :: r)) as [r'|] eqn:E.
    + apply St_seq with r'; [apply match_head_some, E|]. apply match_head_length in E.
      apply IH. cbn in *. lia.
    + apply St_chr; [|apply IH; cbn in L; lia]. intros t H. apply match_head_complete in H. congruence.
Qed.
Theorem strip_spec s : Strip s (strip cls s).
Proof. apply (strip_spec_len (List.length s)). lia. Qed.
Theorem Strip_functional s a : Strip s a -> forall b, Strip s b -> a = b.
Proof.
  induction 1 as [|s r r' Hs H IH|c r r' Hn H IH]; intros b Hb.
  - inversion Hb; subst; [reflexivity|]. destruct H as [ps [_ E]]. discriminate.
  - inversion Hb; subst.
    + destruct Hs as [ps [_ E]]. discriminate.
    + rewrite (seq_at_head_unique _ _ _ Hs H0) in *. apply IH. assumption.
    + exfalso. apply (H0 r). exact Hs.
  - inversion Hb; subst.
    + exfalso. apply (Hn r0). assumption.
    + f_equal. apply IH. assumption.
Qed.
Corollary strip_unique s a : Strip s a -> a = strip cls s.
Proof. intros H. apply (Strip_functional s a H), strip_spec. Qed.

(* characters outside the removed sequences are preserved, in order *)
Inductive Subseq : qstr -> qstr -> Prop :=
| Sub_nil : Subseq [] []
| Sub_drop : forall c a b, Subseq a b -> Subseq a (c :: b)
| Sub_keep : forall c a b, Subseq a b -> Subseq (c :: a) (c :: b).
Lemma Subseq_drop_app p : forall a b, Subseq a b -> Subseq a (p ++ b).
Proof. induction p as [|c t IH]; intros a b H; cbn; [exact H|]. constructor. apply IH, H. Qed.
Lemma Strip_subseq s a : Strip s a -> Subseq a s.
Proof.
  induction 1 as [|s r r' [ps [_ E]] H IH|c r r' _ H IH]; [constructor| |constructor; exact IH].
  subst s. constructor. constructor. apply Subseq_drop_app. constructor. exact IH.
Qed.
Theorem strip_subseq s : Subseq (strip cls s) s.
Proof. apply Strip_subseq, strip_spec. Qed.

(* a text without ESC is not touched; more generally an ESC-free prefix is copied *)
Lemma match_head_no_esc c r : c <> ESC -> match_head cls (c :: r) = None.
Proof.
  intros H. destruct r as [|c2 r]; [reflexivity|]. cbn.
  destruct (c =? ESC) eqn:E; [apply N.eqb_eq in E; contradiction|reflexivity].
Qed.
Lemma strip_plain_app t : forall r, ~ In ESC t -> strip cls (t ++ r) = t ++ strip cls r.
Proof.
  induction t as [|c t IH]; intros r H; [reflexivity|]. cbn [app]. rewrite strip_cons.
  rewrite match_head_no_esc by (intros E; apply H; left; auto).
  f_equal. apply IH. intros G. apply H. right. exact G.
Qed.
Lemma strip_plain t : ~ In ESC t -> strip cls t = t.
Proof. intros H. rewrite <- (app_nil_r t) at 1. rewrite strip_plain_app by exact H. rewrite strip_nil, app_nil_r. reflexivity. Qed.
(* a complete sequence in front is dropped *)
Lemma strip_seq_app ps r : forallb (in_class cls) ps = true ->
  strip cls (ESC :: LBR :: ps ++ LM :: r) = strip cls r.
Proof.
  intros F. rewrite strip_cons.
  rewrite (match_head_complete (ESC :: LBR :: ps ++ LM :: r) r); [reflexivity|]. exists ps. split; [exact F|reflexivity].
Qed.
Theorem strip_idempotent_partial s : ~ In ESC (strip cls s) -> strip cls (strip cls s) = strip cls s.
Proof. apply strip_plain. Qed.

(* a newline is neither a parameter nor part of a sequence: stripping works record by record *)
Hypothesis nl_not_param : in_class cls NL = false.
Lemma skip_params_nl_tail s r : exists ps, forallb (in_class cls) ps = true /\
  s = ps ++ skip_params cls s /\ skip_params cls (s ++ NL :: r) = skip_params cls s ++ NL :: r.
Proof.
  induction s as [|c t [ps [F [E G]]]].
  - exists []. cbn. rewrite nl_not_param. repeat split; reflexivity.
  - cbn. destruct (in_class cls c) eqn:Ec.
    + exists (c :: ps). cbn. rewrite Ec. repeat split; [exact F|f_equal; exact E|exact G].
    + exists []. repeat split; reflexivity.
Qed.
Lemma match_head_nl s r : s <> [] ->
  match_head cls (s ++ NL :: r) = match match_head cls s with Some r' => Some (r' ++ NL :: r) | None => None end.
Proof.
  intros Hs. destruct s as [|c1 [|c2 t]]; [contradiction| |].
  - cbn. destruct (c1 =? ESC); reflexivity.
  - cbn. destruct ((c1 =? ESC) && (c2 =? LBR)); [|reflexivity].
    destruct (skip_params_nl_tail t r) as [ps [F [E G]]]. rewrite G.
    destruct (skip_params cls t) as [|c3 u]; [reflexivity|]. cbn.
    destruct (c3 =? LM); reflexivity.
Qed.
Lemma strip_nl_len n : forall s r, (List.length s <= n)%nat ->
  strip cls (s ++ NL :: r) = strip cls s ++ NL :: strip cls r.
Proof.
  induction n as [|n IH]; intros s r L.
  - destruct s; [|cbn in L; lia]. cbn [app]. rewrite strip_cons, strip_nil.
    rewrite match_head_no_esc by discriminate. reflexivity.
  - destruct s as [|c t].
    + cbn [app]. rewrite strip_cons, strip_nil. rewrite match_head_no_esc by discriminate. reflexivity.
    + rewrite (strip_cons c t). change ((c :: t) ++ NL :: r) with (c :: (t ++ NL :: r)). rewrite strip_cons.
      change (c :: (t ++ NL :: r)) with ((c :: t) ++ NL :: r). rewrite match_head_nl by discriminate.
      destruct (match_head cls (c :: t)) as [r'|] eqn:E.
      * apply match_head_length in E. apply IH. cbn in *. lia.
      * cbn [app]. f_equal. apply IH. cbn in L. lia.
Qed.
Lemma strip_nl s r : strip cls (s ++ NL :: r) = strip cls s ++ NL :: strip cls r.
Proof. apply (strip_nl_len (List.length s)). lia. Qed.
Lemma strip_stream recs : strip cls (stream_text recs) = stream_text (map (strip cls) recs).
Proof.
  unfold stream_text. induction recs as [|x t IH]; [reflexivity|]. cbn [map List.concat].
  rewrite <- app_assoc. cbn [app]. rewrite strip_nl. rewrite IH. rewrite <- app_assoc. reflexivity.
Qed.
End Strip.

Lemma sgr_m : in_class sgr_class LM = false. Proof. reflexivity. Qed.
Lemma sgr_nl : in_class sgr_class NL = false. Proof. reflexivity. Qed.

(* strip is NOT idempotent on arbitrary text: removing an inner sequence can join the pieces of an
   outer one (ESC [ 3 · ESC [ 0 m · 1 m  ->  ESC [ 3 1 m) *)
Definition idem_witness : qstr := [ESC; LBR; 51; ESC; LBR; 48; LM; 49; LM].
Theorem strip_idempotent_refuted : exists s, strip_sgr (strip_sgr s) <> strip_sgr s.
Proof. exists idem_witness. vm_compute. discriminate. Qed.

(* ---- stripping a coloured PrettyFormatter record gives the uncoloured record ---- *)
Lemma qs_params body : forallb (in_class sgr_class) (qs body) = true ->
  forall r, strip_sgr (esc_seq body ++ r) = strip_sgr r.
Proof.
  intros F r. unfold esc_seq, strip_sgr. cbn [app]. rewrite <- app_assoc. cbn [app].
  apply (strip_seq_app sgr_class sgr_m). exact F.
Qed.
Lemma strip_wrap code body r : forallb (in_class sgr_class) (qs code) = true -> ~ In ESC body ->
  forall on, strip_sgr (wrap on (esc_seq code) body ++ r) = body ++ strip_sgr r.
Proof.
  intros F H on. destruct on; cbn [wrap].
  - rewrite <- !app_assoc. rewrite (qs_params code F). unfold strip_sgr at 1.
    rewrite (strip_plain_app sgr_class body _ H). f_equal.
    apply (qs_params "0" eq_refl).
  - apply (strip_plain_app sgr_class body r H).
Qed.
Lemma no_esc_app a b : ~ In ESC a -> ~ In ESC b -> ~ In ESC (a ++ b).
Proof. intros Ha Hb H. apply in_app_or in H as [H|H]; auto. Qed.
Lemma no_esc_repeat n : ~ In ESC (repeat SP n).
Proof. intros H. apply repeat_spec in H. discriminate. Qed.
Lemma dec_nat_no_esc fuel : forall n acc, ~ In ESC acc -> ~ In ESC (dec_nat fuel n acc).
Proof.
  induction fuel as [|f IH]; intros n acc H; cbn [dec_nat]; [exact H|].
  assert (D : ~ In ESC ((48 + N.of_nat (n mod 10)) :: acc)).
  { intros [E|E]; [|auto]. pose proof (Nat.mod_upper_bound n 10). unfold ESC in E. lia. }
  destruct (Nat.ltb n 10); [exact D|]. apply IH, D.
Qed.
Lemma show_nat_no_esc n : ~ In ESC (show_nat n).
Proof. apply dec_nat_no_esc. intros []. Qed.

Definition no_esc_msg (m : msg) : Prop := ~ In ESC (m_time m) /\ ~ In ESC (m_cat m) /\ ~ In ESC (m_text m).
Lemma strip_wrap_opt t (code : mtype -> option qstr) body r :
  (forall c, code t = Some c -> exists b, c = esc_seq b /\ forallb (in_class sgr_class) (qs b) = true) ->
  ~ In ESC body -> forall on, strip_sgr (wrap_opt on (code t) body ++ r) = body ++ strip_sgr r.
Proof.
  intros Hc H on. unfold wrap_opt. destruct (code t) as [c|] eqn:E.
  - destruct (Hc c eq_refl) as [b [Eb F]]. subst c. apply strip_wrap; assumption.
  - apply (strip_plain_app sgr_class body r H).
Qed.
Lemma letter_color_ok t c : letter_color t = Some c -> exists b, c = esc_seq b /\ forallb (in_class sgr_class) (qs b) = true.
Proof.
  destruct t; cbn; intros E; try discriminate; injection E as E; subst c;
    [exists "38;5;208"%string|exists "1;31"%string|exists "1;38;5;88"%string|exists "1;32"%string]; split; reflexivity.
Qed.
Lemma msg_color_ok t c : msg_color t = Some c -> exists b, c = esc_seq b /\ forallb (in_class sgr_class) (qs b) = true.
Proof.
  destruct t; cbn; intros E; try discriminate; injection E as E; subst c;
    [exists "38;5;172"%string|exists "1;31"%string|exists "1;38;5;88"%string|exists "32"%string]; split; reflexivity.
Qed.
Lemma letter_no_esc t : ~ In ESC [letter t].
Proof. destruct t; cbn; intros [E|[]]; discriminate. Qed.

Lemma sgr_plain_app t r : ~ In ESC t -> strip_sgr (t ++ r) = t ++ strip_sgr r.
Proof. apply (strip_plain_app sgr_class). Qed.
Lemma sgr_esc_app b r : forallb (in_class sgr_class) (qs b) = true -> strip_sgr (esc_seq b ++ r) = strip_sgr r.
Proof. intros F. apply qs_params, F. Qed.
Lemma add_nil2 X Y : strip_sgr (X ++ []) = Y ++ [] -> strip_sgr X = Y.
Proof. rewrite !app_nil_r. auto. Qed.
Ltac noesc :=
  first [ assumption | apply no_esc_repeat | apply show_nat_no_esc | apply letter_no_esc
        | (let H := fresh in intros H; cbn in H; unfold ESC, SP in H; intuition discriminate) ].
Theorem strip_pretty w st m : no_esc_msg m ->
  fst (pretty true w st m) = fst (pretty false w st m)
  /\ strip_sgr (snd (pretty true w st m)) = snd (pretty false w st m).
Proof.
  intros [Ht [Hc Hx]]. unfold pretty.
  destruct (tlook (m_tid m) (threads st)) as [i|]; cbn [fst snd]; (split; [reflexivity|]).
  all: destruct (seqb (m_cat m) s_default);
       match goal with |- context [Nat.ltb 1 ?x] => destruct (Nat.ltb 1 x) end;
       try match goal with |- context [Nat.eqb ?x 0] => destruct (Nat.eqb x 0) end;
       destruct (Nat.ltb 0 w); destruct (m_type m).
  all: cbn [letter_color msg_color wrap_opt wrap].
  all: unfold c_reset, c_darkGray, c_bold, c_green, c_greenBold, c_orange, c_darkOrange, c_redBold, c_darkRedBold.
  all: apply add_nil2; repeat rewrite <- app_assoc.
  all: repeat first [ rewrite sgr_esc_app by reflexivity | rewrite sgr_plain_app by noesc ].
  all: reflexivity.
Qed.

(* ================================================================== evaluation of a built pipeline *)
Definition is_filter (h : handler) : bool := match h with HCat _ | HRegex _ => true | _ => false end.
Definition is_sink (h : handler) : bool :=
  match h with HStdout _ | HStderr _ | HPlatform _ | HSyslog _ | HFile _ => true | _ => false end.
Definition filter_pass (m : msg) (h : handler) : bool :=
  match h with HCat rs => cat_pass rs (m_cat m) (m_type m) | HRegex r => rx_match r (m_text m) | _ => true end.
(* what a sink emits for a message whose formatted text is fmt *)
Definition sink_event (e : env) (m : msg) (fmt : option qstr) (h : handler) : list event :=
  match h with
  | HStdout cm => [(OStdout, console_text (colors_enabled cm (tty_out e)) (m_type m) (shown m fmt))]
  | HStderr cm => [(OStderr, console_text (colors_enabled cm (tty_err e)) (m_type m) (shown m fmt))]
  | HPlatform cm => [(OPlatform, console_text (colors_enabled cm (tty_err e)) (m_type m) (shown m fmt))]
  | HSyslog _ => [(OSyslog, syslog_text m)]
  | HFile _ => [(OFile, shown m fmt)]
  | _ => []
  end.
Definition with_st (l : list handler) : list (handler * pstate) := map (fun h => (h, p0)) l.

Lemma run_msg_sinks e m fmt : forall ss, forallb (fun hs => is_sink (fst hs)) ss = true ->
  run_msg e ss m fmt = (ss, flat_map (fun hs => sink_event e m fmt (fst hs)) ss).
Proof.
  induction ss as [|[h st] t IH]; [reflexivity|]. cbn [forallb fst]. intros H.
  apply andb_true_iff in H as [Hh Ht]. cbn [run_msg flat_map fst].
  destruct h; try discriminate; cbn [hstep sink_event]; rewrite (IH Ht); reflexivity.
Qed.
Lemma run_msg_filters e m fmt rest : forall fs, forallb (fun hs => is_filter (fst hs)) fs = true ->
  run_msg e (fs ++ rest) m fmt =
  if forallb (fun hs => filter_pass m (fst hs)) fs
  then (let (rest', ev) := run_msg e rest m fmt in (fs ++ rest', ev))
  else (fs ++ rest, []).
Proof.
  induction fs as [|[h st] t IH]; cbn [forallb fst app].
  - intros _. destruct (run_msg e rest m fmt). reflexivity.
  - intros H. apply andb_true_iff in H as [Hh Ht]. cbn [run_msg].
    destruct h; try discriminate; cbn [hstep filter_pass].
    + destruct (cat_pass rs (m_cat m) (m_type m)); [|reflexivity]. rewrite (IH Ht). cbn [andb].
      destruct (forallb (fun hs => filter_pass m (fst hs)) t); [|reflexivity].
      destruct (run_msg e rest m fmt). reflexivity.
    + destruct (rx_match r (m_text m)); [|reflexivity]. rewrite (IH Ht). cbn [andb].
      destruct (forallb (fun hs => filter_pass m (fst hs)) t); [|reflexivity].
      destruct (run_msg e rest m fmt). reflexivity.
Qed.

(* a formatter as a state machine *)
Definition is_formatter (h : handler) : bool :=
  match h with HPattern _ | HPretty _ _ => true | _ => false end.
Definition fmt_apply (h : handler) (st : pstate) (m : msg) : pstate * qstr :=
  match h with
  | HPattern p => (st, pattern_format p m)
  | HPretty c w => pretty c w st m
  | _ => (st, [])
  end.
(* the evaluation lemma: a list  filters ++ [formatter] ++ sinks  sends every message that passes
   all the filters to every sink, once, carrying the formatter's text, and nothing else *)
Fixpoint shape_events (e : env) (fs : list handler) (f : handler) (ss : list handler)
         (st : pstate) (ms : list msg) : list event :=
  match ms with
  | [] => []
  | m :: r =>
      if forallb (filter_pass m) fs then
        let (st', txt) := fmt_apply f st m in
        flat_map (sink_event e m (Some txt)) ss ++ shape_events e fs f ss st' r
      else shape_events e fs f ss st r
  end.
Lemma forallb_map {A B} (g : A -> B) (p : B -> bool) l : forallb p (map g l) = forallb (fun x => p (g x)) l.
Proof. induction l; cbn; [reflexivity|]. rewrite IHl. reflexivity. Qed.
Lemma flat_map_map {A B C} (g : A -> B) (h : B -> list C) l : flat_map h (map g l) = flat_map (fun x => h (g x)) l.
Proof. induction l; cbn; [reflexivity|]. rewrite IHl. reflexivity. Qed.
Lemma shape_eval e fs f ss : forallb is_filter fs = true -> is_formatter f = true -> forallb is_sink ss = true ->
  forall ms st, run_all e (with_st fs ++ (f, st) :: with_st ss) ms = shape_events e fs f ss st ms.
Proof.
  intros Hf Hm Hs. induction ms as [|m r IH]; intros st; [reflexivity|]. cbn [run_all shape_events].
  rewrite run_msg_filters by (unfold with_st; rewrite forallb_map; exact Hf).
  unfold with_st at 1. rewrite forallb_map. cbn [fst].
  destruct (forallb (filter_pass m) fs).
  - cbn [run_msg].
    assert (G : forall st' txt, hstep e f st m None = (st', true, Some txt, []) ->
                fmt_apply f st m = (st', txt)).
    { destruct f; try discriminate; cbn [hstep fmt_apply].
      - intros st' txt E. injection E as E1 E2. subst. reflexivity.
      - destruct (pretty colorize maxcat st m). intros st' txt E. injection E as E1 E2. subst. reflexivity. }
    assert (G2 : exists st' txt, hstep e f st m None = (st', true, Some txt, [])).
    { destruct f; try discriminate; cbn [hstep].
      - eexists. eexists. reflexivity.
      - destruct (pretty colorize maxcat st m). eexists. eexists. reflexivity. }
    destruct G2 as [st' [txt E]]. rewrite E. rewrite (G st' txt E).
    rewrite run_msg_sinks by (unfold with_st; rewrite forallb_map; exact Hs).
    cbn [app]. unfold with_st at 1. rewrite flat_map_map. cbn [fst]. rewrite (IH st'). reflexivity.
  - apply IH.
Qed.

(* ---- the INI front-end ---- *)
Definition filters_of (s : ini) : list handler := slot_handlers doc_ini s SRules ++ slot_handlers doc_ini s SRegexp.
Definition formatter_of (s : ini) : handler :=
  if emptyb (pattern_text (k_pattern s)) then HPretty false 0 else HPattern (k_pattern s).
Definition sinks_of (s : ini) : list handler :=
  slot_handlers doc_ini s SStdout ++ slot_handlers doc_ini s SStderr ++ slot_handlers doc_ini s SPlatform
  ++ slot_handlers doc_ini s SSyslog ++ slot_handlers doc_ini s SFile.
Theorem ini_shape s : build_ini doc_ini s = filters_of s ++ [formatter_of s] ++ sinks_of s.
Proof.
  unfold build_ini, filters_of, formatter_of, sinks_of. cbn [i_order doc_ini flat_map].
  rewrite app_nil_r. rewrite <- !app_assoc. f_equal. f_equal.
  cbn [slot_handlers i_def_colorize i_def_maxcat doc_ini].
  destruct (emptyb (pattern_text (k_pattern s))); reflexivity.
Qed.
Lemma filters_of_ok s : forallb is_filter (filters_of s) = true.
Proof.
  unfold filters_of. cbn [slot_handlers]. destruct (emptyb (rules_text (k_rules s)));
    destruct (k_regexp s) as [r|]; try destruct (emptyb (rx_text r)); reflexivity.
Qed.
Lemma formatter_of_ok s : is_formatter (formatter_of s) = true.
Proof. unfold formatter_of. destruct (emptyb (pattern_text (k_pattern s))); reflexivity. Qed.
Lemma sinks_of_ok s : forallb is_sink (sinks_of s) = true.
Proof.
  unfold sinks_of. cbn [slot_handlers]. unfold console_slot.
  repeat match goal with |- context [if ?c then _ else _] => destruct c end; reflexivity.
Qed.

Lemma emptyb_app a b : emptyb (a ++ b) = emptyb a && emptyb b.
Proof. destruct a; reflexivity. Qed.
Lemma rule_text_nonempty r : emptyb (rule_text r) = false.
Proof.
  unfold rule_text. rewrite !emptyb_app. cbn [qs emptyb].
  rewrite !andb_false_r. reflexivity.
Qed.
Lemma rules_text_empty rs : emptyb (rules_text rs) = true -> rs = [].
Proof.
  destruct rs as [|r t]; [reflexivity|]. unfold rules_text. cbn [map join].
  destruct (map rule_text t); [rewrite rule_text_nonempty; discriminate|].
  rewrite emptyb_app, rule_text_nonempty. discriminate.
Qed.
Lemma prefixb_nil s : prefixb [] s = true.
Proof. destruct s; reflexivity. Qed.
(* the three rule forms: what "name*" and "*name*" mean *)
Lemma prefixb_iff p s : prefixb p s = true <-> exists b, s = p ++ b.
Proof.
  revert s. induction p as [|x p IH]; intros s.
  - rewrite prefixb_nil. split; [intros _; exists s; reflexivity | intros _; reflexivity].
  - destruct s as [|y s]; cbn [prefixb].
    + split; [discriminate | intros [b H]; cbn in H; discriminate].
    + rewrite andb_true_iff, N.eqb_eq, IH. split.
      * intros [-> [b ->]]. exists b. reflexivity.
      * intros [b H]. cbn in H. injection H as -> ->. split; [reflexivity | exists b; reflexivity].
Qed.
Lemma containsb_iff p s : containsb p s = true <-> exists a b, s = a ++ p ++ b.
Proof.
  induction s as [|y s IH]; cbn [containsb]; rewrite orb_true_iff, prefixb_iff.
  - split.
    + intros [[b H] | H]; [exists [], b; exact H | discriminate].
    + intros [a [b H]]. left. destruct a; [exists b; exact H | cbn in H; discriminate].
  - rewrite IH. split.
    + intros [[b H] | [a [b H]]]; [exists [], b; exact H | exists (y :: a), b; cbn; rewrite H; reflexivity].
    + intros [a [b H]]. destruct a as [|z a];
        [left; exists b; exact H | right; cbn in H; injection H as Hz H; exists a, b; exact H].
Qed.
Lemma contains_rule_decides seg en cat t :
  cat_pass [{| r_name := seg; r_kind := KContains; r_type := None; r_enabled := en |}] cat t
  = if containsb seg cat then en else true.
Proof. unfold cat_pass, rule_matches. cbn [fold_left r_kind r_name r_type r_enabled]. rewrite andb_true_r. reflexivity. Qed.
Lemma contains_rule_rejects_iff seg en cat t :
  cat_pass [{| r_name := seg; r_kind := KContains; r_type := None; r_enabled := en |}] cat t = false
  <-> en = false /\ exists a b, cat = a ++ seg ++ b.
Proof.
  rewrite contains_rule_decides, <- containsb_iff.
  destruct (containsb seg cat), en; cbn; intuition discriminate.
Qed.
Lemma prefix_rule_rejects_iff nm en cat t :
  cat_pass [{| r_name := nm; r_kind := KPrefix; r_type := None; r_enabled := en |}] cat t = false
  <-> en = false /\ exists b, cat = nm ++ b.
Proof.
  rewrite <- prefixb_iff. unfold cat_pass, rule_matches. cbn [fold_left r_kind r_name r_type r_enabled].
  rewrite andb_true_r. destruct (prefixb nm cat), en; cbn; intuition discriminate.
Qed.
Lemma rx_text_empty r s : emptyb (rx_text r) = true -> rx_match r s = true.
Proof.
  destruct r; cbn [rx_text rx_match].
  - destruct l; [|discriminate]. intros _. destruct s; reflexivity.
  - discriminate.
  - rewrite emptyb_app. cbn. rewrite andb_false_r. discriminate.
Qed.
Lemma filters_pass s m : forallb (filter_pass m) (filters_of s) = passes s m.
Proof.
  unfold filters_of, passes. cbn [slot_handlers].
  destruct (emptyb (rules_text (k_rules s))) eqn:Er.
  - rewrite (rules_text_empty _ Er). cbn [cat_pass fold_left app andb].
    destruct (k_regexp s) as [r|]; [|reflexivity].
    destruct (emptyb (rx_text r)) eqn:Ex; [cbn; symmetry; apply rx_text_empty, Ex|cbn; apply andb_true_r].
  - cbn [app forallb filter_pass]. f_equal.
    destruct (k_regexp s) as [r|]; [|reflexivity].
    destruct (emptyb (rx_text r)) eqn:Ex; [cbn; symmetry; apply rx_text_empty, Ex|cbn; apply andb_true_r].
Qed.
Lemma fmt_apply_of s st m : fmt_apply (formatter_of s) st m = fmt_step s st m.
Proof. unfold formatter_of, fmt_step. destruct (emptyb (pattern_text (k_pattern s))); reflexivity. Qed.

Lemma filter_all (p : out_id -> bool) :
  filter p all_outputs = (if p OStdout then [OStdout] else []) ++ (if p OStderr then [OStderr] else [])
    ++ (if p OPlatform then [OPlatform] else []) ++ (if p OSyslog then [OSyslog] else []) ++ (if p OFile then [OFile] else []).
Proof. unfold all_outputs. cbn [filter]. destruct (p OStdout), (p OStderr), (p OPlatform), (p OSyslog), (p OFile); reflexivity. Qed.
Lemma readb_getb s k d : readb s (k, d) = getb (rawb s k) d.
Proof. unfold readb, getb. cbn [fst snd]. destruct (rawb s k); reflexivity. Qed.
Lemma sinks_events s e m f :
  flat_map (sink_event e m (Some f)) (sinks_of s)
  = map (fun o => (o, render s e o m f)) (filter (configured s) all_outputs).
Proof.
  rewrite filter_all. rewrite !map_app. unfold sinks_of. rewrite !flat_map_app.
  cbn [configured]. f_equal; [|f_equal; [|f_equal; [|f_equal]]].
  - cbn [slot_handlers]. unfold console_slot, want_stdout. cbn [doc_ini i_stdout_en i_stdout_col i_color_on i_color_off].
    rewrite !readb_getb. cbn [rawb]. unfold render.
    destruct (getb (k_stdout s) false), (getb (k_stdout_color s) false); cbn; try reflexivity;
      rewrite ?app_nil_r; destruct (tty_out e); reflexivity.
  - cbn [slot_handlers]. unfold console_slot, want_stderr. cbn [doc_ini i_stderr_en i_stderr_col i_color_on i_color_off].
    rewrite !readb_getb. cbn [rawb]. unfold render.
    destruct (getb (k_stderr s) false), (getb (k_stderr_color s) false); cbn; try reflexivity;
      rewrite ?app_nil_r; destruct (tty_err e); reflexivity.
  - cbn [slot_handlers]. unfold want_platform. cbn [doc_ini i_platform_en i_platform_mode].
    rewrite readb_getb. cbn [rawb]. destruct (getb (k_platform s) true); reflexivity.
  - cbn [slot_handlers]. unfold want_syslog. destruct (emptyb (k_syslog s)); reflexivity.
  - cbn [slot_handlers]. unfold want_file. destruct (emptyb (k_path s)); reflexivity.
Qed.
Lemma shape_is_spec s e : forall ms st,
  shape_events e (filters_of s) (formatter_of s) (sinks_of s) st ms = spec_from s e st ms.
Proof.
  induction ms as [|m r IH]; intros st; [reflexivity|]. cbn [shape_events spec_from].
  rewrite filters_pass. destruct (passes s m); [|apply IH].
  rewrite fmt_apply_of. destruct (fmt_step s st m) as [st' f]. rewrite sinks_events, IH. reflexivity.
Qed.
Theorem ini_run_is_spec s e ms : run e (build_ini doc_ini s) ms = spec_events s e ms.
Proof.
  unfold run, spec_events. rewrite ini_shape. cbn [app].
  change (map (fun h => (h, p0)) (filters_of s ++ formatter_of s :: sinks_of s))
    with (with_st (filters_of s ++ formatter_of s :: sinks_of s)).
  unfold with_st at 1. rewrite map_app. cbn [map].
  fold (with_st (filters_of s)). fold (with_st (sinks_of s)).
  rewrite (shape_eval e _ _ _ (filters_of_ok s) (formatter_of_ok s) (sinks_of_ok s)).
  apply shape_is_spec.
Qed.

(* exactly once per configured output, none elsewhere *)
Lemma project_app o a b : project o (a ++ b) = project o a ++ project o b.
Proof. unfold project. rewrite filter_app, map_app. reflexivity. Qed.
Lemma project_outputs (c : out_id -> bool) (g : out_id -> qstr) o :
  project o (map (fun o' => (o', g o')) (filter c all_outputs)) = if c o then [g o] else [].
Proof.
  rewrite filter_all. unfold project.
  destruct o; destruct (c OStdout), (c OStderr), (c OPlatform), (c OSyslog), (c OFile); reflexivity.
Qed.
Lemma spec_project s e o : forall ms st,
  project o (spec_from s e st ms) =
  if configured s o then map (fun mf => render s e o (fst mf) (snd mf)) (formatted_from s st ms) else [].
Proof.
  induction ms as [|m r IH]; intros st; cbn [spec_from formatted_from].
  - destruct (configured s o); reflexivity.
  - destruct (passes s m); [|apply IH]. destruct (fmt_step s st m) as [st' f].
    rewrite project_app, project_outputs, IH. destruct (configured s o); reflexivity.
Qed.
Theorem ini_configured_output_exactly_once s e ms o : configured s o = true ->
  project o (run e (build_ini doc_ini s) ms)
  = map (fun mf => render s e o (fst mf) (snd mf)) (formatted s ms).
Proof. intros H. rewrite ini_run_is_spec. unfold spec_events. rewrite spec_project, H. reflexivity. Qed.
Theorem ini_no_other_output s e ms o : configured s o = false ->
  project o (run e (build_ini doc_ini s) ms) = [].
Proof. intros H. rewrite ini_run_is_spec. unfold spec_events. rewrite spec_project, H. reflexivity. Qed.
(* every event goes to one of the five outputs, so "no other output exists" is exhaustive *)
Lemma formatted_are_passing s : forall ms st, map fst (formatted_from s st ms) = filter (passes s) ms.
Proof.
  induction ms as [|m r IH]; intros st; cbn [formatted_from filter]; [reflexivity|].
  destruct (passes s m); [|apply IH]. destruct (fmt_step s st m). cbn [map fst]. f_equal. apply IH.
Qed.
Theorem ini_oracle_holds s e ms :
  let evs := run e (build_ini doc_ini s) ms in
  prop_ini_b s e ms (stream_text (project OStdout evs)) (stream_text (stderr_records evs))
             (stream_text (project OFile evs)) = true.
Proof.
  cbn zeta. rewrite ini_run_is_spec. unfold prop_ini_b, spec_stdout, spec_stderr, spec_file.
  assert (R : forall x, seqb x x = true).
  { induction x as [|c t IH]; cbn; [reflexivity|]. rewrite N.eqb_refl, IH. reflexivity. }
  rewrite !R. reflexivity.
Qed.

(* ---- the one-line front-end ---- *)
Definition ol_tail (a : oneline) : list handler :=
  if emptyb (o_path a) then [] else
    [HStrip sgr_class; HFile {| f_path := o_path a; f_rotating := ol_rotating doc_oneline a; f_size := o_size a;
                                f_count := o_count a; f_startup := o_startup a; f_daily := o_daily a;
                                f_compress := o_compress a |}].
Theorem oneline_shape a : build_oneline doc_oneline a = [HPretty true 15; HPlatform CNever] ++ ol_tail a.
Proof.
  unfold build_oneline, ol_tail. cbn [ol_order doc_oneline flat_map oslot_handlers ol_colorize ol_maxcat ol_platform_mode ol_strip_class].
  destruct (emptyb (o_path a)); reflexivity.
Qed.
(* events of the one-line pipeline, message by message *)
Fixpoint ol_events (with_file : bool) (st : pstate) (ms : list msg) : list event :=
  match ms with
  | [] => []
  | m :: r => let (st', txt) := pretty true 15 st m in
              (OPlatform, txt) :: (if with_file then [(OFile, strip_sgr txt)] else []) ++ ol_events with_file st' r
  end.
Lemma oneline_run e a : forall ms st stp st3 st4,
  run_all e ((HPretty true 15, st) :: (HPlatform CNever, stp)
             :: match ol_tail a with [h3; h4] => [(h3, st3); (h4, st4)] | _ => [] end) ms
  = ol_events (negb (emptyb (o_path a))) st ms.
Proof.
  induction ms as [|m r IH]; intros st stp st3 st4; [reflexivity|]. cbn [run_all ol_events].
  unfold ol_tail in *. destruct (emptyb (o_path a)); cbn [negb run_msg hstep].
  - destruct (pretty true 15 st m) as [st' txt]. cbn [shown colors_enabled console_text app].
    specialize (IH st' stp st3 st4). cbn in IH. rewrite IH. reflexivity.
  - destruct (pretty true 15 st m) as [st' txt]. cbn [shown colors_enabled console_text app].
    specialize (IH st' stp st3 st4). cbn in IH. rewrite IH. reflexivity.
Qed.
Lemma oneline_run0 e a ms : run e (build_oneline doc_oneline a) ms = ol_events (negb (emptyb (o_path a))) p0 ms.
Proof.
  unfold run. rewrite oneline_shape. rewrite <- (oneline_run e a ms p0 p0 p0 p0).
  unfold ol_tail. destruct (emptyb (o_path a)); reflexivity.
Qed.
Lemma ol_project_file b : forall ms st,
  project OFile (ol_events b st ms) = if b then map strip_sgr (project OPlatform (ol_events b st ms)) else [].
Proof.
  induction ms as [|m r IH]; intros st; cbn [ol_events]; [destruct b; reflexivity|].
  destruct (pretty true 15 st m) as [st' txt]. specialize (IH st').
  destruct b; unfold project in *; cbn in *; rewrite IH; reflexivity.
Qed.
Lemma ol_project_other b o : o <> OPlatform -> o <> OFile -> forall ms st, project o (ol_events b st ms) = [].
Proof.
  intros H1 H2. induction ms as [|m r IH]; intros st; cbn [ol_events]; [reflexivity|].
  destruct (pretty true 15 st m) as [st' txt]. specialize (IH st').
  destruct o; try contradiction; destruct b; unfold project in *; cbn in *; exact IH.
Qed.
Lemma ol_stderr b : forall ms st, stderr_records (ol_events b st ms) = project OPlatform (ol_events b st ms).
Proof.
  induction ms as [|m r IH]; intros st; cbn [ol_events]; [reflexivity|].
  destruct (pretty true 15 st m) as [st' txt]. specialize (IH st').
  destruct b; unfold stderr_records, project in *; cbn in *; rewrite IH; reflexivity.
Qed.
Theorem oneline_file_is_console_minus_sgr e a ms : emptyb (o_path a) = false ->
  let evs := run e (build_oneline doc_oneline a) ms in
  project OFile evs = map strip_sgr (stderr_records evs)
  /\ stream_text (project OFile evs) = strip_sgr (stream_text (stderr_records evs))
  /\ project OStdout evs = [] /\ project OStderr evs = [] /\ project OSyslog evs = [].
Proof.
  intros Hp. cbn zeta. rewrite oneline_run0, Hp. cbn [negb].
  rewrite ol_stderr. rewrite ol_project_file. repeat split.
  - unfold strip_sgr at 2. rewrite (strip_stream sgr_class sgr_nl). reflexivity.
  - apply ol_project_other; discriminate.
  - apply ol_project_other; discriminate.
  - apply ol_project_other; discriminate.
Qed.
Theorem oneline_no_path_console_only e a ms : emptyb (o_path a) = true ->
  forall o, o <> OPlatform -> project o (run e (build_oneline doc_oneline a) ms) = [].
Proof.
  intros Hp o Ho. rewrite oneline_run0, Hp. cbn [negb]. destruct o; try contradiction.
  - apply ol_project_other; discriminate.
  - apply ol_project_other; discriminate.
  - apply ol_project_other; discriminate.
  - rewrite ol_project_file. reflexivity.
Qed.
Theorem oneline_oracle_holds e a ms : emptyb (o_path a) = false ->
  let evs := run e (build_oneline doc_oneline a) ms in
  prop_oneline_b (stream_text (stderr_records evs)) (stream_text (project OFile evs)) = true.
Proof.
  intros Hp. cbn zeta. destruct (oneline_file_is_console_minus_sgr e a ms Hp) as [_ [E _]].
  unfold prop_oneline_b. rewrite E.
  assert (R : forall x, seqb x x = true).
  { induction x as [|c t IH]; cbn; [reflexivity|]. rewrite N.eqb_refl, IH. reflexivity. }
  apply R.
Qed.
(* with ESC-free message data the file holds exactly the uncoloured PrettyFormatter records *)
Fixpoint plain_records (st : pstate) (ms : list msg) : list qstr :=
  match ms with [] => [] | m :: r => let (st', txt) := pretty false 15 st m in txt :: plain_records st' r end.
Theorem oneline_file_is_plain_pretty e a ms : emptyb (o_path a) = false -> Forall no_esc_msg ms ->
  project OFile (run e (build_oneline doc_oneline a) ms) = plain_records p0 ms.
Proof.
  intros Hp H. rewrite oneline_run0, Hp. cbn [negb]. generalize p0.
  induction H as [|m r Hm Hr IH]; intros st; [reflexivity|]. cbn [ol_events plain_records].
  destruct (strip_pretty 15 st m Hm) as [E1 E2].
  destruct (pretty true 15 st m) as [st' txt]. destruct (pretty false 15 st m) as [st2 txt2].
  cbn [fst snd] in *. subst. unfold project in *. cbn. f_equal. apply IH.
Qed.

(* ================================================================== which file holds which record *)
Lemma chunks_concat (ls : list (list N)) rest : chunks (map (@List.length N) ls) (List.concat ls ++ rest) = ls.
Proof.
  induction ls as [|l t IH]; [reflexivity|]. cbn [map chunks List.concat]. rewrite <- app_assoc.
  rewrite firstn_app, firstn_all, Nat.sub_diag, skipn_app, skipn_all, Nat.sub_diag. cbn [firstn skipn app].
  rewrite app_nil_r, IH. reflexivity.
Qed.
Lemma nsum_lengths (ls : list (list N)) : nsum (map (@List.length N) ls) = List.length (List.concat ls).
Proof. induction ls as [|l t IH]; [reflexivity|]. cbn [map nsum fold_right List.concat]. rewrite app_length. fold (nsum (map (@List.length N) t)). rewrite IH. reflexivity. Qed.
Lemma skipn_concat (ls : list (list N)) rest : skipn (nsum (map (@List.length N) ls)) (List.concat ls ++ rest) = rest.
Proof. rewrite nsum_lengths, skipn_app, skipn_all, Nat.sub_diag. reflexivity. Qed.
Lemma forallb2_obs (rot : list rfile) :
  forallb2 (fun (r : N * nat * nat) c => single_day (fst (fst r)) c)
           (map (fun r : rfile => (fst r, List.length (snd r))) rot) (map snd rot)
  = forallb (fun r : rfile => single_day (fst (fst r)) (snd r)) rot.
Proof. induction rot as [|r t IH]; [reflexivity|]. cbn [map forallb2 forallb fst snd]. rewrite IH. reflexivity. Qed.
Lemma forallb_repeat d n : forallb (N.eqb d) (repeat d n) = true.
Proof. induction n; cbn; [reflexivity|]. rewrite N.eqb_refl. exact IHn. Qed.

Definition want_of (f : fparams) : fwant :=
  {| w_startup := f_startup f; w_daily := f_daily f; w_size := f_size f; w_count := f_count f |}.
(* nothing is lost: the rotated files in order followed by the active file hold all records *)
Definition LInv (all : list N) (s : flay) : Prop := List.concat (map snd (fl_rot s)) ++ fl_active s = all.
Lemma rotate_L c now all s : LInv all s -> LInv all (fl_rotate c now s).
Proof.
  unfold LInv, fl_rotate. intros H. destruct (c =? 1)%Z; [exact H|]. cbn [fl_rot fl_active].
  rewrite map_app, concat_app. cbn [map snd List.concat]. rewrite !app_nil_r. exact H.
Qed.
Lemma send_L f all s d : LInv all s -> LInv (all ++ [d]) (fl_send f s d).
Proof.
  intros H. unfold fl_send.
  destruct (f_daily f && negb (d =? fl_date s) && nonemptyb (fl_active s)).
  - pose proof (rotate_L (f_count f) d all s H) as H'. unfold LInv in *. cbn [fl_rot fl_active].
    rewrite app_assoc, H'. reflexivity.
  - unfold LInv in *. cbn [fl_rot fl_active]. rewrite app_assoc, H. reflexivity.
Qed.
Lemma fold_L f ds : forall all s, LInv all s -> LInv (all ++ ds) (fold_left (fl_send f) ds s).
Proof.
  induction ds as [|d r IH]; intros all s H; cbn [fold_left]; [rewrite app_nil_r; exact H|].
  replace (all ++ d :: r) with ((all ++ [d]) ++ r) by (rewrite <- app_assoc; reflexivity).
  apply IH, send_L, H.
Qed.
Lemma init_L f pre d0 now : LInv pre (fl_init f pre d0 now).
Proof. unfold fl_init. destruct (f_startup f && nonemptyb pre); [apply rotate_L|]; reflexivity. Qed.
Theorem layout_L f npre d0 days : LInv (repeat d0 npre ++ days) (layout f npre d0 days).
Proof.
  unfold layout. destruct (f_rotating f); [|reflexivity]. destruct days as [|d r].
  - unfold LInv. cbn. rewrite app_nil_r. reflexivity.
  - apply fold_L, init_L.
Qed.

(* no rotated file when rotation is disabled or not asked for *)
Definition rot_off (f : fparams) : Prop := f_count f = 1%Z \/ (f_startup f = false /\ f_daily f = false).
Lemma send_off f s d : rot_off f -> fl_rot s = [] -> fl_rot (fl_send f s d) = [].
Proof.
  intros [E|[_ E]] H; unfold fl_send.
  - destruct (f_daily f && negb (d =? fl_date s) && nonemptyb (fl_active s)); [|exact H].
    unfold fl_rotate. rewrite E. exact H.
  - rewrite E. exact H.
Qed.
Lemma fold_off f ds : rot_off f -> forall s, fl_rot s = [] -> fl_rot (fold_left (fl_send f) ds s) = [].
Proof. intros Ho. induction ds as [|d r IH]; intros s H; cbn [fold_left]; [exact H|]. apply IH, send_off; assumption. Qed.
Lemma init_off f pre d0 now : rot_off f -> fl_rot (fl_init f pre d0 now) = [].
Proof.
  intros [E|[E _]]; unfold fl_init.
  - destruct (f_startup f && nonemptyb pre); [|reflexivity]. unfold fl_rotate. rewrite E. reflexivity.
  - rewrite E. reflexivity.
Qed.
Theorem layout_off f npre d0 days : f_rotating f = false \/ rot_off f -> fl_rot (layout f npre d0 days) = [].
Proof.
  unfold layout. intros [E|Ho]; [rewrite E; reflexivity|].
  destruct (f_rotating f); [|reflexivity]. destruct days as [|d r]; [reflexivity|].
  apply fold_off; [exact Ho|]. apply init_off, Ho.
Qed.

(* daily: every rotated file holds the lines of one day and is named after it; the active file
   holds the lines of m_currentLogDate only *)
Definition DInv (s : flay) : Prop :=
  forallb (fun r : rfile => single_day (fst (fst r)) (snd r)) (fl_rot s) = true
  /\ forallb (N.eqb (fl_date s)) (fl_active s) = true.
Lemma send_D f s d : f_daily f = true -> f_count f <> 1%Z -> DInv s -> (fl_active s = [] -> fl_date s = d) ->
  DInv (fl_send f s d) /\ fl_active (fl_send f s d) <> [].
Proof.
  intros Hd Hc [H1 H2] Hg. unfold fl_send. rewrite Hd. cbn [andb].
  destruct (d =? fl_date s) eqn:Ed; cbn [negb andb].
  - apply N.eqb_eq in Ed. subst d. split; [|destruct (fl_active s); discriminate].
    split; cbn [fl_rot fl_active fl_date]; [exact H1|]. rewrite forallb_app, H2. cbn. rewrite N.eqb_refl. reflexivity.
  - destruct (fl_active s) as [|x t] eqn:Ea; cbn [nonemptyb].
    + specialize (Hg eq_refl). subst d. rewrite N.eqb_refl in Ed. discriminate.
    + unfold fl_rotate. apply Z.eqb_neq in Hc. rewrite Hc. cbn [fl_rot fl_active fl_date app].
      split; [|intros E; discriminate]. split; cbn [fl_rot fl_active fl_date].
      * rewrite forallb_app, H1. cbn [forallb fst snd andb]. unfold single_day. rewrite Ea. cbn [nonemptyb andb].
        rewrite H2. reflexivity.
      * cbn. rewrite N.eqb_refl. reflexivity.
Qed.
Lemma fold_D f ds : f_daily f = true -> f_count f <> 1%Z -> forall s, DInv s -> fl_active s <> [] ->
  DInv (fold_left (fl_send f) ds s).
Proof.
  intros Hd Hc. induction ds as [|d r IH]; intros s H Hn; cbn [fold_left]; [exact H|].
  destruct (send_D f s d Hd Hc H) as [H' Hn']; [intros E; contradiction|]. apply IH; assumption.
Qed.
Lemma init_D f npre d0 now : f_count f <> 1%Z ->
  let s := fl_init f (repeat d0 npre) d0 now in DInv s /\ (fl_active s = [] -> fl_date s = now).
Proof.
  intros Hc. unfold fl_init. destruct npre as [|n].
  - cbn [repeat nonemptyb]. rewrite andb_false_r. split; [split; reflexivity|reflexivity].
  - change (nonemptyb (repeat d0 (S n))) with true. rewrite andb_true_r.
    destruct (f_startup f).
    + unfold fl_rotate. apply Z.eqb_neq in Hc. rewrite Hc. cbn [fl_rot fl_active fl_date app]. split; [|reflexivity].
      split; [|reflexivity]. cbn [fl_rot forallb fst snd]. unfold single_day.
      change (nonemptyb (repeat d0 (S n))) with true. rewrite forallb_repeat. reflexivity.
    + cbn [fl_rot fl_active fl_date]. split; [|discriminate]. split; [reflexivity|apply forallb_repeat].
Qed.
Theorem layout_D f npre d0 days : f_rotating f = true -> f_daily f = true -> f_count f <> 1%Z ->
  DInv (layout f npre d0 days).
Proof.
  intros Hr Hd Hc. unfold layout. rewrite Hr. destruct days as [|d r].
  - split; [reflexivity|]. apply forallb_repeat.
  - cbn [fold_left]. destruct (init_D f npre d0 d Hc) as [H Hg].
    destruct (send_D f _ d Hd Hc H Hg) as [H' Hn]. apply fold_D; assumption.
Qed.

(* rotated files are only ever added at the end *)
Lemma send_ext f s d : exists ext, fl_rot (fl_send f s d) = fl_rot s ++ ext.
Proof.
  unfold fl_send. destruct (f_daily f && negb (d =? fl_date s) && nonemptyb (fl_active s)).
  - unfold fl_rotate. destruct (f_count f =? 1)%Z; cbn [fl_rot]; [exists []; rewrite app_nil_r; reflexivity|].
    eexists. reflexivity.
  - exists []. rewrite app_nil_r. reflexivity.
Qed.
Lemma fold_ext f ds : forall s, exists ext, fl_rot (fold_left (fl_send f) ds s) = fl_rot s ++ ext.
Proof.
  induction ds as [|d r IH]; intros s; cbn [fold_left]; [exists []; rewrite app_nil_r; reflexivity|].
  destruct (IH (fl_send f s d)) as [e1 E1]. destruct (send_ext f s d) as [e2 E2].
  exists (e2 ++ e1). rewrite E1, E2, app_assoc. reflexivity.
Qed.
(* the lines found at start are the first rotated file, named after their day, index 1, when startup
   rotation is on - and ALSO when only daily rotation is on and the first message is of another day *)
Theorem old_lines_rotated_out f npre d0 d r : f_rotating f = true -> f_count f <> 1%Z -> (0 < npre)%nat ->
  f_startup f = true \/ (f_daily f = true /\ d <> d0) ->
  hd_error (fl_rot (layout f npre d0 (d :: r))) = Some (d0, 1%nat, repeat d0 npre).
Proof.
  intros Hr Hc Hn Hw. unfold layout. rewrite Hr. cbn [fold_left].
  destruct npre as [|n]; [inversion Hn|]. apply Z.eqb_neq in Hc.
  assert (E : exists ext, fl_rot (fl_send f (fl_init f (repeat d0 (S n)) d0 d) d) = (d0, 1%nat, repeat d0 (S n)) :: ext).
  { unfold fl_init. change (nonemptyb (repeat d0 (S n))) with true. rewrite andb_true_r.
    destruct (f_startup f) eqn:Es.
    - unfold fl_rotate at 1. rewrite Hc. cbn [fl_rot fl_active fl_date app].
      match goal with |- context [fl_send f ?st d] => destruct (send_ext f st d) as [e E] end.
      cbn [fl_rot] in E. exists e. rewrite E. reflexivity.
    - destruct Hw as [Hw|[Hd Hne]]; [discriminate|]. unfold fl_send. cbn [fl_date fl_active fl_rot]. rewrite Hd.
      apply N.eqb_neq in Hne. rewrite Hne. change (nonemptyb (repeat d0 (S n))) with true. cbn [andb negb].
      unfold fl_rotate. rewrite Hc. cbn [fl_rot fl_active fl_date app]. eexists. reflexivity. }
  destruct E as [e E]. destruct (fold_ext f r (fl_send f (fl_init f (repeat d0 (S n)) d0 d) d)) as [e2 E2].
  rewrite E2, E. reflexivity.
Qed.

(* the layout oracle holds of the model whenever the plain sink is only chosen when no rotation
   option is given *)
Theorem layout_oracle_holds f npre d0 days :
  (f_rotating f = false -> f_startup f = false /\ f_daily f = false) ->
  prop_layout_b (want_of f) npre d0 days (lay_obs (layout f npre d0 days)) = true.
Proof.
  intros Hplain. pose proof (layout_L f npre d0 days) as HL. unfold LInv in HL.
  set (s := layout f npre d0 days) in *. unfold prop_layout_b, lay_obs. cbn [fst snd].
  rewrite map_map. cbn [snd].
  assert (Em : map (fun x : rfile => List.length (snd x)) (fl_rot s) = map (@List.length N) (map snd (fl_rot s)))
    by (rewrite map_map; reflexivity).
  rewrite Em. rewrite <- HL.
  rewrite skipn_concat, chunks_concat, nsum_lengths, app_length, Nat.eqb_refl. cbn [andb].
  rewrite forallb2_obs.
  apply andb_true_iff. split; [apply andb_true_iff; split|].
  - unfold rotation_off, want_of. cbn [w_count w_startup w_daily w_size].
    destruct ((f_count f =? 1)%Z) eqn:Ec; cbn [orb].
    + apply Z.eqb_eq in Ec. unfold s. rewrite layout_off; [reflexivity|]. right. left. exact Ec.
    + destruct (negb (f_startup f) && negb (f_daily f) && (f_size f <=? 0)%Z) eqn:En; [|reflexivity].
      apply andb_true_iff in En as [En _]. apply andb_true_iff in En as [E1 E2].
      apply negb_true_iff in E1, E2. unfold s. rewrite layout_off; [reflexivity|]. right. right. split; assumption.
  - unfold want_of. cbn [w_daily w_count].
    destruct (f_daily f) eqn:Ed; cbn [andb]; [|reflexivity].
    destruct ((f_count f =? 1)%Z) eqn:Ec; cbn [negb]; [reflexivity|]. apply Z.eqb_neq in Ec.
    destruct (f_rotating f) eqn:Er; [|destruct (Hplain eq_refl) as [_ E]; discriminate].
    destruct (layout_D f npre d0 days Er Ed Ec) as [H1 H2]. fold s in H1, H2. rewrite H1. cbn [andb].
    destruct (fl_active s) as [|x t]; [reflexivity|]. cbn [forallb] in H2. apply andb_true_iff in H2 as [Hx Ht].
    apply N.eqb_eq in Hx. subst x. cbn [forallb]. rewrite N.eqb_refl, Ht. reflexivity.
  - unfold want_of. cbn [w_startup w_count].
    destruct (f_startup f) eqn:Es; cbn [andb]; [|reflexivity].
    destruct ((f_count f =? 1)%Z) eqn:Ec; cbn [negb andb]; [reflexivity|]. apply Z.eqb_neq in Ec.
    destruct (Nat.ltb 0 npre) eqn:En; cbn [andb]; [|reflexivity]. apply Nat.ltb_lt in En.
    destruct days as [|d r]; cbn [nonemptyb]; [reflexivity|].
    destruct (f_rotating f) eqn:Er; [|destruct (Hplain eq_refl) as [E _]; discriminate].
    pose proof (old_lines_rotated_out f npre d0 d r Er Ec En (or_introl Es)) as H. fold s in H.
    destruct (fl_rot s) as [|x t]; [discriminate|]. cbn [hd_error] in H. injection H as H. subst x.
    cbn [map fst snd]. rewrite N.eqb_refl, repeat_length, Nat.eqb_refl. reflexivity.
Qed.

(* the two front-ends: the sink each builds satisfies what its options say *)
Lemma ol_want_of a : want_of (ol_fparams doc_oneline a) = ol_want a.
Proof. reflexivity. Qed.
Lemma ini_want_of s : want_of (ini_fparams doc_ini s) = ini_want s.
Proof.
  unfold want_of, ini_fparams, ini_want. cbn [f_startup f_daily f_size f_count doc_ini i_startup i_daily i_max_size i_max_count].
  rewrite !readb_getb. reflexivity.
Qed.
Theorem oneline_layout_ok a npre d0 days :
  prop_layout_b (ol_want a) npre d0 days (lay_obs (layout (ol_fparams doc_oneline a) npre d0 days)) = true.
Proof.
  rewrite <- ol_want_of. apply layout_oracle_holds. cbn [f_rotating f_startup f_daily ol_fparams].
  unfold ol_rotating. cbn [doc_oneline ol_rot_size ol_rot_startup ol_rot_daily andb]. intros H.
  apply orb_false_iff in H as [H H2]. apply orb_false_iff in H as [_ H1]. split; assumption.
Qed.
Theorem ini_layout_ok s npre d0 days :
  prop_layout_b (ini_want s) npre d0 days (lay_obs (layout (ini_fparams doc_ini s) npre d0 days)) = true.
Proof. rewrite <- ini_want_of. apply layout_oracle_holds. discriminate. Qed.
(* the built handler lists contain exactly that sink *)
Definition is_file (h : handler) : bool := match h with HFile _ => true | _ => false end.
Lemma oneline_file_sink a : emptyb (o_path a) = false ->
  filter is_file (build_oneline doc_oneline a) = [HFile (ol_fparams doc_oneline a)].
Proof. intros H. rewrite oneline_shape. unfold ol_tail. rewrite H. reflexivity. Qed.
Lemma ini_file_sink s : emptyb (k_path s) = false ->
  filter is_file (build_ini doc_ini s) = [HFile (ini_fparams doc_ini s)].
Proof.
  intros H. rewrite ini_shape. rewrite !filter_app.
  assert (E1 : filter is_file (filters_of s) = []).
  { unfold filters_of. cbn [slot_handlers].
    destruct (emptyb (rules_text (k_rules s))); destruct (k_regexp s) as [r|]; try destruct (emptyb (rx_text r)); reflexivity. }
  assert (E2 : filter is_file [formatter_of s] = []).
  { unfold formatter_of. destruct (emptyb (pattern_text (k_pattern s))); reflexivity. }
  rewrite E1, E2. unfold sinks_of. cbn [slot_handlers]. unfold console_slot. rewrite H.
  repeat match goal with |- context [if ?c then _ else _] => destruct c end; reflexivity.
Qed.

(* ================================================================== several PrettyFormatter objects *)
Lemma upd_length {A : Type} k (x : A) l : List.length (upd k x l) = List.length l.
Proof. revert k; induction l as [|h t IH]; intros [|k]; cbn; auto. Qed.
Lemma nth_error_upd_same {A : Type} k (x y : A) l : nth_error l k = Some y -> nth_error (upd k x l) k = Some x.
Proof. revert k; induction l as [|h t IH]; intros [|k]; cbn; try discriminate; auto. Qed.
Lemma nth_error_upd_other {A : Type} j k (x : A) l : j <> k -> nth_error (upd j x l) k = nth_error l k.
Proof.
  revert j k; induction l as [|h t IH]; intros [|j] [|k] H; cbn; try reflexivity; try congruence.
  apply IH. congruence.
Qed.
Lemma seqb_refl x : seqb x x = true.
Proof. induction x as [|c r IH]; cbn; [reflexivity|]. rewrite N.eqb_refl, IH. reflexivity. Qed.
Lemma seqb_eq a b : seqb a b = true -> a = b.
Proof.
  revert b; induction a as [|x a IH]; intros [|y b]; cbn; try discriminate; [reflexivity|].
  intros H. apply andb_true_iff in H as [H1 H2]. apply N.eqb_eq in H1. apply IH in H2. congruence.
Qed.
Lemma lseqb_refl l : lseqb l l = true.
Proof. induction l as [|x r IH]; cbn; [reflexivity|]. rewrite seqb_refl, IH. reflexivity. Qed.
Lemma lseqb_eq a b : lseqb a b = true -> a = b.
Proof.
  revert b; induction a as [|x a IH]; intros [|y b]; cbn; try discriminate; [reflexivity|].
  intros H. apply andb_true_iff in H as [H1 H2]. apply seqb_eq in H1. apply IH in H2. congruence.
Qed.
Lemma out_of_cons_same k s r : out_of k ((k, s) :: r) = s :: out_of k r.
Proof. unfold out_of. cbn [filter fst]. rewrite Nat.eqb_refl. reflexivity. Qed.
Lemma out_of_cons_other j k s r : j <> k -> out_of k ((j, s) :: r) = out_of k r.
Proof. intros H. unfold out_of. cbn [filter fst]. apply Nat.eqb_neq in H. rewrite H. reflexivity. Qed.
Lemma seen_by_cons_same k m r : seen_by k ((k, m) :: r) = m :: seen_by k r.
Proof. unfold seen_by. cbn [filter fst]. rewrite Nat.eqb_refl. reflexivity. Qed.
Lemma seen_by_cons_other j k m r : j <> k -> seen_by k ((j, m) :: r) = seen_by k r.
Proof. intros H. unfold seen_by. cbn [filter fst]. apply Nat.eqb_neq in H. rewrite H. reflexivity. Qed.

(* the records of object k are those of ONE formatter run over the messages delivered to object k,
   from whatever states the objects are in *)
Theorem multi_run_object cfgs ops : forall sts k c w st,
  nth_error cfgs k = Some (c, w) -> nth_error sts k = Some st ->
  out_of k (multi_run cfgs sts ops) = pretty_seq c w st (seen_by k ops).
Proof.
  induction ops as [|[j m] r IH]; intros sts k c w st Hc Hs; [reflexivity|].
  cbn [multi_run]. unfold multi_step. cbn [fst snd]. unfold pcfg in *.
  destruct (Nat.eq_dec j k) as [E|E].
  - subst j. rewrite Hc, Hs. destruct (pretty c w st m) as [st' s] eqn:P.
    cbn [app]. rewrite out_of_cons_same, seen_by_cons_same. cbn [pretty_seq]. rewrite P. f_equal.
    apply IH; [exact Hc|]. eapply nth_error_upd_same. exact Hs.
  - rewrite (seen_by_cons_other j k m r E).
    destruct (nth_error cfgs j) as [[c' w']|]; [destruct (nth_error sts j) as [stj|] eqn:Hj|].
    + destruct (pretty c' w' stj m) as [st' s]. cbn [app]. rewrite (out_of_cons_other j k s _ E).
      apply IH; [exact Hc|]. rewrite nth_error_upd_other by exact E. exact Hs.
    + cbn [app]. apply IH; assumption.
    + cbn [app]. apply IH; assumption.
Qed.
Theorem multi_object_own_sequence cfgs ops k c w :
  nth_error cfgs k = Some (c, w) ->
  out_of k (multi cfgs ops) = pretty_seq c w p0 (seen_by k ops).
Proof.
  intros Hc. unfold multi. apply multi_run_object; [exact Hc|].
  apply (map_nth_error (fun _ : pcfg => p0) k cfgs Hc).
Qed.
(* what the OTHER objects were given - and in which interleaving - does not matter *)
Theorem multi_object_independent cfgs ops ops' k :
  (k < List.length cfgs)%nat -> seen_by k ops = seen_by k ops' ->
  out_of k (multi cfgs ops) = out_of k (multi cfgs ops').
Proof.
  intros Hk E. destruct (nth_error cfgs k) as [[c w]|] eqn:Hc.
  - rewrite (multi_object_own_sequence cfgs ops k c w Hc), (multi_object_own_sequence cfgs ops' k c w Hc), E. reflexivity.
  - apply nth_error_None in Hc. lia.
Qed.
Lemma multi_run_ids cfgs ops : forall sts,
  forallb (fun o : nat * qstr => Nat.ltb (fst o) (List.length cfgs)) (multi_run cfgs sts ops) = true.
Proof.
  induction ops as [|[j m] r IH]; intros sts; [reflexivity|].
  cbn [multi_run]. unfold multi_step. cbn [fst snd].
  destruct (nth_error cfgs j) as [[c' w']|] eqn:Hj; [destruct (nth_error sts j) as [stj|]|].
  - destruct (pretty c' w' stj m) as [st' s]. cbn [app forallb fst]. rewrite IH, andb_true_r.
    apply Nat.ltb_lt. apply nth_error_Some. congruence.
  - cbn [app]. apply IH.
  - cbn [app]. apply IH.
Qed.
(* the model satisfies the oracle; the oracle says what it should *)
Theorem multi_satisfies_oracle cfgs ops : prop_multi_b cfgs ops (multi cfgs ops) = true.
Proof.
  unfold prop_multi_b. apply andb_true_iff. split; [apply multi_run_ids|].
  apply forallb_forall. intros k Hk. apply in_seq in Hk.
  destruct (nth_error cfgs k) as [[c w]|] eqn:Hc.
  - rewrite (multi_object_own_sequence cfgs ops k c w Hc). apply lseqb_refl.
  - apply nth_error_None in Hc. lia.
Qed.
Theorem multi_oracle_sound cfgs ops outs : prop_multi_b cfgs ops outs = true ->
  forall k c w, nth_error cfgs k = Some (c, w) -> out_of k outs = pretty_seq c w p0 (seen_by k ops).
Proof.
  unfold prop_multi_b. intros H k c w Hc. apply andb_true_iff in H as [_ H].
  rewrite forallb_forall in H. specialize (H k).
  assert (Hk : In k (seq 0 (List.length cfgs))).
  { apply in_seq. split; [lia|]. cbn. apply nth_error_Some. congruence. }
  specialize (H Hk). rewrite Hc in H. apply lseqb_eq. exact H.
Qed.
