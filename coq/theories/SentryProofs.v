(* C18 — lemmas about the Sentry event model of SentryDefs.v.  A configuration that passes the
   decidable check [sentry_cfg_goodb] IS the specified configuration (up to the two sdk strings), so
   the results are proved for [spec_cfg] and transported. *)
From Coq Require Import List NArith ZArith Bool Lia ZifyN FinFun Arith.
Require Import QtlVerif.JsonDefs QtlVerif.JsonProofs QtlVerif.SentryDefs.
Import ListNotations.
Local Open Scope N_scope.
Ltac Zify.zify_post_hook ::= Z.div_mod_to_equations.

(* ---------- a good configuration is the specified one ---------- *)
Lemma list_eqb_eq {A} (eqb : A -> A -> bool) : (forall a b, eqb a b = true -> a = b) ->
  forall l1 l2, list_eqb eqb l1 l2 = true -> l1 = l2.
Proof.
  intros H. induction l1 as [|x l1 IH]; intros [|y l2] E; cbn in E; try discriminate; [reflexivity|].
  apply andb_prop in E as [E1 E2]. f_equal; [apply H, E1|apply IH, E2].
Qed.
Lemma slot_eqb_eq a b : slot_eqb a b = true -> a = b.
Proof. destruct a, b; cbn; intros H; try reflexivity; discriminate. Qed.
Lemma route_eqb_eq a b : route_eqb a b = true -> a = b.
Proof.
  destruct a as [s1 [n1 k1]], b as [s2 [n2 k2]]. unfold route_eqb. cbn [fst snd]. intros H.
  apply andb_prop in H as [H H3]. apply andb_prop in H as [H1 H2].
  apply slot_eqb_eq in H1. apply seqb_eq in H2. apply seqb_eq in H3. subst. reflexivity.
Qed.
Lemma cfg_good_spec cfg : sentry_cfg_goodb cfg = true ->
  cfg = spec_cfg (sdk_name cfg) (sdk_version cfg) /\ units (sdk_name cfg) /\ units (sdk_version cfg).
Proof.
  destruct cfg as [ln ld rt sk cut fpf mf le ldf sn sv]. unfold sentry_cfg_goodb. cbn [level_names level_default routes skipped fp_cut
    fp_formatted msg_formatted logger_unless_empty logger_unless_default sdk_name sdk_version]. intros H.
  apply andb_prop in H as [H Hsv]. apply andb_prop in H as [H Hsn]. apply andb_prop in H as [H Hld]. apply andb_prop in H as [H Hle].
  apply andb_prop in H as [H Hmf]. apply andb_prop in H as [H Hfp]. apply andb_prop in H as [H Hcut]. apply andb_prop in H as [H Hsk].
  apply andb_prop in H as [H Hrt]. apply andb_prop in H as [Hln Hd].
  apply (list_eqb_eq _ route_eqb_eq) in Hrt. apply (list_eqb_eq _ seqb_eq) in Hsk. apply seqb_eq in Hd. apply Nat.eqb_eq in Hcut.
  apply negb_true_iff in Hfp. apply negb_true_iff in Hmf.
  assert (Hln' : ln = level_names (spec_cfg [] [])).
  { revert Hln. apply list_eqb_eq. intros [a1 a2] [b1 b2] E. cbn [fst snd] in E. apply andb_prop in E as [E1 E2].
    apply N.eqb_eq in E1. apply seqb_eq in E2. subst. reflexivity. }
  subst. split; [reflexivity|]. split; apply unitsb_units; assumption.
Qed.

(* ---------- level names ---------- *)
Lemma spec_level_name sdkn sdkv t : level_name (spec_cfg sdkn sdkv) t = spec_level t.
Proof.
  unfold level_name, spec_cfg, level_names, level_default. cbn [assoc_n].
  destruct (N.eqb_spec t 0) as [->|]; [reflexivity|]. destruct (N.eqb_spec t 4) as [->|]; [reflexivity|].
  destruct (N.eqb_spec t 1) as [->|]; [reflexivity|]. destruct (N.eqb_spec t 2) as [->|]; [reflexivity|].
  destruct (N.eqb_spec t 3) as [->|]; [reflexivity|].
  unfold spec_level. repeat match goal with |- context [?a =? ?b] => destruct (N.eqb_spec a b); [congruence|] end. reflexivity.
Qed.
Lemma spec_level_units t : units (spec_level t).
Proof. unfold spec_level. repeat (destruct (_ =? _); [unfold units; repeat (apply Forall_cons; [lia|]); apply Forall_nil|]).
  unfold units; repeat (apply Forall_cons; [lia|]); apply Forall_nil. Qed.

(* ---------- 128-bit ids ---------- *)
Lemma hexn_length n : forall x, length (hexn n x) = n.
Proof. induction n as [|n IH]; intros x; [reflexivity|]. cbn [hexn]. rewrite app_length, IH. cbn. lia. Qed.
Lemma hexd_hexdigit k : k < 16 -> is_hexdigit (hexd k) = true.
Proof.
  intros H. unfold hexd, is_hexdigit. destruct (N.ltb_spec k 10).
  - apply orb_true_iff. left. apply andb_true_iff. split; apply N.leb_le; lia.
  - apply orb_true_iff. right. apply andb_true_iff. split; apply N.leb_le; lia.
Qed.
Lemma hexn_digits n : forall x, forallb is_hexdigit (hexn n x) = true.
Proof.
  induction n as [|n IH]; intros x; [reflexivity|]. cbn [hexn]. rewrite forallb_app, IH. cbn [forallb].
  rewrite hexd_hexdigit by (apply N.mod_lt; lia). reflexivity.
Qed.
Theorem id_hex32 x : is_hex32 (id128_hex x) = true.
Proof. unfold is_hex32, id128_hex. rewrite hexn_length, hexn_digits. reflexivity. Qed.
Lemma hexd_inj a b : a < 16 -> b < 16 -> hexd a = hexd b -> a = b.
Proof. intros Ha Hb E. pose proof (unhex_hexd a Ha) as Ua. pose proof (unhex_hexd b Hb) as Ub. rewrite E in Ua. congruence. Qed.
Lemma hexn_inj n : forall x y, hexn n x = hexn n y -> x mod 16 ^ N.of_nat n = y mod 16 ^ N.of_nat n.
Proof.
  induction n as [|n IH]; intros x y E; [cbn; rewrite !N.mod_1_r; reflexivity|].
  cbn [hexn] in E. apply app_inj_tail in E as [E1 E2].
  apply hexd_inj in E2; [|apply N.mod_lt; lia|apply N.mod_lt; lia]. apply IH in E1.
  rewrite Nat2N.inj_succ, N.pow_succ_r'. rewrite !N.mod_mul_r by (try apply N.pow_nonzero; lia). rewrite E1, E2. reflexivity.
Qed.
Theorem id_injective x y : x < 2 ^ 128 -> y < 2 ^ 128 -> id128_hex x = id128_hex y -> x = y.
Proof.
  intros Hx Hy E. apply hexn_inj in E. change (16 ^ N.of_nat 32) with (2 ^ 128) in E.
  rewrite !N.mod_small in E by assumption. exact E.
Qed.

(* ---------- the event: distinct top-level keys, lookup through the key sort ---------- *)
Section Event.
Variables (sdkn sdkv qtver eid : str) (m : smsg).
Let cfg := spec_cfg sdkn sdkv.
Let E := sentry_members cfg qtver eid m.
Definition event_members : list (str * json) := go E [].
Lemma event_sorted : sort_keys (sentry_event cfg qtver eid m) = JObj event_members.
Proof. reflexivity. Qed.

Lemma event_keys_nodup : NoDup (map fst E).
Proof.
  unfold E, sentry_members, ev_logger, ev_culprit.
  repeat match goal with |- context [if ?c then [] else _] => destruct c end; apply nodupb_NoDup; vm_compute; reflexivity.
Qed.
Lemma look_event k v : In (k, v) E -> look k event_members = Some (sort_keys v).
Proof. intros H. unfold event_members. rewrite look_go. apply last_val_unique; [apply event_keys_nodup|exact H]. Qed.
Lemma look_event_none k : has_key k E = false -> look k event_members = None.
Proof. intros H. unfold event_members. rewrite look_go. apply last_val_absent, has_key_false, H. Qed.

Theorem ev_level : look k_level event_members = Some (JStr (spec_level (mtype (s_msg m)))).
Proof.
  rewrite (look_event k_level (JStr (level_name cfg (mtype (s_msg m))))); [unfold cfg; rewrite spec_level_name; reflexivity|].
  unfold E, sentry_members. apply in_or_app. left. cbn. tauto.
Qed.
Theorem ev_timestamp : look k_timestamp event_members = Some (JStr (iso_utc (s_time_ms m))).
Proof. rewrite (look_event k_timestamp (JStr (iso_utc (s_time_ms m)))); [reflexivity|]. unfold E, sentry_members. apply in_or_app. left. cbn. tauto. Qed.
Theorem ev_event_id : look k_event_id event_members = Some (JStr eid).
Proof. rewrite (look_event k_event_id (JStr eid)); [reflexivity|]. unfold E, sentry_members. apply in_or_app. left. cbn. tauto. Qed.
Theorem ev_message : get2 event_members k_message k_formatted = Some (JStr (s_text m)).
Proof.
  unfold get2. rewrite (look_event k_message (JObj [(k_formatted, JStr (s_text m))])); [reflexivity|].
  unfold E, sentry_members. apply in_or_app. right. apply in_or_app. right. apply in_or_app. left. cbn. tauto.
Qed.
Theorem ev_fingerprint_ok : look k_fingerprint event_members
  = Some (JArr [JStr (spec_level (mtype (s_msg m))); JStr (fp_category m); JStr (firstn 100 (s_text m))]).
Proof.
  rewrite (look_event k_fingerprint (ev_fingerprint cfg m)).
  - unfold ev_fingerprint, cfg. rewrite spec_level_name. reflexivity.
  - unfold E, sentry_members. do 4 (apply in_or_app; right). cbn. tauto.
Qed.
(* logger: present, with the category, iff the category is neither empty nor "default" *)
Theorem ev_logger_rule :
  (is_nil (s_cat m) || seqb (s_cat m) s_default = true -> look k_logger event_members = None)
  /\ (is_nil (s_cat m) || seqb (s_cat m) s_default = false -> look k_logger event_members = Some (JStr (s_cat m))).
Proof.
  split; intros H.
  - apply look_event_none. unfold E, sentry_members, ev_logger, ev_culprit, cfg. cbn [logger_unless_empty logger_unless_default spec_cfg andb].
    rewrite H. destruct (is_nil (cstr (mfunc (s_msg m)))); reflexivity.
  - rewrite (look_event k_logger (JStr (s_cat m))); [reflexivity|].
    unfold E, sentry_members, ev_logger, cfg. cbn [logger_unless_empty logger_unless_default spec_cfg andb]. rewrite H.
    apply in_or_app. right. apply in_or_app. left. cbn. tauto.
Qed.

(* ---------- attribute conservation ---------- *)
Lemma look_last_split k v pre post : has_key k post = false -> look_last k (pre ++ (k, v) :: post) = Some v.
Proof.
  intros H. unfold look_last. rewrite rev_app_distr. cbn [List.rev]. rewrite <- app_assoc. cbn [app].
  assert (G : forall l r, not_key k l -> look k (l ++ (k, v) :: r) = Some v).
  { induction l as [|[k' v'] l IH]; intros r Hn.
    - rewrite app_nil_l. cbn [look]. rewrite seqb_refl. reflexivity.
    - rewrite <- app_comm_cons. cbn [look]. inversion Hn as [|? ? Hk Hl]; subst. cbn [fst] in Hk.
      destruct (seqb_spec k k') as [->|]; [contradiction|]. apply IH, Hl. }
  apply G. apply has_key_false in H. unfold not_key in *. rewrite Forall_forall in *. intros x Hx. apply H. apply in_rev. exact Hx.
Qed.
Lemma look_extra : look k_extra event_members = Some (JObj (go (ev_extra cfg m) [])).
Proof.
  rewrite (look_event k_extra (JObj (ev_extra cfg m))); [reflexivity|].
  unfold E, sentry_members. do 4 (apply in_or_app; right). cbn. tauto.
Qed.
Lemma look_tags : look k_tags event_members = Some (JObj (go (ev_tags cfg qtver m) [])).
Proof.
  rewrite (look_event k_tags (JObj (ev_tags cfg qtver m))); [reflexivity|].
  unfold E, sentry_members. do 4 (apply in_or_app; right). cbn. tauto.
Qed.
Lemma look_contexts : look k_contexts event_members = Some (JObj (go (ev_contexts cfg qtver m) [])).
Proof.
  rewrite (look_event k_contexts (JObj (ev_contexts cfg qtver m))); [reflexivity|].
  unfold E, sentry_members. do 4 (apply in_or_app; right). cbn. tauto.
Qed.
Lemma skipped_is_routed k : is_skipped cfg k = is_routed k. Proof. reflexivity. Qed.
Lemma not_key_filter k (f : str * json -> bool) l : not_key k l -> not_key k (filter f l).
Proof. unfold not_key. rewrite !Forall_forall. intros H x Hx. apply filter_In in Hx as [Hx _]. apply H, Hx. Qed.

(* a name that is not routed: under extra, with its value *)
Theorem other_attribute_in_extra k v pre post : s_attrs m = pre ++ (k, v) :: post -> has_key k post = false ->
  is_routed k = false -> get2 event_members k_extra k = Some (sort_keys v).
Proof.
  intros Ea Hk Hr. unfold get2. rewrite look_extra. rewrite look_go. unfold ev_extra. rewrite !last_val_app. rewrite Ea, filter_app.
  cbn [filter fst]. rewrite skipped_is_routed, Hr. cbn [negb]. apply last_val_last. apply not_key_filter, has_key_false, Hk.
Qed.
(* a routed name never appears under extra *)
Theorem routed_not_in_extra k : is_routed k = true -> get2 event_members k_extra k = None.
Proof.
  intros Hr. unfold get2. rewrite look_extra, look_go. apply last_val_absent. unfold ev_extra.
  assert (Hf : not_key k (filter (fun kv => negb (is_skipped cfg (fst kv))) (s_attrs m))).
  { unfold not_key. rewrite Forall_forall. intros [k' v'] Hx E'. cbn [fst] in E'. subst k'. apply filter_In in Hx as [_ Hx].
    cbn [fst] in Hx. rewrite skipped_is_routed, Hr in Hx. discriminate. }
  unfold not_key in *. repeat (apply Forall_app; split); try exact Hf.
  - constructor; [|constructor]. cbn [fst]. intros <-. discriminate.
  - destruct (is_nil _); constructor; [|constructor]. cbn [fst]. intros <-. discriminate.
  - constructor; [|constructor]. cbn [fst]. intros <-. discriminate.
Qed.
End Event.

(* ---------- routed attributes: each in its dedicated slot, as a string ---------- *)
Section Routed.
Variables (sdkn sdkv qtver eid : str) (m : smsg).
Let cfg := spec_cfg sdkn sdkv.
Let ev := event_members sdkn sdkv qtver eid m.
Definition opt1 (name k : str) (attrs : list (str * json)) : list (str * json) :=
  match look_last k attrs with Some v => [(name, JStr (to_qstring v))] | None => [] end.
Lemma tag_fields attrs : slot_fields cfg STag attrs = opt1 k_app_name k_appname attrs ++ opt1 k_app_version k_appversion attrs ++ [].
Proof. reflexivity. Qed.
Lemma os_fields attrs : slot_fields cfg SOs attrs
  = opt1 k_name k_os_name attrs ++ opt1 k_version k_os_version attrs ++ opt1 k_kernel_version k_kernel_version attrs
    ++ opt1 k_build k_build_abi attrs ++ [].
Proof. reflexivity. Qed.
Lemma device_fields attrs : slot_fields cfg SDevice attrs = opt1 k_arch k_cpu_arch attrs ++ opt1 k_name k_host_name attrs ++ [].
Proof. reflexivity. Qed.
Ltac crush_slots :=
  repeat match goal with |- context [look_last ?k ?a] => destruct (look_last k a) end; reflexivity.

Theorem routed_attribute_in_slot sl name k v pre post : In (sl, (name, k)) spec_routes ->
  s_attrs m = pre ++ (k, v) :: post -> has_key k post = false ->
  slot_get ev sl name = Some (JStr (to_qstring v)).
Proof.
  intros Hin Ea Hk. pose proof (look_last_split k v pre post Hk) as Hl. rewrite <- Ea in Hl.
  unfold ev. cbn [spec_routes In] in Hin.
  destruct Hin as [E|[E|[E|[E|[E|[E|[E|[E|[]]]]]]]]]; injection E as <- <- <-; unfold slot_get, get2, get3.
  1-2: (rewrite look_tags, look_go; unfold ev_tags; fold cfg; rewrite tag_fields; unfold opt1; rewrite Hl; crush_slots).
  1-4: (rewrite look_contexts; unfold get2; rewrite look_go; unfold ev_contexts; fold cfg; rewrite os_fields, device_fields; unfold opt1;
        rewrite Hl; crush_slots).
  1-2: (rewrite look_contexts; unfold get2; rewrite look_go; unfold ev_contexts; fold cfg; rewrite os_fields, device_fields; unfold opt1;
        rewrite Hl; crush_slots).
Qed.
End Routed.

Lemma route_of_spec k : match route_of k spec_routes with
                        | Some (sl, name) => In (sl, (name, k)) spec_routes /\ is_routed k = true
                        | None => is_routed k = false end.
Proof.
  unfold is_routed, spec_routed, spec_routes. cbn [route_of map existsb fst snd].
  repeat match goal with |- context [seqb k ?c] => destruct (seqb_spec k c) as [->|] end; cbn [orb In]; try reflexivity; (split; [tauto|reflexivity]).
Qed.

(* ---------- the calendar: civil-from-days is inverted by days-from-civil ---------- *)
Local Open Scope Z_scope.
(* the part of [civil] that works inside one 400-year era (146097 days) *)
Definition ce (doe : Z) : Z * Z * Z :=
  let yoe := (doe - doe / 1460 + doe / 36524 - doe / 146096) / 365 in
  let doy := doe - (365 * yoe + yoe / 4 - yoe / 100) in let mp := (5 * doy + 2) / 153 in
  let d := doy - (153 * mp + 2) / 5 + 1 in let m := if mp <? 10 then mp + 3 else mp - 9 in
  ((if m <=? 2 then yoe + 1 else yoe), m, d).
Lemma civil_ce days : civil days = let z := days + 719468 in let '(y, m, d) := ce (z mod 146097) in (y + (z / 146097) * 400, m, d).
Proof.
  unfold civil, ce. cbv zeta. replace (days + 719468 - (days + 719468) / 146097 * 146097) with ((days + 719468) mod 146097) by lia.
  set (doe := (days + 719468) mod 146097). set (yoe := (doe - doe / 1460 + doe / 36524 - doe / 146096) / 365).
  set (doy := doe - (365 * yoe + yoe / 4 - yoe / 100)). set (mp := (5 * doy + 2) / 153).
  destruct ((if mp <? 10 then mp + 3 else mp - 9) <=? 2); f_equal; f_equal; lia.
Qed.
Definition ce_ok (doe : Z) : bool :=
  let '(y, m, d) := ce doe in
  (1 <=? m) && (m <=? 12) && (1 <=? d) && (d <=? 31) && (0 <=? y) && (y <=? 400) && (days_from_civil y m d + 719468 =? doe).
Fixpoint all_from (n : nat) (z : Z) (f : Z -> bool) : bool := match n with O => true | S n' => f z && all_from n' (z + 1) f end.
Lemma all_from_spec f : forall n z, all_from n z f = true -> forall k, z <= k < z + Z.of_nat n -> f k = true.
Proof.
  induction n as [|n IH]; intros z H k Hk; [lia|]. cbn [all_from] in H. apply andb_prop in H as [H1 H2].
  destruct (Z.eq_dec k z) as [->|Hne]; [exact H1|]. apply (IH (z + 1) H2). lia.
Qed.
(* closed finite sweep over the 146097 days of an era *)
Lemma ce_sweep : all_from (N.to_nat 146097) 0 ce_ok = true.
Proof. vm_compute. reflexivity. Qed.
Lemma dfc_shift y m d e : days_from_civil (y + e * 400) m d = e * 146097 + days_from_civil y m d.
Proof. unfold days_from_civil. destruct (m <=? 2); destruct (m >? 2); lia. Qed.
Theorem civil_correct days : let '(y, m, d) := civil days in 1 <= m <= 12 /\ 1 <= d <= 31 /\ days_from_civil y m d = days.
Proof.
  rewrite civil_ce. cbv zeta. set (z := days + 719468).
  assert (Hd : 0 <= z mod 146097 < 146097) by (apply Z.mod_pos_bound; lia).
  pose proof (all_from_spec ce_ok _ _ ce_sweep (z mod 146097)) as Hs. rewrite N_nat_Z in Hs. specialize (Hs ltac:(lia)).
  unfold ce_ok in Hs. destruct (ce (z mod 146097)) as [[y m] d].
  repeat (apply andb_prop in Hs as [Hs ?]). rewrite dfc_shift. lia.
Qed.

(* ---------- the timestamp: 20 characters that read back as the message time, to the second ---------- *)
Definition time_ok (ms : Z) : Prop := -62135596800000 <= ms < 253402300800000.   (* 0001-01-01T00:00:00 .. 9999-12-31T23:59:59.999 *)
Lemma year_range y m d : 1 <= m <= 12 -> 1 <= d <= 31 -> -719162 <= days_from_civil y m d <= 2932896 -> 1 <= y <= 9999.
Proof. unfold days_from_civil. intros Hm Hd. destruct (Z.leb_spec m 2); destruct (Z.gtb_spec m 2); try lia; intros H; lia. Qed.
Lemma dig_to_N x : 0 <= x -> dig (Z.to_N (48 + x)) = x.
Proof. intros H. unfold dig. rewrite Z2N.id by lia. lia. Qed.
Theorem iso_decode_secs secs : -62135596800 <= secs < 253402300800 -> iso_decode (iso_secs secs) = Some secs.
Proof.
  intros Hr. unfold iso_secs. pose proof (civil_correct (secs / 86400)) as Hc. destruct (civil (secs / 86400)) as [[y m] d].
  destruct Hc as (Hm & Hd & Hdays).
  assert (Hy : 1 <= y <= 9999) by (apply (year_range y m d Hm Hd); lia).
  unfold two, four, iso_decode. cbv beta iota delta [app].
  rewrite !dig_to_N by lia. f_equal.
  replace (y / 1000 * 1000 + y / 100 mod 10 * 100 + y / 10 mod 10 * 10 + y mod 10) with y by lia.
  replace (m / 10 * 10 + m mod 10) with m by lia. replace (d / 10 * 10 + d mod 10) with d by lia.
  rewrite Hdays. lia.
Qed.
Theorem iso_decode_utc ms : time_ok ms -> iso_decode (iso_utc ms) = Some (ms / 1000).
Proof. intros H. unfold iso_utc. apply iso_decode_secs. unfold time_ok in H. lia. Qed.
Lemma iso_length ms : length (iso_utc ms) = 20%nat.
Proof. unfold iso_utc, iso_secs. destruct (civil _) as [[y m] d]. reflexivity. Qed.
Lemma iso_units ms : time_ok ms -> units (iso_utc ms).
Proof.
  intros H. unfold iso_utc, iso_secs. assert (Hr : -62135596800 <= ms / 1000 < 253402300800) by (unfold time_ok in H; lia).
  set (secs := ms / 1000) in *. pose proof (civil_correct (secs / 86400)) as Hc. destruct (civil (secs / 86400)) as [[y m] d].
  destruct Hc as (Hm & Hd & Hdays). assert (Hy : 1 <= y <= 9999) by (apply (year_range y m d Hm Hd); lia).
  unfold two, four. cbv beta iota delta [app]. unfold units. repeat (apply Forall_cons; [lia|]). apply Forall_nil.
Qed.
Local Close Scope Z_scope.

(* ---------- well-formedness of the event, hence validity and losslessness through C13's round trip ---------- *)
Lemma uint_units u : units (uint_chars u).
Proof. unfold units. induction u; cbn [uint_chars]; [apply Forall_nil| | | | | | | | | |]; (apply Forall_cons; [lia|assumption]). Qed.
Lemma num_units z : units (num_chars z).
Proof. unfold num_chars. destruct (Z.to_int z); [apply uint_units|]. apply Forall_cons; [lia|apply uint_units]. Qed.
Lemma to_qstring_units v : wf v -> units (to_qstring v).
Proof. destruct v as [|[|]|z|s|l|kv]; cbn [to_qstring]; intros H; try (apply unitsb_units; reflexivity); [apply num_units|exact H]. Qed.
Lemma look_wf k : forall l v, wf_members l -> look k l = Some v -> wf v.
Proof.
  induction l as [|[k' v'] l IH]; intros v Hw H; [discriminate|]. destruct Hw as (_ & Hv & Hl). cbn [look] in H.
  destruct (seqb k k'); [injection H as <-; exact Hv|apply IH; assumption].
Qed.
Lemma wf_members_rev l : wf_members l -> wf_members (List.rev l).
Proof.
  induction l as [|[k v] l IH]; intros H; [exact I|]. destruct H as (Hk & Hv & Hl). cbn [List.rev].
  apply wf_members_app; [apply IH, Hl|cbn; tauto].
Qed.
Lemma wf_members_filter (f : str * json -> bool) l : wf_members l -> wf_members (filter f l).
Proof.
  induction l as [|[k v] l IH]; intros H; [exact I|]. destruct H as (Hk & Hv & Hl). cbn [filter].
  destruct (f (k, v)); [cbn; split; [exact Hk|split; [exact Hv|apply IH, Hl]]|apply IH, Hl].
Qed.
Lemma firstn_units n : forall s, units s -> units (firstn n s).
Proof.
  unfold units. induction n as [|n IH]; intros [|x s] H; cbn [firstn]; try apply Forall_nil.
  inversion H; subst. apply Forall_cons; [assumption|apply IH; assumption].
Qed.
Lemma opt1_wf name k attrs : units name -> wf_members attrs -> wf_members (opt1 name k attrs).
Proof.
  intros Hn Ha. unfold opt1. destruct (look_last k attrs) as [v|] eqn:E; [|exact I].
  cbn. split; [exact Hn|split; [|exact I]]. apply to_qstring_units. unfold look_last in E. eapply look_wf; [apply wf_members_rev, Ha|exact E].
Qed.
Ltac ku := apply unitsb_units; reflexivity.
Lemma event_wf sdkn sdkv qtver eid m : units sdkn -> units sdkv -> units qtver -> units eid -> wf_msg (s_msg m) -> time_ok (s_time_ms m) ->
  wf (sentry_event (spec_cfg sdkn sdkv) qtver eid m).
Proof.
  intros Hn Hv Hq He (Ht & Htext & Hfile & Hfunc & Hcat & _ & Hattrs) Htime.
  unfold sentry_event, sentry_members, ev_fingerprint. rewrite !spec_level_name. rewrite wf_obj.
  repeat apply wf_members_app.
  - cbn [wf_members wf]. repeat split; try ku; try assumption; [apply iso_units, Htime|apply spec_level_units].
  - unfold ev_logger. destruct (_ || _); [exact I|]. cbn [wf_members wf]. repeat split; try ku. exact Hcat.
  - cbn [wf_members wf]. repeat split; try ku. exact Htext.
  - unfold ev_culprit. destruct (is_nil _); [exact I|]. cbn [wf_members wf]. repeat split; try ku. exact Hfunc.
  - cbn [wf_members]. split; [ku|]. split.
    { rewrite wf_obj. unfold ev_tags. cbn [wf_members]. split; [ku|]. split; [exact Hq|]. rewrite tag_fields.
      repeat apply wf_members_app; try exact I; apply opt1_wf; try ku; exact Hattrs. }
    split; [ku|]. split.
    { rewrite wf_obj. unfold ev_extra. repeat apply wf_members_app.
      - cbn [wf_members wf]. repeat split; ku.
      - destruct (is_nil _); [exact I|]. cbn [wf_members wf]. repeat split; try ku. exact Hfile.
      - cbn [wf_members wf]. repeat split; try ku. apply num_units.
      - apply wf_members_filter, Hattrs. }
    split; [ku|]. split.
    { rewrite wf_obj. unfold ev_contexts. rewrite os_fields, device_fields. repeat apply wf_members_app.
      - unfold opt_obj. destruct (is_nil_members _); [exact I|]. cbn [wf_members]. split; [ku|]. split; [|exact I]. rewrite wf_obj.
        repeat apply wf_members_app; try exact I; apply opt1_wf; try ku; exact Hattrs.
      - unfold opt_obj. destruct (is_nil_members _); [exact I|]. cbn [wf_members]. split; [ku|]. split; [|exact I]. rewrite wf_obj.
        repeat apply wf_members_app; try exact I; apply opt1_wf; try ku; exact Hattrs.
      - cbn [wf_members wf]. repeat split; try ku. exact Hq. }
    split; [ku|]. split; [cbn [wf_members wf]; repeat split; try ku; assumption|].
    split; [ku|]. split; [|exact I].
    cbn [wf_members wf]. repeat split.
    + apply spec_level_units.
    + unfold fp_category. destruct (is_nil _); [ku|exact Hcat].
    + apply firstn_units, Htext.
Qed.

(* ---------- the headline results, for every good configuration ---------- *)
Section GoodCfg.
Variable cfg : sentry_cfg.
Hypothesis G : sentry_cfg_goodb cfg = true.
Variables (qtver eid : str) (m : smsg).
Hypothesis Hq : units qtver.
Hypothesis He : units eid.
Hypothesis Hm : wf_msg (s_msg m).
Hypothesis Ht : time_ok (s_time_ms m).
Let ev := event_members (sdk_name cfg) (sdk_version cfg) qtver eid m.

Lemma cfg_is_spec : cfg = spec_cfg (sdk_name cfg) (sdk_version cfg). Proof. apply cfg_good_spec, G. Qed.
Lemma format_is_spec : sentry_format cfg qtver eid m = sentry_format (spec_cfg (sdk_name cfg) (sdk_version cfg)) qtver eid m.
Proof. rewrite <- cfg_is_spec. reflexivity. Qed.
(* valid JSON, exactly one object, nothing lost: the text parses back to the sorted event object *)
Theorem sentry_roundtrip : parse_doc (sentry_format cfg qtver eid m) = Some (JObj ev).
Proof.
  rewrite format_is_spec. unfold sentry_format. rewrite parse_doc_write_doc; [rewrite event_sorted; reflexivity|].
  apply sort_keys_wf, event_wf; try assumption; apply (cfg_good_spec cfg G).
Qed.
Theorem sentry_one_line : ge32 (sentry_format cfg qtver eid m).
Proof. apply compact_no_control. Qed.

(* routed names carry scalar values (strings, numbers, booleans): the case in which nothing is lost *)
Hypothesis Hsc : routed_scalar (s_attrs m) = true.
Lemma conserved_suffix : forall l pre, s_attrs m = pre ++ l -> attrs_conserved ev l = true.
Proof.
  induction l as [|[k v] r IH]; intros pre E; [reflexivity|]. cbn [attrs_conserved].
  rewrite (IH (pre ++ [(k, v)])) by (rewrite <- app_assoc; exact E). rewrite andb_true_r.
  destruct (has_key k r) eqn:Hk; [reflexivity|].
  pose proof (route_of_spec k) as Hr. destruct (route_of k spec_routes) as [[sl name]|].
  - destruct Hr as [Hin Hrt].
    assert (Hs : scalarb v = true).
    { unfold routed_scalar in Hsc. rewrite forallb_forall in Hsc. specialize (Hsc (k, v)). cbn [fst snd] in Hsc.
      rewrite Hrt in Hsc. apply Hsc. rewrite E. apply in_or_app. right. left. reflexivity. }
    rewrite Hs. unfold ev.
    rewrite (routed_attribute_in_slot _ _ qtver eid m sl name k v pre r Hin E Hk).
    rewrite (routed_not_in_extra _ _ qtver eid m k Hrt). cbn [opt_json_eqb absent]. rewrite json_eqb_refl. reflexivity.
  - unfold ev. rewrite (other_attribute_in_extra _ _ qtver eid m k v pre r E Hk Hr). apply json_eqb_refl.
Qed.
Theorem sentry_oracle_holds : is_hex32 eid = true -> prop_c18_b m (sentry_format cfg qtver eid m) = true.
Proof.
  intros Hid. unfold prop_c18_b. rewrite sentry_roundtrip. fold ev.
  unfold id_ok. unfold ev. rewrite ev_event_id, Hid, ev_timestamp, ev_level, ev_message, ev_fingerprint_ok.
  cbn [opt_json_eqb andb]. rewrite !json_eqb_refl. cbn [andb].
  destruct (ev_logger_rule (sdk_name cfg) (sdk_version cfg) qtver eid m) as [L1 L2].
  destruct (is_nil (s_cat m) || seqb (s_cat m) s_default) eqn:Ec.
  - rewrite (L1 eq_refl). cbn [andb]. apply (conserved_suffix (s_attrs m) []). reflexivity.
  - rewrite (L2 eq_refl). cbn [opt_json_eqb]. rewrite json_eqb_refl. cbn [andb]. apply (conserved_suffix (s_attrs m) []). reflexivity.
Qed.
End GoodCfg.

Lemma routed_in_spec sl name k : In (sl, (name, k)) spec_routes -> is_routed k = true.
Proof.
  intros H. unfold is_routed, spec_routed. apply existsb_exists. exists k. split; [|apply seqb_refl].
  apply in_map_iff. exists (sl, (name, k)). split; [reflexivity|exact H].
Qed.

(* ---------- numeric attribute values of every QVariant type ---------- *)
(* the integer z carried by an int / uint / qlonglong / qulonglong / double / float within the range of the
   type: a name that is not routed holds the number z under extra; a routed name (integer types) holds the
   decimal digits of z in its slot - which identify z (JsonProofs.num_chars_inj) - and nothing under extra *)
Theorem numeric_attribute_intact sdkn sdkv qtver eid m pre k t z post :
  s_attrs m = pre ++ (k, num_value t z) :: post -> has_key k post = false -> num_in_range t z = true ->
  (is_routed k = false -> get2 (event_members sdkn sdkv qtver eid m) k_extra k = Some (JNum z))
  /\ (int_typed t = true -> forall sl name, In (sl, (name, k)) spec_routes ->
        slot_get (event_members sdkn sdkv qtver eid m) sl name = Some (JStr (num_chars z))
        /\ get2 (event_members sdkn sdkv qtver eid m) k_extra k = None).
Proof.
  intros Ea Hk Hr. pose proof (num_store_in_range t z Hr) as Hs. split.
  - intros Hn. rewrite (other_attribute_in_extra sdkn sdkv qtver eid m k (num_value t z) pre post Ea Hk Hn).
    unfold num_value. rewrite Hs. reflexivity.
  - intros _ sl name Hin. split.
    + rewrite (routed_attribute_in_slot sdkn sdkv qtver eid m sl name k (num_value t z) pre post Hin Ea Hk).
      unfold num_value. rewrite Hs. reflexivity.
    + apply routed_not_in_extra. exact (routed_in_spec sl name k Hin).
Qed.

(* ---------- what is NOT true of the faithful model: a routed name holding a list / map / null ---------- *)
(* QVariant::toString() of such a value is the empty string: the slot holds "" and the attribute is
   excluded from extra, so its value occurs nowhere in the event *)
Definition lost_msg : smsg := {|
  s_msg := {| mtype := 1; mtext := [104; 105]; mfmt := None; mfile := None; mfunc := None; mcat := None;
              mline := 1%Z; mtime := []; mtid := 1%Z; mattrs := [(k_appname, JArr [JNum 1%Z; JNum 2%Z])] |};
  s_time_ms := 0%Z |}.
Lemma routed_nonscalar_lost cfg : sentry_cfg_goodb cfg = true ->
  exists m qtver eid, wf_msg (s_msg m) /\ time_ok (s_time_ms m) /\ units qtver /\ is_hex32 eid = true
    /\ s_attrs m = [(k_appname, JArr [JNum 1%Z; JNum 2%Z])]
    /\ slot_get (event_members (sdk_name cfg) (sdk_version cfg) qtver eid m) STag k_app_name = Some (JStr [])
    /\ get2 (event_members (sdk_name cfg) (sdk_version cfg) qtver eid m) k_extra k_appname = None
    /\ prop_c18_b m (sentry_format cfg qtver eid m) = false.
Proof.
  intros G. exists lost_msg, [53], (id128_hex 0).
  assert (Hm : wf_msg (s_msg lost_msg)).
  { unfold wf_msg. cbn [lost_msg s_msg mtype mtext mfile mfunc mcat mtime mattrs cstr]. split; [reflexivity|].
    repeat split; try (apply unitsb_units; reflexivity). }
  assert (Ht : time_ok (s_time_ms lost_msg)) by (unfold time_ok; cbn; lia).
  assert (Hq : units [53]) by (apply unitsb_units; reflexivity).
  assert (He : units (id128_hex 0)) by (apply unitsb_units; reflexivity).
  assert (Hslot : slot_get (event_members (sdk_name cfg) (sdk_version cfg) [53] (id128_hex 0) lost_msg) STag k_app_name = Some (JStr [])).
  { apply (routed_attribute_in_slot _ _ [53] (id128_hex 0) lost_msg STag k_app_name k_appname (JArr [JNum 1%Z; JNum 2%Z]) [] []);
      [cbn; tauto|reflexivity|reflexivity]. }
  assert (Hex : get2 (event_members (sdk_name cfg) (sdk_version cfg) [53] (id128_hex 0) lost_msg) k_extra k_appname = None)
    by (apply routed_not_in_extra; reflexivity).
  repeat (split; [first [assumption | reflexivity]|]).
  unfold prop_c18_b. rewrite (sentry_roundtrip cfg G [53] (id128_hex 0) lost_msg Hq He Hm Ht).
  apply andb_false_intro2. change (s_attrs lost_msg) with [(k_appname, JArr [JNum 1%Z; JNum 2%Z])].
  cbn [attrs_conserved has_key existsb]. change (route_of k_appname spec_routes) with (Some (STag, k_app_name)).
  cbn [scalarb]. rewrite Hslot, Hex. reflexivity.
Qed.

(* ---------- the attribute store: what the handlers of a pipeline leave on the message ---------- *)
Lemma look_app k x y : look k (x ++ y) = match look k x with Some v => Some v | None => look k y end.
Proof. induction x as [|[k' v'] x IH]; [reflexivity|]. cbn [app look]. destruct (seqb k k'); [reflexivity|exact IH]. Qed.
Lemma look_last_app k a l : look_last k (a ++ l) = match look_last k l with Some v => Some v | None => look_last k a end.
Proof. unfold look_last. rewrite rev_app_distr. apply look_app. Qed.
Lemma filter_rev' {A} (f : A -> bool) l : filter f (List.rev l) = List.rev (filter f l).
Proof.
  induction l as [|x l IH]; [reflexivity|]. cbn [List.rev filter]. rewrite filter_app, IH. cbn [filter].
  destruct (f x); [reflexivity|]. apply app_nil_r.
Qed.
Lemma look_filter_remove k k' l : look k (filter (fun kv => negb (seqb k' (fst kv))) l) = if seqb k k' then None else look k l.
Proof.
  induction l as [|[k2 v2] l IH]; [destruct (seqb k k'); reflexivity|].
  cbn [filter fst]. destruct (seqb_spec k' k2) as [->|N2]; cbn [negb].
  - rewrite IH. cbn [look]. destruct (seqb k k2); reflexivity.
  - cbn [look]. destruct (seqb_spec k k2) as [->|]; [|exact IH].
    destruct (seqb_spec k2 k') as [->|]; [contradiction|reflexivity].
Qed.
(* setAttribute: the name now has the new value, every other name keeps its value *)
Theorem store_set k' v a k : look_last k (apply_op a (OSet k' v)) = if seqb k k' then Some v else look_last k a.
Proof. cbn [apply_op]. rewrite look_last_app. unfold look_last at 1. cbn [List.rev app look]. destruct (seqb k k'); reflexivity. Qed.
(* updateAttributes (an attribute handler): a name of the hash has the value of the hash - an older value of that
   name is REPLACED - every other name keeps its value *)
Theorem store_update l a k : look_last k (apply_op a (OUpdate l)) = match look_last k l with Some v => Some v | None => look_last k a end.
Proof. cbn [apply_op]. apply look_last_app. Qed.
Theorem store_set_all l a k : look_last k (apply_op a (OSetAll l)) = look_last k l.
Proof. reflexivity. Qed.
Theorem store_remove k' a k : look_last k (apply_op a (ORemove k')) = if seqb k k' then None else look_last k a.
Proof. cbn [apply_op]. unfold look_last. rewrite <- filter_rev'. apply look_filter_remove. Qed.
Lemma apply_ops_snoc a ops o : apply_ops a (ops ++ [o]) = apply_op (apply_ops a ops) o.
Proof. unfold apply_ops. rewrite fold_left_app. reflexivity. Qed.
Lemma with_ops_attrs m ops : s_attrs (with_ops m ops) = apply_ops (s_attrs m) ops.
Proof. reflexivity. Qed.

(* the current value of a name (QHash::value) is one particular setting with no later setting of the same name *)
Lemma look_last_decompose k : forall l v, look_last k l = Some v -> exists pre post, l = pre ++ (k, v) :: post /\ has_key k post = false.
Proof.
  induction l as [|[k2 v2] l IH] using rev_ind; intros v H; [discriminate|].
  rewrite look_last_app in H. unfold look_last at 1 in H. cbn [List.rev app look] in H.
  destruct (seqb_spec k k2) as [->|N2].
  - injection H as <-. exists l, []. split; reflexivity.
  - destruct (IH v H) as (pre & post & -> & Hk). exists pre, (post ++ [(k2, v2)]). split.
    + rewrite <- app_assoc. reflexivity.
    + unfold has_key in *. rewrite existsb_app, Hk. cbn [existsb fst orb].
      destruct (seqb_spec k k2) as [->|]; [contradiction|reflexivity].
Qed.
Lemma look_last_none_not_key k l : look_last k l = None -> not_key k l.
Proof.
  induction l as [|[k2 v2] l IH] using rev_ind; intros H; [constructor|].
  rewrite look_last_app in H. unfold look_last at 1 in H. cbn [List.rev app look] in H.
  destruct (seqb_spec k k2) as [->|N2]; [discriminate|].
  unfold not_key. apply Forall_app. split; [apply IH, H|]. constructor; [|constructor]. cbn [fst]. intros ->. contradiction.
Qed.

Section Current.
Variables (sdkn sdkv qtver eid : str).
(* whatever sequence of settings produced the store: the event carries, for every name, exactly the CURRENT value -
   under extra (any other name) or in the dedicated slot and not under extra (routed name) *)
Theorem current_value_conserved m k v : look_last k (s_attrs m) = Some v ->
  (is_routed k = false -> get2 (event_members sdkn sdkv qtver eid m) k_extra k = Some (sort_keys v))
  /\ (forall sl name, In (sl, (name, k)) spec_routes ->
        slot_get (event_members sdkn sdkv qtver eid m) sl name = Some (JStr (to_qstring v))
        /\ get2 (event_members sdkn sdkv qtver eid m) k_extra k = None).
Proof.
  intros H. destruct (look_last_decompose k _ v H) as (pre & post & Ea & Hk). split.
  - apply (other_attribute_in_extra sdkn sdkv qtver eid m k v pre post Ea Hk).
  - intros sl name Hin. split.
    + apply (routed_attribute_in_slot sdkn sdkv qtver eid m sl name k v pre post Hin Ea Hk).
    + apply routed_not_in_extra. exact (routed_in_spec sl name k Hin).
Qed.
(* a name that is not (or no longer: removeAttribute, a scoped pipeline that has ended) on the message and is not one
   of the three built-in members of extra does not appear under extra *)
Theorem absent_name_not_in_extra m k : look_last k (s_attrs m) = None ->
  k <> k_line -> k <> k_file -> k <> k_thread_id -> get2 (event_members sdkn sdkv qtver eid m) k_extra k = None.
Proof.
  intros H N1 N2 N3. unfold get2. rewrite look_extra, look_go. apply last_val_absent. unfold ev_extra.
  apply look_last_none_not_key in H.
  unfold not_key in *. repeat (apply Forall_app; split).
  - constructor; [|constructor]. cbn [fst]. congruence.
  - destruct (is_nil _); constructor; [|constructor]. cbn [fst]. congruence.
  - constructor; [|constructor]. cbn [fst]. congruence.
  - apply not_key_filter. exact H.
Qed.
(* an attribute handler that runs last before the formatter: the event carries the value the handler gives for each
   of its names - NOT an older value of that name, however it got onto the message (setAttribute, an earlier handler
   of the same or of an enclosing pipeline) *)
Theorem handler_override m ops h k v : look_last k h = Some v ->
  (is_routed k = false -> get2 (event_members sdkn sdkv qtver eid (with_ops m (ops ++ [OUpdate h]))) k_extra k = Some (sort_keys v))
  /\ (forall sl name, In (sl, (name, k)) spec_routes ->
        slot_get (event_members sdkn sdkv qtver eid (with_ops m (ops ++ [OUpdate h]))) sl name = Some (JStr (to_qstring v))
        /\ get2 (event_members sdkn sdkv qtver eid (with_ops m (ops ++ [OUpdate h]))) k_extra k = None).
Proof.
  intros H. apply current_value_conserved. rewrite with_ops_attrs, apply_ops_snoc, store_update, H. reflexivity.
Qed.
(* ... and a name the last handler does not mention keeps the value it had *)
Theorem handler_keeps_other m ops h k : look_last k h = None ->
  look_last k (s_attrs (with_ops m (ops ++ [OUpdate h]))) = look_last k (s_attrs (with_ops m ops)).
Proof. intros H. rewrite !with_ops_attrs, apply_ops_snoc, store_update, H. reflexivity. Qed.
End Current.

(* ---------- the ids of a whole run, over all formatter objects ---------- *)
Lemma strs_distinctb_NoDup l : NoDup l -> strs_distinctb l = true.
Proof.
  induction 1 as [|x r Hx _ IH]; [reflexivity|]. cbn [strs_distinctb]. rewrite IH, andb_true_r.
  destruct (existsb (seqb x) r) eqn:E; [|reflexivity]. apply existsb_exists in E as (y & Hy & Ey).
  apply seqb_eq in Ey. subst y. contradiction.
Qed.
Lemma strs_distinctb_sound l : strs_distinctb l = true -> NoDup l.
Proof.
  induction l as [|x r IH]; intros H; [constructor|]. cbn [strs_distinctb] in H. apply andb_true_iff in H as [H1 H2].
  constructor; [|apply IH, H2]. intros Hin. apply negb_true_iff in H1.
  assert (E : existsb (seqb x) r = true) by (apply existsb_exists; exists x; split; [exact Hin|apply seqb_refl]).
  rewrite E in H1. discriminate.
Qed.
Theorem run_ids_ok draw objs : (forall i, draw i < 2 ^ 128) -> (forall i j, draw i = draw j -> i = j) ->
  ids_ok_b (run_ids draw objs) = true /\ length (run_ids draw objs) = length objs.
Proof.
  intros Hb Hinj. split; [|unfold run_ids; rewrite map_length, seq_length; reflexivity].
  unfold ids_ok_b. apply andb_true_iff. split.
  - apply forallb_forall. intros s Hs. unfold run_ids in Hs. apply in_map_iff in Hs as (i & <- & _). apply id_hex32.
  - apply strs_distinctb_NoDup. unfold run_ids. apply FinFun.Injective_map_NoDup; [|apply seq_NoDup].
    intros i j E. apply Hinj. apply id_injective; [apply Hb|apply Hb|exact E].
Qed.
(* NOT a correct scheme: one base per process plus a count kept by each formatter object - two objects that have
   formatted one event each have handed out the same id *)
Theorem counter_ids_repeat base o1 o2 : o1 <> o2 -> ids_ok_b (counter_ids base [o1; o2]) = false.
Proof.
  intros N. unfold ids_ok_b, counter_ids. cbn [counter_ids_from count_eq].
  apply Nat.eqb_neq in N. rewrite N. apply andb_false_intro2.
  change (0 + 0) with 0. cbn [strs_distinctb existsb]. rewrite seqb_refl. reflexivity.
Qed.

(* ------------------------------------------------------------------ front end (round 8) *)
Lemma front_good_inv cfg fr : front_goodb cfg fr = true ->
  front_object fr = FOFresh [FAName; FAVersion] /\ front_default_name fr = sdk_name cfg /\ front_default_version fr = sdk_version cfg.
Proof.
  unfold front_goodb. intros H. apply andb_prop in H as [H Hv]. apply andb_prop in H as [Ho Hn].
  apply seqb_eq in Hv. apply seqb_eq in Hn. repeat split; try assumption.
  destruct (front_object fr) as [[|[|] [|[|] [|? ?]]]|]; try discriminate. reflexivity.
Qed.
(* a good front end hands the constructor exactly the arguments a direct construction with the caller's arguments has *)
Lemma front_args_are_direct cfg fr : front_goodb cfg fr = true -> forall c, front_args cfg fr c = direct_args cfg c.
Proof.
  intros G c. destruct (front_good_inv cfg fr G) as (Ho & Hn & Hv).
  unfold front_args, front_params, direct_args. rewrite Ho, Hn, Hv. destruct c; reflexivity.
Qed.
Lemma front_cfg_is_direct cfg fr : front_goodb cfg fr = true -> forall c, front_cfg cfg fr c = direct_cfg cfg c.
Proof. intros G c. unfold front_cfg, direct_cfg. rewrite (front_args_are_direct cfg fr G). reflexivity. Qed.
Lemma front_format_is_direct cfg fr : front_goodb cfg fr = true -> forall c qtver eid m,
  front_format cfg fr c qtver eid m = sentry_format (direct_cfg cfg c) qtver eid m.
Proof. intros G c qtver eid m. unfold front_format. rewrite (front_cfg_is_direct cfg fr G). reflexivity. Qed.
(* a directly constructed SentryFormatter(args) is again a specified configuration: every result of GoodCfg applies to it *)
Lemma with_sdk_good cfg n v : sentry_cfg_goodb cfg = true -> unitsb n = true -> unitsb v = true -> sentry_cfg_goodb (with_sdk cfg n v) = true.
Proof.
  intros G Hn Hv. unfold sentry_cfg_goodb in *. cbn [with_sdk level_names level_default routes skipped fp_cut fp_formatted msg_formatted
    logger_unless_empty logger_unless_default sdk_name sdk_version].
  apply andb_prop in G as [G _]. apply andb_prop in G as [G _]. rewrite G, Hn, Hv. reflexivity.
Qed.
Lemma direct_cfg_good cfg c : sentry_cfg_goodb cfg = true -> call_unitsb c = true -> sentry_cfg_goodb (direct_cfg cfg c) = true.
Proof.
  intros G Hc. pose proof G as G'. unfold sentry_cfg_goodb in G'. apply andb_prop in G' as [G' Hv0]. apply andb_prop in G' as [_ Hn0].
  unfold direct_cfg. apply with_sdk_good; [exact G| |]; destruct c as [|n|n v]; cbn [direct_args fst snd call_unitsb] in *;
    try assumption; apply andb_prop in Hc; tauto.
Qed.
Lemma direct_cfg_sdk cfg c : sdk_name (direct_cfg cfg c) = fst (direct_args cfg c) /\ sdk_version (direct_cfg cfg c) = snd (direct_args cfg c).
Proof. split; reflexivity. Qed.
(* the sdk object of the event holds the two constructor arguments *)
Lemma ev_sdk sdkn sdkv qtver eid m :
  get2 (event_members sdkn sdkv qtver eid m) k_sdk k_name = Some (JStr sdkn)
  /\ get2 (event_members sdkn sdkv qtver eid m) k_sdk k_version = Some (JStr sdkv).
Proof.
  unfold get2. rewrite (look_event sdkn sdkv qtver eid m k_sdk (JObj [(k_name, JStr sdkn); (k_version, JStr sdkv)])); [split; reflexivity|].
  unfold sentry_members. do 4 (apply in_or_app; right). cbn. tauto.
Qed.
(* the oracle and the round trip for the object obtained through a good front end *)
Lemma front_roundtrip cfg fr : sentry_cfg_goodb cfg = true -> front_goodb cfg fr = true -> forall c qtver eid m,
  call_unitsb c = true -> units qtver -> units eid -> wf_msg (s_msg m) -> time_ok (s_time_ms m) ->
  parse_doc (front_format cfg fr c qtver eid m)
  = Some (JObj (event_members (fst (direct_args cfg c)) (snd (direct_args cfg c)) qtver eid m)).
Proof.
  intros G F c qtver eid m Hc Hq He Hm Ht. rewrite (front_format_is_direct cfg fr F).
  exact (sentry_roundtrip (direct_cfg cfg c) (direct_cfg_good cfg c G Hc) qtver eid m Hq He Hm Ht).
Qed.
Lemma front_oracle_holds cfg fr : sentry_cfg_goodb cfg = true -> front_goodb cfg fr = true -> forall c qtver eid m,
  call_unitsb c = true -> units qtver -> units eid -> wf_msg (s_msg m) -> time_ok (s_time_ms m) ->
  routed_scalar (s_attrs m) = true -> is_hex32 eid = true -> prop_c18_b m (front_format cfg fr c qtver eid m) = true.
Proof.
  intros G F c qtver eid m Hc Hq He Hm Ht Hs Hid. rewrite (front_format_is_direct cfg fr F).
  exact (sentry_oracle_holds (direct_cfg cfg c) (direct_cfg_good cfg c G Hc) qtver eid m Hq He Hm Ht Hs Hid).
Qed.
(* broken front ends: whatever the configuration, some call gets other constructor arguments than the direct construction *)
Lemma cons_neq {A} (x : A) l : x :: l <> l.
Proof. intros H. apply (f_equal (@length A)) in H. cbn in H. induction (length l); [discriminate|injection H; auto]. Qed.
Definition front_no_args (dn dv : str) : sentry_front := {| front_object := FOFresh []; front_default_name := dn; front_default_version := dv |}.
Definition front_name_only (dn dv : str) : sentry_front := {| front_object := FOFresh [FAName]; front_default_name := dn; front_default_version := dv |}.
Definition front_swapped (dn dv : str) : sentry_front := {| front_object := FOFresh [FAVersion; FAName]; front_default_name := dn; front_default_version := dv |}.
Definition front_shared (dn dv : str) : sentry_front := {| front_object := FOInstance; front_default_name := dn; front_default_version := dv |}.
Lemma front_no_args_refuted cfg dn dv : exists c, fst (front_args cfg (front_no_args dn dv) c) <> fst (direct_args cfg c).
Proof. exists (SdkName (0 :: sdk_name cfg)). cbn. intros H. symmetry in H. exact (cons_neq _ _ H). Qed.
Lemma front_shared_refuted cfg dn dv : exists c, fst (front_args cfg (front_shared dn dv) c) <> fst (direct_args cfg c).
Proof. exists (SdkName (0 :: sdk_name cfg)). cbn. intros H. symmetry in H. exact (cons_neq _ _ H). Qed.
Lemma front_name_only_refuted cfg dn dv : exists c, snd (front_args cfg (front_name_only dn dv) c) <> snd (direct_args cfg c).
Proof. exists (SdkBoth [] (0 :: sdk_version cfg)). cbn. intros H. symmetry in H. exact (cons_neq _ _ H). Qed.
Lemma front_swapped_refuted cfg dn dv : exists c, front_args cfg (front_swapped dn dv) c <> direct_args cfg c.
Proof. exists (SdkBoth [] [0]). cbn. discriminate. Qed.
(* a front end whose declaration has another default than the constructor: formatToSentry() is not SentryFormatter() *)
Lemma front_wrong_default_refuted cfg fr : front_object fr = FOFresh [FAName; FAVersion] ->
  front_default_name fr <> sdk_name cfg -> front_args cfg fr SdkNone <> direct_args cfg SdkNone.
Proof. intros Ho Hd. unfold front_args, front_params, direct_args. rewrite Ho. cbn. intros H. apply Hd. injection H. auto. Qed.
