(* C14 — checked transcriptions of the rest of the formatting code named by the property anchors:
   FormattedToken::parseFormatSpec, FormattedToken::applyPadding, ShortFileToken, LiteralToken /
   AttributeToken (the saturating pending-remove counter), PatternFormatterPrivate::parsePattern and ::format
   (patternformatter.cpp), and PrettyFormatter::format's table index and width arithmetic.
   Definitions only.  Same reading rules as FuncCleanupDefs.v: QString is a list of UTF-16 code
   units; every s.at(i) / s[i] / mid / left / right / chop / QString(n, ch) / table index is a
   checked operation (None when out of range); every C++ `int` result that is computed by + or -
   goes through [ck] (None when outside [-2^31, 2^31)); every loop carries fuel.  Qt's own
   searching and conversion functions (indexOf, lastIndexOf, startsWith, endsWith, trimmed, toInt,
   QString::number) are modelled by total functions and are outside the checked part. *)
From Coq Require Import List NArith ZArith Bool.
Require Import QtlVerif.SrcSafety QtlVerif.FuncCleanupDefs.
Import ListNotations.
Local Open Scope Z_scope.

Definition qstr := list N.
(* INT_MAX, INT_MIN and [ck] (a C++ int result) come from FuncCleanupDefs *)
Definition is_empty (s : qstr) : bool := match s with [] => true | _ => false end.
(* s.left(n) / s.right(n) / QString(n, ch), checked *)
Definition left_c (s : qstr) (n : Z) : option qstr := truncate_c s n.
Definition right_c (s : qstr) (n : Z) : option qstr :=
  if (0 <=? n) && (n <=? len s) then Some (skipn (Z.to_nat (len s - n)) s) else None.
Definition fill_c (n : Z) (c : N) : option qstr := if 0 <=? n then Some (repeat c (Z.to_nat n)) else None.

(* ---- message types ------------------------------------------------------------------------ *)
Inductive mtype := Debug | Warning | Critical | Fatal | Info.
Definition qt_enum (t : mtype) : N := match t with Debug => 0 | Warning => 1 | Critical => 2 | Fatal => 3 | Info => 4 end%N.
Definition mtype_eqb (a b : mtype) : bool := (qt_enum a =? qt_enum b)%N.
Definition A (s : list Z) : qstr := map Z.to_N s.
Definition s_debug := A [100;101;98;117;103].
Definition s_info := A [105;110;102;111].
Definition s_warning := A [119;97;114;110;105;110;103].
Definition s_critical := A [99;114;105;116;105;99;97;108].
Definition s_fatal := A [102;97;116;97;108].
Definition type_name (t : mtype) : qstr :=
  match t with Debug => s_debug | Info => s_info | Warning => s_warning | Critical => s_critical | Fatal => s_fatal end.
Definition type_of_name (s : qstr) : mtype :=
  if beqb s s_info then Info else if beqb s s_warning then Warning
  else if beqb s s_critical then Critical else if beqb s s_fatal then Fatal else Debug.

(* ---- Qt conversions (total, outside the checked part) -------------------------------------- *)
(* QChar::isSpace *)
Definition is_space (u : N) : bool :=
  (((9 <=? u) && (u <=? 13)) || (u =? 32) || (u =? 133) || (u =? 160) || (u =? 5760)
  || ((8192 <=? u) && (u <=? 8202)) || (u =? 8232) || (u =? 8233) || (u =? 8239) || (u =? 8287) || (u =? 12288))%N.
Fixpoint drop_space (l : qstr) : qstr := match l with c :: r => if is_space c then drop_space r else l | [] => [] end.
Definition trimmed (l : qstr) : qstr := rev (drop_space (rev (drop_space l))).
(* QString::toInt: trimmed, optional sign, decimal digits, must fit in int; failure -> (0, false).
   The accumulator is cut off as soon as it leaves the int range (so it stays small). *)
Fixpoint digits_val (l : qstr) (acc : Z) : option Z :=
  match l with
  | [] => Some acc
  | c :: r => if ((48 <=? c) && (c <=? 57))%N
              then let acc' := acc * 10 + Z.of_N (c - 48) in
                   if acc' <=? INT_MAX + 1 then digits_val r acc' else None
              else None
  end.
Definition to_int (l : qstr) : Z * bool :=
  match trimmed l with
  | [] => (0, false)
  | c :: r =>
    let '(neg, ds) := if (c =? 45)%N then (true, r) else if (c =? 43)%N then (false, r) else (false, c :: r) in
    match ds with
    | [] => (0, false)
    | _ => match digits_val ds 0 with
           | Some v => let v' := if neg then - v else v in
                       if (INT_MIN <=? v') && (v' <=? INT_MAX) then (v', true) else (0, false)
           | None => (0, false)
           end
    end
  end.
(* the mathematical value of a digit string (no cut-off, no wrap-around): what [to_int] is compared with in
   SafetyProofs.v - an all-digit width text is accepted iff THIS value fits an int, so a width of ten or more
   digits is never silently reduced modulo 2^32 *)
Definition is_digit (c : N) : bool := ((48 <=? c) && (c <=? 57))%N.
Fixpoint dec_value (l : qstr) (acc : Z) : Z :=
  match l with [] => acc | c :: r => dec_value r (acc * 10 + Z.of_N (c - 48)) end.
(* QString::number(int) *)
Fixpoint dec_aux (fuel : nat) (n : N) (acc : qstr) : qstr :=
  match fuel with O => acc | S f =>
  let acc' := (48 + n mod 10)%N :: acc in if (n <? 10)%N then acc' else dec_aux f (n / 10)%N acc' end.
Definition render_int (z : Z) : qstr :=
  if z <? 0 then 45%N :: dec_aux 12 (Z.to_N (- z)) [] else dec_aux 12 (Z.to_N z) [].

(* ---- parseFormatSpec ----------------------------------------------------------------------- *)
Inductive align := ANone | ALeft | ARight | ACenter.
Inductive tmode := MNone | MTrunc | MOnly.
Record spec := { fill : N; al : align; width : Z; mode : tmode }.
Definition no_spec : spec := {| fill := 32%N; al := ANone; width := 0; mode := MNone |}.
Definition align_of (c : N) : align :=
  if (c =? src_align_left)%N then ALeft else if (c =? src_align_right)%N then ARight
  else if (c =? src_align_center)%N then ACenter else ANone.
Definition is_anone (a : align) : bool := match a with ANone => true | _ => false end.

Definition parse_spec_c (spec0 : qstr) : option (option spec) :=
  if is_empty spec0 then Some None else
  do sb <- (if ends_with spec0 [src_trunc_suffix] then do s <- chop_c spec0 1; Some (s, true) else Some (spec0, false));
  let '(s, bang) := sb in
  if bang && is_empty s then Some None else
  (* fill + align *)
  do r1 <- (if 2 <=? len s then
              do pa <- at_ s 1;
              if is_anone (align_of pa) then Some (32%N, ANone, false, 0)
              else do f <- at_ s 0; Some (f, align_of pa, true, 2)
            else Some (32%N, ANone, false, 0));
  let '(fl, a1, explicit, pos1) := r1 in
  (* just align *)
  do r2 <- (if is_anone a1 && negb (is_empty s) then
              do pa <- at_ s 0;
              if is_anone (align_of pa) then Some (a1, pos1) else Some (align_of pa, 1)
            else Some (a1, pos1));
  let '(a2, pos2) := r2 in
  if is_anone a2 then
    (if bang then
       let '(v, ok) := to_int s in
       if ok && (0 <? v) then Some (Some {| fill := fl; al := ANone; width := v; mode := MOnly |}) else Some None
     else Some None)
  else if len s <=? pos2 then Some None
  else do ws <- mid_c s pos2 (-1);
       let '(v, ok) := to_int ws in
       if negb ok || (v <=? 0) then Some None
       else Some (Some {| fill := fl; al := a2; width := v;
                          mode := if bang then (if explicit then MTrunc else MOnly) else MNone |}).

(* ---- applyPadding -------------------------------------------------------------------------- *)
Definition is_right (a : align) : bool := match a with ARight => true | _ => false end.
Definition is_monly (m : tmode) : bool := match m with MOnly => true | _ => false end.
Definition is_mtrunc (m : tmode) : bool := match m with MTrunc => true | _ => false end.
Definition apply_padding_c (sp : spec) (value : qstr) : option qstr :=
  let w := width sp in
  if w <=? 0 then Some value
  else if is_monly (mode sp) then
    (if len value <=? w then Some value
     else if is_right (al sp) then right_c value w else left_c value w)
  else if is_anone (al sp) then Some value
  else
    do val <- (if is_mtrunc (mode sp) && (w <? len value)
               then (if is_right (al sp) then right_c value w else left_c value w)
               else Some value);
    if w <=? len val then Some val
    else
      do padding <- ck (w - len val);
      match al sp with
      | ALeft => do f <- fill_c padding (fill sp); Some (val ++ f)
      | ARight => do f <- fill_c padding (fill sp); Some (f ++ val)
      | ACenter => let leftPad := padding / 2 in
                   do rightPad <- ck (padding - leftPad);
                   do l <- fill_c leftPad (fill sp);
                   do r <- fill_c rightPad (fill sp);
                   Some (l ++ val ++ r)
      | ANone => Some val
      end.

(* ---- ShortFileToken ------------------------------------------------------------------------ *)
Definition short_file_c (base file : qstr) : option qstr :=
  if is_empty base then
    let ls := last_index file [47%N] in
    let ls := if ls =? -1 then last_index file [92%N] else ls in
    if ls =? -1 then Some file else do p <- ck (ls + 1); mid_c file p (-1)
  else if starts_with file base then
    do r <- mid_c file (len base) (-1);
    if starts_with r [47%N] || starts_with r [92%N] then mid_c r 1 (-1) else Some r
  else Some file.

(* ---- tokens --------------------------------------------------------------------------------- *)
Inductive tkind :=
| KLit (text : qstr) | KMessage | KType | KLine | KFile | KShortFile (base : qstr) | KFunction | KFunc
| KCategory | KTime (fmt : qstr) | KThreadId | KQThreadPtr | KAttr (name : qstr) (opt : bool) (rb ra : Z).
Record token := { kind : tkind; cond : option mtype; tspec : spec }.

Definition s_type := A [116;121;112;101].
Definition s_line := A [108;105;110;101].
Definition s_file := A [102;105;108;101].
Definition s_shortfile := A [115;104;111;114;116;102;105;108;101].
Definition s_shortfile_sp := s_shortfile ++ [32%N].
Definition s_function := A [102;117;110;99;116;105;111;110].
Definition s_func := A [102;117;110;99].
Definition s_category := A [99;97;116;101;103;111;114;121].
Definition s_time := A [116;105;109;101].
Definition s_time_sp := s_time ++ [32%N].
Definition s_threadid := A [116;104;114;101;97;100;105;100].
Definition s_qthreadptr := A [113;116;104;114;101;97;100;112;116;114].
Definition s_message := A [109;101;115;115;97;103;101].
Definition s_if := A [105;102;45].
Definition s_endif := A [101;110;100;105;102].

(* inl kind | inr newcondition (if-x / endif) *)
Definition classify_c (ph : qstr) : option (tkind + option mtype) :=
  if beqb ph s_type then Some (inl KType) else if beqb ph s_line then Some (inl KLine)
  else if beqb ph s_file then Some (inl KFile)
  else if beqb ph s_shortfile then Some (inl (KShortFile []))
  else if starts_with ph s_shortfile_sp then do b <- mid_c ph 10 (-1); Some (inl (KShortFile (trimmed b)))
  else if beqb ph s_function then Some (inl KFunction) else if beqb ph s_func then Some (inl KFunc)
  else if beqb ph s_category then Some (inl KCategory)
  else if beqb ph s_time then Some (inl (KTime []))
  else if starts_with ph s_time_sp then do b <- mid_c ph 5 (-1); Some (inl (KTime (trimmed b)))
  else if beqb ph s_threadid then Some (inl KThreadId) else if beqb ph s_qthreadptr then Some (inl KQThreadPtr)
  else if beqb ph s_message then Some (inl KMessage)
  else if starts_with ph s_if then do c <- mid_c ph 3 (-1); Some (inr (Some (type_of_name c)))
  else if beqb ph s_endif then Some (inr None)
  else
    let qp := index_of ph [63%N] 0 in
    if qp =? -1 then Some (inl (KAttr ph false 0 0))
    else
      do name <- left_c ph qp;
      do p1 <- ck (qp + 1);
      do suffix <- mid_c ph p1 (-1);
      let cp := index_of suffix [44%N] 0 in
      if cp =? -1 then Some (inl (KAttr name true (fst (to_int suffix)) 0))
      else
        do rb <- (if 0 <? cp then do l <- left_c suffix cp; Some (fst (to_int l)) else Some 0);
        do p2 <- ck (cp + 1);
        do rs <- mid_c suffix p2 (-1);
        Some (inl (KAttr name true rb (fst (to_int rs)))).

Definition flush (lit : qstr) (cnd : option mtype) (toks : list token) : list token :=
  if is_empty lit then toks else toks ++ [{| kind := KLit lit; cond := cnd; tspec := no_spec |}].

(* ---- parsePattern: the scanning loop over positions ---------------------------------------- *)
Fixpoint parse_loop (fuel : nat) (p : qstr) (pos : Z) (lit : qstr) (cnd : option mtype) (toks : list token)
  : option (list token) :=
  match fuel with O => None | S fu =>
  if pos <? len p then
    do c <- at_ p pos;
    if (pos <? len p - 1) && (c =? 37)%N then
      do p1 <- ck (pos + 1);
      do d <- at_ p p1;
      if (d =? 123)%N then
        let toks1 := flush lit cnd toks in
        do p2 <- ck (pos + 2);
        let cp := index_of p [125%N] p2 in
        if cp =? -1 then parse_loop fu p p1 [37%N] cnd toks1
        else
          do n <- ck (cp - pos - 2);
          do ph0 <- mid_c p p2 n;
          let lc := last_index ph0 [58%N] in
          do phsp <- (if negb (lc =? -1) && (lc <? len ph0 - 1) then
                        do ps <- mid_c ph0 (lc + 1) (-1);
                        do sp <- parse_spec_c ps;
                        match sp with
                        | Some s => do l <- left_c ph0 lc; Some (l, s)
                        | None => Some (ph0, no_spec)
                        end
                      else Some (ph0, no_spec));
          let '(ph, sp) := phsp in
          do cl <- classify_c ph;
          do nxt <- ck (cp + 1);
          match cl with
          | inl k => parse_loop fu p nxt [] cnd (toks1 ++ [{| kind := k; cond := cnd; tspec := sp |}])
          | inr newc => parse_loop fu p nxt [] newc toks1
          end
      else if (d =? 37)%N then do p2 <- ck (pos + 2); parse_loop fu p p2 (lit ++ [37%N]) cnd toks
      else parse_loop fu p p1 (lit ++ [37%N]) cnd toks
    else do p1 <- ck (pos + 1); parse_loop fu p p1 (lit ++ [c]) cnd toks
  else Some (flush lit cnd toks)
  end.
Definition parse_pattern_c (p : qstr) : option (list token) := parse_loop (S (length p)) p 0 [] None [].

(* ---- evaluation ------------------------------------------------------------------------------ *)
(* the message as the tokens see it; values of the tokens whose rendering is outside the model
   (time, thread id, thread pointer) are supplied *)
Record menv := { mt : mtype; text : qstr; mfile : qstr; mfunc : bytes; mcat : qstr; mline : Z;
                 mtime : qstr; mtid : qstr; mptr : qstr; attrs : list (qstr * qstr) }.
Fixpoint lookup (k : qstr) (l : list (qstr * qstr)) : option qstr :=
  match l with [] => None | (k', v) :: r => if beqb k k' then Some v else lookup k r end.

(* value of a non-literal token that always emits *)
Definition value_c (k : tkind) (m : menv) : option qstr :=
  match k with
  | KLit t => Some t | KMessage => Some (text m) | KType => Some (type_name (mt m))
  | KLine => Some (render_int (mline m)) | KFile => Some (mfile m)
  | KShortFile b => short_file_c b (mfile m)
  | KFunction => Some (mfunc m) | KFunc => cleanup (mfunc m) | KCategory => Some (mcat m)
  | KTime _ => Some (mtime m) | KThreadId => Some (mtid m) | KQThreadPtr => Some (mptr m)
  | KAttr n _ _ _ => match lookup n (attrs m) with Some v => Some v | None => Some ([37%N; 123%N] ++ n ++ [125%N]) end
  end.

(* Token::appendToString on (dest, t_pendingRemove) *)
Definition emit_c (t : token) (m : menv) (st : qstr * Z) : option (qstr * Z) :=
  let '(dest, pending) := st in
  match kind t with
  | KLit txt =>
      (* removeCount = t_pendingRemove; t_pendingRemove = 0 *)
      if (0 <? pending) && (pending <? len txt) then do r <- mid_c txt pending (-1); Some (dest ++ r, 0)
      else if pending =? 0 then Some (dest ++ txt, 0)
      else Some (dest, 0)
  | KAttr n true rb ra =>
      match lookup n (attrs m) with
      | Some v => do e <- apply_padding_c (tspec t) v; Some (dest ++ e, pending)
      | None =>
          (* m_removeBefore > 0 && qint64(dest.size()) + t_pendingRemove >= m_removeBefore
             (the sum is formed in 64 bits: two ints cannot overflow it) *)
          do st1 <- (if 0 <? rb then
                       if rb <=? len dest + pending then
                         let fromPending := Z.min rb pending in
                         do p1 <- ck (pending - fromPending);
                         do n <- ck (rb - fromPending);
                         do d1 <- chop_c dest n;
                         Some (d1, p1)
                       else Some (dest, pending)
                     else Some (dest, pending));
          let '(d1, p1) := st1 in
          (* t_pendingRemove = int(qMin<qint64>(qint64(t_pendingRemove) + m_removeAfter, INT_MAX)) *)
          if 0 <? ra then Some (d1, Z.min (p1 + ra) INT_MAX) else Some (d1, p1)
      end
  | k => do v <- value_c k m; do e <- apply_padding_c (tspec t) v; Some (dest ++ e, pending)
  end.
Definition cond_ok (t : token) (m : menv) : bool := match cond t with None => true | Some c => mtype_eqb c (mt m) end.
(* PatternFormatterPrivate::format: the loop over the tokens *)
Fixpoint format_loop (toks : list token) (m : menv) (st : qstr * Z) : option qstr :=
  match toks with
  | [] => Some (fst st)
  | t :: r =>
    if cond_ok t m then
      do st' <- emit_c t m st;
      (* if (result.size() > sizeBefore) t_pendingRemove = 0; *)
      let st'' := if len (fst st) <? len (fst st') then (fst st', 0) else st' in
      format_loop r m st''
    else format_loop r m st
  end.
Definition format_c (toks : list token) (m : menv) : option qstr :=
  match toks with [] => Some (text m) | _ => format_loop toks m ([], 0) end.
Definition format_pattern_c (p : qstr) (m : menv) : option qstr :=
  do toks <- parse_pattern_c p; format_c toks m.

(* ---- the message as the caller hands it over ------------------------------------------------ *)
(* file, function and category are `const char *` and each may be the NULL POINTER (release builds with
   QT_NO_MESSAGELOGCONTEXT, QML / scripting callers, a default-constructed LogMessage); the tokens convert
   them with QString(const char* p) / fromLatin1 / QByteArray(const char* p), for which null = empty ([cstr]) *)
Record rawmsg := { r_mt : mtype; r_text : qstr; r_file : option qstr; r_func : option bytes; r_cat : option qstr;
                   r_line : Z; r_time : qstr; r_tid : qstr; r_ptr : qstr; r_attrs : list (qstr * qstr) }.
Definition env_of_raw (r : rawmsg) : menv :=
  {| mt := r_mt r; text := r_text r; mfile := cstr (r_file r); mfunc := cstr (r_func r); mcat := cstr (r_cat r);
     mline := r_line r; mtime := r_time r; mtid := r_tid r; mptr := r_ptr r; attrs := r_attrs r |}.
Definition format_raw_c (p : qstr) (r : rawmsg) : option qstr := format_pattern_c p (env_of_raw r).
(* the same message with every null pointer replaced by a pointer to "" *)
Definition denull (r : rawmsg) : rawmsg :=
  {| r_mt := r_mt r; r_text := r_text r; r_file := Some (cstr (r_file r)); r_func := Some (cstr (r_func r));
     r_cat := Some (cstr (r_cat r)); r_line := r_line r; r_time := r_time r; r_tid := r_tid r; r_ptr := r_ptr r;
     r_attrs := r_attrs r |}.
Definition is_ptr_kind (k : tkind) : bool :=
  match k with KFile | KShortFile _ | KFunction | KFunc | KCategory => true | _ => false end.

(* the resource bound of a token list on a message: sum over the emitting tokens of
   max(|value|, width) — what the output (and Qt's allocation) can reach *)
Definition tok_bound (t : token) (m : menv) : Z :=
  if cond_ok t m then
    match kind t with
    | KLit txt => len txt
    | KAttr n true _ _ => match lookup n (attrs m) with Some v => Z.max (len v) (width (tspec t)) | None => 0 end
    | k => match value_c k m with Some v => Z.max (len v) (width (tspec t)) | None => 0 end
    end
  else 0.
Definition fmt_bound (toks : list token) (m : menv) : Z :=
  match toks with [] => len (text m) | _ => fold_right (fun t a => tok_bound t m + a) 0 toks end.
(* ---- PrettyFormatter: table index and width arithmetic (one thread) ------------------------- *)
Definition type_letter_c (t : mtype) : option N := nth_error src_type_letters (N.to_nat (qt_enum t)).
Definition esc (s : list Z) : qstr := 27%N :: A s.
Definition c_reset := esc [91;48;109].
Definition c_darkgray := esc [91;57;48;109].
Definition c_green := esc [91;51;50;109].
Definition c_greenbold := esc [91;49;59;51;50;109].
Definition c_orange := esc [91;51;56;59;53;59;49;55;50;109].
Definition c_darkorange := esc [91;51;56;59;53;59;50;48;56;109].
Definition c_redbold := esc [91;49;59;51;49;109].
Definition c_darkredbold := esc [91;49;59;51;56;59;53;59;56;56;109].
Definition letter_color (t : mtype) : option qstr :=
  match t with Info => Some c_greenbold | Warning => Some c_darkorange | Critical => Some c_redbold
             | Fatal => Some c_darkredbold | Debug => None end.
Definition msg_color (t : mtype) : option qstr :=
  match t with Info => Some c_green | Warning => Some c_orange | Critical => Some c_redbold
             | Fatal => Some c_darkredbold | Debug => None end.
Definition wrap (c : option qstr) (s : qstr) : qstr := match c with Some e => e ++ s ++ c_reset | None => s end.
(* everything PrettyFormatter::format appends after "<time> ", and the new m_categoryWidth.
   [cat = None] is the default category; the thread column is empty while one thread logs. *)
Definition pretty_c (colorize : bool) (maxw : Z) (cw : Z) (t : mtype) (cat : option qstr) (msg : qstr)
  : option (qstr * Z) :=
  let csize := match cat with Some c => len c | None => 0 end in
  do est <- ck (src_pretty_est_base + csize + src_pretty_est_extra + len msg + (if colorize then src_pretty_est_color else 0));
  do letter <- type_letter_c t;
  let head := (if colorize then wrap (letter_color t) [letter] else [letter]) ++ [32%N] in
  do cfl <- (match cat with Some _ => ck (csize + src_pretty_cat_extra) | None => Some 0 end);
  let cpart := match cat with
               | Some c => let b := [91%N] ++ c ++ [93%N; 32%N] in
                           if colorize then c_darkgray ++ b ++ c_reset else b
               | None => [] end in
  do r <- (if 0 <? maxw then
             let cw' := if cw <? cfl then Z.min cfl maxw else cw in
             do sc <- ck (cw' - cfl);
             if 0 <? sc then do f <- fill_c sc 32%N; Some (f, cw') else Some ([], cw')
           else Some ([], cw));
  let '(pad, cw') := r in
  Some (head ++ cpart ++ pad ++ (if colorize then wrap (msg_color t) msg else msg), cw').
Fixpoint pretty_seq_c (colorize : bool) (maxw : Z) (cw : Z) (l : list (mtype * option qstr * qstr)) : option (list qstr) :=
  match l with
  | [] => Some []
  | (t, c, m) :: r => do o <- pretty_c colorize maxw cw t c m; do rest <- pretty_seq_c colorize maxw (snd o) r; Some (fst o :: rest)
  end.

(* PrettyFormatter sees the raw category pointer: qstrcmp(categoryRaw, "default") == 0 -> default category,
   otherwise QString::fromUtf8(categoryRaw); qstrcmp(nullptr, "default") <> 0 and fromUtf8(nullptr) = "",
   so the null pointer is the NON-default category with the empty name ("[] ") *)
Definition s_default := A [100;101;102;97;117;108;116].
Definition pretty_cat_of_ptr (c : option qstr) : option qstr :=
  match c with None => Some [] | Some s => if beqb s s_default then None else Some s end.
Definition pretty_seq_raw_c (colorize : bool) (maxw : Z) (cw : Z) (l : list (mtype * option qstr * qstr)) : option (list qstr) :=
  pretty_seq_c colorize maxw cw (map (fun x => (fst (fst x), pretty_cat_of_ptr (snd (fst x)), snd x)) l).

(* ---- the formatter chain of the one-line configure(pipeline, path, ...) ----------------------------
   PrettyFormatterPtr::create(src_cfg_colorize) (default column limit) -> console sink -> a FunctionFormatter that
   removes every match of  ESC [ <params>* <final>  from the formatted text -> file sink.  [strip_sgr] is
   QString::remove(QRegularExpression) for that expression: ONE left-to-right pass over the text, leftmost match
   first, the parameter run greedy (no back-tracking is possible: the final byte is not a parameter), the scan
   resumes behind a removed match (text that only becomes a colour code by a removal stays), an introducer that is
   not completed by the final byte is kept as it is - in particular an ESC [ with no final byte anywhere behind it.
   (ESC, [, the parameters and the final byte are ASCII: the scan is the same on code units and on code points.)
   Structural recursion on the text: the state is what has been read of a possible match. *)
Definition is_sgr_param (c : N) : bool := existsb (N.eqb c) src_sgr_params.
Inductive sgr_state := SgN | SgE | SgP (rp : qstr).      (* nothing pending | ESC | ESC [ params (reversed) *)
Definition sgr_pending (st : sgr_state) : qstr :=
  match st with SgN => [] | SgE => [src_sgr_esc] | SgP rp => src_sgr_esc :: src_sgr_open :: rev rp end.
Fixpoint strip_go (st : sgr_state) (s : qstr) : qstr :=
  match s with
  | [] => sgr_pending st
  | c :: r =>
    match st with
    | SgN => if (c =? src_sgr_esc)%N then strip_go SgE r else c :: strip_go SgN r
    | SgE => if (c =? src_sgr_open)%N then strip_go (SgP []) r
             else if (c =? src_sgr_esc)%N then src_sgr_esc :: strip_go SgE r
             else src_sgr_esc :: c :: strip_go SgN r
    | SgP rp => if is_sgr_param c then strip_go (SgP (c :: rp)) r
                else if (c =? src_sgr_final)%N then strip_go SgN r
                else if (c =? src_sgr_esc)%N then sgr_pending st ++ strip_go SgE r
                else sgr_pending st ++ c :: strip_go SgN r
    end
  end.
(* QRegularExpression validates the subject first: a text that is not well-formed UTF-16 (a lone surrogate - message
   texts are arbitrary code units) matches nothing, and QString::remove leaves it as it is, colour codes included *)
Definition is_hi_surrogate (c : N) : bool := ((55296 <=? c) && (c <=? 56319))%N.
Definition is_lo_surrogate (c : N) : bool := ((56320 <=? c) && (c <=? 57343))%N.
Fixpoint utf16_ok (s : qstr) : bool :=
  match s with
  | [] => true
  | c :: r => if is_hi_surrogate c then match r with d :: r' => is_lo_surrogate d && utf16_ok r' | [] => false end
              else if is_lo_surrogate c then false else utf16_ok r
  end.
Definition strip_sgr (s : qstr) : qstr := if utf16_ok s then strip_go SgN s else s.
(* what reaches the file sink after "<time> " (the time text holds no ESC), and the new column width *)
Definition configure_c (cw : Z) (t : mtype) (cat : option qstr) (msg : qstr) : option (qstr * Z) :=
  do o <- pretty_c src_cfg_colorize src_pretty_default_maxw cw t cat msg; Some (strip_sgr (fst o), snd o).
Fixpoint configure_seq_c (cw : Z) (l : list (mtype * option qstr * qstr)) : option (list qstr) :=
  match l with
  | [] => Some []
  | (t, c, m) :: r => do o <- configure_c cw t c m; do rest <- configure_seq_c (snd o) r; Some (fst o :: rest)
  end.
Definition configure_seq_raw_c (cw : Z) (l : list (mtype * option qstr * qstr)) : option (list qstr) :=
  configure_seq_c cw (map (fun x => (fst (fst x), pretty_cat_of_ptr (snd (fst x)), snd x)) l).

(* ---- oracles evaluated on the implementation's output --------------------------------------- *)
Definition prop_c14_pattern_b (p : qstr) (m : menv) (impl_out : qstr) : bool :=
  match parse_pattern_c p with
  | Some toks => match format_c toks m with
                 | Some r => beqb r impl_out && (len impl_out <=? fmt_bound toks m)
                 | None => false end
  | None => false
  end.
Definition prop_c14_raw_b (p : qstr) (r : rawmsg) (impl_out : qstr) : bool := prop_c14_pattern_b p (env_of_raw r) impl_out.
