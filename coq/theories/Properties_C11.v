(* C11 — A fatal message and everything before it reach the log file.
   Property theorems only.  [src_fatal_cfg] is what tools/s2c/fatal.py reads from /repo on every run:
   where Logger::processMessage flushes relative to process(lmsg), for which message types and thread
   condition; whether recursiveFlush flushes every Sink and enters nested Pipelines; whether
   FileSink::flush is QFile::flush; whether RotatingFileSink::send asks size() before writing; whether
   IODeviceSink::send flushes by itself.  [src_fatal_cfg_nothread] is the same reading with
   QTLOGGER_NO_THREAD defined (the documented single-threaded configuration).
   Removing the flush, moving it before process(lmsg) or into the sink, restricting it to another
   message type, not descending, or a FileSink::flush that does nothing makes
   [C11_source_configuration_good] fail.

   What the property demands, made precise for configurations with filters: the file of every file
   sink holds every record that REACHED that sink (passed every filter in front of it, in its own and
   in the enclosing pipelines) before the fatal message, and the fatal record iff it reaches the sink.
   A sink on a device that keeps nothing (ENOSPC) has no file to speak of, but must not keep the
   others from being flushed. *)
From Coq Require Import List NArith Bool.
Import ListNotations.
Require Import QtlVerif.FatalDefs QtlVerif.FatalProofs QtlVerif.SrcFatal.
Local Open Scope N_scope.

Theorem C11_source_configuration_good : cfg_goodb src_fatal_cfg = true.
Proof. vm_compute. reflexivity. Qed.
Print Assumptions C11_source_configuration_good.

Theorem C11_flush_on_fatal_present : flush_on_fatal = true.
Proof. vm_compute. reflexivity. Qed.
Print Assumptions C11_flush_on_fatal_present.

(* full strength: for EVERY handler tree of the synchronous logger (plain and rotating file sinks,
   healthy or on a full device, filters, other handlers, pipelines nested to any depth), EVERY
   history of preceding messages (any number, sizes, types), EVERY buffering policy (when QFile
   decides to flush by itself), every initial file content: when qFatal(r) has been processed and
   the process is aborted, the file of every healthy file sink = what it held + every record that
   passed the filters in front of that sink and was written while its device accepted writes, in order
   ([expected]: the fatal record is the last one iff it passes them and is accepted).  [rej] is an
   arbitrary pattern of transient device faults: a rejected write loses that record and nothing else.
   Null handler entries ([TNull]) are part of [tree]: skipped by the message loop and by the flush. *)
Theorem C11_fatal_reaches_disk : forall (pol : policy) (rej : reject) (t : tree) (msgs : list msg) (r : rec),
  survivors (run_fatal src_fatal_cfg pol rej t msgs r) = expected rej t (msgs ++ [(Fatal, r)]).
Proof. exact (fatal_reaches_disk src_fatal_cfg C11_source_configuration_good). Qed.
Print Assumptions C11_fatal_reaches_disk.

(* the property in its plain reading: no filter in front of any sink, every device healthy: every
   file = previous content + ALL preceding records + the fatal one *)
Theorem C11_fatal_reaches_disk_unfiltered : forall pol t msgs r,
  Forall (fun sg => snd sg = [] /\ broken (fst sg) = false) (gsinks t) ->
  survivors (run_fatal src_fatal_cfg pol no_faults t msgs r)
  = map (fun sg => Some (content (fst sg) ++ map snd msgs ++ [r])) (gsinks t).
Proof. exact (fatal_reaches_disk_unfiltered src_fatal_cfg C11_source_configuration_good). Qed.
Print Assumptions C11_fatal_reaches_disk_unfiltered.

(* independent of the configuration: no step ever drops a record from (file ++ write buffer) and no
   record goes to a sink whose filters rejected it, so what a file lacks at abort is exactly what
   was still buffered *)
Theorem C11_content_conserved : forall cfg pol rej t msgs r,
  view (run_fatal cfg pol rej t msgs r) = map (upd_all rej (msgs ++ [(Fatal, r)])) (view t).
Proof. exact content_conserved. Qed.
Print Assumptions C11_content_conserved.

(* the boolean oracle the check evaluates on the record ids found in the real files *)
Theorem C11_oracle_holds : forall pol rej t msgs r,
  prop_c11_b rej t msgs r (ids_of (survivors (run_fatal src_fatal_cfg pol rej t msgs r))) = true.
Proof. exact (oracle_holds src_fatal_cfg C11_source_configuration_good). Qed.
Print Assumptions C11_oracle_holds.

(* the repaired defect (DESIGN section 5, F2): the same code without the flush loses records under Qt's
   own buffering policy *)
Theorem C11_no_flush_refuted : exists t msgs r,
  survivors (run_fatal (with_pos src_fatal_cfg FNone) qfile_policy no_faults t msgs r) <> expected no_faults t (msgs ++ [(Fatal, r)]).
Proof.
  exists (TPipe [TSink (fresh 0 false false)]), [info 0 11; info 1 11; info 2 11], (mk 3 14).
  vm_compute. discriminate.
Qed.
Print Assumptions C11_no_flush_refuted.

(* flushing BEFORE the fatal record is processed is not enough *)
Theorem C11_flush_before_refuted : exists t msgs r,
  survivors (run_fatal (with_pos src_fatal_cfg FBefore) qfile_policy no_faults t msgs r) <> expected no_faults t (msgs ++ [(Fatal, r)]).
Proof.
  exists (TPipe [TSink (fresh 0 false false)]), [info 0 11], (mk 1 14). vm_compute. discriminate.
Qed.
Print Assumptions C11_flush_before_refuted.

(* a flush that does not enter nested pipelines misses the sinks inside them *)
Theorem C11_no_descend_refuted : exists t msgs r,
  survivors (run_fatal (with_descends src_fatal_cfg false) qfile_policy no_faults t msgs r) <> expected no_faults t (msgs ++ [(Fatal, r)]).
Proof.
  exists (TPipe [TOther; TPipe [TOther; TSink (fresh 0 false false)]]), [info 0 11], (mk 1 14).
  vm_compute. discriminate.
Qed.
Print Assumptions C11_no_descend_refuted.

(* a flush performed by the sink when the fatal record arrives (instead of by the logger) misses the
   sinks the fatal record does not reach: a debug-only trace file next to the main file *)
Theorem C11_flush_in_sink_refuted : exists t msgs r,
  survivors (run_fatal (flush_in_sink src_fatal_cfg) qfile_policy no_faults t msgs r) <> expected no_faults t (msgs ++ [(Fatal, r)]).
Proof.
  exists (TPipe [TOther; TPipe [TFilter (is_type Debug); TSink (fresh 0 false false)]; TSink (fresh 1 false false)]),
         [(Debug, mk 0 11); info 1 11], (mk 2 14).
  vm_compute. discriminate.
Qed.
Print Assumptions C11_flush_in_sink_refuted.

(* every record written while the device accepts is on disk after the fatal flush; the rejected ones and
   only those are missing: stated for a single sink without filters *)
Theorem C11_transient_fault_loses_only_the_rejected_records : forall pol rej s msgs r,
  broken s = false ->
  survivors (run_fatal src_fatal_cfg pol rej (TPipe [TSink s]) msgs r)
  = [Some (content s ++ map snd (filter (fun m => negb (rej (sid s) (snd m))) (msgs ++ [(Fatal, r)])))].
Proof.
  intros pol rej s msgs r Hb. rewrite C11_fatal_reaches_disk. unfold expected, gsinks. cbn [gs app map fst snd].
  rewrite Hb. reflexivity.
Qed.
Print Assumptions C11_transient_fault_loses_only_the_rejected_records.

(* an explicit flush() between two messages (SimplePipeline::flush, any configuration) changes no content
   and no filter: it only moves records from the buffers to the files, so the scenarios of the check may
   interleave flush() calls freely without changing what the property demands *)
Theorem C11_explicit_flush_changes_no_content : forall cfg t, view (root_flush cfg t) = view t.
Proof. exact (fun cfg t => tview_root_flush cfg t []). Qed.
Print Assumptions C11_explicit_flush_changes_no_content.

(* null handler entries change nothing: the same files as without them *)
Theorem C11_null_entries_are_inert : forall pol rej l msgs r,
  survivors (run_fatal src_fatal_cfg pol rej (TPipe (TNull :: l)) msgs r)
  = survivors (run_fatal src_fatal_cfg pol rej (TPipe l) msgs r).
Proof. intros. rewrite !C11_fatal_reaches_disk. reflexivity. Qed.
Print Assumptions C11_null_entries_are_inert.

(* ---- the logger is RECONFIGURED while it runs ----
   Histories are now lists of events: a message, an explicit logger.flush(), or a reconfiguration
   (append / sendToFile on the logger or on an existing nested pipeline, remove of a handler,
   clearSinks) between two messages.  Full strength: for every initial tree, every such history, every
   buffering policy and fault pattern, at abort the file of every healthy file sink of the FINAL
   configuration = what the logger WITHOUT ANY BUFFERING would have written ([expected_ev]: a
   specification in which no configuration, no policy and no flush occurs).  In particular a sink that
   was added after an earlier flush() - in place of a removed one, or inside a nested pipeline that
   already existed - is reached by the fatal flush. *)
Theorem C11_fatal_reaches_disk_after_reconfiguration :
  forall (pol : policy) (rej : reject) (t : tree) (evs : list event) (r : rec),
  survivors (run_events_fatal src_fatal_cfg pol rej t evs r) = expected_ev rej t evs r.
Proof. exact (fatal_reaches_disk_ev src_fatal_cfg C11_source_configuration_good). Qed.
Print Assumptions C11_fatal_reaches_disk_after_reconfiguration.

(* the unbuffered specification is the closed form [expected] on histories of messages only *)
Theorem C11_reconfiguration_spec_agrees_with_closed_form : forall rej t msgs r,
  expected_ev rej t (map EMsg msgs) r = expected rej t (msgs ++ [(Fatal, r)]).
Proof. exact expected_ev_msgs. Qed.
Print Assumptions C11_reconfiguration_spec_agrees_with_closed_form.

(* explicit flush() calls, wherever they are in the history, change nothing of what is demanded *)
Theorem C11_explicit_flush_is_invisible : forall rej t evs1 evs2 r,
  expected_ev rej t (evs1 ++ EFlush :: evs2) r = expected_ev rej t (evs1 ++ evs2) r.
Proof. exact expected_ev_flush. Qed.
Print Assumptions C11_explicit_flush_is_invisible.

(* model and specification agree on which sinks the final configuration has (the check uses it to find the files) *)
Theorem C11_final_configuration_sinks : forall pol rej t evs,
  map (fun sg => sid (fst sg)) (gsinks (run_events src_fatal_cfg pol rej t evs)) = final_sids rej t evs.
Proof. exact (final_sids_model src_fatal_cfg). Qed.
Print Assumptions C11_final_configuration_sinks.

(* the boolean oracle the check evaluates on the record ids found in the real files (event histories) *)
Theorem C11_oracle_with_reconfiguration_holds : forall pol rej t evs r,
  prop_c11_ev_b rej t evs r (ids_of (survivors (run_events_fatal src_fatal_cfg pol rej t evs r))) = true.
Proof. exact (oracle_ev_holds src_fatal_cfg C11_source_configuration_good). Qed.
Print Assumptions C11_oracle_with_reconfiguration_holds.

(* ---- the documented single-threaded configuration (-DQTLOGGER_NO_THREAD) ----
   [src_fatal_cfg_nothread] is the same source read as the preprocessor leaves it when
   QTLOGGER_NO_THREAD is defined.  The flush after a fatal message must be there as well: a flush that
   sits inside `#ifndef QTLOGGER_NO_THREAD` breaks this obligation. *)
Theorem C11_src_flush_in_every_configuration :
  cfg_goodb src_fatal_cfg_nothread = true /\ flush_on_fatal_nothread = true.
Proof. vm_compute. split; reflexivity. Qed.
Print Assumptions C11_src_flush_in_every_configuration.

Theorem C11_fatal_reaches_disk_no_thread :
  forall (pol : policy) (rej : reject) (t : tree) (evs : list event) (r : rec),
  survivors (run_events_fatal src_fatal_cfg_nothread pol rej t evs r) = expected_ev rej t evs r.
Proof. exact (fatal_reaches_disk_ev src_fatal_cfg_nothread (proj1 C11_src_flush_in_every_configuration)). Qed.
Print Assumptions C11_fatal_reaches_disk_no_thread.

(* ---- several file sinks on ONE file ----
   Nothing keeps a program from creating two file sinks for the same file name: a sink replaced at run time
   by a new one for the same file (new one appended, old one removed), a second short-lived Logger object
   logging to the same file.  [fm] assigns a file to every sink identity; histories are lists of [wevent]
   (the events above, and [WScratch s msgs]: another Logger object with the file sink [s] logs [msgs] and is
   destroyed); a sink that leaves the configuration is destroyed, which closes (flushes) its QFile.
   Full strength: for every assignment of files, every tree, every such history, every buffering policy and
   fault pattern, at abort every file holds from EVERY QFile ever opened on it exactly the stream of records
   the unbuffered logger would have written through that sink ([expected_w]: no configuration, policy or
   flush in it) - each record once per sink that wrote it - and the set of files that belong to the final
   configuration is the same. *)
Theorem C11_fatal_reaches_shared_files :
  forall (pol : policy) (rej : reject) (t : tree) (evs : list wevent) (r : rec) (fm : fmap),
  (forall f, streams fm f (wrun_fatal src_fatal_cfg pol rej t evs r) = streams fm f (expected_w rej t evs r))
  /\ live_files fm (wrun_fatal src_fatal_cfg pol rej t evs r) = live_files fm (expected_w rej t evs r).
Proof. exact (fatal_reaches_shared_files src_fatal_cfg C11_source_configuration_good). Qed.
Print Assumptions C11_fatal_reaches_shared_files.

Theorem C11_fatal_reaches_shared_files_no_thread :
  forall (pol : policy) (rej : reject) (t : tree) (evs : list wevent) (r : rec) (fm : fmap),
  (forall f, streams fm f (wrun_fatal src_fatal_cfg_nothread pol rej t evs r) = streams fm f (expected_w rej t evs r))
  /\ live_files fm (wrun_fatal src_fatal_cfg_nothread pol rej t evs r) = live_files fm (expected_w rej t evs r).
Proof. exact (fatal_reaches_shared_files src_fatal_cfg_nothread (proj1 C11_src_flush_in_every_configuration)). Qed.
Print Assumptions C11_fatal_reaches_shared_files_no_thread.

(* whatever the configuration and whenever the process dies: what a destroyed sink (removed, cleared, the
   sink of a second logger that went out of scope) had been sent is in its file *)
Theorem C11_destroyed_sinks_lose_nothing : forall cfg pol rej t evs fm f,
  map disk (filter (on_file fm f) (snd (wrun cfg pol rej t evs)))
  = map disk (filter (on_file fm f) (snd (wspec rej t evs))).
Proof. exact destroyed_sinks_lose_nothing. Qed.
Print Assumptions C11_destroyed_sinks_lose_nothing.

(* the specification for shared files extends the one above: same tree on histories without a second logger *)
Theorem C11_shared_file_spec_extends_reconfiguration_spec : forall rej t evs,
  fst (wspec rej t (map WEv evs)) = spec_run rej t evs.
Proof. exact wspec_tree. Qed.
Print Assumptions C11_shared_file_spec_extends_reconfiguration_spec.

(* the boolean oracle the check evaluates on the ids found in files written by several sinks *)
Theorem C11_oracle_for_shared_files_holds : forall pol rej t evs r fm,
  prop_c11_w_b fm rej t evs r (fun f => Some (concat (stream_ids fm f (wrun_fatal src_fatal_cfg pol rej t evs r)))) = true.
Proof. exact (oracle_w_holds src_fatal_cfg C11_source_configuration_good). Qed.
Print Assumptions C11_oracle_for_shared_files_holds.

(* non-vacuity: format + file sink 0; two messages; a NEW sink 1 for the SAME file is appended; one message
   (both sinks write it); the old sink is removed (destroyed); one message; a second logger with sink 2 on the
   same file logs record 1000000 and goes away; one more message; qFatal.  File 0 is made of three streams.
   Without the flush on fatal the stream of the surviving sink is empty; the destroyed ones are complete. *)
Example C11_shared_file_nonvacuous :
  let fm : fmap := fun _ => 0 in
  let t := TPipe [TOther; TSink (fresh 0 false false)] in
  let evs := [WEv (EMsg (info 0 11)); WEv (EMsg (info 1 11));
              WEv (EOp (OAppend [] (TSink (fresh 1 false false)))); WEv (EMsg (info 2 11));
              WEv (EOp (ORemove [] 1%nat)); WEv (EMsg (info 3 11));
              WScratch (fresh 2 false false) [info 1000000 11]; WEv (EMsg (info 4 11))] in
  stream_ids fm 0 (expected_w no_faults t evs (mk 5 14)) = [[0; 1; 2]; [1000000]; [2; 3; 4; 5]]
  /\ live_files fm (expected_w no_faults t evs (mk 5 14)) = [0]
  /\ stream_ids fm 0 (wrun_fatal src_fatal_cfg qfile_policy no_faults t evs (mk 5 14)) = [[0; 1; 2]; [1000000]; [2; 3; 4; 5]]
  /\ stream_ids fm 0 (wrun_fatal src_fatal_cfg_nothread qfile_policy no_faults t evs (mk 5 14)) = [[0; 1; 2]; [1000000]; [2; 3; 4; 5]]
  /\ stream_ids fm 0 (wrun_fatal (with_pos src_fatal_cfg FNone) qfile_policy no_faults t evs (mk 5 14)) = [[0; 1; 2]; [1000000]; []]
  /\ (* killed before the fatal message: the destroyed sinks are complete, the live one has nothing on disk *)
  stream_ids fm 0 (wrun src_fatal_cfg qfile_policy no_faults t evs) = [[0; 1; 2]; [1000000]; []]
  /\ (* the oracle: the real file (streams in the order the QFiles were flushed) is accepted; a file that lacks what
        was logged after the old sink went away is not; neither is one with a record twice too often *)
  prop_c11_w_b fm no_faults t evs (mk 5 14) (fun _ => Some [0; 1; 2; 1000000; 2; 3; 4; 5]) = true
  /\ prop_c11_w_b fm no_faults t evs (mk 5 14) (fun _ => Some [0; 1; 2; 2; 1000000]) = false
  /\ prop_c11_w_b fm no_faults t evs (mk 5 14) (fun _ => Some [0; 1; 2; 1000000; 2; 3; 3; 4; 5]) = false
  /\ prop_c11_w_b fm no_faults t evs (mk 5 14) (fun _ => None) = false.
Proof. vm_compute. repeat split. Qed.

(* non-vacuity for EMPTY texts: a record is the text plus a newline, so the empty text is a record of one byte
   ([rlen] = 1) and a text of three blanks one of four; the theorems above quantify over every [rec].  An empty
   fatal message after an empty and a blank message: all of them are in the file; without the flush on fatal
   (or with a flush that is skipped for an empty fatal text) the file is empty. *)
Example C11_empty_texts_nonvacuous :
  let t := TPipe [TOther; TSink (fresh 0 false false); TPipe [TSink (fresh 1 true false)]] in
  let msgs := [info 0 11; info 1 1; (Warning, mk 2 4)] in
  ids_of (survivors (run_fatal src_fatal_cfg qfile_policy no_faults t msgs (mk 3 1))) = [Some [0; 1; 2; 3]; Some [0; 1; 2; 3]]
  /\ ids_of (expected no_faults t (msgs ++ [(Fatal, mk 3 1)])) = [Some [0; 1; 2; 3]; Some [0; 1; 2; 3]]
  /\ ids_of (survivors (run_fatal (with_pos src_fatal_cfg FNone) qfile_policy no_faults t msgs (mk 3 1))) = [Some []; Some [0; 1; 2]].
Proof. vm_compute. repeat split. Qed.

(* non-vacuity of the reconfiguration theorems: format + file sink 0 + a nested pipeline behind a
   warning-and-above filter; one message, flush(), then (A) the file sink is replaced by sink 1 (same
   number of top-level handlers) and (B) sink 2 is added INSIDE the existing nested pipeline; three
   more messages, qFatal.  The new sinks hold everything logged after they were added, fatal record
   included; without the flush on fatal both new files are empty. *)
Example C11_reconfiguration_nonvacuous :
  let warn := fun m : msg => negb (is_type Debug m) && negb (is_type Info m) in
  let t := TPipe [TOther; TSink (fresh 0 false false); TPipe [TFilter warn]] in
  let evs := [EMsg (info 0 11); EFlush;
              EOp (ORemove [] 1%nat); EOp (OAppend [] (TSink (fresh 1 false false)));
              EOp (OAppend [1%nat] (TSink (fresh 2 false false)));
              EMsg (Warning, mk 1 11); EMsg (info 2 11); EMsg (Warning, mk 3 11)] in
  final_sids no_faults t evs = [2; 1]
  /\ ids_of (expected_ev no_faults t evs (mk 4 14)) = [Some [1; 3; 4]; Some [1; 2; 3; 4]]
  /\ ids_of (survivors (run_events_fatal src_fatal_cfg qfile_policy no_faults t evs (mk 4 14))) = [Some [1; 3; 4]; Some [1; 2; 3; 4]]
  /\ ids_of (survivors (run_events_fatal src_fatal_cfg_nothread qfile_policy no_faults t evs (mk 4 14))) = [Some [1; 3; 4]; Some [1; 2; 3; 4]]
  /\ ids_of (survivors (run_events_fatal (with_pos src_fatal_cfg FNone) qfile_policy no_faults t evs (mk 4 14))) = [Some []; Some []]
  /\ (* killed right after the explicit flush: what the flush had put on disk *)
  ids_of (survivors (run_events src_fatal_cfg qfile_policy no_faults t [EMsg (info 0 11); EFlush])) = [Some [0]]
  /\ ids_of (survivors (run_events src_fatal_cfg qfile_policy no_faults t [EMsg (info 0 11)])) = [Some []].
Proof. vm_compute. repeat split. Qed.

(* non-vacuity: a formatter, a debug-only trace file in a nested pipeline, a sink on a full device in
   front of a healthy plain sink, a nested pipeline holding a size-limited rotating sink behind a
   filter that rejects the fatal message, and a second-level pipeline with another plain sink;
   records below, at and above QFile's 16 KiB chunk *)
Example C11_nonvacuous :
  let t := TPipe [TOther; TNull; TPipe [TFilter (is_type Debug); TNull; TSink (fresh 0 false false)];
                  TSink (fresh 1 false true); TSink (fresh 2 false false);
                  TPipe [TFilter (fun m => negb (is_type Fatal m)); TSink (fresh 3 true false); TPipe [TSink (fresh 4 false false)]]] in
  let msgs := [(Debug, mk 0 11); (Warning, mk 1 20481); info 2 11; (Debug, mk 3 16384)] in
  ids_of (survivors (run_fatal src_fatal_cfg qfile_policy no_faults t msgs (mk 4 14)))
    = [Some [0; 3]; None; Some [0; 1; 2; 3; 4]; Some [0; 1; 2; 3]; Some [0; 1; 2; 3]]
  /\ (* the same run killed right after the last ordinary message: what Qt's policy had flushed *)
  ids_of (survivors (log_all src_fatal_cfg qfile_policy no_faults t msgs)) = [Some [0]; None; Some [0; 1; 2]; Some [0; 1; 2]; Some [0; 1; 2]]
  /\ (* the flush moved into the sink: the trace file and the files behind the fatal-rejecting filter lose records *)
  ids_of (survivors (run_fatal (flush_in_sink src_fatal_cfg) qfile_policy no_faults t msgs (mk 4 14)))
    = [Some [0]; None; Some [0; 1; 2; 3; 4]; Some [0; 1; 2]; Some [0; 1; 2]]
  /\ (* F2 as it was: no flush at all; the plain file stays empty, the rotating file lacks the fatal record *)
  ids_of (survivors (run_fatal (with_pos src_fatal_cfg FNone) qfile_policy no_faults
                       (TPipe [TSink (fresh 0 false false); TSink (fresh 1 true false)]) [info 0 11; info 1 11; info 2 11] (mk 3 14)))
    = [Some []; Some [0; 1; 2]]
  /\ (* a transient fault: the device of sink 2 rejects record 1, everything else is there *)
  ids_of (survivors (run_fatal src_fatal_cfg qfile_policy (fun i r => (i =? 2) && (rid r =? 1)) t msgs (mk 4 14)))
    = [Some [0; 3]; None; Some [0; 2; 3; 4]; Some [0; 1; 2; 3]; Some [0; 1; 2; 3]].
Proof. vm_compute. repeat split. Qed.
