(* C11 — A fatal message and everything before it reach the log file.
   Property theorems only.  [src_fatal_cfg] is what tools/s2c/fatal.py reads from /repo on every run:
   where Logger::processMessage flushes relative to process(lmsg), for which message types and thread
   condition; whether recursiveFlush flushes every Sink and enters nested Pipelines; whether
   FileSink::flush is QFile::flush; whether RotatingFileSink::send asks size() before writing.
   Removing the flush, moving it before process(lmsg), restricting it to another message type,
   not descending, or a FileSink::flush that does nothing makes [C11_source_configuration_good] fail. *)
From Coq Require Import List NArith Bool.
Import ListNotations.
Require Import QtlVerif.FatalDefs QtlVerif.FatalProofs QtlVerif.SrcFatal.
Local Open Scope N_scope.

Theorem C11_source_configuration_good : cfg_goodb src_fatal_cfg = true.
Proof. vm_compute. reflexivity. Qed.
Print Assumptions C11_source_configuration_good.

Theorem C11_flush_on_fatal_present : flush_on_fatal = true.
Proof. vm_compute. reflexivity. Qed.
Print Assumptions C11_flush_on_fatal_present.

(* full strength: for EVERY handler tree of the synchronous logger (plain and rotating file sinks,
   other handlers, pipelines nested to any depth), EVERY history of preceding messages (any number,
   sizes, types), EVERY buffering policy (when QFile decides to flush by itself), every initial file
   content: when qFatal(r) has been processed and the process is aborted, the file of every file
   sink = what it held + every preceding record in order + the fatal record *)
Theorem C11_fatal_reaches_disk : forall (pol : policy) (l : list tree) (msgs : list (mtype * rec)) (r : rec),
  survivors (run_fatal src_fatal_cfg pol l msgs r)
  = map (fun s => content s ++ map snd msgs ++ [r]) (lsinks l).
Proof. exact (fatal_reaches_disk src_fatal_cfg C11_source_configuration_good). Qed.
Print Assumptions C11_fatal_reaches_disk.

Theorem C11_fatal_reaches_disk_fresh_files : forall pol l msgs r,
  Forall (fun s => content s = []) (lsinks l) ->
  survivors (run_fatal src_fatal_cfg pol l msgs r) = map (fun _ => map snd msgs ++ [r]) (lsinks l).
Proof. exact (fatal_reaches_disk_fresh src_fatal_cfg C11_source_configuration_good). Qed.
Print Assumptions C11_fatal_reaches_disk_fresh_files.

(* independent of the configuration: no step ever drops a record from (file ++ write buffer), so
   what a file lacks at abort is exactly what was still buffered *)
Theorem C11_content_conserved : forall cfg pol l msgs r,
  map content (lsinks (run_fatal cfg pol l msgs r))
  = map (fun s => content s ++ map snd msgs ++ [r]) (lsinks l).
Proof. exact content_conserved. Qed.
Print Assumptions C11_content_conserved.

(* the boolean oracle the check evaluates on the record ids found in the real files *)
Theorem C11_oracle_holds : forall pol l msgs r,
  Forall (fun s => content s = []) (lsinks l) ->
  prop_c11_b (map rid (map snd msgs ++ [r])) (ids_of (survivors (run_fatal src_fatal_cfg pol l msgs r))) = true.
Proof. exact (oracle_holds src_fatal_cfg C11_source_configuration_good). Qed.
Print Assumptions C11_oracle_holds.

(* the repaired defect (DESIGN section 5, F2): the same code without the flush loses records under Qt's
   own buffering policy — the plain file stays empty, the size-limited rotating file lacks the fatal
   record *)
Theorem C11_no_flush_refuted : exists l msgs r,
  Forall (fun s => content s = []) (lsinks l) /\
  survivors (run_fatal (with_pos src_fatal_cfg FNone) qfile_policy l msgs r)
  <> map (fun _ => map snd msgs ++ [r]) (lsinks l).
Proof.
  exists [TSink (fresh 0 false)], [info 0 11; info 1 11; info 2 11], (mk 3 14).
  split; [repeat constructor|vm_compute; discriminate].
Qed.
Print Assumptions C11_no_flush_refuted.

(* flushing BEFORE the fatal record is processed is not enough *)
Theorem C11_flush_before_refuted : exists l msgs r,
  Forall (fun s => content s = []) (lsinks l) /\
  survivors (run_fatal (with_pos src_fatal_cfg FBefore) qfile_policy l msgs r)
  <> map (fun _ => map snd msgs ++ [r]) (lsinks l).
Proof.
  exists [TSink (fresh 0 false)], [info 0 11], (mk 1 14).
  split; [repeat constructor|vm_compute; discriminate].
Qed.
Print Assumptions C11_flush_before_refuted.

(* a flush that does not enter nested pipelines misses the sinks inside them *)
Theorem C11_no_descend_refuted : exists l msgs r,
  Forall (fun s => content s = []) (lsinks l) /\
  survivors (run_fatal (with_descends src_fatal_cfg false) qfile_policy l msgs r)
  <> map (fun _ => map snd msgs ++ [r]) (lsinks l).
Proof.
  exists [TOther; TPipe [TOther; TSink (fresh 0 false)]], [info 0 11], (mk 1 14).
  split; [repeat constructor|vm_compute; discriminate].
Qed.
Print Assumptions C11_no_descend_refuted.

(* non-vacuity: a formatter, a plain sink, a nested pipeline holding a size-limited rotating sink and
   a second-level pipeline with another plain sink; records below and above QFile's 16 KiB chunk *)
Example C11_nonvacuous :
  let l := [TOther; TSink (fresh 0 false); TPipe [TOther; TSink (fresh 1 true); TPipe [TSink (fresh 2 false)]]] in
  let msgs := [info 0 11; (Warning, mk 1 20481); info 2 11; (Critical, mk 3 16384)] in
  ids_of (survivors (run_fatal src_fatal_cfg qfile_policy l msgs (mk 4 14)))
    = [[0; 1; 2; 3; 4]; [0; 1; 2; 3; 4]; [0; 1; 2; 3; 4]]
  /\ (* the same run killed right after the last ordinary message: what Qt's policy had flushed *)
  ids_of (survivors (log_all src_fatal_cfg qfile_policy l msgs)) = [[0; 1; 2]; [0; 1; 2]; [0; 1; 2]]
  /\ (* F2 as it was: no flush *)
  ids_of (survivors (run_fatal (with_pos src_fatal_cfg FNone) qfile_policy
                       [TSink (fresh 0 false); TSink (fresh 1 true)] [info 0 11; info 1 11; info 2 11] (mk 3 14)))
    = [[]; [0; 1; 2]].
Proof. vm_compute. repeat split. Qed.
