(* C16 — the derivative matcher of RegexDefs.v equals an inductive matching relation; search
   semantics  Sigma* r Sigma*. *)
From Coq Require Import List NArith Bool Lia.
Import ListNotations.
Require Import QtlVerif.RegexDefs.

(* [Match r pre w post]: r matches the factor w of the subject pre ++ w ++ post *)
Inductive Match : re -> list N -> list N -> list N -> Prop :=
| MEps pre post : Match Eps pre [] post
| MChr s c pre post : cset_mem s c = true -> Match (Chr s) pre [c] post
| MBol post : Match Bol [] [] post
| MEol pre post : dollar post = true -> Match Eol pre [] post
| MCat a b pre w1 w2 post :
    Match a pre w1 (w2 ++ post) -> Match b (pre ++ w1) w2 post -> Match (Cat a b) pre (w1 ++ w2) post
| MAltL a b pre w post : Match a pre w post -> Match (Alt a b) pre w post
| MAltR a b pre w post : Match b pre w post -> Match (Alt a b) pre w post
| MStar0 a pre post : Match (Star a) pre [] post
| MStarS a pre w1 w2 post :
    Match a pre w1 (w2 ++ post) -> Match (Star a) (pre ++ w1) w2 post -> Match (Star a) pre (w1 ++ w2) post
| MPlus a pre w1 w2 post :
    Match a pre w1 (w2 ++ post) -> Match (Star a) (pre ++ w1) w2 post -> Match (Plus a) pre (w1 ++ w2) post
| MOpt0 a pre post : Match (Opt a) pre [] post
| MOptS a pre w post : Match a pre w post -> Match (Opt a) pre w post.

Lemma isnil_app_nil {A} (l : list A) : isnil (l ++ []) = isnil l.
Proof. now rewrite app_nil_r. Qed.
Lemma isnil_snoc {A} (l : list A) x : isnil (l ++ [x]) = false.
Proof. destruct l; reflexivity. Qed.

(* ---- nullability ---- *)
Lemma nul_sound r pre w post : Match r pre w post -> w = [] -> nul (isnil pre) (dollar post) r = true.
Proof.
  induction 1; intros E; cbn [nul]; try reflexivity; try discriminate.
  - assumption.
  - apply app_eq_nil in E. destruct E as [-> ->]. cbn in *. rewrite app_nil_r in IHMatch2.
    rewrite IHMatch1, IHMatch2; auto.
  - rewrite IHMatch; auto.
  - rewrite IHMatch; auto. apply orb_true_r.
  - apply app_eq_nil in E. destruct E as [-> ->]. cbn in *. auto.
Qed.
Lemma nul_complete r : forall pre post, nul (isnil pre) (dollar post) r = true -> Match r pre [] post.
Proof.
  induction r; intros pre post H; cbn [nul] in H; try discriminate; try (constructor; fail).
  - destruct pre; [constructor|discriminate].
  - constructor. assumption.
  - apply andb_true_iff in H. destruct H as [H1 H2]. change (@nil N) with (@nil N ++ []).
    constructor; [apply IHr1; assumption|]. rewrite app_nil_r. apply IHr2; assumption.
  - apply orb_true_iff in H. destruct H; [apply MAltL|apply MAltR]; auto.
  - change (@nil N) with (@nil N ++ []). apply MPlus; [apply IHr; assumption|constructor].
Qed.
Lemma nul_correct r pre post : Match r pre [] post <-> nul (isnil pre) (dollar post) r = true.
Proof. split; [intros H; eapply nul_sound; eauto|apply nul_complete]. Qed.

(* ---- the simplifying constructors ---- *)
Lemma ranges_eqb_eq : forall a b, ranges_eqb a b = true -> a = b.
Proof.
  induction a as [|[x y] a IH]; intros [|[u v] b]; cbn; try discriminate; [reflexivity|].
  rewrite !andb_true_iff. intros [[H1 H2] H3]. apply N.eqb_eq in H1, H2. subst. f_equal. auto.
Qed.
Lemma cset_eqb_eq a b : cset_eqb a b = true -> a = b.
Proof.
  destruct a, b; cbn; try discriminate; intros H.
  - apply N.eqb_eq in H. congruence.
  - reflexivity.
  - apply andb_true_iff in H. destruct H as [H1 H2]. apply eqb_prop in H1. apply ranges_eqb_eq in H2. congruence.
Qed.
Lemma re_eqb_eq : forall a b, re_eqb a b = true -> a = b.
Proof.
  induction a; intros []; cbn; try discriminate; intros H; try reflexivity;
    try (apply andb_true_iff in H; destruct H as [H1 H2]; f_equal; auto; fail);
    try (f_equal; auto; fail).
  f_equal. apply cset_eqb_eq; assumption.
Qed.
Lemma match_emp pre w post : ~ Match Emp pre w post.
Proof. intros H; inversion H. Qed.
Lemma cat_inv a b pre w post : Match (Cat a b) pre w post <->
  exists w1 w2, w = w1 ++ w2 /\ Match a pre w1 (w2 ++ post) /\ Match b (pre ++ w1) w2 post.
Proof.
  split; [intros H; inversion H; subst; eauto|intros (w1 & w2 & -> & H1 & H2); constructor; assumption].
Qed.
Lemma alt_inv a b pre w post : Match (Alt a b) pre w post <-> Match a pre w post \/ Match b pre w post.
Proof. split; [intros H; inversion H; subst; auto|intros [H|H]; [apply MAltL|apply MAltR]; assumption]. Qed.
Lemma eps_inv pre w post : Match Eps pre w post <-> w = [].
Proof. split; [intros H; inversion H; reflexivity|intros ->; constructor]. Qed.
Lemma mkCat_cases a b :
  (mkCat a b = Emp /\ (a = Emp \/ b = Emp)) \/ (a = Eps /\ mkCat a b = b) \/ mkCat a b = Cat a b.
Proof. destruct a, b; cbn; auto. Qed.
Lemma mkCat_match a b pre w post : Match (mkCat a b) pre w post <-> Match (Cat a b) pre w post.
Proof.
  destruct (mkCat_cases a b) as [[E [->| ->]]|[[-> E]|E]]; rewrite E; try tauto.
  - split; [intros H; destruct (match_emp _ _ _ H)|].
    rewrite cat_inv. intros (w1 & w2 & _ & H & _). destruct (match_emp _ _ _ H).
  - split; [intros H; destruct (match_emp _ _ _ H)|].
    rewrite cat_inv. intros (w1 & w2 & _ & _ & H). destruct (match_emp _ _ _ H).
  - rewrite cat_inv. split.
    + intros H. exists [], w. cbn. rewrite app_nil_r. repeat split; [constructor|assumption].
    + intros (w1 & w2 & -> & H1 & H2). apply eps_inv in H1. subst w1. rewrite app_nil_r in H2. exact H2.
Qed.
Lemma alt_dedupe_match a b pre w post : Match (alt_dedupe a b) pre w post <-> Match a pre w post \/ Match b pre w post.
Proof.
  unfold alt_dedupe. destruct (re_eqb a b) eqn:E.
  - apply re_eqb_eq in E. subst. tauto.
  - destruct b; try apply alt_inv. destruct (re_eqb a b1) eqn:E1; [|apply alt_inv].
    apply re_eqb_eq in E1. subst. rewrite alt_inv. tauto.
Qed.
Lemma mkAlt_cases a b : (a = Emp /\ mkAlt a b = b) \/ (b = Emp /\ mkAlt a b = a) \/ mkAlt a b = alt_dedupe a b.
Proof. destruct a, b; cbn; auto. Qed.
Lemma mkAlt_inv a b pre w post : Match (mkAlt a b) pre w post <-> Match a pre w post \/ Match b pre w post.
Proof.
  destruct (mkAlt_cases a b) as [[-> E]|[[-> E]|E]]; rewrite E.
  - split; [auto|intros [H|H]; [destruct (match_emp _ _ _ H)|exact H]].
  - split; [auto|intros [H|H]; [exact H|destruct (match_emp _ _ _ H)]].
  - apply alt_dedupe_match.
Qed.

(* ---- derivatives ---- *)
Lemma der_sound r pre w0 post : Match r pre w0 post -> forall c w, w0 = c :: w ->
  Match (der (isnil pre) (dollar (c :: w ++ post)) c r) (pre ++ [c]) w post.
Proof.
  induction 1; intros c0 w0 E; try discriminate.
  - (* Chr *) injection E as -> <-. cbn [der]. rewrite H. constructor.
  - (* Cat *) cbn [der]. destruct w1 as [|c1 w1'].
    + cbn in E. subst w2. cbn [app] in *.
      assert (Hn : nul (isnil pre) (dollar (c0 :: w0 ++ post)) a = true) by (eapply nul_sound; eauto).
      rewrite Hn. apply mkAlt_inv. right. specialize (IHMatch2 c0 w0 eq_refl).
      rewrite app_nil_r in IHMatch2. exact IHMatch2.
    + cbn in E. injection E as -> <-.
      specialize (IHMatch1 c0 w1' eq_refl).
      assert (Hd : Match (mkCat (der (isnil pre) (dollar (c0 :: (w1' ++ w2) ++ post)) c0 a) b) (pre ++ [c0]) (w1' ++ w2) post).
      { apply mkCat_match. rewrite <- app_assoc. constructor; [exact IHMatch1|].
        rewrite <- app_assoc. exact H0. }
      destruct (nul (isnil pre) (dollar (c0 :: (w1' ++ w2) ++ post)) a); [apply mkAlt_inv; left|]; exact Hd.
  - (* AltL *) cbn [der]. apply mkAlt_inv. left. auto.
  - (* AltR *) cbn [der]. apply mkAlt_inv. right. auto.
  - (* StarS *) destruct w1 as [|c1 w1'].
    + cbn in E. subst w2. specialize (IHMatch2 c0 w0 eq_refl). rewrite app_nil_r in IHMatch2. exact IHMatch2.
    + cbn in E. injection E as -> <-. cbn [der]. apply mkCat_match.
      specialize (IHMatch1 c0 w1' eq_refl). rewrite <- !app_assoc in *.
      constructor; [exact IHMatch1|]. rewrite <- app_assoc. exact H0.
  - (* Plus *) destruct w1 as [|c1 w1'].
    + cbn in E. subst w2. specialize (IHMatch2 c0 w0 eq_refl). rewrite app_nil_r in IHMatch2. exact IHMatch2.
    + cbn in E. injection E as -> <-. cbn [der]. apply mkCat_match.
      specialize (IHMatch1 c0 w1' eq_refl). rewrite <- !app_assoc in *.
      constructor; [exact IHMatch1|]. rewrite <- app_assoc. exact H0.
  - (* OptS *) cbn [der]. auto.
Qed.

Lemma der_complete r : forall pre c w post,
  Match (der (isnil pre) (dollar (c :: w ++ post)) c r) (pre ++ [c]) w post -> Match r pre (c :: w) post.
Proof.
  induction r; intros pre c w post H; cbn [der] in H; try (destruct (match_emp _ _ _ H)).
  - (* Chr *) destruct (cset_mem s c) eqn:E; [|destruct (match_emp _ _ _ H)].
    apply eps_inv in H. subst w. constructor. exact E.
  - (* Cat *)
    assert (HL : Match (mkCat (der (isnil pre) (dollar (c :: w ++ post)) c r1) r2) (pre ++ [c]) w post -> Match (Cat r1 r2) pre (c :: w) post).
    { intros Hd. apply mkCat_match, cat_inv in Hd. destruct Hd as (w1 & w2 & -> & H1 & H2).
      rewrite <- app_assoc in H1. apply IHr1 in H1. rewrite <- app_assoc in H2.
      change (c :: w1 ++ w2) with ((c :: w1) ++ w2). constructor; assumption. }
    destruct (nul (isnil pre) (dollar (c :: w ++ post)) r1) eqn:En; [|auto].
    apply mkAlt_inv in H. destruct H as [H|H]; [auto|].
    apply IHr2 in H. change (c :: w) with ([] ++ c :: w). constructor.
    + apply nul_complete. exact En.
    + rewrite app_nil_r. exact H.
  - (* Alt *) apply mkAlt_inv in H. destruct H as [H|H]; [apply MAltL|apply MAltR]; auto.
  - (* Star *) apply mkCat_match, cat_inv in H. destruct H as (w1 & w2 & -> & H1 & H2).
    rewrite <- app_assoc in H1. apply IHr in H1. rewrite <- app_assoc in H2.
    change (c :: w1 ++ w2) with ((c :: w1) ++ w2). constructor; assumption.
  - (* Plus *) apply mkCat_match, cat_inv in H. destruct H as (w1 & w2 & -> & H1 & H2).
    rewrite <- app_assoc in H1. apply IHr in H1. rewrite <- app_assoc in H2.
    change (c :: w1 ++ w2) with ((c :: w1) ++ w2). constructor; assumption.
  - (* Opt *) apply MOptS. auto.
Qed.
Theorem der_correct r pre c w post :
  Match r pre (c :: w) post <-> Match (der (isnil pre) (dollar (c :: w ++ post)) c r) (pre ++ [c]) w post.
Proof. split; [intros H; eapply der_sound; eauto|apply der_complete]. Qed.

(* ---- search ---- *)
(* r matches a prefix of s (s being what follows pre in the subject) *)
Definition Pm (r : re) (pre s : list N) : Prop := exists w post, s = w ++ post /\ Match r pre w post.
(* r matches a factor of s *)
Definition Srch (r : re) (pre s : list N) : Prop := exists p tail, s = p ++ tail /\ Pm r (pre ++ p) tail.

Lemma Pm_nil r pre : Pm r pre [] <-> nul (isnil pre) true r = true.
Proof.
  split.
  - intros (w & post & E & H). symmetry in E. apply app_eq_nil in E. destruct E as [-> ->].
    apply nul_correct in H. exact H.
  - intros H. exists [], []. split; [reflexivity|]. apply nul_correct. exact H.
Qed.
Lemma Pm_cons r pre c s : Pm r pre (c :: s) <->
  nul (isnil pre) (dollar (c :: s)) r = true \/ Pm (der (isnil pre) (dollar (c :: s)) c r) (pre ++ [c]) s.
Proof.
  split.
  - intros (w & post & E & H). destruct w as [|c' w].
    + cbn in E. subst post. left. apply nul_correct. exact H.
    + cbn in E. injection E as <- ->. right. exists w, post. split; [reflexivity|]. apply der_correct. exact H.
  - intros [H|(w & post & -> & H)].
    + exists [], (c :: s). split; [reflexivity|]. apply nul_correct. exact H.
    + exists (c :: w), post. split; [reflexivity|]. apply der_correct. exact H.
Qed.
Lemma Srch_nil r pre : Srch r pre [] <-> Pm r pre [].
Proof.
  split.
  - intros (p & tail & E & H). symmetry in E. apply app_eq_nil in E. destruct E as [-> ->].
    rewrite app_nil_r in H. exact H.
  - intros H. exists [], []. split; [reflexivity|rewrite app_nil_r; exact H].
Qed.
Lemma Srch_cons r pre c s : Srch r pre (c :: s) <-> Pm r pre (c :: s) \/ Srch r (pre ++ [c]) s.
Proof.
  split.
  - intros (p & tail & E & H). destruct p as [|c' p].
    + cbn in E. subst tail. rewrite app_nil_r in H. left. exact H.
    + cbn in E. injection E as <- ->. right. exists p, tail. split; [reflexivity|].
      rewrite <- app_assoc. exact H.
  - intros [H|(p & tail & -> & H)].
    + exists [], (c :: s). split; [reflexivity|rewrite app_nil_r; exact H].
    + exists (c :: p), tail. split; [reflexivity|]. rewrite <- app_assoc in H. exact H.
Qed.
Lemma Pm_mkAlt a b pre s : Pm (mkAlt a b) pre s <-> Pm a pre s \/ Pm b pre s.
Proof.
  split.
  - intros (w & post & E & H). apply mkAlt_inv in H. destruct H; [left|right]; exists w, post; auto.
  - intros [(w & post & E & H)|(w & post & E & H)]; exists w, post; (split; [exact E|]); apply mkAlt_inv; auto.
Qed.

Lemma scan_correct r0 : forall s cur pre,
  scan r0 cur (isnil pre) s = true <-> Pm cur pre s \/ Srch r0 pre s.
Proof.
  induction s as [|c s IH]; intros cur pre; cbn [scan].
  - rewrite orb_false_r. rewrite Srch_nil. rewrite <- Pm_mkAlt. cbn [dollar]. symmetry. apply Pm_nil.
  - rewrite orb_true_iff. rewrite <- (isnil_snoc pre c). rewrite IH.
    rewrite Srch_cons. 
    pose proof (Pm_cons (mkAlt cur r0) pre c s) as HP. rewrite Pm_mkAlt in HP. tauto.
Qed.

(* search = the expression matches a factor of the subject:  Sigma* r Sigma*  *)
Theorem search_correct r s :
  search r s = true <-> exists p w post, s = p ++ w ++ post /\ Match r p w post.
Proof.
  unfold search. rewrite (scan_correct r s Emp []). split.
  - intros [(w & post & _ & H)|(p & tail & -> & w & post & -> & H)]; [destruct (match_emp _ _ _ H)|].
    exists p, w, post. auto.
  - intros (p & w & post & -> & H). right. exists p, (w ++ post). split; [reflexivity|]. exists w, post. auto.
Qed.

(* whole-subject matching, for comparison *)
Lemma whole_correct : forall s r pre, whole r (isnil pre) s = true <-> Match r pre s [].
Proof.
  induction s as [|c s IH]; intros r pre; cbn [whole].
  - symmetry. apply (nul_correct r pre []).
  - rewrite <- (isnil_snoc pre c). rewrite IH.
    rewrite (der_correct r pre c s []). rewrite app_nil_r. tauto.
Qed.

(* ---- texts: UTF-16 ---- *)
Theorem regex_search16_correct r text :
  regex_search16 r text = true <->
  exists cps, decode16 text = Some cps /\ exists p w post, cps = p ++ w ++ post /\ Match r p w post.
Proof.
  unfold regex_search16. destruct (decode16 text) as [cps|].
  - rewrite search_correct. split; [intros H; exists cps; auto|intros (c & E & H); injection E as ->; exact H].
  - split; [discriminate|intros (c & E & _); discriminate].
Qed.
(* a text without surrogate code units is its own list of code points *)
Lemma decode16_bmp : forall s, forallb (fun u => negb (is_hi u) && negb (is_lo u)) s = true -> decode16 s = Some s.
Proof.
  induction s as [|u t IH]; cbn [forallb decode16]; [reflexivity|].
  rewrite !andb_true_iff, !negb_true_iff. intros [[H1 H2] H3]. rewrite H1, H2, (IH H3). reflexivity.
Qed.

(* ---- adequacy of the relation on the three literal shapes (substring / prefix / suffix) ---- *)
Fixpoint lit_seq (s : list N) : re :=
  match s with [] => Eps | c :: t => Cat (Chr (CLit c)) (lit_seq t) end.
Lemma lit_seq_match : forall s pre w post, Match (lit_seq s) pre w post <-> w = s.
Proof.
  induction s as [|c t IH]; intros pre w post; cbn [lit_seq]; [apply eps_inv|].
  rewrite cat_inv. split.
  - intros (w1 & w2 & -> & H1 & H2). inversion H1 as [| ? c0 ? ? Hm | | | | | | | | | |]; subst. cbn in Hm. apply N.eqb_eq in Hm. subst.
    apply IH in H2. subst. reflexivity.
  - intros ->. exists [c], t. split; [reflexivity|]. split; [constructor; cbn; apply N.eqb_refl|]. apply IH. reflexivity.
Qed.
Theorem search_literal_is_substring s text :
  search (lit_seq s) text = true <-> exists p post, text = p ++ s ++ post.
Proof.
  rewrite search_correct. split.
  - intros (p & w & post & -> & H). apply lit_seq_match in H. subst. eauto.
  - intros (p & post & ->). exists p, s, post. split; [reflexivity|]. apply lit_seq_match. reflexivity.
Qed.
Theorem search_anchored_literal_is_prefix s text :
  search (Cat Bol (lit_seq s)) text = true <-> exists post, text = s ++ post.
Proof.
  rewrite search_correct. split.
  - intros (p & w & post & -> & H). apply cat_inv in H. destruct H as (w1 & w2 & -> & H1 & H2).
    inversion H1; subst. apply lit_seq_match in H2. subst. cbn. eauto.
  - intros (post & ->). exists [], s, post. split; [reflexivity|]. change s with ([] ++ s).
    constructor; [constructor|]. apply lit_seq_match. reflexivity.
Qed.
Theorem search_literal_dollar_is_suffix s text :
  search (Cat (lit_seq s) Eol) text = true <-> exists p, text = p ++ s \/ text = p ++ s ++ [10%N].
Proof.
  rewrite search_correct. split.
  - intros (p & w & post & -> & H). apply cat_inv in H. destruct H as (w1 & w2 & -> & H1 & H2).
    apply lit_seq_match in H1. subst. inversion H2; subst. exists p. rewrite app_nil_r.
    destruct post as [|c [|c' post']]; cbn in H; try discriminate.
    + left. rewrite app_nil_r. reflexivity.
    + right. apply N.eqb_eq in H. subst. reflexivity.
  - intros (p & [-> | ->]).
    + exists p, s, []. rewrite app_nil_r. split; [reflexivity|]. rewrite <- (app_nil_r s) at 2.
      constructor; [apply lit_seq_match; reflexivity|constructor; reflexivity].
    + exists p, s, [10%N]. split; [reflexivity|]. rewrite <- (app_nil_r s) at 2.
      constructor; [apply lit_seq_match; reflexivity|constructor; reflexivity].
Qed.
