(* C02 — the asynchronous -> synchronous transition (OwnThreadHandler::resetOwnThread while other threads keep logging):
   executable definitions only (no proofs).

   A pipeline that was moved to its own thread runs its handlers on ONE worker thread, which takes NO lock (exclusion in
   asynchronous mode comes from there being one worker); process() decides under the handler mutex M: m_worker set -> post
   the message to the worker's FIFO, otherwise run the pipeline itself (synchronous mode, in scope of C02 from that moment).
   resetOwnThread() takes M, waits (releasing M during each 10 ms sleep) until nothing is pending, stops the thread and
   clears m_worker.  tools/s2c/conc.py translates the ORDER of its three significant actions into [src_reset_prog]:
       RDrain  the loop `while (m_pendingCount > 0) { unlock; sleep; relock; }`
       RQuit   m_thread->quit() + wait()
       RClear  m_worker = nullptr
   The model interprets such a program next to N producers and the worker; the pipeline run is two steps (enter: read the
   sequence counter; deliver: write it back incremented and hand the message to the sink) for the worker as well as for a
   producer that runs it synchronously, so overlap, lost counter updates and reordering are all expressible.  The observable
   events are those of ConcDefs ([EEnter]/[EDeliver]); the recorded traces of the real library go through the same acceptor
   [accept_conc]. *)
From Coq Require Import List Arith Bool.
Import ListNotations.
Require Import QtlVerif.ConcDefs.

Inductive rinstr := RDrain | RQuit | RClear.
Definition is_clear (i : rinstr) : bool := match i with RClear => true | _ => false end.
Definition is_quit (i : rinstr) : bool := match i with RQuit => true | _ => false end.
(* decidable obligation on the translated program: nothing is stopped or cleared before the queue has been drained, and
   both happen in the critical section in which the drain loop saw "nothing pending" (the order of the two is free) *)
Definition reset_ok (p : list rinstr) : bool :=
  match p with
  | [RDrain; RQuit; RClear] => true
  | [RDrain; RClear; RQuit] => true
  | _ => false
  end.

(* who holds the handler mutex M, and where he is *)
Inductive pphase := PLocked | PIn (tmp : nat).     (* a producer: about to branch on m_worker / running the pipeline itself *)
Inductive mstate := MFree | MProd (t : nat) (ph : pphase) | MReset (pc : nat).
Inductive wstate := WIdle | WIn (t i tmp : nat).   (* the worker: waiting for an event / inside the pipeline *)
Inductive rstatus := RStart | RSleep (pc : nat) | RDone.   (* the resetting thread while it does NOT hold M *)
Inductive actor := AProd (t : nat) | AWorker | AResetter.

Record rstate := {
  r_idx : nat -> nat;              (* per producer: index of its next message *)
  r_m : mstate;
  r_r : rstatus;
  r_w : wstate;
  r_worker : bool;                 (* m_worker != nullptr *)
  r_running : bool;                (* the own thread's event loop runs *)
  r_queue : list (nat * nat);      (* posted, not yet taken by the worker *)
  r_count : nat;                   (* SeqNumberAttr::m_count *)
  r_log : list entry;              (* the sink *)
  r_evs : list event }.            (* ghost: observable events *)

(* m_pendingCount: posted and not yet completely processed *)
Definition pending (s : rstate) : nat := length (r_queue s) + match r_w s with WIdle => 0 | WIn _ _ _ => 1 end.

Definition rstep (prog : list rinstr) (quota : nat -> nat) (s : rstate) (a : actor) : option rstate :=
  match a with
  | AProd t =>
      if Nat.leb (quota t) (r_idx s t) then None else
      match r_m s with
      | MFree =>       (* QMutexLocker locker(&m_mutex) *)
          Some (Build_rstate (r_idx s) (MProd t PLocked) (r_r s) (r_w s) (r_worker s) (r_running s) (r_queue s)
                             (r_count s) (r_log s) (r_evs s))
      | MProd t' ph =>
          if Nat.eqb t' t then
            match ph with
            | PLocked =>
                if r_worker s
                then   (* asynchronous: pending++, postEvent, return *)
                  Some (Build_rstate (upd (r_idx s) t (S (r_idx s t))) MFree (r_r s) (r_w s) (r_worker s) (r_running s)
                                     (r_queue s ++ [(t, r_idx s t)]) (r_count s) (r_log s) (r_evs s))
                else   (* synchronous: BaseHandler::process in the calling thread, under M *)
                  Some (Build_rstate (r_idx s) (MProd t (PIn (r_count s))) (r_r s) (r_w s) (r_worker s) (r_running s)
                                     (r_queue s) (r_count s) (r_log s) (r_evs s ++ [EEnter t (r_idx s t)]))
            | PIn tmp =>
                Some (Build_rstate (upd (r_idx s) t (S (r_idx s t))) MFree (r_r s) (r_w s) (r_worker s) (r_running s)
                                   (r_queue s) (S tmp) (r_log s ++ [(t, r_idx s t, tmp)])
                                   (r_evs s ++ [EDeliver t (r_idx s t) tmp]))
            end
          else None
      | MReset _ => None
      end
  | AWorker =>
      if r_running s then
        match r_w s with
        | WIdle =>
            match r_queue s with
            | (t, i) :: q =>    (* customEvent: BaseHandler::process WITHOUT any lock *)
                Some (Build_rstate (r_idx s) (r_m s) (r_r s) (WIn t i (r_count s)) (r_worker s) (r_running s) q
                                   (r_count s) (r_log s) (r_evs s ++ [EEnter t i]))
            | [] => None
            end
        | WIn t i tmp =>
            Some (Build_rstate (r_idx s) (r_m s) (r_r s) WIdle (r_worker s) (r_running s) (r_queue s)
                               (S tmp) (r_log s ++ [(t, i, tmp)]) (r_evs s ++ [EDeliver t i tmp]))
        end
      else None
  | AResetter =>
      match r_m s with
      | MFree =>
          match r_r s with
          | RStart => Some (Build_rstate (r_idx s) (MReset 0) (r_r s) (r_w s) (r_worker s) (r_running s) (r_queue s)
                                         (r_count s) (r_log s) (r_evs s))
          | RSleep pc =>   (* locker.relock() *)
              Some (Build_rstate (r_idx s) (MReset pc) (r_r s) (r_w s) (r_worker s) (r_running s) (r_queue s)
                                 (r_count s) (r_log s) (r_evs s))
          | RDone => None
          end
      | MReset pc =>
          match nth_error prog pc with
          | None =>         (* end of resetOwnThread(): the locker releases M *)
              Some (Build_rstate (r_idx s) MFree RDone (r_w s) (r_worker s) (r_running s) (r_queue s)
                                 (r_count s) (r_log s) (r_evs s))
          | Some RDrain =>
              if Nat.eqb (pending s) 0
              then Some (Build_rstate (r_idx s) (MReset (S pc)) (r_r s) (r_w s) (r_worker s) (r_running s) (r_queue s)
                                      (r_count s) (r_log s) (r_evs s))
              else          (* locker.unlock(); msleep(10) *)
                   Some (Build_rstate (r_idx s) MFree (RSleep pc) (r_w s) (r_worker s) (r_running s) (r_queue s)
                                      (r_count s) (r_log s) (r_evs s))
          | Some RQuit =>   (* quit() + wait(): returns once the worker has left its current event; queued events stay unprocessed *)
              match r_w s with
              | WIdle => Some (Build_rstate (r_idx s) (MReset (S pc)) (r_r s) (r_w s) (r_worker s) false (r_queue s)
                                            (r_count s) (r_log s) (r_evs s))
              | WIn _ _ _ => None
              end
          | Some RClear =>
              Some (Build_rstate (r_idx s) (MReset (S pc)) (r_r s) (r_w s) false (r_running s) (r_queue s)
                                 (r_count s) (r_log s) (r_evs s))
          end
      | MProd _ _ => None
      end
  end.

(* a schedule is any list of actors; a blocked actor's turn is skipped *)
Fixpoint rrun (prog : list rinstr) (quota : nat -> nat) (s : rstate) (sched : list actor) : rstate :=
  match sched with
  | [] => s
  | a :: r => match rstep prog quota s a with Some s' => rrun prog quota s' r | None => rrun prog quota s r end
  end.
(* the pipeline has been moved to its own thread; nothing logged yet *)
Definition rs0 : rstate :=
  Build_rstate (fun _ => 0) MFree RStart WIdle true true [] 0 [] [].
Definition rinside (s : rstate) (a : actor) : bool :=
  match a with
  | AProd t => match r_m s with MProd t' (PIn _) => Nat.eqb t' t | _ => false end
  | AWorker => match r_w s with WIn _ _ _ => true | WIdle => false end
  | AResetter => false
  end.
(* every producer below n has logged all its messages and nothing is pending *)
Definition rfinished (n : nat) (quota : nat -> nat) (s : rstate) : bool :=
  forallb (fun t => Nat.eqb (r_idx s t) (quota t)) (seq 0 n)
  && match r_queue s with [] => true | _ => false end
  && match r_w s with WIdle => true | _ => false end.
(* a posted message that nobody will ever process: the queue is not empty although the event loop has stopped *)
Definition stranded (s : rstate) : bool :=
  negb (r_running s) && match r_queue s with [] => false | _ => true end.
