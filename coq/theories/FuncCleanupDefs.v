(* C14 — checked-index transcription of FunctionToken::cleanup (patternformatter.cpp:394-636).
   Definitions only (no proofs): this file must keep compiling and extracting when a proof breaks.

   Reading rules.  Signatures are byte lists ([N] < 256, the Latin-1 bytes of the C string).
   Positions and counters are [Z] (the C++ uses int).  EVERY access the C++ performs on the byte
   array is a *checked* operation here that returns [None] when its arguments are out of range:
     func.at(i)            -> [at_]        needs 0 <= i < size
     func.mid(p, n)        -> [mid_c]      needs 0 <= p <= size and (n = -1 or 0 <= n /\ p+n <= size)
     func.truncate(n)      -> [truncate_c] needs 0 <= n <= size
     func.chop(n)          -> [chop_c]     needs 0 <= n <= size
     func.remove(p, n)     -> [remove_c]   needs 0 <= p, 0 <= n, p+n <= size
   (Qt's own mid/chop/truncate/remove clamp silently; the checked model is stricter on purpose: an
   out-of-range argument is an arithmetic slip even where Qt would forgive it.)  EVERY value the
   C++ computes in an `int` by +, -, ++ or -- (positions, bracket counters, lengths) goes through
   [ck], which returns [None] outside [-2^31, 2^31).  EVERY loop of the
   C++ carries explicit fuel computed from the input length and returns [None] when it runs out.
   So [cleanup s = None] iff some index is out of range, some int overflows or some loop does not finish within its
   fuel; [cleanup s = Some r] is the value the C++ computes.  The searching primitives of
   QByteArray (indexOf, lastIndexOf, startsWith, endsWith, replace, ==) are Qt code: they are
   modelled by total structural functions and are outside the checked part. *)
From Coq Require Import List NArith ZArith Bool.
Require Import QtlVerif.SrcSafety.
Import ListNotations.
Local Open Scope Z_scope.

Definition bytes := list N.
Definition len (b : bytes) : Z := Z.of_nat (length b).
Definition bind {A B} (x : option A) (f : A -> option B) : option B :=
  match x with Some a => f a | None => None end.
Notation "'do' x <- e ; k" := (bind e (fun x => k)) (at level 200, x name, e at level 100, k at level 200).

(* ---- a C++ int result ---------------------------------------------------------------------- *)
Definition INT_MAX : Z := 2147483647.
Definition INT_MIN : Z := -2147483648.
Definition ck (z : Z) : option Z := if (INT_MIN <=? z) && (z <=? INT_MAX) then Some z else None.

(* ---- checked accesses -------------------------------------------------------------------- *)
Definition at_ (b : bytes) (i : Z) : option N := if i <? 0 then None else nth_error b (Z.to_nat i).
Definition mid_c (b : bytes) (pos n : Z) : option bytes :=
  if (0 <=? pos) && (pos <=? len b) then
    if n =? -1 then Some (skipn (Z.to_nat pos) b)
    else if (0 <=? n) && (pos + n <=? len b) then Some (firstn (Z.to_nat n) (skipn (Z.to_nat pos) b))
    else None
  else None.
Definition truncate_c (b : bytes) (n : Z) : option bytes :=
  if (0 <=? n) && (n <=? len b) then Some (firstn (Z.to_nat n) b) else None.
Definition chop_c (b : bytes) (n : Z) : option bytes :=
  if (0 <=? n) && (n <=? len b) then Some (firstn (Z.to_nat (len b - n)) b) else None.
Definition remove_c (b : bytes) (pos n : Z) : option bytes :=
  if (0 <=? pos) && (0 <=? n) && (pos + n <=? len b)
  then Some (firstn (Z.to_nat pos) b ++ skipn (Z.to_nat (pos + n)) b) else None.

(* ---- Qt search primitives (total, outside the checked part) ------------------------------- *)
Fixpoint beqb (a b : bytes) : bool :=
  match a, b with [], [] => true | x :: a', y :: b' => (x =? y)%N && beqb a' b' | _, _ => false end.
Fixpoint prefixb (p s : bytes) : bool :=
  match p, s with [], _ => true | x :: p', y :: s' => (x =? y)%N && prefixb p' s' | _, [] => false end.
Definition starts_with (s p : bytes) := prefixb p s.
Definition ends_with (s p : bytes) := prefixb (rev p) (rev s).
(* indexOf(needle, from) / lastIndexOf(needle[, from]) *)
Fixpoint find_from (needle s : bytes) (i : Z) : Z :=
  match s with
  | [] => if beqb needle [] then i else -1
  | _ :: r => if prefixb needle s then i else find_from needle r (i + 1)
  end.
Definition index_of (s needle : bytes) (from : Z) : Z :=
  if len s <? from then -1 else find_from needle (skipn (Z.to_nat from) s) (Z.max 0 from).
Fixpoint rfind_aux (needle s : bytes) (i : Z) (best : Z) (limit : Z) : Z :=
  match s with
  | [] => best
  | _ :: r => rfind_aux needle r (i + 1) (if (i <=? limit) && prefixb needle s then i else best) limit
  end.
Definition last_index_of (s needle : bytes) (from : Z) : Z := rfind_aux needle s 0 (-1) from.
Definition last_index (s needle : bytes) : Z := rfind_aux needle s 0 (-1) (len s).
(* QByteArray::replace(a, b) for a non-empty [a]: [skip] bytes of a matched needle are still to drop *)
Fixpoint replace_aux (skip : nat) (s a b : bytes) : bytes :=
  match s with
  | [] => []
  | c :: r => match skip with
              | S k => replace_aux k r a b
              | O => if prefixb a s then b ++ replace_aux (length a - 1) r a b else c :: replace_aux O r a b
              end
  end.
Definition replace_all (s a b : bytes) : bytes := replace_aux O s a b.

(* ---- constants --------------------------------------------------------------------------- *)
Definition B (s : list Z) : bytes := map Z.to_N s.
Definition s_operator := B [111;112;101;114;97;116;111;114].
Definition s_operator_sp := s_operator ++ [32%N].
Definition s_lambda := B [108;97;109;98;100;97].
Definition s_pp := B [40;41;58;58].        (* "()::" *)
Definition c_lpar : N := 40%N.
Definition c_rpar : N := 41%N.
Definition c_lt : N := 60%N.
Definition c_gt : N := 62%N.
Definition c_lbr : N := 91%N.
Definition c_rbr : N := 93%N.
Definition c_sp : N := 32%N.
Definition c_colon : N := 58%N.
Definition c_us : N := 95%N.

(* what the model takes from the source (tools/s2c/safety.py -> SrcSafety.v) *)
Record cu_cfg := { quals : list bytes; opchars : bytes; kw : bytes;
                   g_ge : Z; g_off : Z; g_len : Z; g_eq : Z; g_at : Z }.
Definition src_cfg : cu_cfg :=
  {| quals := src_qualifiers; opchars := src_opchars; kw := src_operator_kw;
     g_ge := src_op_guard_ge; g_off := src_op_mid_off; g_len := src_op_mid_len;
     g_eq := src_op_guard_eq; g_at := src_op_at_off |}.
(* decidable side condition under which the safety theorem holds for a configuration:
   no empty qualifier (an empty one would make the do-while spin for ever), and the look-behind
   `openParen >= G && mid(openParen - O, L)`, `openParen == E ? : at(openParen - A)` stays in range *)
Definition cfg_okb (c : cu_cfg) : bool :=
  forallb (fun q => negb (beqb q [])) (quals c)
  && (0 <=? g_off c) && (g_off c <=? g_ge c) && (0 <=? g_len c) && (g_len c <=? g_off c)
  && (1 <=? g_at c) && ((g_at c <=? g_ge c) || ((g_at c =? g_ge c + 1) && (g_eq c =? g_ge c))).

(* Latin-1 letter-or-number: QChar categories L and N (QChar(char) constructor: byte -> U+00xx) *)
Definition is_lon_latin1 (c : N) : bool :=
  (((48 <=? c) && (c <=? 57)) || ((65 <=? c) && (c <=? 90)) || ((97 <=? c) && (c <=? 122))
   || (c =? 170) || (c =? 178) || (c =? 179) || (c =? 181) || (c =? 185) || (c =? 186)
   || ((188 <=? c) && (c <=? 190)) || ((192 <=? c) && (c <=? 214)) || ((216 <=? c) && (c <=? 246)) || ((248 <=? c) && (c <=? 255)))%N.
(* the static QChar::isLetterOrNumber(uint) called with a (signed) char: bytes >= 0x80 are
   sign-extended to values outside Unicode and are not letters *)
Definition is_lon_char_as_uint (c : N) : bool := ((c <? 128) && is_lon_latin1 c)%N.

(* ---- findBalancedReverse ----------------------------------------------------------------- *)
Fixpoint fbr_loop (fuel : nat) (f : bytes) (open close : N) (pos count : Z) : option Z :=
  match fuel with O => None | S fu =>
  if (0 <=? pos) && (0 <? count) then
    do c <- at_ f pos;
    do count' <- (if (c =? close)%N then ck (count + 1) else if (c =? open)%N then ck (count - 1) else Some count);
    do pos' <- ck (pos - 1);
    fbr_loop fu f open close pos' count'
  else if count =? 0 then ck (pos + 1) else Some (-1)
  end.
Definition fbr (f : bytes) (open close : N) (start : Z) : option Z :=
  if start <=? 0 then Some (-1) else do p <- ck (start - 1); fbr_loop (S (length f)) f open close p 1.

(* while (func.endsWith(' ')) func.chop(1); *)
Fixpoint chop_spaces (fuel : nat) (f : bytes) : option bytes :=
  match fuel with O => None | S fu =>
  if ends_with f [c_sp] then do g <- chop_c f 1; chop_spaces fu g else Some f end.

Fixpoint fp_scan (fuel : nat) (f : bytes) (i stop depth args : Z) : option Z :=
  match fuel with O => None | S fu =>
  if i <? stop then
    do c <- at_ f i;
    do i' <- ck (i + 1);
    if (c =? c_lpar)%N then do d' <- ck (depth + 1); fp_scan fu f i' stop d' (if depth =? 0 then i else args)
    else if (c =? c_rpar)%N then do d' <- ck (depth - 1); fp_scan fu f i' stop d' args
    else fp_scan fu f i' stop depth args
  else Some args
  end.

(* do { found = one qualifier chopped } while (found); *)
Fixpoint strip_quals (cfg : cu_cfg) (fuel : nat) (f : bytes) : option bytes :=
  match fuel with O => None | S fu =>
  match find (fun q => ends_with f q) (quals cfg) with
  | Some q => do g <- chop_c f (len q); strip_quals cfg fu g
  | None => Some f
  end end.

Fixpoint skip_spaces_left (fuel : nat) (f : bytes) (p : Z) : option Z :=
  match fuel with O => None | S fu =>
  if 0 <=? p then do c <- at_ f p; if (c =? c_sp)%N then do p' <- ck (p - 1); skip_spaces_left fu f p' else Some p
  else Some p end.
Fixpoint skip_ident_left (fuel : nat) (f : bytes) (p : Z) : option Z :=
  match fuel with O => None | S fu =>
  if 0 <=? p then do c <- at_ f p; if is_lon_latin1 c || (c =? c_us)%N then do p' <- ck (p - 1); skip_ident_left fu f p' else Some p
  else Some p end.

(* operator branch: Some (Some newfunc) if extracted, Some None if not, None on a fault *)
Fixpoint op_scan (fuel : nat) (f : bytes) (sp : Z) : option (option bytes) :=
  match fuel with O => None | S fu =>
  if 0 <=? sp then
    do c <- at_ f sp;
    do isq <- (if (1 <=? sp) && (c =? c_colon)%N then do q <- ck (sp - 1); do d <- at_ f q; Some (d =? c_colon)%N else Some false);
    if isq then
      do s2 <- ck (sp - 2);
      do sp1 <- skip_spaces_left (S (length f)) f s2;
      do c1 <- (if 0 <=? sp1 then do x <- at_ f sp1; Some (Some x) else Some None);
      do r1 <- (match c1 with
                | Some x => if (x =? c_rpar)%N then do st <- ck (sp1 + 1); do o <- fbr f c_lpar c_rpar st; if o =? -1 then Some None else do n <- ck (o - 1); Some (Some n) else Some None
                | None => Some None end);
      match r1 with
      | Some nsp => op_scan fu f nsp
      | None =>
        do r2 <- (match c1 with
                  | Some x => if (x =? c_gt)%N then do st <- ck (sp1 + 1); do o <- fbr f c_lt c_gt st; if o =? -1 then Some None else do n <- ck (o - 1); Some (Some n) else Some None
                  | None => Some None end);
        match r2 with
        | Some nsp => op_scan fu f nsp
        | None => do sp2 <- skip_ident_left (S (length f)) f sp1; op_scan fu f sp2
        end
      end
    else if (c =? c_sp)%N then do st <- ck (sp + 1); do g <- mid_c f st (-1); Some (Some g)
    else Some None
  else Some None
  end.

Fixpoint noop_scan (fuel : nat) (f : bytes) (pos pc ac : Z) : option bytes :=
  match fuel with O => None | S fu =>
  if 0 <=? pos then
    do c <- at_ f pos;
    do pos' <- ck (pos - 1);
    if (c =? c_rpar)%N then do pc' <- ck (pc + 1); noop_scan fu f pos' pc' ac
    else if (c =? c_lpar)%N && (0 <? pc) then do pc' <- ck (pc - 1); noop_scan fu f pos' pc' ac
    else if (c =? c_gt)%N then do ac' <- ck (ac + 1); noop_scan fu f pos' pc ac'
    else if (c =? c_lt)%N && (0 <? ac) then do ac' <- ck (ac - 1); noop_scan fu f pos' pc ac'
    else if (0 <? pc) || (0 <? ac) then noop_scan fu f pos' pc ac
    else if (c =? c_sp)%N then do st <- ck (pos + 1); mid_c f st (-1)
    else noop_scan fu f pos' pc ac
  else Some f
  end.

(* while (startsWith('*') || startsWith('&') || startsWith(' ')) func = func.mid(1); *)
Fixpoint strip_lead (fuel : nat) (f : bytes) : option bytes :=
  match fuel with O => None | S fu =>
  if starts_with f [42%N] || starts_with f [38%N] || starts_with f [c_sp]
  then do g <- mid_c f 1 (-1); strip_lead fu g else Some f end.

Fixpoint inside_template (fuel : nat) (f : bytes) (i ad : Z) : option bool :=
  match fuel with O => None | S fu =>
  if 0 <=? i then
    do c <- at_ f i;
    do i' <- ck (i - 1);
    if (c =? c_gt)%N then do ad' <- ck (ad + 1); inside_template fu f i' ad'
    else if (c =? c_lt)%N then (if ad =? 0 then Some true else do ad' <- ck (ad - 1); inside_template fu f i' ad')
    else inside_template fu f i' ad
  else Some false
  end.
(* pos >= 8 && func.mid(pos - 8, 8) == "operator" *)
Definition op_before (f : bytes) (p : Z) : option bool :=
  if 8 <=? p then do q <- ck (p - 8); do m <- mid_c f q 8; Some (beqb m s_operator) else Some false.
Fixpoint empty_parens (fuel : nat) (f : bytes) (pos : Z) : option bytes :=
  match fuel with O => None | S fu =>
  let p := index_of f s_pp pos in
  if p =? -1 then Some f
  else do isop <- op_before f p;
       do p4 <- ck (p + 4);
       if isop then empty_parens fu f p4
       else do pm <- ck (p - 1);
            do ins <- inside_template (S (length f)) f pm 0;
            if ins then empty_parens fu f p4 else do g <- remove_c f p 2; empty_parens fu g p
  end.

Fixpoint all_opchars (cfg : cu_cfg) (fuel : nat) (f : bytes) (i stop : Z) : option bool :=
  match fuel with O => None | S fu =>
  if i <=? stop then do c <- at_ f i; if existsb (fun o => (o =? c)%N) (opchars cfg) then do i' <- ck (i + 1); all_opchars cfg fu f i' stop else Some false
  else Some true end.
Fixpoint strip_templates (cfg : cu_cfg) (fuel : nat) (f : bytes) : option bytes :=
  match fuel with O => None | S fu =>
  let ca := last_index f [c_gt] in
  if ca =? -1 then Some f else
  let oc := last_index_of f s_operator ca in
  do stop <- (if (oc =? -1) then Some false
              else do oe <- ck (oc + 8); if oe <=? ca then all_opchars cfg (S (length f)) f oe ca else Some false);
  if stop then Some f else
  do oa <- fbr f c_lt c_gt ca;
  if oa =? -1 then Some f
  else do isop <- op_before f oa;
       if isop then Some f
       else do oa1 <- ck (oa + 1);
            do w <- ck (ca - oa);
            do w1 <- ck (w - 1);
            do inner <- mid_c f oa1 w1;
            if starts_with inner s_lambda then Some f
            else do w2 <- ck (w + 1); do g <- remove_c f oa w2; strip_templates cfg fu g
  end.

(* the `operator` look-behind of phase 5, with the source's numbers *)
Definition is_operator_call (cfg : cu_cfg) (f : bytes) (op : Z) : option bool :=
  if g_ge cfg <=? op then
    do q <- ck (op - g_off cfg);
    do m <- mid_c f q (g_len cfg);
    if beqb m (kw cfg) then
      (if op =? g_eq cfg then Some true
       else do q2 <- ck (op - g_at cfg); do pc <- at_ f q2; Some (negb (is_lon_char_as_uint pc) && negb (pc =? c_us)%N))
    else Some false
  else Some false.

Definition cleanup_cfg (cfg : cu_cfg) (func0 : bytes) : option bytes :=
  match func0 with [] => Some [] | _ =>
  let n0 := S (length func0) in
  (* [with T = int] *)
  do f1 <- (if ends_with func0 [c_rbr] && negb (starts_with func0 [43%N]) && negb (starts_with func0 [45%N])
            then do st <- ck (len func0 - 1); do ob <- fbr func0 c_lbr c_rbr st; if ob =? -1 then Some func0 else truncate_c func0 ob
            else Some func0);
  do f2 <- chop_spaces n0 f1;
  let f3 := replace_all f2 s_operator_sp s_operator in
  (* function pointer *)
  let poi := index_of f3 (B [41;40]) 0 in
  do fp <- (if poi =? -1 then Some None else
            let pp := index_of f3 (B [40;42]) 0 in
            if (negb (pp =? -1)) && (pp <? poi) then
              do ns <- ck (pp + 2);
              do ap <- fp_scan n0 f3 ns poi 0 (-1);
              if (negb (ap =? -1)) && (ns <? ap) then do w <- ck (ap - ns); do g <- mid_c f3 ns w; Some (Some g) else Some None
            else Some None);
  do f7 <- (match fp with
   | Some f => Some f
   | None =>
     let e := last_index f3 [c_rpar] in
     do f4 <- (if e =? -1 then Some f3 else
               do op <- fbr f3 c_lpar c_rpar e;
               if op =? -1 then Some f3 else
               do isop <- is_operator_call cfg f3 op;
               if isop then Some f3 else truncate_c f3 op);
     do f5 <- strip_quals cfg n0 f4;
     let opos := last_index f5 s_operator in
     do f6 <- (if negb (opos =? -1) then
                 do o1 <- ck (opos - 1);
                 do sp <- skip_spaces_left n0 f5 o1;
                 do r <- op_scan n0 f5 sp;
                 match r with
                 | Some g => Some g
                 | None => let fs := index_of f5 [c_sp] 0 in
                           if (negb (fs =? -1)) && (fs <? opos) then do st <- ck (fs + 1); mid_c f5 st (-1) else Some f5
                 end
               else do st <- ck (len f5 - 1); noop_scan n0 f5 st 0 0);
     strip_lead n0 f6
   end);
  do f8 <- empty_parens (2 * n0 + 8) f7 0;
  strip_templates cfg n0 f8
  end.

(* the model the check runs: the checked transcription with the constants read from the source *)
Definition cleanup (func0 : bytes) : option bytes := cleanup_cfg src_cfg func0.

(* The function signature reaches the formatter as a `const char *` that may be the NULL POINTER
   (QMessageLogContext{nullptr, 0, nullptr, ...}: release builds, QML / scripting callers, a
   default-constructed LogMessage).  QByteArray(const char* p) / QString(const char* p) /
   QString::fromLatin1 / fromUtf8 turn the null pointer into the empty string: [cstr]. *)
Definition cstr {X : Type} (p : option (list X)) : list X := match p with Some s => s | None => [] end.
Definition cleanup_ptr (func0 : option bytes) : option bytes := cleanup (cstr func0).

(* boolean oracle evaluated on the IMPLEMENTATION's output of %{func}: the checked model ran to
   completion (no out-of-range access, no fuel exhaustion), the implementation produced exactly the
   bytes the checked model produced, and the result is not longer than the input. *)
Definition prop_c14_func_b (input impl_out : bytes) : bool :=
  match cleanup input with
  | Some r => beqb r impl_out && (len impl_out <=? len input)
  | None => false
  end.
