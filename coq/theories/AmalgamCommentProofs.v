(* C20 — lemmas about comments and the generator model (AmalgamCommentDefs), for every tree. *)
From Coq Require Import List NArith Bool Lia Arith.
Import ListNotations.
Require Import QtlVerif.AmalgamDefs QtlVerif.AmalgamProofs QtlVerif.AmalgamCommentDefs.
Local Open Scope N_scope.

Lemma lx_run_app st a b : lx_run st (a ++ b) = lx_run (lx_run st a) b.
Proof. revert st. induction a as [|x a IH]; intros st; cbn [app lx_run]; [reflexivity|apply IH]. Qed.
Lemma ost_cons c out : ost (c :: out) = lx_step (ost out) c.
Proof. unfold ost. cbn [rev_append]. rewrite !rev_append_rev, app_nil_r, lx_run_app. reflexivity. Qed.
Lemma ost_push X out : ost (rev_append X out) = lx_run (ost out) X.
Proof.
  unfold ost. rewrite !rev_append_rev, !app_nil_r, rev_app_distr, rev_involutive, lx_run_app. reflexivity.
Qed.
Lemma is_code_eq st : is_code st = true -> st = LCode.
Proof. destruct st; cbn; congruence. Qed.
Lemma ends_ok_step st : ends_ok st = true -> lx_step st 10 = LCode.
Proof. unfold ends_ok. apply is_code_eq. Qed.

(* the skip modes of the scan, unrolled *)
Section Skip.
  Variable t : tree.
  Variable rp : path -> gst -> str -> str * gst.
  Lemma scan_keep_irrel s k1 k2 g out : scan t rp s O k1 g out = scan t rp s O k2 g out.
  Proof. destruct s; reflexivity. Qed.
  Lemma scan_skip_true : forall s k g out,
    scan t rp s k true g out = scan t rp (skipn k s) O false g (rev_append (firstn k s) out).
  Proof.
    induction s as [|c r IH]; intros k g out.
    - destruct k; reflexivity.
    - destruct k as [|k]; [apply scan_keep_irrel|]. cbn [scan skipn firstn rev_append]. apply IH.
  Qed.
  Lemma scan_skip_false : forall s k g out,
    scan t rp s k false g out = scan t rp (skipn k s) O false g out.
  Proof.
    induction s as [|c r IH]; intros k g out.
    - destruct k; reflexivity.
    - destruct k as [|k]; [reflexivity|]. cbn [scan skipn]. apply IH.
  Qed.
End Skip.
Lemma inc_ok_skip : forall s k st, inc_ok s k st = inc_ok (skipn k s) O (lx_run st (firstn k s)).
Proof.
  induction s as [|c r IH]; intros k st.
  - destruct k; reflexivity.
  - destruct k as [|k]; [reflexivity|]. cbn [inc_ok skipn firstn lx_run]. apply IH.
Qed.

Lemma header_neutral q st : ends_ok st = true -> is_code (lx_run LCode (header_of q)) = true -> lx_run st (header_of q) = LCode.
Proof.
  intros He Hh. unfold header_of, s_open in *. cbn [app lx_run] in *. rewrite (ends_ok_step st He).
  apply is_code_eq. exact Hh.
Qed.
Lemma footer_neutral q st : ends_ok st = true -> is_code (lx_run LCode (footer_of q)) = true -> lx_run st (footer_of q) = LCode.
Proof.
  intros He Hh. unfold footer_of, s_end in *. cbn [app lx_run] in *. rewrite (ends_ok_step st He).
  apply is_code_eq. exact Hh.
Qed.

(* the scan of a file that satisfies inc_ok, started in the lexer state of its own first character: the output
   is lexed in step with the file, every nested expansion is entered in code, and the guard never fires *)
Section ScanLex.
  Variable t : tree.
  Variables rec1 rec2 : path -> gst -> str -> str * gst.
  Hypothesis Hnames : forallb name_ok (all_paths t) = true.
  Hypothesis Hrec : forall q g out, In q (all_paths t) -> ost out = LCode ->
    rec1 q g out = rec2 q g out /\ ends_ok (ost (fst (rec2 q g out))) = true.

  Lemma scan_lex : forall n s g out, (length s <= n)%nat -> inc_ok s O (ost out) = true ->
    scan t rec1 s O false g out = scan t rec2 s O false g out
    /\ ends_ok (ost (fst (scan t rec2 s O false g out))) = true.
  Proof.
    induction n as [|n IH]; intros s g out Hlen Hok.
    - destruct s; [|cbn in Hlen; lia]. cbn [scan fst]. split; [reflexivity|exact Hok].
    - destruct s as [|c r]; [cbn [scan fst]; split; [reflexivity|exact Hok]|].
      cbn [length] in Hlen. assert (Hr : (length r <= n)%nat) by lia.
      cbn [scan]. cbn [inc_ok] in Hok.
      destruct (match_include (c :: r)) as [[inc mlen]|] eqn:Hm.
      + apply andb_true_iff in Hok. destruct Hok as [Hok Hrest]. apply andb_true_iff in Hok. destruct Hok as [Hc Hd].
        apply is_code_eq in Hc. apply is_code_eq in Hd.
        rewrite (inc_ok_skip r (pred mlen) (lx_step (ost out) c)), Hd in Hrest.
        assert (Hl : (length (skipn (pred mlen) r) <= n)%nat) by (rewrite skipn_length; lia).
        destruct (resolve t (include_dir g) inc) as [q|] eqn:Hq.
        * destruct (mem_path q (included g)) eqn:Hin.
          -- rewrite (scan_skip_false t rec1 r (pred mlen)), (scan_skip_false t rec2 r (pred mlen)). apply IH; [exact Hl|]. rewrite Hc. exact Hrest.
          -- assert (Hqa : In q (all_paths t)) by (apply exists_path_all; eapply resolve_exists; exact Hq).
             assert (Hn : name_ok q = true) by (eapply forallb_forall in Hnames; eassumption).
             apply andb_true_iff in Hn. destruct Hn as [Hh Hf].
             assert (Eh : ost (rev_append (header_of q) out) = LCode).
             { rewrite ost_push, Hc. apply is_code_eq. exact Hh. }
             destruct (Hrec q (add_inc (with_met g (include_dir g, inc, Some q)) q) (rev_append (header_of q) out) Hqa Eh) as [E12 Hend].
             rewrite E12.
             destruct (rec2 q (add_inc (with_met g (include_dir g, inc, Some q)) q) (rev_append (header_of q) out)) as [out2 g2].
             cbn [fst] in Hend. rewrite (scan_skip_false t rec1 r (pred mlen)), (scan_skip_false t rec2 r (pred mlen)). apply IH; [exact Hl|].
             rewrite ost_push, (footer_neutral q _ Hend Hf). exact Hrest.
        * rewrite (scan_skip_true t rec1 r (pred mlen)), (scan_skip_true t rec2 r (pred mlen)). apply IH; [exact Hl|]. rewrite ost_push, ost_cons, Hd. exact Hrest.
      + apply IH; [exact Hr|]. rewrite ost_cons. exact Hok.
  Qed.
End ScanLex.

Lemma lookup_In_pair t p c : lookup t p = Some c -> In (p, c) t.
Proof.
  induction t as [|[q d] t IH]; cbn; [discriminate|].
  destruct (patheqb p q) eqn:E.
  - intros H. inversion H; subst. apply patheqb_eq in E. subst. left. reflexivity.
  - intros H. right. apply IH. exact H.
Qed.

Section Tree.
  Variable t : tree.
  Hypothesis Hok : includes_outside_comments t = true.
  Lemma ok_files : forallb (fun pc => file_ok (snd pc)) t = true.
  Proof. unfold includes_outside_comments in Hok. apply andb_true_iff in Hok. destruct Hok as [H _]. apply andb_true_iff in H. apply H. Qed.
  Lemma ok_names : forallb name_ok (all_paths t) = true.
  Proof. unfold includes_outside_comments in Hok. apply andb_true_iff in Hok. destruct Hok as [H _]. apply andb_true_iff in H. apply H. Qed.
  Lemma ok_root : name_ok root_header = true.
  Proof. unfold includes_outside_comments in Hok. apply andb_true_iff in Hok. apply Hok. Qed.

  Lemma process_g_eq : forall fuel q g out, ost out = LCode ->
    process_g fuel t q g out = process fuel t q g out /\ ends_ok (ost (fst (process fuel t q g out))) = true.
  Proof.
    induction fuel as [|f IH]; intros q g out Ec; cbn [process process_g].
    - split; [reflexivity|]. cbn [fst]. rewrite Ec. reflexivity.
    - destruct (lookup t q) as [content|] eqn:Hl; [|split; [reflexivity|cbn [fst]; rewrite Ec; reflexivity]].
      rewrite Ec. cbn [is_code].
      apply (scan_lex t (process_g f t) (process f t) ok_names) with (n := length (stripped content)); [|lia|].
      + intros q' g' out' _ Ec'. apply IH. exact Ec'.
      + rewrite Ec. apply lookup_In_pair in Hl. pose proof ok_files as Hf.
        rewrite forallb_forall in Hf. apply (Hf (q, content) Hl).
  Qed.

  Lemma main_loop_g_eq : forall srcs first g out,
    (forall p, In p srcs -> name_ok p = true) -> ends_ok (ost out) = true ->
    main_loop_g t srcs first g out = main_loop t srcs first g out
    /\ ends_ok (ost (fst (main_loop t srcs first g out))) = true.
  Proof.
    induction srcs as [|p r IH]; intros first g out Hs He; cbn [main_loop main_loop_g]; [split; [reflexivity|exact He]|].
    assert (Ha : ends_ok (ost (if first then out else 10 :: out)) = true).
    { destruct first; [exact He|]. rewrite ost_cons, (ends_ok_step _ He). reflexivity. }
    assert (Hn : name_ok p = true) by (apply Hs; left; reflexivity).
    apply andb_true_iff in Hn. destruct Hn as [Hh _].
    assert (Eh : ost (10 :: rev_append (header_of p) (if first then out else 10 :: out)) = LCode).
    { rewrite ost_cons, ost_push. erewrite header_neutral; [reflexivity|exact Ha|exact Hh]. }
    destruct (process_g_eq (fuel_for t) p g _ Eh) as [E Hend]. rewrite E.
    destruct (process (fuel_for t) t p g (10 :: rev_append (header_of p) (if first then out else 10 :: out))) as [out2 g2].
    cbn [fst] in Hend. apply IH; [intros x Hx; apply Hs; right; exact Hx|].
    rewrite ost_cons, (ends_ok_step _ Hend). reflexivity.
  Qed.

  Lemma sources_names : forall p, In p (sources t) -> name_ok p = true.
  Proof.
    intros p [<-|Hp]; [exact ok_root|].
    rewrite In_sort_paths, filter_In in Hp. destruct Hp as [Hp _].
    pose proof ok_names as Hn. rewrite forallb_forall in Hn. apply Hn. unfold all_paths. apply in_or_app. left. exact Hp.
  Qed.

  Theorem expand_g_eq : expand_g t = expand t.
  Proof. unfold expand_g, expand. apply main_loop_g_eq; [exact sources_names|reflexivity]. Qed.
  Theorem expansion_ends_outside_comment : ends_ok (ost (fst (expand t))) = true.
  Proof. unfold expand. apply main_loop_g_eq; [exact sources_names|reflexivity]. Qed.
End Tree.

(* ------------------------------------------------------------------------------------------------
   witnesses.  ok_tree: qtlogger.h includes b.h in code.  doc_tree (the round-5 shape): qtlogger.h mentions the
   directive inside a block comment before the real one *)
Definition qh : str := [113;116;108;111;103;103;101;114;46;104].     (* qtlogger.h *)
Definition bh : str := [98;46;104].                                     (* b.h *)
Definition inc_b : str := [35;105;110;99;108;117;100;101;32;34;98;46;104;34;10].    (* #include "b.h" NL *)
Definition body_b : str := [105;110;116;32;102;40;41;59;10].          (* int f(); NL *)
Definition ok_tree : tree := [ (root_dir ++ [qh], inc_b); (root_dir ++ [bh], body_b) ].
Definition doc_tree : tree :=
  [ (root_dir ++ [qh], [47;42;10] ++ inc_b ++ [42;47;10] ++ inc_b); (root_dir ++ [bh], body_b) ].
