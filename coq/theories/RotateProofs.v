(* C05 C06 C07 C09 — lemmas about the executable model of RotateDefs.v (the same definitions that are
   extracted): invariants over every history of Write / Advance / Restart / PutForeign operations. *)
From Coq Require Import List ZArith Lia Bool Arith Sorted.
Require Import ZifyBool.
Import ListNotations.
Require Import QtlVerif.RotateDefs.
Local Open Scope Z_scope.
Ltac Zify.zify_post_hook ::= Z.div_mod_to_equations.

(* ---------- civil dates are strictly monotone in the day number ---------- *)
Definition ymd_lt (a b : ymd) : Prop := ymd_ltb a b = true.
Fixpoint all_from (f : Z -> bool) (k : Z) (n : nat) : bool :=
  match n with O => true | S n' => f k && all_from f (k + 1) n' end.
Lemma all_from_spec f n : forall k, all_from f k n = true -> forall j, k <= j < k + Z.of_nat n -> f j = true.
Proof.
  induction n as [|n IH]; intros k H j Hj; [lia|].
  cbn [all_from] in H. apply andb_prop in H as [H1 H2].
  destruct (Z.eq_dec j k) as [->|Hne]; [exact H1|]. apply (IH (k + 1) H2). lia.
Qed.
(* closed finite sweep over the 146 097 days of one 400-year era (the only use of vm_compute here):
   consecutive days have increasing dates, and months / days of month are in range *)
Definition ymd_rangeb (a : ymd) : bool :=
  let '(y, m, d) := a in (0 <=? y) && (y <=? 400) && (1 <=? m) && (m <=? 12) && (1 <=? d) && (d <=? 31).
Definition doe_ok (k : Z) : bool :=
  let a := ymd_of_doe k in let b := ymd_of_doe (k + 1) in ymd_ltb a b && ymd_rangeb a.
Lemma doe_sweep : all_from doe_ok 0 (Z.to_nat 146096) = true.
Proof. vm_cast_no_check (eq_refl true). Qed.
Lemma doe_step k : 0 <= k < 146096 -> ymd_lt (ymd_of_doe k) (ymd_of_doe (k + 1)).
Proof.
  intros H. pose proof (all_from_spec _ _ _ doe_sweep k ltac:(lia)) as E. unfold doe_ok in E. cbv zeta in E.
  apply andb_prop in E. exact (proj1 E).
Qed.
Lemma doe_range k : 0 <= k < 146097 -> ymd_rangeb (ymd_of_doe k) = true.
Proof.
  intros H. destruct (Z.eq_dec k 146096) as [->|Hne]; [reflexivity|].
  pose proof (all_from_spec _ _ _ doe_sweep k ltac:(lia)) as E. unfold doe_ok in E. cbv zeta in E.
  apply andb_prop in E. exact (proj2 E).
Qed.
Lemma ymd_ltb_trans a b c : ymd_ltb a b = true -> ymd_ltb b c = true -> ymd_ltb a c = true.
Proof. destruct a as [[y1 m1] d1], b as [[y2 m2] d2], c as [[y3 m3] d3]. unfold ymd_ltb. lia. Qed.
Lemma ymd_ltb_irrefl a : ymd_ltb a a = false.
Proof. destruct a as [[y m] d]. unfold ymd_ltb. lia. Qed.
Lemma ymd_eqb_eq a b : ymd_eqb a b = true <-> a = b.
Proof.
  destruct a as [[y1 m1] d1], b as [[y2 m2] d2]. unfold ymd_eqb. split.
  - intros H. assert (y1 = y2 /\ m1 = m2 /\ d1 = d2) as (-> & -> & ->) by lia. reflexivity.
  - intros H. injection H as -> -> ->. lia.
Qed.
Lemma civil_step a : -719468 <= a -> ymd_lt (civil a) (civil (a + 1)).
Proof.
  intros Ha. unfold civil.
  set (z := a + 719468). replace (a + 1 + 719468) with (z + 1) by lia.
  assert (Hz : 0 <= z) by lia.
  pose proof (Z.mod_pos_bound z 146097 ltac:(lia)) as Hm.
  destruct (Z.eq_dec (z mod 146097) 146096) as [He|Hne].
  - assert (E1 : (z + 1) mod 146097 = 0) by lia.
    assert (E2 : (z + 1) / 146097 = z / 146097 + 1) by lia.
    rewrite E1, E2, He. change (ymd_of_doe 146096) with (400, 2, 29). change (ymd_of_doe 0) with (0, 3, 1).
    unfold ymd_lt, ymd_ltb. lia.
  - assert (E1 : (z + 1) mod 146097 = z mod 146097 + 1) by lia.
    assert (E2 : (z + 1) / 146097 = z / 146097) by lia.
    rewrite E1, E2. pose proof (doe_step (z mod 146097) ltac:(lia)) as Hs.
    destruct (ymd_of_doe (z mod 146097)) as [[y1 m1] d1], (ymd_of_doe (z mod 146097 + 1)) as [[y2 m2] d2].
    unfold ymd_lt, ymd_ltb in *. lia.
Qed.
Lemma civil_mono a b : -719468 <= a -> a < b -> ymd_lt (civil a) (civil b).
Proof.
  intros Ha Hab. replace b with (a + 1 + Z.of_nat (Z.to_nat (b - a - 1))) by lia.
  induction (Z.to_nat (b - a - 1)) as [|n IH].
  - replace (a + 1 + Z.of_nat 0) with (a + 1) by lia. apply civil_step; lia.
  - replace (a + 1 + Z.of_nat (S n)) with ((a + 1 + Z.of_nat n) + 1) by lia.
    eapply ymd_ltb_trans; [exact IH|]. apply civil_step. lia.
Qed.
Lemma civil_inj a b : -719468 <= a -> -719468 <= b -> civil a = civil b -> a = b.
Proof.
  intros Ha Hb E. destruct (Z.lt_trichotomy a b) as [H|[H|H]]; [|exact H|].
  - pose proof (civil_mono a b Ha H) as M. unfold ymd_lt in M. rewrite E, ymd_ltb_irrefl in M. discriminate.
  - pose proof (civil_mono b a Hb H) as M. unfold ymd_lt in M. rewrite E, ymd_ltb_irrefl in M. discriminate.
Qed.
(* ---------- the model, specialised to the shape the theorems are about ---------- *)
Section WithCfg.
Variable c : cfg.
Notation sh := std_shape.
Notation rotate := (rotate sh c).
Notation init := (init sh c).
Notation check_daily := (check_daily sh c).
Notation check_size := (check_size sh c).
Notation append := (append c).
Notation write := (write sh c).
Notation step := (step sh c).
Notation run := (run sh c).
Notation day_of := (day_of c).

Definition lt_key (a b : rfile) : Prop := fday a < fday b \/ (fday a = fday b /\ fidx a < fidx b).
(* a file the sink itself named: the date in the name is the civil date of its ghost day number *)
Definition WfFile (f : rfile) : Prop :=
  fymd f = civil (fday f) /\ -1 <= fday f /\ fseeded f = false /\ fdig f = dec (fidx f) /\ 1 <= fidx f.

Lemma ymd_eqb_refl a : ymd_eqb a a = true.
Proof. apply ymd_eqb_eq. reflexivity. Qed.
Lemma key_of_lt a b : WfFile a -> WfFile b -> lt_key a b -> key_ltb sh c a b = true.
Proof.
  unfold key_ltb; cbn [s_victim std_shape]. intros (Ea & Ha & _) (Eb & Hb & _) [H|[H1 H2]]; rewrite Ea, Eb.
  - pose proof (civil_mono (fday a) (fday b) ltac:(lia) H) as M. unfold ymd_lt in M. rewrite M. reflexivity.
  - rewrite H1, ymd_eqb_refl. assert (E : (fidx a <? fidx b) = true) by lia. rewrite E. cbn. apply orb_true_r.
Qed.
Lemma key_not_gt a b : WfFile a -> WfFile b -> lt_key a b -> key_ltb sh c b a = false.
Proof.
  unfold key_ltb; cbn [s_victim std_shape]. intros (Ea & Ha & _) (Eb & Hb & _) [H|[H1 H2]]; rewrite Ea, Eb.
  - pose proof (civil_mono (fday a) (fday b) ltac:(lia) H) as M. unfold ymd_lt in M.
    assert (N1 : ymd_ltb (civil (fday b)) (civil (fday a)) = false).
    { destruct (ymd_ltb (civil (fday b)) (civil (fday a))) eqn:E; [|reflexivity].
      pose proof (ymd_ltb_trans _ _ _ M E) as T. rewrite ymd_ltb_irrefl in T. discriminate. }
    assert (N2 : ymd_eqb (civil (fday b)) (civil (fday a)) = false).
    { destruct (ymd_eqb (civil (fday b)) (civil (fday a))) eqn:E; [|reflexivity].
      apply ymd_eqb_eq in E. rewrite E, ymd_ltb_irrefl in M. discriminate. }
    rewrite N1, N2. reflexivity.
  - rewrite H1, ymd_ltb_irrefl, ymd_eqb_refl.
    assert (E1 : (fidx b <? fidx a) = false) by lia. assert (E2 : (fidx b =? fidx a) = false) by lia.
    rewrite E1, E2. reflexivity.
Qed.

Lemma isort_id l : StronglySorted lt_key l -> Forall WfFile l -> isort sh c l = l.
Proof.
  induction l as [|x t IH]; intros Hs Hw; [reflexivity|].
  inversion Hs as [|? ? Hst Hall]; subst. inversion Hw as [|? ? Hx Ht]; subst.
  cbn [isort fold_right]. fold (isort sh c t). rewrite (IH Hst Ht).
  destruct t as [|y t']; [reflexivity|]. cbn [insert].
  inversion Hall as [|? ? Hxy _]; subst. inversion Ht as [|? ? Hy _]; subst.
  rewrite (key_not_gt x y Hx Hy Hxy). reflexivity.
Qed.

Definition remove_oldS (g rs : list rfile) : list rfile * list rfile :=
  if cN c <=? 0 then (g, rs) else drop_oldest (length rs - Z.to_nat (cN c - 1)) g rs.
Lemma remove_old_sorted g rs : StronglySorted lt_key rs -> Forall WfFile rs -> remove_old sh c g rs = remove_oldS g rs.
Proof.
  intros Hs Hw. unfold remove_old, remove_oldS. cbn [s_le0_keeps s_keep_off std_shape andb].
  rewrite (isort_id rs Hs Hw). reflexivity.
Qed.

Definition new_file (w : world) : rfile :=
  {| fday := cur w; fymd := civil (cur w); fidx := next_idx (civil (cur w)) (rot w);
     fdig := dec (next_idx (civil (cur w)) (rot w)); fgz := compress c; fcont := act w;
     fmt := if compress c then stamp (cgran c) (now w) else act_mt w; fseeded := false |}.
Definition rotated (w : world) (g' r' : list rfile) : world :=
  {| gone := g'; rot := r'; act := []; act_mt := stamp (cgran c) (now w); now := now w;
     inited := inited w; cur := day_of (now w); hist := hist w; foreign := foreign w |}.
Definition rotateS (w : world) : world :=
  if cN c =? 1 then w else
  let (g', r') := remove_oldS (gone w) (rot w ++ [new_file w]) in rotated w g' r'.
Lemma rotate_unfold w : rotate w =
  if cN c =? 1 then w else let (g', r') := remove_old sh c (gone w) (rot w ++ [new_file w]) in rotated w g' r'.
Proof. reflexivity. Qed.

(* ---------- small facts ---------- *)
Lemma day_of_mono a b : a <= b -> day_of a <= day_of b.
Proof. intros H. unfold RotateDefs.day_of, day_at, DAYMS. lia. Qed.
Lemma day_of_lb t : 0 <= t -> -1 <= day_of t.
Proof. intros H. unfold RotateDefs.day_of, day_at, tz_ms, DAYMS. lia. Qed.
Lemma stamp_le g t : 0 <= t -> 0 <= stamp g t <= t.
Proof. intros H. unfold stamp. destruct g; cbn [gran_ms]; lia. Qed.
Lemma day_of_stamp g t : 0 <= t -> day_of (stamp g t) = day_of t.
Proof.
  intros H. unfold stamp, RotateDefs.day_of, day_at, tz_ms, DAYMS.
  generalize (Z.max (-1440) (Z.min 1440 (ctz c))). intros m. destruct g; cbn [gran_ms]; lia.
Qed.
Lemma clamp_range t : 0 <= clamp t <= TMAX.
Proof. unfold clamp, TMAX, MAXDAY, DAYMS. lia. Qed.
Lemma clamp_mono a b : a <= b -> clamp a <= clamp b.
Proof. unfold clamp. lia. Qed.
Lemma clamp_id t : 0 <= t <= TMAX -> clamp t = t.
Proof. unfold clamp. lia. Qed.

Lemma drop_oldest_app k : forall g rs g' rs', drop_oldest k g rs = (g', rs') -> g' ++ rs' = g ++ rs.
Proof.
  induction k as [|k IH]; intros g rs g' rs' H; simpl in H.
  - injection H as <- <-. reflexivity.
  - destruct rs as [|f t]; [injection H as <- <-; reflexivity|]. apply IH in H. rewrite H, <- app_assoc. reflexivity.
Qed.
Lemma remove_old_app g rs g' rs' : remove_oldS g rs = (g', rs') -> g' ++ rs' = g ++ rs.
Proof. unfold remove_oldS. destruct (cN c <=? 0); [intros H; injection H as <- <-; reflexivity|apply drop_oldest_app]. Qed.
Lemma drop_oldest_length k : forall g rs g' rs', drop_oldest k g rs = (g', rs') -> length rs' = (length rs - k)%nat.
Proof.
  induction k as [|k IH]; intros g rs g' rs' H; simpl in H.
  - injection H as <- <-. lia.
  - destruct rs as [|f t]; [injection H as <- <-; reflexivity|]. apply IH in H. simpl. lia.
Qed.

Lemma next_idx_gt d rs f : In f rs -> fymd f = d -> fidx f < next_idx d rs.
Proof.
  unfold next_idx. induction rs as [|g t IH]; intros Hin Hd; [contradiction|].
  cbn [fold_right]. destruct Hin as [->|Hin].
  - rewrite Hd, ymd_eqb_refl. lia.
  - specialize (IH Hin Hd). destruct (ymd_eqb (fymd g) d); lia.
Qed.

Lemma next_idx_pos d rs : 1 <= next_idx d rs.
Proof.
  unfold next_idx. assert (0 <= fold_right (fun f m => if ymd_eqb (fymd f) d then Z.max (fidx f) m else m) 0 rs); [|lia].
  induction rs as [|g t IH]; cbn [fold_right]; [lia|]. destruct (ymd_eqb (fymd g) d); lia.
Qed.

(* ---------- Inv2: clock, dates, keys strictly increasing along gone ++ rot ---------- *)
Definition all_rot (w : world) : list rfile := gone w ++ rot w.
Definition KeySorted (w : world) : Prop := StronglySorted lt_key (all_rot w).

Record Inv2 (w : world) : Prop := {
  c_clock : 0 <= act_mt w <= now w;
  c_dates : Forall (fun f => fday f <= day_of (act_mt w)) (all_rot w);
  c_cur : inited w = true -> -1 <= cur w <= day_of (now w) /\ Forall (fun f => fday f <= cur w) (all_rot w);
  c_wf : Forall WfFile (all_rot w);
  c_sorted : KeySorted w;
  c_gone : 2 <= cN c -> gone w <> [] -> rot w <> [];
  c_gone0 : cN c <= 1 -> gone w = [];
  c_tmax : now w <= TMAX
}.

Lemma sorted_app_last (l : list rfile) f : StronglySorted lt_key l -> Forall (fun g => lt_key g f) l -> StronglySorted lt_key (l ++ [f]).
Proof.
  induction l as [|x t IH]; intros Hs Hf; cbn [app].
  - constructor; constructor.
  - inversion Hs as [|? ? Hst Hall]; subst. inversion Hf as [|? ? Hx Ht]; subst.
    constructor; [apply IH; assumption|]. apply Forall_app; split; [assumption|constructor; [assumption|constructor]].
Qed.
Lemma sorted_app_inv (a b : list rfile) : StronglySorted lt_key (a ++ b) -> forall x y, In x a -> In y b -> lt_key x y.
Proof.
  induction a as [|h t IH]; intros Hs x y Hx Hy; [contradiction|].
  cbn [app] in Hs. inversion Hs as [|? ? Hst Hall]; subst. destruct Hx as [->|Hx].
  - rewrite Forall_forall in Hall. apply Hall. apply in_or_app. right; exact Hy.
  - apply IH; assumption.
Qed.
Lemma sorted_app_r (a b : list rfile) : StronglySorted lt_key (a ++ b) -> StronglySorted lt_key b.
Proof. induction a as [|h t IH]; intros Hs; [exact Hs|]. cbn [app] in Hs. inversion Hs; subst. apply IH; assumption. Qed.

(* every file present or removed is below the key of the file a rotation creates *)
Lemma new_key_above w : inited w = true -> Inv2 w -> Forall (fun g => lt_key g (new_file w)) (all_rot w).
Proof.
  intros Hi [Hclk Hd Hc Hwf Hs Hg Hg0 Htm]. destruct (Hc Hi) as [Hcn Hcf].
  rewrite Forall_forall. intros g Hin. rewrite Forall_forall in Hcf, Hwf. pose proof (Hcf g Hin) as Hle.
  unfold lt_key; cbn [fday fidx new_file].
  destruct (Z.eq_dec (fday g) (cur w)) as [Heq|Hne]; [right; split; [exact Heq|]|left; lia].
  assert (Hy : fymd g = civil (cur w)) by (destruct (Hwf g Hin) as (E & _); rewrite E, Heq; reflexivity).
  unfold all_rot in Hin. apply in_app_or in Hin as [Hin|Hin].
  - assert (HN : 2 <= cN c).
    { destruct (Z_le_gt_dec (cN c) 1) as [Hle1|Hgt1]; [|lia]. rewrite (Hg0 Hle1) in Hin. contradiction. }
    assert (Hr : rot w <> []) by (apply Hg; [exact HN|intro E0; rewrite E0 in Hin; contradiction]).
    destruct (rot w) as [|r0 rt] eqn:Er; [contradiction|].
    assert (Hr0 : In r0 (rot w)) by (rewrite Er; left; reflexivity).
    pose proof (sorted_app_inv _ _ Hs g r0 Hin Hr0) as Hk.
    assert (Hr0in : In r0 (gone w ++ rot w)) by (apply in_or_app; right; exact Hr0).
    assert (Hr0le : fday r0 <= cur w) by (apply Hcf; exact Hr0in).
    destruct Hk as [Hk|[Hk1 Hk2]]; [lia|].
    assert (Hr0y : fymd r0 = civil (cur w)).
    { destruct (Hwf r0 Hr0in) as (E & _). rewrite E. f_equal. lia. }
    pose proof (next_idx_gt (civil (cur w)) (rot w) r0 Hr0 Hr0y) as Hn. rewrite Er in Hn. lia.
  - apply next_idx_gt; assumption.
Qed.

Lemma rotate_is w : inited w = true -> Inv2 w -> rotate w = rotateS w.
Proof.
  intros Hi I. rewrite rotate_unfold. unfold rotateS. destruct (cN c =? 1); [reflexivity|].
  pose proof (new_key_above w Hi I) as Hlt. destruct I as [Hclk Hd Hc Hwf Hs Hg Hg0 Htm]. destruct (Hc Hi) as [Hcn _].
  rewrite remove_old_sorted; [reflexivity| |].
  - unfold all_rot in *. apply sorted_app_last; [exact (sorted_app_r _ _ Hs)|].
    apply Forall_app in Hlt. tauto.
  - apply Forall_app; split; [unfold all_rot in Hwf; apply Forall_app in Hwf; tauto|].
    constructor; [|constructor]. unfold WfFile; try (unfold f); unfold new_file; cbn [fymd fday fseeded fdig fidx].
    repeat split; try reflexivity; try lia; apply next_idx_pos.
Qed.

Lemma rotateS_inv2 w : inited w = true -> Inv2 w -> Inv2 (rotateS w).
Proof.
  intros Hi I. pose proof (new_key_above w Hi I) as Hlt. destruct I as [Hclk Hd Hc Hwf Hs Hg Hg0 Htm]. destruct (Hc Hi) as [Hcn Hcf].
  unfold rotateS. destruct (Z.eqb_spec (cN c) 1) as [E1|NE1]; [constructor; assumption|].
  set (f := new_file w) in *.
  destruct (remove_oldS (gone w) (rot w ++ [f])) as [g' r'] eqn:E.
  pose proof (remove_old_app _ _ _ _ E) as Eapp.
  assert (Hall : all_rot (rotated w g' r') = all_rot w ++ [f]).
  { unfold all_rot; cbn [gone rot rotated]. rewrite Eapp, app_assoc. reflexivity. }
  pose proof (stamp_le (cgran c) (now w) ltac:(lia)) as Hst.
  pose proof (day_of_stamp (cgran c) (now w) ltac:(lia)) as Hds.
  constructor; cbn [act_mt now inited cur gone rot rotated].
  - lia.
  - rewrite Hall, Hds. apply Forall_app; split.
    + rewrite Forall_forall in *. intros g Hin. specialize (Hcf g Hin). lia.
    + constructor; [cbn; lia|constructor].
  - intros _. split; [pose proof (day_of_lb (now w) ltac:(lia)); lia|].
    rewrite Hall. apply Forall_app; split.
    + rewrite Forall_forall in *. intros g Hin. specialize (Hcf g Hin). lia.
    + constructor; [cbn; lia|constructor].
  - rewrite Hall. apply Forall_app; split; [exact Hwf|]. constructor; [|constructor]. unfold WfFile; try (unfold f); unfold new_file; cbn [fymd fday fseeded fdig fidx].
    repeat split; try reflexivity; try lia; apply next_idx_pos.
  - unfold KeySorted. rewrite Hall. apply sorted_app_last; assumption.
  - intros HN _. unfold remove_oldS in E. destruct (Z.leb_spec (cN c) 0); [lia|].
    apply drop_oldest_length in E. intro E0. rewrite E0 in E. rewrite app_length in E. cbn [length] in E. lia.
  - intros Hle. unfold remove_oldS in E. destruct (Z.leb_spec (cN c) 0) as [H0|H0]; [|lia].
    injection E as <- <-. apply Hg0. lia.
  - exact Htm.
Qed.
Lemma rotate_inv2 w : inited w = true -> Inv2 w -> Inv2 (rotate w).
Proof. intros Hi I. rewrite (rotate_is w Hi I). apply rotateS_inv2; assumption. Qed.

Lemma rotateS_inited w : inited (rotateS w) = inited w.
Proof. unfold rotateS. destruct (cN c =? 1); [reflexivity|]. destruct (remove_oldS _ _); reflexivity. Qed.
Lemma rotateS_now w : now (rotateS w) = now w.
Proof. unfold rotateS. destruct (cN c =? 1); [reflexivity|]. destruct (remove_oldS _ _); reflexivity. Qed.
Lemma rotateS_hist w : hist (rotateS w) = hist w.
Proof. unfold rotateS. destruct (cN c =? 1); [reflexivity|]. destruct (remove_oldS _ _); reflexivity. Qed.
Lemma rotateS_foreign w : foreign (rotateS w) = foreign w.
Proof. unfold rotateS. destruct (cN c =? 1); [reflexivity|]. destruct (remove_oldS _ _); reflexivity. Qed.

(* ---------- the three pre-write steps keep Inv2 ---------- *)
Definition with_state (w : world) (i : bool) (d : day) : world :=
  {| gone := gone w; rot := rot w; act := act w; act_mt := act_mt w; now := now w;
     inited := i; cur := d; hist := hist w; foreign := foreign w |}.
Definition marked (w : world) : world :=
  with_state w true (if 0 <? size (act w) then day_of (act_mt w) else day_of (now w)).
Lemma init_unfold w : init w =
  if inited w then w else if startup c && (0 <? size (act w)) then rotate (marked w) else marked w.
Proof. reflexivity. Qed.
Lemma daily_unfold w d : check_daily w d =
  if daily c && negb (d =? cur w) && (0 <? size (act w)) then with_state (rotate w) (inited (rotate w)) d else w.
Proof. reflexivity. Qed.
Lemma size_unfold w add : check_size w add =
  if (0 <? cL c) && ((0 <? size (act w)) && (cL c <? size (act w) + add)) then rotate w else w.
Proof. reflexivity. Qed.

Lemma marked_inv2 w : Inv2 w -> Inv2 (marked w).
Proof.
  intros [Hclk Hd Hc Hwf Hs Hg Hg0 Htm]. constructor; cbn; try assumption. intros _.
  pose proof (day_of_mono _ _ (proj2 Hclk)) as Hm.
  pose proof (day_of_lb (act_mt w) (proj1 Hclk)) as H0.
  destruct (0 <? size (act w)); split; try lia; try exact Hd.
  unfold all_rot in *. rewrite Forall_forall in *. intros g Hin. specialize (Hd g Hin). lia.
Qed.
Lemma with_cur_inv2 w : Inv2 w -> Inv2 (with_state w (inited w) (day_of (now w))).
Proof.
  intros [Hclk Hd Hc Hwf Hs Hg Hg0 Htm]. constructor; cbn; try assumption.
  intros Hi. pose proof (day_of_mono _ _ (proj2 Hclk)) as Hm.
  pose proof (day_of_lb (now w) ltac:(lia)) as H0.
  split; [lia|]. unfold all_rot in *. rewrite Forall_forall in *. intros g Hin. specialize (Hd g Hin). lia.
Qed.

(* generic: a predicate kept by rotations and indifferent to (inited, cur) survives the pre-write steps *)
Section Mid.
Variable P : world -> Prop.
Hypothesis P_state : forall w i d, P w -> P (with_state w i d).
Hypothesis P_rot : forall w, inited w = true -> Inv2 w -> 0 < size (act w) -> P w -> P (rotateS w).

Lemma init_mid w : Inv2 w -> P w -> Inv2 (init w) /\ P (init w) /\ inited (init w) = true /\ now (init w) = now w.
Proof.
  intros I HP. rewrite init_unfold. destruct (inited w) eqn:Ei; [tauto|].
  pose proof (marked_inv2 w I) as I1. assert (P1 : P (marked w)) by (apply P_state; exact HP).
  destruct (startup c && _) eqn:Ec; [|tauto].
  rewrite (rotate_is (marked w) eq_refl I1).
  split; [apply rotateS_inv2; [reflexivity|exact I1]|].
  split; [apply P_rot; [reflexivity|exact I1|cbn; lia|exact P1]|].
  split; [rewrite rotateS_inited; reflexivity|rewrite rotateS_now; reflexivity].
Qed.
Lemma daily_mid w : Inv2 w -> P w -> inited w = true ->
  let w' := check_daily w (day_of (now w)) in Inv2 w' /\ P w' /\ inited w' = true /\ now w' = now w.
Proof.
  intros I HP Hi. cbn zeta. rewrite daily_unfold. destruct (_ && _ && _) eqn:Ec; [|tauto].
  rewrite (rotate_is w Hi I). rewrite rotateS_inited.
  split; [|split; [apply P_state, P_rot; try assumption; lia|split; [exact Hi|cbn; apply rotateS_now]]].
  rewrite <- (rotateS_now w), <- (rotateS_inited w). apply with_cur_inv2, rotateS_inv2; assumption.
Qed.
Lemma size_mid w add : Inv2 w -> P w -> inited w = true ->
  Inv2 (check_size w add) /\ P (check_size w add) /\ inited (check_size w add) = true /\ now (check_size w add) = now w.
Proof.
  intros I HP Hi. rewrite size_unfold. destruct (_ && _) eqn:Ec; [|tauto].
  rewrite (rotate_is w Hi I).
  split; [apply rotateS_inv2; assumption|split; [apply P_rot; try assumption; lia|]].
  split; [rewrite rotateS_inited; exact Hi|apply rotateS_now].
Qed.
(* the world a record is appended to *)
Definition before_append (w : world) (add : Z) : world := check_size (check_daily (init w) (day_of (now w))) add.
Lemma pre_mid w add : Inv2 w -> P w ->
  let w3 := before_append w add in Inv2 w3 /\ P w3 /\ inited w3 = true /\ now w3 = now w.
Proof.
  intros I HP. cbn zeta. unfold before_append.
  destruct (init_mid w I HP) as (I1 & P1 & i1 & n1).
  rewrite <- n1. destruct (daily_mid (init w) I1 P1 i1) as (I2 & P2 & i2 & n2).
  destruct (size_mid _ add I2 P2 i2) as (I3 & P3 & i3 & n3). rewrite n3, n2. tauto.
Qed.
End Mid.

Lemma write_unfold w p : write w p =
  append (before_append w (Z.of_nat (length p) + 1))
         {| rbytes := p ++ [10%N]; rid := length (hist w); rday := day_of (now w) |}.
Proof. reflexivity. Qed.

(* operations of the environment that stay out of the sink's name scheme *)
Definition clean_op (o : op) : Prop :=
  match o with PutForeign n _ => parse_name c n = None | _ => True end.
Lemma put_foreign_unfold w n b : parse_name c n = None ->
  put_foreign c w n b = if str_eqb n (active_name c) then w else
    {| gone := gone w; rot := rot w; act := act w; act_mt := act_mt w; now := now w;
       inited := inited w; cur := cur w; hist := hist w;
       foreign := filter (fun x => negb (str_eqb (xname x) n)) (foreign w)
                  ++ [{| xname := n; xbytes := b; xmt := stamp (cgran c) (now w) |}] |}.
Proof. intros E. unfold put_foreign. rewrite E. reflexivity. Qed.

Lemma append_inv2 w r : inited w = true -> Inv2 w -> Inv2 (append w r).
Proof.
  intros Hi [Hclk Hd Hc Hwf Hs Hg Hg0 Htm].
  pose proof (stamp_le (cgran c) (now w) ltac:(lia)) as Hst.
  pose proof (day_of_stamp (cgran c) (now w) ltac:(lia)) as Hds.
  destruct (Hc Hi) as [Hcn Hcf].
  constructor; cbn; try assumption; try lia.
  rewrite Hds. unfold all_rot in *. rewrite Forall_forall in *. intros g Hg'. specialize (Hcf g Hg'). lia.
Qed.

Lemma step_inv2 w o : clean_op o -> Inv2 w -> Inv2 (step w o).
Proof.
  intros Hcl I. destruct o as [ty p|dt| |n b]; cbn [step].
  - rewrite write_unfold.
    destruct (pre_mid (fun _ => True) (fun _ _ _ _ => Logic.I) (fun _ _ _ _ _ => Logic.I) w (Z.of_nat (length p) + 1) I Logic.I) as (I3 & _ & i3 & _).
    apply append_inv2; assumption.
  - destruct I as [Hclk Hd Hc Hwf Hs Hg Hg0 Htm].
    assert (Hn : now w <= clamp (now w + Z.max 0 dt)).
    { unfold clamp. lia. }
    pose proof (clamp_range (now w + Z.max 0 dt)) as Hcr.
    constructor; cbn [act_mt now inited cur gone rot]; try assumption; try lia.
    intros Hi. destruct (Hc Hi) as [H1 H2]. split; [|exact H2].
    pose proof (day_of_mono _ _ Hn). lia.
  - destruct I as [Hclk Hd Hc Hwf Hs Hg Hg0 Htm]. constructor; cbn; try assumption. discriminate.
  - cbn in Hcl. rewrite (put_foreign_unfold w n b Hcl). destruct (str_eqb n (active_name c)); [exact I|].
    destruct I as [Hclk Hd Hc Hwf Hs Hg Hg0 Htm]. constructor; cbn; assumption.
Qed.

(* ---------- shape of a rotation ---------- *)
Lemma rotateS_one w : cN c = 1 -> rotateS w = w.
Proof. intros E. unfold rotateS. rewrite E. reflexivity. Qed.
Lemma rotateS_shape w : cN c <> 1 ->
  all_rot (rotateS w) = all_rot w ++ [new_file w] /\ act (rotateS w) = [] /\
  act_mt (rotateS w) = stamp (cgran c) (now w) /\ cur (rotateS w) = day_of (now w).
Proof.
  intros NE. unfold rotateS. destruct (Z.eqb_spec (cN c) 1) as [E1|_]; [contradiction|].
  destruct (remove_oldS (gone w) (rot w ++ [new_file w])) as [g' r'] eqn:E.
  pose proof (remove_old_app _ _ _ _ E) as Eapp.
  unfold all_rot; cbn [gone rot rotated act act_mt cur]. rewrite Eapp, app_assoc. tauto.
Qed.

(* ---------- C05 / C06: conservation ---------- *)
Lemma contents_app a b : contents (a ++ b) = contents a ++ contents b.
Proof. unfold contents. rewrite map_app, concat_app. reflexivity. Qed.
Definition all_recs (w : world) : list rec := contents (gone w) ++ contents (rot w) ++ act w.
Lemma all_recs_alt w : all_recs w = contents (all_rot w) ++ act w.
Proof. unfold all_recs, all_rot. rewrite contents_app, app_assoc. reflexivity. Qed.
Definition Conserved (w : world) : Prop := hist w = all_recs w.

Lemma rotateS_all_recs w : all_recs (rotateS w) = all_recs w.
Proof.
  destruct (Z.eq_dec (cN c) 1) as [E|NE]; [rewrite (rotateS_one w E); reflexivity|].
  destruct (rotateS_shape w NE) as (Ha & Hb & _). rewrite !all_recs_alt, Ha, Hb, contents_app.
  unfold contents at 2. cbn [map concat new_file fcont]. rewrite !app_nil_r. reflexivity.
Qed.
Lemma conserved_state w i d : Conserved w -> Conserved (with_state w i d).
Proof. exact (fun H => H). Qed.
Lemma conserved_rot w : inited w = true -> Inv2 w -> 0 < size (act w) -> Conserved w -> Conserved (rotateS w).
Proof. intros _ _ _ H. unfold Conserved. rewrite rotateS_all_recs, rotateS_hist. exact H. Qed.

Lemma step_conserved w o : clean_op o -> Inv2 w -> Conserved w -> Conserved (step w o).
Proof.
  intros Hcl I H. destruct o as [ty p|dt| |n b]; cbn [step]; try exact H.
  - rewrite write_unfold.
    destruct (pre_mid Conserved conserved_state conserved_rot w (Z.of_nat (length p) + 1) I H) as (_ & H3 & _).
    unfold Conserved in *. unfold append, all_recs; cbn [hist gone rot act]. rewrite H3. unfold all_recs.
    rewrite !app_assoc. reflexivity.
  - cbn in Hcl. rewrite (put_foreign_unfold w n b Hcl). destruct (str_eqb n (active_name c)); exact H.
Qed.

(* ---------- C06: count bound and the N<=0 / N=1 cases ---------- *)
Definition CountOk (w : world) : Prop :=
  (2 <= cN c -> Z.of_nat (length (rot w)) <= cN c - 1) /\ (cN c = 1 -> rot w = []) /\ (cN c <= 0 -> gone w = []).
Lemma count_rot w : inited w = true -> Inv2 w -> 0 < size (act w) -> CountOk w -> CountOk (rotateS w).
Proof.
  intros _ _ _ (H2 & H1 & H0). unfold rotateS. destruct (Z.eqb_spec (cN c) 1) as [E|NE]; [repeat split; assumption|].
  destruct (remove_oldS _ _) as [g' r'] eqn:E. unfold CountOk; cbn [rot gone rotated]. unfold remove_oldS in E.
  destruct (Z.leb_spec (cN c) 0) as [Hle|Hgt].
  - injection E as <- <-. repeat split; try lia. intros _. apply H0. lia.
  - repeat split; try lia. intros HN. apply drop_oldest_length in E. rewrite E, app_length. cbn [length]. lia.
Qed.
Lemma step_count w o : clean_op o -> Inv2 w -> CountOk w -> CountOk (step w o).
Proof.
  intros Hcl I H. destruct o as [ty p|dt| |n b]; cbn [step]; try exact H.
  - rewrite write_unfold.
    destruct (pre_mid CountOk (fun _ _ _ H => H) count_rot w (Z.of_nat (length p) + 1) I H) as (_ & H3 & _). exact H3.
  - cbn in Hcl. rewrite (put_foreign_unfold w n b Hcl). destruct (str_eqb n (active_name c)); exact H.
Qed.

(* ---------- C07: size bound ---------- *)
Definition small (l : list rec) : Prop := size l <= cL c \/ (length l <= 1)%nat.
Definition SizeOk (w : world) : Prop := small (act w) /\ Forall (fun f => small (fcont f)) (all_rot w).
Definition RecsPos (w : world) : Prop := forall r, In r (act w) -> 0 < rlen r.
Definition NonEmpty (w : world) : Prop := Forall (fun f => fcont f <> []) (all_rot w).
Definition PS (w : world) : Prop := (0 < cL c -> cN c <> 1 -> SizeOk w) /\ RecsPos w /\ NonEmpty w.

Lemma size_app l r : size (l ++ [r]) = size l + rlen r.
Proof. induction l as [|x t IH]; cbn [app size]; [lia|rewrite IH; lia]. Qed.
Lemma size_nonneg l : 0 <= size l.
Proof. induction l as [|x t IH]; cbn [size]; [lia|unfold rlen; lia]. Qed.
Lemma size_pos_nonempty l : (forall r, In r l -> 0 < rlen r) -> l <> [] -> 0 < size l.
Proof. destruct l as [|x t]; [contradiction|]. intros H _. cbn [size]. pose proof (size_nonneg t). specialize (H x (or_introl eq_refl)). lia. Qed.

Lemma ps_rot w : inited w = true -> Inv2 w -> 0 < size (act w) -> PS w -> PS (rotateS w).
Proof.
  intros _ _ Hsz (HS & HP & HE).
  destruct (Z.eq_dec (cN c) 1) as [E|NE]; [rewrite (rotateS_one w E); split; [exact HS|split; [exact HP|exact HE]]|].
  destruct (rotateS_shape w NE) as (Ha & Hb & _). unfold PS, SizeOk, RecsPos, NonEmpty. rewrite Ha, Hb.
  split; [intros HL HN; destruct (HS HL HN) as (Sa & Sr); split; [right; cbn; lia|]|split].
  - apply Forall_app; split; [exact Sr|constructor; [exact Sa|constructor]].
  - intros r [].
  - apply Forall_app; split; [exact HE|constructor; [|constructor]]. cbn [new_file fcont]. intro E0. rewrite E0 in Hsz. cbn in Hsz. lia.
Qed.

Lemma step_ps w o : clean_op o -> Inv2 w -> PS w -> PS (step w o).
Proof.
  intros Hcl I H. destruct o as [ty p|dt| |n b]; cbn [step]; try exact H.
  2:{ cbn in Hcl. rewrite (put_foreign_unfold w n b Hcl). destruct (str_eqb n (active_name c)); exact H. }
  rewrite write_unfold. set (r := {| rbytes := _; rid := _; rday := _ |}).
  assert (Hrl : rlen r = Z.of_nat (length p) + 1). { unfold rlen, r; cbn [rbytes]. rewrite app_length. cbn [length]. lia. }
  unfold before_append.
  destruct (init_mid PS (fun _ _ _ H => H) ps_rot w I H) as (I1 & P1 & i1 & n1).
  rewrite <- n1. destruct (daily_mid PS (fun _ _ _ H => H) ps_rot (init w) I1 P1 i1) as (I2 & P2 & i2 & n2).
  set (w2 := check_daily (init w) (day_of (now (init w)))) in *.
  destruct (size_mid PS (fun _ _ _ H => H) ps_rot w2 (Z.of_nat (length p) + 1) I2 P2 i2) as (I3 & (HS3 & Pp3 & Ne3) & i3 & n3).
  split; [|split].
  2:{ unfold RecsPos, append; cbn [act]. intros x Hx. apply in_app_or in Hx as [Hx|[<-|[]]]; [apply Pp3; exact Hx|lia]. }
  2:{ exact Ne3. }
  - intros HL HN. destruct (HS3 HL HN) as (Sa3 & Sr3). unfold SizeOk, append; cbn [act all_rot gone rot]. split; [|exact Sr3].
    rewrite size_unfold. rewrite size_unfold in Sa3.
    destruct ((0 <? cL c) && ((0 <? size (act w2)) && (cL c <? size (act w2) + (Z.of_nat (length p) + 1)))) eqn:Ec.
    + rewrite (rotate_is w2 i2 I2). destruct (rotateS_shape w2 HN) as (_ & Hb & _). rewrite Hb. right; cbn; lia.
    + destruct P2 as (_ & Pp2 & _).
      destruct (Z.ltb_spec 0 (size (act w2))) as [Hpos|Hz].
      * left. rewrite size_app. lia.
      * destruct (act w2) as [|x t] eqn:Ea; [right; cbn; lia|].
        exfalso. assert (0 < size (x :: t)). { apply size_pos_nonempty; [|discriminate]. rewrite <- Ea. exact Pp2. } lia.
Qed.

(* ---------- C09: with daily rotation, one calendar day per file and the name carries it ---------- *)
Definition one_day (d : day) (l : list rec) : Prop := Forall (fun r => rday r = d) l.
Record DaysMid (w : world) : Prop := {
  d_act : one_day (day_of (act_mt w)) (act w);
  d_rot : Forall (fun f => one_day (fday f) (fcont f)) (all_rot w);
  d_cur : inited w = true -> (act w <> [] -> cur w = day_of (act_mt w)) /\ (act w = [] -> cur w = day_of (now w))
}.
Lemma recspos_rot w : inited w = true -> Inv2 w -> 0 < size (act w) -> RecsPos w -> RecsPos (rotateS w).
Proof.
  intros _ _ _ H. destruct (Z.eq_dec (cN c) 1) as [E|NE]; [rewrite (rotateS_one w E); exact H|].
  destruct (rotateS_shape w NE) as (_ & Hb & _). unfold RecsPos. rewrite Hb. intros r [].
Qed.
Lemma size_pos_iff w : RecsPos w -> (0 <? size (act w)) = true <-> act w <> [].
Proof.
  intros HP. split.
  - intros H E. rewrite E in H. cbn in H. discriminate.
  - intros H. apply Z.ltb_lt. apply size_pos_nonempty; [exact HP|exact H].
Qed.

Section Daily.
Hypothesis Hdaily : daily c = true.
Hypothesis HN1 : cN c <> 1.

Lemma rotateS_days w : inited w = true -> act w <> [] -> DaysMid w -> DaysMid (rotateS w) /\ act (rotateS w) = [].
Proof.
  intros Hi Hne [Ha Hr Hc]. destruct (rotateS_shape w HN1) as (Hall & Hb & Hm & Hcu).
  split; [|exact Hb]. constructor.
  - rewrite Hb. constructor.
  - rewrite Hall. apply Forall_app; split; [exact Hr|]. constructor; [|constructor].
    cbn [new_file fday fcont]. destruct (Hc Hi) as [Hc1 _]. rewrite (Hc1 Hne). exact Ha.
  - intros _. rewrite Hb, Hcu, rotateS_now. split; [intros Hx; contradiction Hx; reflexivity|reflexivity].
Qed.

Definition DS (w : world) : Prop := DaysMid w /\ RecsPos w.

Lemma step_days w o : clean_op o -> Inv2 w -> DS w -> (inited w = true -> act w <> []) ->
  DS (step w o) /\ (inited (step w o) = true -> act (step w o) <> []).
Proof.
  intros Hcl I [D HP] Hop. destruct o as [ty p|dt| |n b]; cbn [step].
  2:{ destruct D as [Ha Hr Hc]. split; [split; [|exact HP]|exact Hop]. constructor; cbn; try assumption.
      intros Hi. destruct (Hc Hi) as [H1 H2]. split; [exact H1|]. intros E. specialize (Hop Hi). contradiction. }
  2:{ destruct D as [Ha Hr Hc]. split; [split; [|exact HP]|cbn; discriminate]. constructor; cbn; try assumption. discriminate. }
  2:{ cbn in Hcl. rewrite (put_foreign_unfold w n b Hcl). destruct (str_eqb n (active_name c)); [split; [split|]; assumption|].
      destruct D as [Ha Hr Hc]. split; [split; [|exact HP]|exact Hop]. constructor; cbn; assumption. }
  rewrite write_unfold. set (r := {| rbytes := _; rid := _; rday := day_of (now w) |}).
  assert (Hrl : 0 < rlen r). { unfold rlen, r; cbn [rbytes]. rewrite app_length. cbn [length]. lia. }
  unfold before_append.
  (* init *)
  destruct (init_mid RecsPos (fun _ _ _ H => H) recspos_rot w I HP) as (I1 & P1 & i1 & n1).
  assert (D1 : DaysMid (init w)).
  { rewrite init_unfold. destruct (inited w) eqn:Ei; [exact D|].
    destruct D as [Ha Hr Hc].
    assert (Dm : DaysMid (marked w)).
    { constructor; cbn; try assumption. intros _. split; intros Hx.
      - apply (size_pos_iff w HP) in Hx. rewrite Hx. reflexivity.
      - rewrite Hx. reflexivity. }
    destruct (startup c && (0 <? size (act w))) eqn:Es; [|exact Dm].
    apply andb_prop in Es as [_ Es]. apply (size_pos_iff w HP) in Es.
    rewrite (rotate_is (marked w) eq_refl (marked_inv2 w I)).
    apply (rotateS_days (marked w) eq_refl Es Dm). }
  (* daily check: afterwards cur = day of the message *)
  rewrite <- n1.
  destruct (daily_mid RecsPos (fun _ _ _ H => H) recspos_rot (init w) I1 P1 i1) as (I2 & P2 & i2 & n2).
  set (w2 := check_daily (init w) (day_of (now (init w)))) in *.
  assert (D2 : DaysMid w2 /\ cur w2 = day_of (now w2)).
  { unfold w2 in *. rewrite n2. clear I2 P2 i2 n2. rewrite daily_unfold. rewrite Hdaily. cbn [andb].
    destruct (negb (day_of (now (init w)) =? cur (init w)) && (0 <? size (act (init w)))) eqn:E.
    - apply andb_prop in E as [_ E2]. apply (size_pos_iff _ P1) in E2.
      rewrite (rotate_is (init w) i1 I1).
      destruct (rotateS_days (init w) i1 E2 D1) as [[Ha Hr Hc] Hae].
      split; [|reflexivity].
      constructor; cbn; try assumption. intros _. split; [intros Hx; contradiction|intros _; rewrite rotateS_now; reflexivity].
    - split; [exact D1|].
      apply andb_false_iff in E as [E|E].
      + apply negb_false_iff, Z.eqb_eq in E. symmetry; exact E.
      + assert (Hemp : act (init w) = []).
        { destruct (act (init w)) eqn:Ea; [reflexivity|]. exfalso.
          assert (Hx : (0 <? size (act (init w))) = true) by (apply (size_pos_iff _ P1); rewrite Ea; discriminate).
          rewrite Ea in Hx. congruence. }
        destruct (d_cur _ D1 i1) as [_ Hc2]. exact (Hc2 Hemp). }
  destruct D2 as [D2 C2].
  (* size check *)
  destruct (size_mid RecsPos (fun _ _ _ H => H) recspos_rot w2 (Z.of_nat (length p) + 1) I2 P2 i2) as (I3 & P3 & i3 & n3).
  set (w3 := check_size w2 (Z.of_nat (length p) + 1)) in *.
  assert (D3 : DaysMid w3 /\ cur w3 = day_of (now w3)).
  { unfold w3 in *. rewrite n3. clear I3 P3 i3 n3. rewrite size_unfold. destruct (_ && _) eqn:E; [|split; assumption].
    apply andb_prop in E as [_ E]. apply andb_prop in E as [E2 _]. apply (size_pos_iff _ P2) in E2.
    rewrite (rotate_is w2 i2 I2). destruct (rotateS_days w2 i2 E2 D2) as [Dr Hae].
    split; [exact Dr|]. destruct (d_cur _ Dr) as [_ Hc2]; [rewrite rotateS_inited; exact i2|].
    rewrite (Hc2 Hae), rotateS_now. reflexivity. }
  destruct D3 as [[Ha Hr Hc] C3].
  assert (Hnow : now w3 = now w) by (rewrite n3, n2, n1; reflexivity).
  pose proof (day_of_stamp (cgran c) (now w3) ltac:(destruct I3; lia)) as Hds.
  split; [split|].
  - constructor; unfold append; cbn [act act_mt all_rot gone rot inited cur now].
    + rewrite Hds. apply Forall_app; split; [|constructor; [cbn [rday r]; rewrite Hnow; reflexivity|constructor]].
      destruct (act w3) as [|x t] eqn:Ea; [constructor|].
      destruct (Hc i3) as [Hc1 _]. assert (Hne : x :: t <> []) by discriminate. specialize (Hc1 Hne).
      rewrite <- C3, Hc1. exact Ha.
    + exact Hr.
    + intros _. split; [intros _; rewrite Hds; exact C3|intros Hx; destruct (act w3); discriminate].
  - unfold RecsPos, append; cbn [act]. intros x Hx. apply in_app_or in Hx as [Hx|[<-|[]]]; [apply P3; exact Hx|exact Hrl].
  - unfold append; cbn. intros _. destruct (act w3); discriminate.
Qed.
End Daily.

(* ---------- the written history itself: ids 0,1,2,..., every record ends in its own newline ---------- *)
Definition term (r : rec) : Prop := exists p, rbytes r = p ++ [10%N].
Lemma ids_from_app k a b : ids_from k (a ++ b) = ids_from k a && ids_from (k + length a) b.
Proof.
  revert k. induction a as [|x t IH]; intros k; cbn [app ids_from length].
  - rewrite Nat.add_0_r. reflexivity.
  - rewrite IH, <- andb_assoc. replace (S k + length t)%nat with (k + S (length t))%nat by lia. reflexivity.
Qed.
Definition HistOk (w : world) : Prop := Forall term (hist w) /\ ids_from 0 (hist w) = true.
Lemma step_hist w o : clean_op o -> Inv2 w -> HistOk w -> HistOk (step w o).
Proof.
  intros Hcl I H. destruct o as [ty p|dt| |n b]; cbn [step]; try exact H.
  - rewrite write_unfold.
    destruct (pre_mid (fun w' => hist w' = hist w) (fun _ _ _ H => H)
                (fun w' _ _ _ H => eq_trans (rotateS_hist w') H) w (Z.of_nat (length p) + 1) I eq_refl) as (_ & H3 & _).
    destruct H as [Ht Hi]. unfold HistOk, append; cbn [hist]. rewrite H3. split.
    + apply Forall_app; split; [exact Ht|constructor; [exists p; reflexivity|constructor]].
    + rewrite ids_from_app, Hi. cbn. rewrite Nat.eqb_refl. reflexivity.
  - cbn in Hcl. rewrite (put_foreign_unfold w n b Hcl). destruct (str_eqb n (active_name c)); exact H.
Qed.

(* what one Write adds to the history: exactly one record, the payload followed by its newline, whatever rotations precede it *)
Lemma write_hist w ty p : Inv2 w ->
  hist (step w (Write ty p)) = hist w ++ [{| rbytes := p ++ [10%N]; rid := length (hist w); rday := day_of (now w) |}].
Proof.
  intros I. cbn [step]. rewrite write_unfold.
  destruct (pre_mid (fun w' => hist w' = hist w) (fun _ _ _ H => H)
              (fun w' _ _ _ H => eq_trans (rotateS_hist w') H) w (Z.of_nat (length p) + 1) I eq_refl) as (_ & H3 & _).
  unfold append; cbn [hist]. rewrite H3. reflexivity.
Qed.

(* ---------- files outside the name scheme ---------- *)
Lemma rotate_foreign w : foreign (rotate w) = foreign w.
Proof.
  rewrite rotate_unfold. destruct (cN c =? 1); [reflexivity|]. destruct (remove_old _ _ _ _); reflexivity.
Qed.
Lemma init_foreign w : foreign (init w) = foreign w.
Proof. rewrite init_unfold. destruct (inited w); [reflexivity|]. destruct (_ && _); [rewrite rotate_foreign|]; reflexivity. Qed.
Lemma daily_foreign w d : foreign (check_daily w d) = foreign w.
Proof. rewrite daily_unfold. destruct (_ && _ && _); [cbn [foreign with_state]; apply rotate_foreign|reflexivity]. Qed.
Lemma size_foreign w a : foreign (check_size w a) = foreign w.
Proof. rewrite size_unfold. destruct (_ && _); [apply rotate_foreign|reflexivity]. Qed.
Lemma sink_ops_leave_foreign w o : (forall n b, o <> PutForeign n b) -> foreign (step w o) = foreign w.
Proof.
  intros Ho. destruct o as [ty p|dt| |n b]; cbn [step]; try reflexivity.
  - rewrite write_unfold. unfold append, before_append; cbn [foreign].
    rewrite size_foreign, daily_foreign, init_foreign. reflexivity.
  - exfalso. eapply Ho. reflexivity.
Qed.
(* a PutForeign whose name the recogniser rejects changes nothing but the foreign files *)
Lemma foreign_put_inert w n b : parse_name c n = None ->
  let w' := step w (PutForeign n b) in
  gone w' = gone w /\ rot w' = rot w /\ act w' = act w /\ act_mt w' = act_mt w /\ now w' = now w /\
  inited w' = inited w /\ cur w' = cur w /\ hist w' = hist w.
Proof.
  intros E. cbn [step]. rewrite (put_foreign_unfold w n b E). destruct (str_eqb n (active_name c)); cbn; tauto.
Qed.

(* ---------- induction over histories ---------- *)
Definition clean (ops : list op) : Prop := Forall clean_op ops.
Lemma w0_inv2 t0 : Inv2 (w0 c t0).
Proof.
  pose proof (clamp_range t0) as Hr. pose proof (stamp_le (cgran c) (clamp t0) (proj1 Hr)) as Hs.
  constructor; cbn [w0 act_mt now inited cur gone rot all_rot app]; try lia; try constructor; try discriminate; try reflexivity.
  intros _ H; exact H.
Qed.
Lemma run_ind (Q : world -> Prop) t0 :
  Q (w0 c t0) -> (forall w o, clean_op o -> Inv2 w -> Q w -> Q (step w o)) ->
  forall ops, clean ops -> Inv2 (run t0 ops) /\ Q (run t0 ops).
Proof.
  intros Q0 Qs ops. unfold run. pose proof (w0_inv2 t0) as I0. revert I0 Q0. generalize (w0 c t0).
  induction ops as [|o ops IH]; intros w I HQ Hc; cbn [fold_left]; [tauto|].
  inversion Hc as [|? ? Ho Hr]; subst. apply IH; [apply step_inv2; assumption|apply Qs; assumption|exact Hr].
Qed.

Theorem run_inv2 t0 ops : clean ops -> Inv2 (run t0 ops).
Proof. intros H. exact (proj1 (run_ind (fun _ => True) t0 Logic.I (fun _ _ _ _ _ => Logic.I) ops H)). Qed.
Theorem history_conserved t0 ops : clean ops -> Conserved (run t0 ops).
Proof. intros H. refine (proj2 (run_ind Conserved t0 _ step_conserved ops H)). reflexivity. Qed.
Theorem count_bound t0 ops : clean ops -> CountOk (run t0 ops).
Proof.
  intros H. refine (proj2 (run_ind CountOk t0 _ step_count ops H)).
  unfold CountOk; cbn. repeat split; try reflexivity; lia.
Qed.
Theorem ps_holds t0 ops : clean ops -> PS (run t0 ops).
Proof.
  intros H. refine (proj2 (run_ind PS t0 _ step_ps ops H)).
  split; [intros _ _; split; [right; cbn; lia|constructor]|split; [intros r []|constructor]].
Qed.
Theorem hist_ok t0 ops : clean ops -> HistOk (run t0 ops).
Proof. intros H. refine (proj2 (run_ind HistOk t0 _ step_hist ops H)). split; [constructor|reflexivity]. Qed.
Theorem days_hold t0 ops : daily c = true -> cN c <> 1 -> clean ops -> DaysMid (run t0 ops).
Proof.
  intros Hd HN H.
  refine (proj1 (proj1 (proj2 (run_ind (fun w => DS w /\ (inited w = true -> act w <> [])) t0 _ _ ops H)))).
  - split; [split; [constructor; cbn; [constructor|constructor|discriminate]|intros r []]|cbn; discriminate].
  - intros w o Ho I [D Hop]. apply step_days; assumption.
Qed.

(* names are never reused, even after removal: the (date, index) pairs along gone ++ rot are distinct *)
Lemma lt_key_names a b : WfFile a -> WfFile b -> lt_key a b -> (fymd a, fidx a) <> (fymd b, fidx b).
Proof.
  intros (Ea & Ha & _) (Eb & Hb & _) H E. injection E as E1 E2. rewrite Ea, Eb in E1.
  apply civil_inj in E1; [|lia|lia]. unfold lt_key in H. lia.
Qed.
Lemma sorted_nodup l : StronglySorted lt_key l -> Forall WfFile l -> NoDup (map (fun f => (fymd f, fidx f)) l).
Proof.
  induction l as [|x t IH]; intros Hs Hw; [constructor|].
  inversion Hs as [|? ? Hst Hall]; subst. inversion Hw as [|? ? Hx Ht]; subst.
  cbn [map]. constructor; [|apply IH; assumption].
  intros Hin. apply in_map_iff in Hin as (y & Ey & Hy).
  rewrite Forall_forall in Hall, Ht. apply (lt_key_names x y Hx (Ht y Hy) (Hall y Hy)). symmetry; exact Ey.
Qed.

(* ---------- the boolean oracles hold on every reachable model world ---------- *)
Lemma str_eqb_refl a : str_eqb a a = true.
Proof. induction a as [|x t IH]; cbn; [reflexivity|rewrite N.eqb_refl, IH; reflexivity]. Qed.
Lemma rec_eqb_refl r : rec_eqb r r = true.
Proof. unfold rec_eqb. rewrite str_eqb_refl, Nat.eqb_refl, Z.eqb_refl. reflexivity. Qed.
Lemma recs_eqb_refl l : recs_eqb l l = true.
Proof. induction l as [|x t IH]; cbn; [reflexivity|rewrite rec_eqb_refl, IH; reflexivity]. Qed.
Lemma pairs_eqb_refl l : pairs_eqb l l = true.
Proof. induction l as [|[n b] t IH]; cbn; [reflexivity|]. rewrite !str_eqb_refl. exact IH. Qed.
Lemma term_b r : term r -> terminated r = true.
Proof.
  intros [p E]. unfold terminated. rewrite E. clear E. induction p as [|x t IH]; [reflexivity|].
  cbn [app ends_nl]. destruct (t ++ [10%N]) eqn:Et; [destruct t; discriminate|exact IH].
Qed.

Lemma isort_rot w : Inv2 w -> isort sh c (rot w) = rot w.
Proof.
  intros I. apply isort_id.
  - exact (sorted_app_r _ _ (c_sorted w I)).
  - pose proof (c_wf w I) as H. unfold all_rot in H. apply Forall_app in H. tauto.
Qed.
Lemma conserved_b_holds w : Inv2 w -> Conserved w -> conserved_b sh c (snap_of w) = true.
Proof.
  intros I H. unfold conserved_b, survivors; cbn [snap_of s_hist s_gone s_rot s_act].
  rewrite (isort_rot w I). unfold Conserved, all_recs in H. rewrite H. apply recs_eqb_refl.
Qed.

Theorem oracle_c05 t0 ops : clean ops -> prop_c05_b sh c (snap_of (run t0 ops)) = true.
Proof.
  intros H. unfold prop_c05_b. rewrite (conserved_b_holds _ (run_inv2 t0 ops H) (history_conserved t0 ops H)).
  destruct (hist_ok t0 ops H) as [Ht Hi]. cbn [snap_of s_act_lost s_hist negb andb]. rewrite Hi, andb_true_r.
  apply forallb_forall. intros r Hr. rewrite Forall_forall in Ht. apply term_b, Ht, Hr.
Qed.

Theorem oracle_c06 t0 ops : clean ops -> prop_c06_b sh c (snap_of (run t0 ops)) = true.
Proof.
  intros H. unfold prop_c06_b. rewrite (conserved_b_holds _ (run_inv2 t0 ops H) (history_conserved t0 ops H)).
  destruct (count_bound t0 ops H) as (H2 & H1 & H0). pose proof (run_inv2 t0 ops H) as I.
  cbn [snap_of s_act_lost s_count_chk s_rot s_gone s_fexp s_fobs negb andb]. rewrite pairs_eqb_refl, andb_true_r.
  apply andb_true_iff; split; [apply andb_true_iff; split|].
  - destruct (Z.leb_spec 2 (cN c)); cbn [andb]; [|reflexivity]. apply Z.leb_le. apply H2; assumption.
  - destruct (Z.leb_spec (cN c) 0); [|reflexivity]. rewrite H0; [reflexivity|assumption].
  - destruct (Z.eqb_spec (cN c) 1); [|reflexivity]. rewrite H1 by assumption. rewrite (c_gone0 _ I) by lia. reflexivity.
Qed.

Lemma small_b_of l : small l -> small_b c l = true.
Proof. unfold small, small_b. intros [H|H]; apply orb_true_iff; [left; lia|right; apply Nat.leb_le; exact H]. Qed.
Theorem oracle_c07 t0 ops : clean ops -> prop_c07_b sh c (snap_of (run t0 ops)) = true.
Proof.
  intros H. unfold prop_c07_b. destruct ((0 <? cL c) && negb (cN c =? 1)) eqn:E; [|reflexivity].
  apply andb_prop in E as [E1 E2]. destruct (ps_holds t0 ops H) as (HS & _ & _).
  destruct HS as (Sa & Sr); [lia|lia|].
  rewrite (conserved_b_holds _ (run_inv2 t0 ops H) (history_conserved t0 ops H)), andb_true_r.
  cbn [snap_of s_act s_rot s_gone]. unfold all_rot in Sr. apply Forall_app in Sr as [Sg Srr].
  rewrite (small_b_of _ Sa). cbn [andb]. apply andb_true_iff; split; apply forallb_forall; intros f Hf.
  - rewrite Forall_forall in Srr. rewrite (small_b_of _ (Srr f Hf)). apply orb_true_r.
  - rewrite Forall_forall in Sg. rewrite (small_b_of _ (Sg f Hf)). apply orb_true_r.
Qed.

Lemma idx_of_lt a b : WfFile a -> WfFile b -> lt_key a b -> idx_ltb a b = true.
Proof.
  unfold idx_ltb. intros (Ea & Ha & _) (Eb & Hb & _) [H|[H1 H2]]; rewrite Ea, Eb.
  - pose proof (civil_mono (fday a) (fday b) ltac:(lia) H) as M. unfold ymd_lt in M. rewrite M. reflexivity.
  - rewrite H1, ymd_eqb_refl. assert (E : (fidx a <? fidx b) = true) by lia. rewrite E. apply orb_true_r.
Qed.
Lemma chain_idx l : StronglySorted lt_key l -> Forall WfFile l -> chain_b idx_ltb l = true.
Proof.
  induction l as [|x t IH]; intros Hs Hw; [reflexivity|].
  inversion Hs as [|? ? Hst Hall]; subst. inversion Hw as [|? ? Hx Ht]; subst.
  cbn [chain_b]. rewrite (IH Hst Ht), andb_true_r. destruct t as [|y t']; [reflexivity|].
  inversion Hall; subst. inversion Ht; subst. apply idx_of_lt; assumption.
Qed.
Lemma first_id_head k f t rest : fcont f <> [] -> ids_from k (contents (f :: t) ++ rest) = true -> first_id f = Z.of_nat k.
Proof.
  intros Hne H. unfold first_id. destruct (fcont f) as [|r rs] eqn:E; [contradiction|].
  unfold contents in H. cbn [map concat] in H. rewrite E in H. cbn [app ids_from] in H.
  apply andb_prop in H as [H _]. apply Nat.eqb_eq in H. rewrite H. reflexivity.
Qed.
Lemma chain_first l : forall k rest, Forall (fun f => fcont f <> []) l -> ids_from k (contents l ++ rest) = true ->
  chain_b (fun a b => first_id a <? first_id b) l = true.
Proof.
  induction l as [|x t IH]; intros k rest Hne H; [reflexivity|].
  inversion Hne as [|? ? Hx Ht]; subst. cbn [chain_b].
  assert (H' : ids_from (k + length (fcont x)) (contents t ++ rest) = true).
  { unfold contents in *. cbn [map concat] in H. rewrite <- app_assoc, ids_from_app in H. apply andb_prop in H. tauto. }
  rewrite (IH _ _ Ht H'), andb_true_r. destruct t as [|y t']; [reflexivity|].
  inversion Ht; subst. rewrite (first_id_head k x (y :: t') rest Hx H), (first_id_head _ y t' rest ltac:(assumption) H').
  destruct (fcont x); [contradiction|]. cbn [length]. lia.
Qed.
Lemma one_day_b_of d l : one_day d l -> forall d', d' = d -> one_day_b d' l = true.
Proof. intros H d' ->. apply forallb_forall. intros r Hr. unfold one_day in H. rewrite Forall_forall in H. rewrite (H r Hr). apply Z.eqb_refl. Qed.

Theorem oracle_c09 t0 ops : clean ops -> prop_c09_b sh c (snap_of (run t0 ops)) = true.
Proof.
  intros H. pose proof (run_inv2 t0 ops H) as I. unfold prop_c09_b. cbn [snap_of s_gone s_rot s_act s_act_lost negb]. cbv zeta.
  rewrite (isort_rot _ I). fold (all_rot (run t0 ops)).
  destruct (ps_holds t0 ops H) as (_ & _ & HNe). destruct (hist_ok t0 ops H) as [_ Hids].
  pose proof (history_conserved t0 ops H) as HC. unfold Conserved in HC. rewrite all_recs_alt in HC. rewrite HC in Hids.
  rewrite (chain_idx _ (c_sorted _ I) (c_wf _ I)), (chain_first _ 0%nat _ HNe Hids). cbn [andb].
  destruct (daily c && negb (cN c =? 1)) eqn:E; [|reflexivity].
  apply andb_prop in E as [E1 E2]. destruct (days_hold t0 ops E1 ltac:(lia) H) as [Da Dr _].
  apply andb_true_iff; split.
  - destruct (act (run t0 ops)) as [|r t] eqn:Ea; [reflexivity|]. apply (one_day_b_of _ _ Da).
    inversion Da; subst. assumption.
  - apply forallb_forall. intros f Hf. apply orb_true_iff; right.
    unfold NonEmpty in HNe. rewrite Forall_forall in Dr, HNe. pose proof (c_wf _ I) as Hwf. rewrite Forall_forall in Hwf.
    specialize (Dr f Hf). specialize (HNe f Hf). destruct (Hwf f Hf) as (Ey & _).
    unfold named_day_b. destruct (fcont f) as [|r t] eqn:Ec; [contradiction|].
    assert (Er : rday r = fday f) by (inversion Dr; subst; assumption).
    rewrite (one_day_b_of _ _ Dr _ Er), Er, Ey, ymd_eqb_refl. reflexivity.
Qed.
End WithCfg.

(* ---------- the theorems, for any shape the translator may produce that equals the proven one ---------- *)
Lemma shape_eqb_eq a : shape_eqb a std_shape = true -> a = std_shape.
Proof.
  destruct a as [v k ss sn nl od lk im nc an es go ap lh op1 da]. unfold shape_eqb. cbn. intros H.
  repeat (let X := fresh "X" in apply andb_prop in H as [H X]).
  destruct v; [|discriminate].
  repeat match goal with
         | X : Bool.eqb _ _ = true |- _ => apply eqb_prop in X
         | X : (_ =? _) = true |- _ => apply Z.eqb_eq in X
         end. subst. reflexivity.
Qed.

Section Final.
Variable sh : shape.
Hypothesis Hsh : shape_eqb sh std_shape = true.
Variable c : cfg.
Variable t0 : time.
Variable ops : list op.
Hypothesis Hclean : clean c ops.
Let w := run sh c t0 ops.
Lemma w_std : w = run std_shape c t0 ops.
Proof. unfold w. rewrite (shape_eqb_eq sh Hsh). reflexivity. Qed.

Lemma bytes_of_app a b : bytes_of (a ++ b) = bytes_of a ++ bytes_of b.
Proof. unfold bytes_of. rewrite map_app, concat_app. reflexivity. Qed.

Theorem T_history_conserved : hist w = contents (gone w) ++ contents (rot w) ++ act w.
Proof. rewrite w_std. exact (history_conserved c t0 ops Hclean). Qed.
Theorem T_bytes_conserved :
  bytes_of (hist w) = bytes_of (contents (gone w)) ++ bytes_of (contents (rot w)) ++ bytes_of (act w).
Proof. rewrite T_history_conserved, !bytes_of_app. reflexivity. Qed.
Theorem T_no_delete : cN c <= 0 -> gone w = [] /\ hist w = contents (rot w) ++ act w.
Proof.
  intros HN. assert (E : gone w = []) by (rewrite w_std; apply (count_bound c t0 ops Hclean); exact HN).
  split; [exact E|]. rewrite T_history_conserved, E. reflexivity.
Qed.
Theorem T_survivors_contiguous : contents (rot w) ++ act w = skipn (length (contents (gone w))) (hist w).
Proof.
  rewrite T_history_conserved, skipn_app, skipn_all, Nat.sub_diag. reflexivity.
Qed.
Theorem T_records_whole : Forall (fun r => exists p, rbytes r = p ++ [10%N]) (hist w) /\ ids_from 0 (hist w) = true.
Proof. rewrite w_std. exact (hist_ok c t0 ops Hclean). Qed.
Theorem T_keys_increase : StronglySorted lt_key (gone w ++ rot w) /\ Forall WfFile (gone w ++ rot w).
Proof. rewrite w_std. pose proof (run_inv2 c t0 ops Hclean) as I. split; [exact (c_sorted c _ I)|exact (c_wf c _ I)]. Qed.
Theorem T_rotation_order_is_name_order : isort std_shape c (rot w) = rot w.
Proof. rewrite w_std. apply isort_rot. exact (run_inv2 c t0 ops Hclean). Qed.
Theorem T_count_bound : 2 <= cN c -> Z.of_nat (length (rot w)) + 1 <= cN c.
Proof. intros HN. rewrite w_std. pose proof (proj1 (count_bound c t0 ops Hclean) HN). lia. Qed.
Theorem T_no_rotated_when_one : cN c = 1 -> rot w = [] /\ gone w = [].
Proof.
  intros HN. rewrite w_std. split; [apply (count_bound c t0 ops Hclean); exact HN|].
  apply (c_gone0 c _ (run_inv2 c t0 ops Hclean)). lia.
Qed.
Theorem T_size_bound : 0 < cL c -> cN c <> 1 ->
  (size (act w) <= cL c \/ (length (act w) <= 1)%nat) /\
  Forall (fun f => size (fcont f) <= cL c \/ (length (fcont f) <= 1)%nat) (gone w ++ rot w).
Proof. intros HL HN. rewrite w_std. exact (proj1 (ps_holds c t0 ops Hclean) HL HN). Qed.
Theorem T_never_empty : Forall (fun f => fcont f <> []) (gone w ++ rot w).
Proof. rewrite w_std. exact (proj2 (proj2 (ps_holds c t0 ops Hclean))). Qed.
Theorem T_days_apart : daily c = true -> cN c <> 1 ->
  Forall (fun r => rday r = day_of c (act_mt w)) (act w) /\
  Forall (fun f => Forall (fun r => rday r = fday f) (fcont f) /\ fymd f = civil (fday f)) (gone w ++ rot w).
Proof.
  intros Hd HN. rewrite w_std. destruct (days_hold c t0 ops Hd HN Hclean) as [Da Dr _]. split; [exact Da|].
  pose proof (c_wf c _ (run_inv2 c t0 ops Hclean)) as Hwf. unfold all_rot in *.
  rewrite Forall_forall in *. intros f Hf. split; [exact (Dr f Hf)|exact (proj1 (Hwf f Hf))].
Qed.
Theorem T_indices_increase : forall l1 a l2 b l3, gone w ++ rot w = l1 ++ a :: l2 ++ b :: l3 ->
  fymd a = fymd b -> fidx a < fidx b.
Proof.
  intros l1 a l2 b l3 E Hy. destruct T_keys_increase as [Hs Hwf]. rewrite E in Hs, Hwf.
  apply sorted_app_r in Hs. inversion Hs as [|? ? _ Hall]; subst.
  rewrite Forall_forall in Hall, Hwf.
  assert (Hb : In b (l2 ++ b :: l3)) by (apply in_or_app; right; left; reflexivity).
  specialize (Hall b Hb).
  destruct (Hwf a ltac:(apply in_or_app; right; left; reflexivity)) as (Ea & Ha & _).
  destruct (Hwf b ltac:(apply in_or_app; right; right; exact Hb)) as (Eb & Hb0 & _).
  rewrite Ea, Eb in Hy. apply civil_inj in Hy; [|lia|lia]. unfold lt_key in Hall. lia.
Qed.
Theorem T_never_overwritten : NoDup (map (fun f => (fymd f, fidx f)) (gone w ++ rot w)).
Proof. destruct T_keys_increase as [Hs Hwf]. apply sorted_nodup; assumption. Qed.
Theorem T_oracles : prop_c05_b std_shape c (snap_of w) = true /\ prop_c06_b std_shape c (snap_of w) = true /\
                    prop_c07_b std_shape c (snap_of w) = true /\ prop_c09_b std_shape c (snap_of w) = true.
Proof.
  rewrite w_std. split; [apply oracle_c05|split; [apply oracle_c06|split; [apply oracle_c07|apply oracle_c09]]]; exact Hclean.
Qed.
End Final.

(* files outside the sink's name scheme: no operation of the sink touches them, and creating one
   changes nothing the sink can see *)
Theorem T_foreign_untouched sh c w o : shape_eqb sh std_shape = true ->
  (forall n b, o <> PutForeign n b) -> foreign (step sh c w o) = foreign w.
Proof. intros Hsh. rewrite (shape_eqb_eq sh Hsh). apply sink_ops_leave_foreign. Qed.
Theorem T_foreign_inert sh c w n b : parse_name c n = None ->
  let w' := step sh c w (PutForeign n b) in
  gone w' = gone w /\ rot w' = rot w /\ act w' = act w /\ act_mt w' = act_mt w /\ now w' = now w /\
  inited w' = inited w /\ cur w' = cur w /\ hist w' = hist w.
Proof.
  intros E. cbn [step]. unfold put_foreign. rewrite E. destruct (str_eqb n (active_name c)); cbn; tauto.
Qed.

Definition digits (l : str) : Prop := Forall (fun ch => is_digit ch = true) l.
(* value of little-endian digits *)
Fixpoint val_le (l : str) : Z := match l with [] => 0 | ch :: t => (Z.of_N ch - 48) + 10 * val_le t end.
Lemma digits_val_snoc l ch : digits_val (l ++ [ch]) = digits_val l * 10 + (Z.of_N ch - 48).
Proof. unfold digits_val. rewrite fold_left_app. reflexivity. Qed.
Lemma digits_val_rev l : digits_val (rev l) = val_le l.
Proof. induction l as [|ch t IH]; [reflexivity|]. cbn [rev val_le]. rewrite digits_val_snoc, IH. lia. Qed.
Lemma is_digit_code n : 0 <= n <= 9 -> is_digit (Z.to_N (48 + n)) = true /\ Z.of_N (Z.to_N (48 + n)) - 48 = n.
Proof. intros H. unfold is_digit. split; [|lia]. apply andb_true_iff; split; apply N.leb_le; lia. Qed.
Lemma dec_rev_spec fuel : forall n, 0 <= n < 2 ^ Z.of_nat fuel -> (0 < fuel)%nat ->
  digits (dec_rev fuel n) /\ val_le (dec_rev fuel n) = n /\ dec_rev fuel n <> [].
Proof.
  induction fuel as [|f IH]; intros n Hn Hf; [lia|]. cbn [dec_rev].
  destruct (Z.ltb_spec n 10) as [Hlt|Hge].
  - destruct (is_digit_code n ltac:(lia)) as [D V]. split; [constructor; [exact D|constructor]|split; [cbn [val_le]; lia|discriminate]].
  - assert (Hf' : (0 < f)%nat).
    { destruct f; [|lia]. cbn in Hn. lia. }
    assert (Hn' : 0 <= n / 10 < 2 ^ Z.of_nat f).
    { rewrite Nat2Z.inj_succ, Z.pow_succ_r in Hn by lia. lia. }
    destruct (IH (n / 10) Hn' Hf') as (D & V & _).
    destruct (is_digit_code (n mod 10) ltac:(lia)) as [D0 V0].
    split; [constructor; assumption|split; [cbn [val_le]; rewrite V, V0; lia|discriminate]].
Qed.
Lemma dec_spec n : 0 <= n -> digits (dec n) /\ digits_val (dec n) = n /\ dec n <> [].
Proof.
  intros H. unfold dec. rewrite Z.max_r by lia.
  assert (Hb : 0 <= n < 2 ^ Z.of_nat (S (Z.to_nat (Z.log2 n)))).
  { split; [exact H|]. rewrite Nat2Z.inj_succ, Z2Nat.id by apply Z.log2_nonneg.
    destruct (Z.eq_dec n 0) as [->|Hne]; [cbn; lia|]. apply Z.log2_spec. lia. }
  destruct (dec_rev_spec _ n Hb ltac:(lia)) as (D & V & NE).
  split; [unfold digits in *; apply Forall_rev; exact D|split; [rewrite digits_val_rev; exact V|]].
  intro E. apply NE. rewrite <- (rev_involutive (dec_rev _ n)), E. reflexivity.
Qed.
Lemma dec_inj a b : 0 <= a -> 0 <= b -> dec a = dec b -> a = b.
Proof. intros Ha Hb E. rewrite <- (proj1 (proj2 (dec_spec a Ha))), <- (proj1 (proj2 (dec_spec b Hb))), E. reflexivity. Qed.
(* no leading zero, except for "0" itself *)
Lemma dec_rev_last fuel : forall n, 0 < n < 2 ^ Z.of_nat fuel -> last (dec_rev fuel n) 48%N <> 48%N.
Proof.
  induction fuel as [|f IH]; intros n Hn; [cbn in Hn; lia|]. cbn [dec_rev].
  destruct (Z.ltb_spec n 10) as [Hlt|Hge]; [cbn [last]; lia|].
  assert (Hn' : 0 < n / 10 < 2 ^ Z.of_nat f) by (rewrite Nat2Z.inj_succ, Z.pow_succ_r in Hn by lia; lia).
  specialize (IH _ Hn'). destruct (dec_rev f (n / 10)) eqn:E; [|exact IH].
  destruct f; [cbn in Hn'; lia|]. cbn [dec_rev] in E. destruct (n / 10 <? 10); discriminate.
Qed.
Lemma dec_no_leading_zero n : 1 <= n -> hd 48%N (dec n) <> 48%N.
Proof.
  intros H. unfold dec. rewrite Z.max_r by lia.
  assert (Hb : 0 < n < 2 ^ Z.of_nat (S (Z.to_nat (Z.log2 n)))).
  { split; [lia|]. rewrite Nat2Z.inj_succ, Z2Nat.id by apply Z.log2_nonneg. apply Z.log2_spec. lia. }
  pose proof (dec_rev_last _ n Hb) as L. set (l := dec_rev _ n) in *.
  assert (G : forall r : str, hd 48%N r = last (rev r) 48%N).
  { clear. intros [|a t]; [reflexivity|]. cbn [rev hd]. rewrite last_last. reflexivity. }
  rewrite (G (rev l)), rev_involutive. exact L.
Qed.
(* fixed width *)
Lemma dec_rev_len fuel : forall n k, 0 <= n < 10 ^ Z.of_nat k -> (0 < k)%nat -> (length (dec_rev fuel n) <= k)%nat.
Proof.
  induction fuel as [|f IH]; intros n k Hn Hk; [cbn; lia|]. cbn [dec_rev].
  destruct (Z.ltb_spec n 10) as [Hlt|Hge]; [cbn; lia|].
  destruct k as [|k]; [lia|]. destruct k as [|k]; [cbn in Hn; lia|].
  cbn [length]. apply le_n_S. apply IH; [|lia].
  rewrite (Nat2Z.inj_succ (S k)), Z.pow_succ_r in Hn by lia. lia.
Qed.
Lemma pad_spec k n : 0 <= n < 10 ^ Z.of_nat k -> (0 < k)%nat ->
  length (pad k (dec n)) = k /\ digits (pad k (dec n)) /\ digits_val (pad k (dec n)) = n.
Proof.
  intros Hn Hk. destruct (dec_spec n (proj1 Hn)) as (D & V & _).
  assert (L : (length (dec n) <= k)%nat).
  { unfold dec. rewrite Z.max_r, rev_length by lia. apply dec_rev_len; assumption. }
  unfold pad. split; [rewrite app_length, repeat_length; lia|split].
  - apply Forall_app; split; [|exact D]. apply Forall_forall. intros x Hx. apply repeat_spec in Hx. subst. reflexivity.
  - unfold digits_val in *. rewrite fold_left_app.
    assert (Z0 : forall j, fold_left (fun a ch => a * 10 + (Z.of_N ch - 48)) (repeat 48%N j) 0 = 0).
    { induction j as [|j IH]; [reflexivity|]. cbn [repeat fold_left]. exact IH. }
    rewrite Z0. exact V.
Qed.

(* ---- string primitives ---- *)
Lemma strip_prefix_app p l : strip_prefix p (p ++ l) = Some l.
Proof. induction p as [|x t IH]; [reflexivity|]. cbn [app strip_prefix]. rewrite N.eqb_refl. exact IH. Qed.
Lemma strip_prefix_sound p : forall l r, strip_prefix p l = Some r -> l = p ++ r.
Proof.
  induction p as [|x t IH]; intros l r H; [cbn in H; injection H as ->; reflexivity|].
  destruct l as [|y l']; [discriminate|]. cbn [strip_prefix] in H. destruct (N.eqb_spec x y) as [->|]; [|discriminate].
  cbn [app]. f_equal. apply IH. exact H.
Qed.
Lemma take_digits_app l : forall rest, digits l -> take_digits (length l) (l ++ rest) = Some (l, rest).
Proof.
  induction l as [|x t IH]; intros rest D; [reflexivity|]. inversion D as [|? ? Hx Ht]; subst.
  cbn [length app take_digits]. rewrite Hx, (IH rest Ht). reflexivity.
Qed.
Lemma take_digits_sound k : forall l a b, take_digits k l = Some (a, b) -> l = a ++ b /\ length a = k.
Proof.
  induction k as [|k IH]; intros l a b H; [cbn in H; injection H as <- <-; split; reflexivity|].
  destruct l as [|x t]; [discriminate|]. cbn [take_digits] in H. destruct (is_digit x); [|discriminate].
  destruct (take_digits k t) as [[a' b']|] eqn:E; [|discriminate]. injection H as <- <-.
  destruct (IH _ _ _ E) as [-> L]. split; [reflexivity|cbn; lia].
Qed.
Definition not_digit_head (l : str) : Prop := match l with [] => True | x :: _ => is_digit x = false end.
Lemma span_digits_app l : forall rest, digits l -> not_digit_head rest -> span_digits (l ++ rest) = (l, rest).
Proof.
  induction l as [|x t IH]; intros rest D H.
  - cbn [app]. destruct rest as [|y r]; [reflexivity|]. cbn in H. cbn [span_digits]. rewrite H. reflexivity.
  - inversion D as [|? ? Hx Ht]; subst. cbn [app span_digits]. rewrite Hx, (IH rest Ht H). reflexivity.
Qed.
Lemma span_digits_sound l : forall a b, span_digits l = (a, b) -> l = a ++ b.
Proof.
  induction l as [|x t IH]; intros a b H; [cbn in H; injection H as <- <-; reflexivity|].
  cbn [span_digits] in H. destruct (is_digit x); [|injection H as <- <-; reflexivity].
  destruct (span_digits t) as [a' b'] eqn:E. injection H as <- <-. rewrite (IH _ _ eq_refl). reflexivity.
Qed.
Lemma str_eqb_eq a : forall b, str_eqb a b = true -> a = b.
Proof.
  induction a as [|x t IH]; intros [|y u] H; try discriminate; [reflexivity|].
  cbn [str_eqb] in H. apply andb_prop in H as [H1 H2]. apply N.eqb_eq in H1. subst. f_equal. apply IH. exact H2.
Qed.
Lemma str_eqb_neq a b : a <> b -> str_eqb a b = false.
Proof. intros H. destruct (str_eqb a b) eqn:E; [|reflexivity]. exfalso. apply H. apply str_eqb_eq. exact E. Qed.

Section Names.
Variable c : cfg.
Notation sfx := (sfx c).
Lemma sfx_head : not_digit_head sfx.
Proof. unfold RotateDefs.sfx. destruct (csuffix c); [exact Logic.I|reflexivity]. Qed.
Lemma sfx_tail_head (gz : bool) : not_digit_head (sfx ++ (if gz then GZ else [])).
Proof.
  unfold RotateDefs.sfx. destruct (csuffix c); [|reflexivity]. destruct gz; [reflexivity|exact Logic.I].
Qed.

(* a name the sink can render: 4/2/2-digit date fields, a non-empty run of index digits *)
Definition name_ok (f : rfile) : Prop :=
  let '(y, m, d) := fymd f in
  0 <= y <= 9999 /\ 0 <= m <= 99 /\ 0 <= d <= 99 /\ fdig f <> [] /\ digits (fdig f).

(* (1) the recogniser of findRotatedFiles reads back exactly what generateRotatedFileName wrote *)
Theorem parse_render f : name_ok f -> parse_name c (render c f) = Some (fymd f, fdig f, fgz f).
Proof.
  unfold name_ok. destruct (fymd f) as [[y m] d] eqn:Ey. intros (Hy & Hm & Hd & Hne & Hdg).
  destruct (pad_spec 4 y ltac:(cbn; lia) ltac:(lia)) as (Ly & Dy & Vy).
  destruct (pad_spec 2 m ltac:(cbn; lia) ltac:(lia)) as (Lm & Dm & Vm).
  destruct (pad_spec 2 d ltac:(cbn; lia) ltac:(lia)) as (Ld & Dd & Vd).
  unfold parse_name, render, ymd_str. rewrite Ey.
  repeat rewrite <- app_assoc.
  rewrite strip_prefix_app, strip_prefix_app.
  rewrite <- Ly at 1. rewrite (take_digits_app _ _ Dy), strip_prefix_app.
  rewrite <- Lm at 1. rewrite (take_digits_app _ _ Dm), strip_prefix_app.
  rewrite <- Ld at 1. rewrite (take_digits_app _ _ Dd), strip_prefix_app.
  rewrite (span_digits_app _ _ Hdg (sfx_tail_head (fgz f))).
  destruct (fdig f) as [|d0 ds] eqn:Ed; [contradiction|]. rewrite Vy, Vm, Vd.
  destruct (fgz f).
  - rewrite (str_eqb_neq (sfx ++ GZ) sfx), str_eqb_refl; [reflexivity|].
    intro E. apply (f_equal (@length N)) in E. rewrite app_length in E. cbn in E. lia.
  - rewrite app_nil_r, str_eqb_refl. reflexivity.
Qed.

(* render is injective on (date, index digits, gz) *)
Theorem render_inj a b : name_ok a -> name_ok b -> render c a = render c b ->
  fymd a = fymd b /\ fdig a = fdig b /\ fgz a = fgz b.
Proof.
  intros Ha Hb E. pose proof (parse_render a Ha) as Pa. rewrite E, (parse_render b Hb) in Pa.
  injection Pa as -> -> ->. tauto.
Qed.

(* what a recognised name looks like *)
Lemma parse_sound raw ymd ds (gz : bool) : parse_name c raw = Some (ymd, ds, gz) ->
  exists y m d, raw = cbase c ++ DOT ++ y ++ DASH ++ m ++ DASH ++ d ++ DOT ++ ds ++ sfx ++ (if gz then GZ else [])
    /\ length y = 4%nat /\ length m = 2%nat /\ length d = 2%nat /\ ds <> [].
Proof.
  unfold parse_name. intros H.
  destruct (strip_prefix (cbase c) raw) as [r1|] eqn:E1; [|discriminate].
  destruct (strip_prefix DOT r1) as [r2|] eqn:E2; [|discriminate].
  destruct (take_digits 4 r2) as [[y r3]|] eqn:E3; [|discriminate].
  destruct (strip_prefix DASH r3) as [r4|] eqn:E4; [|discriminate].
  destruct (take_digits 2 r4) as [[m r5]|] eqn:E5; [|discriminate].
  destruct (strip_prefix DASH r5) as [r6|] eqn:E6; [|discriminate].
  destruct (take_digits 2 r6) as [[d r7]|] eqn:E7; [|discriminate].
  destruct (strip_prefix DOT r7) as [r8|] eqn:E8; [|discriminate].
  destruct (span_digits r8) as [ds' r9] eqn:E9.
  apply strip_prefix_sound in E1, E2, E4, E6, E8. apply take_digits_sound in E3 as [E3 L3], E5 as [E5 L5], E7 as [E7 L7].
  apply span_digits_sound in E9. exists y, m, d.
  destruct ds' as [|x t]; [discriminate|].
  destruct (str_eqb r9 sfx) eqn:Q1.
  - apply str_eqb_eq in Q1. injection H as <- <- <-. subst. rewrite app_nil_r.
    repeat rewrite <- app_assoc. repeat split; try assumption; discriminate.
  - destruct (str_eqb r9 (sfx ++ GZ)) eqn:Q2; [|discriminate]. apply str_eqb_eq in Q2. injection H as <- <- <-. subst.
    repeat rewrite <- app_assoc. repeat split; try assumption; discriminate.
Qed.
(* (3) the active file's own name is never taken for a rotated file, and differs from every rendered name *)
Theorem parse_rejects_active : parse_name c (active_name c) = None.
Proof.
  destruct (parse_name c (active_name c)) as [[[ymd ds] gz]|] eqn:E; [|reflexivity]. exfalso.
  apply parse_sound in E as (y & m & d & E & Ly & Lm & Ld & Hne). unfold active_name in E.
  apply (f_equal (@length N)) in E. repeat rewrite app_length in E. cbn in E. lia.
Qed.
Theorem render_not_active f : render c f <> active_name c.
Proof.
  unfold render, active_name, ymd_str. destruct (fymd f) as [[y m] d]. intro E.
  apply (f_equal (@length N)) in E. repeat rewrite app_length in E. cbn in E. lia.
Qed.
End Names.

(* ---- the names the sink generates ---- *)
Lemma civil_range a : -1 <= a <= MAXDAY ->
  let '(y, m, d) := civil a in 1969 <= y <= 9999 /\ 1 <= m <= 12 /\ 1 <= d <= 31.
Proof.
  intros H.
  assert (Hlo : civil (-1) = (1969, 12, 31)) by reflexivity.
  assert (Hhi : civil MAXDAY = (9999, 12, 31)) by reflexivity.
  assert (L : ymd_ltb (civil a) (civil (-1)) = false).
  { destruct (Z.eq_dec a (-1)) as [->|Hne]; [apply ymd_ltb_irrefl|].
    pose proof (civil_mono (-1) a ltac:(lia) ltac:(lia)) as M. unfold ymd_lt in M.
    destruct (ymd_ltb (civil a) (civil (-1))) eqn:E; [|reflexivity].
    pose proof (ymd_ltb_trans _ _ _ M E) as T. rewrite ymd_ltb_irrefl in T. discriminate. }
  assert (U : ymd_ltb (civil MAXDAY) (civil a) = false).
  { destruct (Z.eq_dec a MAXDAY) as [->|Hne]; [apply ymd_ltb_irrefl|].
    pose proof (civil_mono a MAXDAY ltac:(lia) ltac:(lia)) as M. unfold ymd_lt in M.
    destruct (ymd_ltb (civil MAXDAY) (civil a)) eqn:E; [|reflexivity].
    pose proof (ymd_ltb_trans _ _ _ M E) as T. rewrite ymd_ltb_irrefl in T. discriminate. }
  rewrite Hlo in L. rewrite Hhi in U. unfold civil in *.
  pose proof (doe_range ((a + 719468) mod 146097) ltac:(unfold MAXDAY in H; lia)) as R.
  destruct (ymd_of_doe ((a + 719468) mod 146097)) as [[y m] d]. unfold ymd_rangeb in R. unfold ymd_ltb in L, U. lia.
Qed.

Section SinkNames.
Variable c : cfg.
Lemma day_of_ub t : t <= TMAX -> day_of c t <= MAXDAY.
Proof. intros H. unfold day_of, day_at, tz_ms, TMAX, MAXDAY, DAYMS in *. lia. Qed.
Lemma wf_name_ok f : WfFile f -> fday f <= MAXDAY -> name_ok f.
Proof.
  intros (Ey & Hlo & _ & Ed & Hi) Hhi. unfold name_ok. rewrite Ey.
  pose proof (civil_range (fday f) ltac:(lia)) as R. destruct (civil (fday f)) as [[y m] d].
  destruct (dec_spec (fidx f) ltac:(lia)) as (D & _ & NE). rewrite Ed. repeat split; try lia; assumption.
Qed.
Lemma inv2_days_ub w : Inv2 c w -> Forall (fun f => fday f <= MAXDAY) (all_rot w).
Proof.
  intros I. pose proof (c_dates c w I) as Hd. pose proof (c_clock c w I) as Hc. pose proof (c_tmax c w I) as Ht.
  rewrite Forall_forall in *. intros f Hf. specialize (Hd f Hf).
  pose proof (day_of_mono c _ _ (proj2 Hc)). pose proof (day_of_ub (now w) Ht). lia.
Qed.
Lemma inv2_names_ok w : Inv2 c w -> Forall name_ok (all_rot w).
Proof.
  intros I. pose proof (inv2_days_ub w I) as U. pose proof (c_wf c w I) as Hw.
  rewrite Forall_forall in *. intros f Hf. apply wf_name_ok; [apply Hw|apply U]; exact Hf.
Qed.

Lemma NoDup_map_transfer {A B C : Type} (f : A -> B) (g : A -> C) l :
  (forall a b, In a l -> In b l -> g a = g b -> f a = f b) -> NoDup (map f l) -> NoDup (map g l).
Proof.
  induction l as [|x t IH]; intros H N; [constructor|]. cbn [map] in *. inversion N as [|? ? Hn Nt]; subst.
  constructor.
  - intros Hin. apply in_map_iff in Hin as (y & Ey & Hy). apply Hn. apply in_map_iff. exists y. split; [|exact Hy].
    apply H; [right; exact Hy|left; reflexivity|exact Ey].
  - apply IH; [|exact Nt]. intros a b Ha Hb. apply H; right; assumption.
Qed.
Lemma nodup_app {A : Type} (a b : list A) : NoDup a -> NoDup b -> (forall x, In x a -> ~ In x b) -> NoDup (a ++ b).
Proof.
  induction a as [|x t IH]; intros Na Nb H; [exact Nb|]. inversion Na as [|? ? Hx Nt]; subst. cbn [app]. constructor.
  - intro Hin. apply in_app_or in Hin as [Hin|Hin]; [contradiction|]. exact (H x (or_introl eq_refl) Hin).
  - apply IH; [exact Nt|exact Nb|]. intros y Hy. apply H. right; exact Hy.
Qed.

Lemma nodup_app_r {A : Type} (a b : list A) : NoDup (a ++ b) -> NoDup b.
Proof. induction a as [|x t IH]; intros H; [exact H|]. cbn [app] in H. inversion H; subst. apply IH. assumption. Qed.
Lemma nodup_filter_map {A B : Type} (f : A -> B) (p : A -> bool) l : NoDup (map f l) -> NoDup (map f (filter p l)).
Proof.
  induction l as [|x t IH]; intros N; [constructor|]. cbn [map] in N. inversion N as [|? ? Hx Nt]; subst.
  cbn [filter]. destruct (p x); [|apply IH; exact Nt]. cbn [map]. constructor; [|apply IH; exact Nt].
  intro Hin. apply Hx. apply in_map_iff in Hin as (y & Ey & Hy). apply filter_In in Hy as [Hy _].
  apply in_map_iff. exists y. tauto.
Qed.

(* (2) names, not only (date, index) pairs, are never used twice *)
Lemma inv2_names_nodup w : Inv2 c w -> NoDup (map (render c) (all_rot w)).
Proof.
  intros I. pose proof (inv2_names_ok w I) as Hok. pose proof (c_wf c w I) as Hw.
  apply (NoDup_map_transfer (fun f => (fymd f, fidx f))); [|apply sorted_nodup; [exact (c_sorted c w I)|exact Hw]].
  rewrite Forall_forall in *. intros a b Ha Hb E.
  destruct (render_inj c a b (Hok a Ha) (Hok b Hb) E) as (Ey & Ed & _).
  destruct (Hw a Ha) as (_ & _ & _ & Da & Ia). destruct (Hw b Hb) as (_ & _ & _ & Db & Ib).
  rewrite Da, Db in Ed. apply dec_inj in Ed; [|lia|lia]. rewrite Ey, Ed. reflexivity.
Qed.

(* files outside the scheme: names pairwise distinct, rejected by the recogniser, never the active name *)
Definition ForeignOk (w : world) : Prop :=
  NoDup (map xname (foreign w)) /\
  Forall (fun x => parse_name c (xname x) = None /\ xname x <> active_name c) (foreign w).
Lemma step_foreign_ok w o : clean_op c o -> ForeignOk w -> ForeignOk (step std_shape c w o).
Proof.
  intros Hcl H. destruct o as [ty p|dt| |n b].
  - unfold ForeignOk. rewrite (sink_ops_leave_foreign c w (Write ty p)); [exact H|intros n b; discriminate].
  - exact H.
  - exact H.
  - cbn in Hcl. cbn [step]. rewrite (put_foreign_unfold c w n b Hcl).
    destruct (str_eqb n (active_name c)) eqn:Ea; [exact H|]. destruct H as [N F]. unfold ForeignOk; cbn [foreign].
    set (keep := filter (fun x => negb (str_eqb (xname x) n)) (foreign w)).
    assert (Hk : forall x, In x keep -> In x (foreign w) /\ xname x <> n).
    { intros x Hx. apply filter_In in Hx as [Hx Hb]. split; [exact Hx|]. intros E. rewrite E, str_eqb_refl in Hb. discriminate. }
    split.
    + rewrite map_app. apply nodup_app.
      * apply nodup_filter_map. exact N.
      * constructor; [intros []|constructor].
      * intros x Hx Hin. cbn [map xname In] in Hin. destruct Hin as [<-|[]].
        apply in_map_iff in Hx as (y & Ey & Hy). destruct (Hk y Hy) as [_ Hne]. apply Hne. exact Ey.
    + apply Forall_app; split.
      * rewrite Forall_forall in *. intros x Hx. apply F. apply Hk. exact Hx.
      * constructor; [|constructor]. cbn [xname]. split; [exact Hcl|]. intros ->. rewrite str_eqb_refl in Ea. discriminate.
Qed.
End SinkNames.

Section FinalNames.
Variable sh : shape.
Hypothesis Hsh : shape_eqb sh std_shape = true.
Variable c : cfg.
Variable t0 : time.
Variable ops : list op.
Hypothesis Hclean : clean c ops.
Let w := run sh c t0 ops.
Lemma w_std' : w = run std_shape c t0 ops.
Proof. unfold w. rewrite (shape_eqb_eq sh Hsh). reflexivity. Qed.

Theorem T_names_roundtrip : Forall (fun f => parse_name c (render c f) = Some (fymd f, fdig f, fgz f) /\
                                             fdig f = dec (fidx f) /\ 1 <= fidx f /\ hd 48%N (fdig f) <> 48%N) (gone w ++ rot w).
Proof.
  rewrite w_std'. pose proof (run_inv2 c t0 ops Hclean) as I.
  pose proof (inv2_names_ok c _ I) as Hok. pose proof (c_wf c _ I) as Hw. unfold all_rot in *.
  rewrite Forall_forall in *. intros f Hf. destruct (Hw f Hf) as (_ & _ & _ & Ed & Hi).
  split; [apply parse_render; apply Hok; exact Hf|split; [exact Ed|split; [exact Hi|]]].
  rewrite Ed. apply dec_no_leading_zero. exact Hi.
Qed.
Theorem T_never_overwritten_names : NoDup (map (render c) (gone w ++ rot w)).
Proof. rewrite w_std'. apply (inv2_names_nodup c). exact (run_inv2 c t0 ops Hclean). Qed.
Theorem T_foreign_ok : ForeignOk c w.
Proof.
  rewrite w_std'. refine (proj2 (run_ind c (ForeignOk c) t0 _ (fun w o Ho _ H => step_foreign_ok c w o Ho H) ops Hclean)).
  split; [constructor|constructor].
Qed.
(* every name in the directory is distinct: rotated files, the active file, foreign files *)
Theorem T_directory_names_distinct : NoDup (map (fun e => fst (fst e)) (listing c w)).
Proof.
  destruct T_foreign_ok as [FN FF]. pose proof T_never_overwritten_names as RN. pose proof T_names_roundtrip as RT.
  assert (E : map (fun e => fst (fst e)) (listing c w) = map (render c) (rot w) ++ (active_name c :: map xname (foreign w))).
  { unfold listing. repeat rewrite map_app. repeat rewrite map_map. reflexivity. }
  rewrite E. rewrite map_app in RN. apply nodup_app_r in RN.
  rewrite Forall_forall in RT, FF. apply nodup_app; [exact RN| |].
  - constructor; [|exact FN]. intro Hin. apply in_map_iff in Hin as (x & Ex & Hx). exact (proj2 (FF x Hx) Ex).
  - intros n Hn Hin. apply in_map_iff in Hn as (f & <- & Hf). destruct Hin as [Ea|Hin].
    + exact (render_not_active c f (eq_sym Ea)).
    + apply in_map_iff in Hin as (x & Ex & Hx). destruct (RT f ltac:(apply in_or_app; right; exact Hf)) as (P & _).
      rewrite <- Ex, (proj1 (FF x Hx)) in P. discriminate.
Qed.
(* in particular a rename target (the newest rotated name) is not the name of any other file, present or removed *)
End FinalNames.

(* ---------- the message type is not a parameter of any decision ---------- *)
Lemma step_retype sh c f w o : step sh c w (retype f o) = step sh c w o.
Proof. destruct o; reflexivity. Qed.
Theorem T_retype_run sh c f t0 ops : run sh c t0 (map (retype f) ops) = run sh c t0 ops.
Proof.
  unfold run. generalize (w0 c t0). induction ops as [|o ops IH]; intros w; cbn [map fold_left]; [reflexivity|].
  rewrite step_retype. apply IH.
Qed.
(* a message with a formatted text (set, possibly EMPTY) and a raw text: the record written is the SHOWN text + newline - the
   formatted text when one is set, else the raw text; the raw text of a formatted message is irrelevant *)
Lemma run_snoc sh c t0 ops o : run sh c t0 (ops ++ [o]) = step sh c (run sh c t0 ops) o.
Proof. unfold run. rewrite fold_left_app. reflexivity. Qed.
Theorem T_shown_text_written sh c t0 ops ty raw fmt : shape_eqb sh std_shape = true -> clean c ops ->
  let w := run sh c t0 ops in
  hist (run sh c t0 (ops ++ [WriteMsg ty raw fmt])) =
  hist w ++ [{| rbytes := shown_text raw fmt ++ [10%N]; rid := length (hist w); rday := day_of c (now w) |}].
Proof.
  intros Hsh H. cbn zeta. rewrite run_snoc, (shape_eqb_eq sh Hsh). unfold WriteMsg.
  apply write_hist. exact (run_inv2 c t0 ops H).
Qed.
Theorem T_raw_text_irrelevant sh c t0 ops ty raw raw' f :
  run sh c t0 (ops ++ [WriteMsg ty raw (Some f)]) = run sh c t0 (ops ++ [WriteMsg ty raw' (Some f)]).
Proof. reflexivity. Qed.
Lemma clean_write_msg c ops ty raw fmt : clean c ops -> clean c (ops ++ [WriteMsg ty raw fmt]).
Proof. intros H. apply Forall_app; split; [exact H|constructor; [exact I|constructor]]. Qed.

Lemma clean_retype c f ops : clean c ops -> clean c (map (retype f) ops).
Proof.
  unfold clean. intros H. rewrite Forall_forall in *. intros o Ho. apply in_map_iff in Ho as (o' & <- & Ho').
  specialize (H o' Ho'). destruct o'; exact H.
Qed.
