(* C19 (round 8) — the fluent front-end methods of SimplePipeline as a table: what each method constructs and which of its
   parameters it hands to the constructor.  tools/s2c/fluent.py translates simplepipeline.cpp into [src_fluent] (SrcFluent.v)
   on every run; the documented table [spec_fluent] below is what docs/api/pipelines.md and simplepipeline.h promise.
   Definitions only. *)
From Coq Require Import List String Bool Arith.
Import ListNotations.
Local Open Scope string_scope.

Record fentry := {
  fe_name : string;            (* method *)
  fe_params : list string;     (* parameter names *)
  fe_guard : string;           (* preprocessor condition the definition lives under ("" = always) *)
  fe_class : string;           (* class of the handler appended *)
  fe_shared : bool;            (* Class::instance() (one shared object) instead of a new object *)
  fe_args : list string        (* constructor arguments as written *)
}.

Fixpoint prefixb (p s : string) : bool :=
  match p, s with
  | EmptyString, _ => true
  | String a p', String b s' => Ascii.eqb a b && prefixb p' s'
  | String _ _, EmptyString => false
  end.
Fixpoint containsb (p s : string) : bool :=
  prefixb p s || match s with EmptyString => false | String _ s' => containsb p s' end.
Fixpoint list_eqb {A} (eq : A -> A -> bool) (a b : list A) : bool :=
  match a, b with
  | [], [] => true
  | x :: a', y :: b' => eq x y && list_eqb eq a' b'
  | _, _ => false
  end.
Definition fentry_eqb (a b : fentry) : bool :=
  String.eqb (fe_name a) (fe_name b) && list_eqb String.eqb (fe_params a) (fe_params b)
  && String.eqb (fe_guard a) (fe_guard b) && String.eqb (fe_class a) (fe_class b)
  && Bool.eqb (fe_shared a) (fe_shared b) && list_eqb String.eqb (fe_args a) (fe_args b).

(* no parameter is dropped: every parameter occurs in some constructor argument *)
Definition hands_on_every_parameter (e : fentry) : bool :=
  forallb (fun p => existsb (containsb p) (fe_args e)) (fe_params e).
(* the arguments are exactly the parameters, in order (the front end adds and changes nothing) *)
Definition transparent (e : fentry) : bool := list_eqb String.eqb (fe_args e) (fe_params e).
(* a front end that takes parameters must build a new object: a shared instance cannot depend on them *)
Definition shared_only_without_parameters (e : fentry) : bool :=
  if fe_shared e then match fe_params e with [] => true | _ => false end else true.

Definition mk (n : string) (ps : list string) (g c : string) (sh : bool) (args : list string) : fentry :=
  {| fe_name := n; fe_params := ps; fe_guard := g; fe_class := c; fe_shared := sh; fe_args := args |}.
Definition spec_fluent : list fentry := [
  mk "addSeqNumber" ["name"] "" "SeqNumberAttr" false ["name"];
  mk "addAppInfo" [] "" "AppInfoAttrs" false [];
  mk "addAppUuid" ["name"] "" "AppUuidAttr" false ["name"];
  mk "addSysInfo" [] "" "SysInfoAttrs" false [];
  mk "addHostInfo" [] "ifdef QTLOGGER_NETWORK" "HostInfoAttrs" false [];
  mk "attrHandler" ["func"] "" "FunctionAttrHandler" false ["func"];
  mk "filter" ["func"] "" "FunctionFilter" false ["func"];
  mk "filter" ["regexp"] "" "RegExpFilter" false ["regexp"];
  mk "filterLevel" ["minLevel"] "" "LevelFilter" false ["minLevel"];
  mk "filterCategory" ["rules"] "" "CategoryFilter" false ["rules"];
  mk "filterDuplicate" [] "" "DuplicateFilter" false [];
  mk "format" ["func"] "" "FunctionFormatter" false ["func"];
  mk "formatByQt" [] "" "QtLogMessageFormatter" true [];
  mk "formatPretty" ["colorize"; "maxCategoryWidth"] "" "PrettyFormatter" false ["colorize"; "maxCategoryWidth"];
  mk "formatToJson" ["compact"] "" "JsonFormatter" false ["compact"];
  mk "formatToSentry" ["sdkName"; "sdkVersion"] "" "SentryFormatter" false ["sdkName"; "sdkVersion"];
  mk "sendToStdOut" ["colorize"] "" "StdOutSink" false ["colorize ? ColorMode::Auto : ColorMode::Never"];
  mk "sendToStdErr" ["colorize"] "" "StdErrSink" false ["colorize ? ColorMode::Auto : ColorMode::Never"];
  mk "sendToSyslog" [] "ifdef QTLOGGER_SYSLOG" "SyslogSink" false ["QCoreApplication::applicationName()"];
  mk "sendToSdJournal" [] "ifdef QTLOGGER_SDJOURNAL" "SdJournalSink" false [];
  mk "sendToPlatformStdLog" [] "" "PlatformStdSink" false [];
  mk "sendToIODevice" ["device"] "" "IODeviceSink" false ["device"];
  mk "sendToHttp" ["url"] "ifdef QTLOGGER_NETWORK" "HttpSink" false ["QUrl(url)"];
  mk "sendToHttp" ["url"; "headers"] "ifdef QTLOGGER_NETWORK" "HttpSink" false ["QUrl(url)"; "headers"];
  mk "sendToWinDebug" [] "ifdef Q_OS_WIN" "WinDebugSink" false [];
  mk "sendToAndroidLog" [] "ifdef QTLOGGER_ANDROIDLOG" "AndroidLogSink" false [];
  mk "sendToOsLog" [] "ifdef QTLOGGER_OSLOG" "OslogSink" false [];
  mk "handler" ["func"] "" "FunctionHandler" false ["std::move(func)"]].
(* methods that are not a single `append(new object); return *this;` - each is modelled in the area named *)
Definition spec_special : list (string * nat * string) :=
  [("format", 1, "");        (* format(pattern): the names default / qt / pretty, else PatternFormatter(pattern)  - C12 *)
   ("sendToFile", 4, "");    (* the choice between RotatingFileSink and FileSink                                  - C05..C09, RotateFront *)
   ("sendToSignal", 2, "");  (* SignalSink + connect                                                              - C02, ConcSig *)
   ("pipeline", 0, ""); ("end", 0, "")]%nat.   (* scoped children                                                - C01 *)
Definition special_eqb (a b : string * nat * string) : bool :=
  let '(n1, k1, g1) := a in let '(n2, k2, g2) := b in String.eqb n1 n2 && Nat.eqb k1 k2 && String.eqb g1 g2.

Definition lookup (t : list fentry) (n : string) (k : nat) : option fentry :=
  find (fun e => String.eqb (fe_name e) n && Nat.eqb (List.length (fe_params e)) k) t.
