(* C12 — executable model of PatternFormatter (src/qtlogger/formatters/patternformatter.cpp).
   Definitions only: this file must keep compiling (and extracting) when a proof elsewhere breaks.

   Strings are lists of UTF-16 code units ([N]), so that length / left / right / mid / chop mean
   what QString means (an astral character counts 2 and can be cut in half).
   Source-derived constants (placeholder names, type names, alignment characters, '!' suffix,
   default fill, mid() offsets, and WHETHER the "remove M after" request travels in band as a
   marker code point or out of band as a counter) come from SrcPattern.v, which tools/src2coq.py
   regenerates from /repo on every run.  Widths and removal counts are binary numbers ([N]) and
   are converted to [nat] only where the value is known to be bounded by a string length. *)
From Coq Require Decimal Hexadecimal.
From Coq Require Import List NArith ZArith Bool.
Require Import QtlVerif.SrcPattern.
Import ListNotations.
Local Open Scope N_scope.

Definition qstr := list N.

(* QtMsgType, numbered as the Qt enum: QtDebugMsg 0, QtWarningMsg 1, QtCriticalMsg 2, QtFatalMsg 3, QtInfoMsg 4 *)
Inductive mtype := Debug | Warning | Critical | Fatal | Info.
Definition mtype_num (t : mtype) : N :=
  match t with Debug => 0 | Warning => 1 | Critical => 2 | Fatal => 3 | Info => 4 end.
Definition mtype_of_num (n : N) : mtype :=
  if n =? 1 then Warning else if n =? 2 then Critical else if n =? 3 then Fatal else if n =? 4 then Info else Debug.
Definition mtype_eqb (a b : mtype) : bool := mtype_num a =? mtype_num b.

Fixpoint qeqb (a b : qstr) : bool :=
  match a, b with [], [] => true | x :: a', y :: b' => (x =? y) && qeqb a' b' | _, _ => false end.
Fixpoint prefixb (p s : qstr) : bool :=
  match p, s with [] , _ => true | x :: p', y :: s' => (x =? y) && prefixb p' s' | _, [] => false end.
(* length as a binary number, tail recursive (never a data-sized unary number on the stack) *)
Definition lenN (l : qstr) : N := fold_left (fun n _ => N.succ n) l 0.

(* the syntax characters of the tokeniser *)
Definition c_pct : N := 37.   (* % *)
Definition c_lbrace : N := 123.
Definition c_rbrace : N := 125.
Definition c_colon : N := 58.
Definition c_quest : N := 63.
Definition c_comma : N := 44.

(* qtMsgTypeToString / stringToQtMsgType (logmessage.h), tables from the source *)
Fixpoint assoc_name (n : N) (l : list (N * qstr)) : qstr :=
  match l with [] => [100;101;98;117;103] (* a_default = "debug" *) | (k, v) :: r => if k =? n then v else assoc_name n r end.
Definition type_name (t : mtype) : qstr := assoc_name (mtype_num t) src_type_names.
Fixpoint assoc_type (s : qstr) (l : list (qstr * N)) : N :=
  match l with [] => src_if_default | (k, v) :: r => if qeqb s k then v else assoc_type s r end.
Definition type_of_name (s : qstr) : mtype := mtype_of_num (assoc_type s src_if_names).

(* QChar::isSpace *)
Definition is_space (u : N) : bool :=
  ((9 <=? u) && (u <=? 13)) || (u =? 32) || (u =? 133) || (u =? 160) || (u =? 5760)
  || ((8192 <=? u) && (u <=? 8202)) || (u =? 8232) || (u =? 8233) || (u =? 8239) || (u =? 8287) || (u =? 12288).
Fixpoint drop_space (l : qstr) : qstr := match l with c :: r => if is_space c then drop_space r else l | [] => [] end.
Definition trimmed (l : qstr) : qstr := rev (drop_space (rev (drop_space l))).

(* QString::toInt: trimmed, optional sign, decimal digits, must fit in int; failure -> (0,false) *)
Fixpoint digits_val (l : qstr) (acc : Z) : option Z :=
  match l with
  | [] => Some acc
  | c :: r => if (48 <=? c) && (c <=? 57) then digits_val r (acc * 10 + Z.of_N (c - 48))%Z else None
  end.
Definition to_int (l : qstr) : Z * bool :=
  match trimmed l with
  | [] => (0%Z, false)
  | c :: r =>
    let '(neg, ds) := if c =? 45 then (true, r) else if c =? 43 then (false, r) else (false, c :: r) in
    match ds with
    | [] => (0%Z, false)
    | _ => match digits_val ds 0%Z with
           | Some v => let v' := if neg then (- v)%Z else v in
                       if ((-2147483648 <=? v') && (v' <=? 2147483647))%Z then (v', true) else (0%Z, false)
           | None => (0%Z, false)
           end
    end
  end.

(* ---- format specification  [fill][<^>]width[!] ---- *)
Inductive align := ALeft | ARight | ACenter.
Inductive tmode := MNone | MTrunc | MOnly.     (* pad only | truncate and pad | truncate only *)
Record spec := { fill : N; al : option align; width : N; mode : tmode }.
Fixpoint assoc_align (c : N) (l : list (N * N)) : option align :=
  match l with
  | [] => None
  | (k, v) :: r => if k =? c then Some (if v =? 0 then ALeft else if v =? 1 then ARight else ACenter) else assoc_align c r
  end.
Definition align_of (c : N) : option align := assoc_align c src_align_chars.

Definition last_and_init (s : qstr) : option (qstr * N) :=
  match rev s with [] => None | c :: r => Some (rev r, c) end.
(* s.endsWith('!') -> chop(1) *)
Definition strip_bang (s : qstr) : qstr * bool :=
  match last_and_init s with
  | Some (i, c) => if c =? src_bang then (i, true) else (s, false)
  | None => (s, false)
  end.
(* toInt succeeded and the value is > 0 *)
Definition valid_width (s : qstr) : option N :=
  let '(v, ok) := to_int s in if ok && (0 <? v)%Z then Some (Z.to_N v) else None.
Definition mk_spec (f : N) (a : option align) (m : tmode) (w : N) : spec := {| fill := f; al := a; width := w; mode := m |}.
Definition parse_spec (s0 : qstr) : option spec :=
  let '(s, bang) := strip_bang s0 in
  match s with
  | [] => None
  | f :: rest1 =>
    match (match rest1 with c :: r => match align_of c with Some a => Some (a, r) | None => None end | [] => None end) with
    | Some (a, r) =>          (* fill + align + width *)
        match r with [] => None | _ => option_map (mk_spec f (Some a) (if bang then MTrunc else MNone)) (valid_width r) end
    | None =>
      match align_of f with
      | Some a =>             (* align + width, default fill; with '!' this is truncate-only *)
          match rest1 with [] => None | _ => option_map (mk_spec src_default_fill (Some a) (if bang then MOnly else MNone)) (valid_width rest1) end
      | None =>               (* a bare number is a spec only with '!' *)
          if bang then option_map (mk_spec src_default_fill None MOnly) (valid_width s) else None
      end
    end
  end.

Definition lastn (n : nat) (l : qstr) : qstr := skipn (length l - n) l.
(* which w units survive a truncation: the last ones for '>', the first ones otherwise *)
Definition keep (a : option align) (w : nat) (v : qstr) : qstr :=
  match a with Some ARight => lastn w v | _ => firstn w v end.
(* FormattedToken::applyPadding *)
Definition pad (sp : option spec) (v : qstr) : qstr :=
  match sp with None => v | Some s =>
  let w := width s in
  match mode s with
  | MOnly => if lenN v <=? w then v else keep (al s) (N.to_nat w) v
  | m =>
    match al s with None => v | Some a =>
    let v' := match m with MTrunc => if w <? lenN v then keep (Some a) (N.to_nat w) v else v | _ => v end in
    if w <=? lenN v' then v' else
    let p := N.to_nat (w - lenN v') in
    match a with
    | ALeft => v' ++ repeat (fill s) p
    | ARight => repeat (fill s) p ++ v'
    | ACenter => repeat (fill s) (p / 2) ++ v' ++ repeat (fill s) (p - p / 2)
    end end
  end end.

(* ---- tokens ---- *)
Inductive tkind :=
| KLit (text : qstr) | KMessage | KType | KLine | KFile | KShortFile (base : qstr) | KFunction | KFunc
| KCategory | KTime (fmt : qstr) | KThreadId | KQThreadPtr | KAttr (name : qstr) (opt : bool) (rb ra : N).
Record token := { kind : tkind; cond : option mtype; tspec : option spec }.

Fixpoint index_of (c : N) (l : qstr) : option nat :=
  match l with [] => None | x :: r => if x =? c then Some O else option_map S (index_of c r) end.
Definition rindex_of (c : N) (l : qstr) : option nat :=
  match index_of c (rev l) with Some i => Some (length l - 1 - i)%nat | None => None end.

(* what a placeholder is: a token kind, or a change of the condition in force *)
Inductive phclass := PTok (k : tkind) | PCond (c : option mtype).
Definition count_of (s : qstr) : N := Z.to_N (fst (to_int s)).   (* toInt(); failure and negatives count as 0 *)
Definition classify (ph : qstr) : phclass :=
  if qeqb ph src_ph_type then PTok KType else if qeqb ph src_ph_line then PTok KLine else if qeqb ph src_ph_file then PTok KFile
  else if qeqb ph src_ph_shortfile then PTok (KShortFile [])
  else if prefixb src_ph_shortfile_sp ph then PTok (KShortFile (trimmed (skipn src_off_shortfile ph)))
  else if qeqb ph src_ph_function then PTok KFunction else if qeqb ph src_ph_func then PTok KFunc
  else if qeqb ph src_ph_category then PTok KCategory
  else if qeqb ph src_ph_time then PTok (KTime [])
  else if prefixb src_ph_time_sp ph then PTok (KTime (trimmed (skipn src_off_time ph)))
  else if qeqb ph src_ph_threadid then PTok KThreadId else if qeqb ph src_ph_qthreadptr then PTok KQThreadPtr
  else if qeqb ph src_ph_message then PTok KMessage
  else if prefixb src_ph_if ph then PCond (Some (type_of_name (skipn src_off_if ph)))
  else if qeqb ph src_ph_endif then PCond None
  else match index_of c_quest ph with
       | Some q =>
         let name := firstn q ph in let suf := skipn (S q) ph in
         match index_of c_comma suf with
         | None => PTok (KAttr name true (count_of suf) 0)
         | Some c => PTok (KAttr name true (if Nat.ltb 0 c then count_of (firstn c suf) else 0) (count_of (skipn (S c) suf)))
         end
       | None => PTok (KAttr ph false 0 0)
       end.
(* the text between the braces: a trailing ":spec" is cut off only if parseFormatSpec accepts it *)
Definition split_spec (ph0 : qstr) : qstr * option spec :=
  match rindex_of c_colon ph0 with
  | Some lc => if Nat.ltb lc (length ph0 - 1) then
                 match parse_spec (skipn (S lc) ph0) with Some s => (firstn lc ph0, Some s) | None => (ph0, None) end
               else (ph0, None)
  | None => (ph0, None)
  end.

Definition flush (lit : qstr) (cnd : option mtype) (toks : list token) : list token :=
  match lit with [] => toks | _ => toks ++ [{| kind := KLit lit; cond := cnd; tspec := None |}] end.
(* one placeholder: pending literal already flushed *)
Definition ph_step (body : qstr) (cnd : option mtype) (toks : list token) : option mtype * list token :=
  let '(ph, sp) := split_spec body in
  match classify ph with
  | PTok k => (cnd, toks ++ [{| kind := k; cond := cnd; tspec := sp |}])
  | PCond c => (c, toks)
  end.

(* parsePattern: [lit] is the pending literal text; fuel bounds the number of iterations *)
Fixpoint parse_aux (fuel : nat) (p : qstr) (lit : qstr) (cnd : option mtype) (toks : list token) : list token :=
  match fuel with O => flush lit cnd toks | S f =>
  match p with
  | [] => flush lit cnd toks
  | [c] => parse_aux f [] (lit ++ [c]) cnd toks
  | c :: ((d :: r) as tl) =>
    if c =? c_pct then
      if d =? c_lbrace then
        let toks1 := flush lit cnd toks in
        match index_of c_rbrace r with
        | None => parse_aux f tl [c_pct] cnd toks1
        | Some k =>
          let '(cnd', toks2) := ph_step (firstn k r) cnd toks1 in
          parse_aux f (skipn (S k) r) [] cnd' toks2
        end
      else if d =? c_pct then parse_aux f r (lit ++ [c_pct]) cnd toks
      else parse_aux f tl (lit ++ [c_pct]) cnd toks
    else parse_aux f tl (lit ++ [c]) cnd toks
  end end.
(* NOTE the type: the tokeniser sees the pattern only — never a message or an attribute value *)
Definition parse_pattern (p : qstr) : list token := parse_aux (S (length p)) p [] None [].

(* ---- messages ---- *)
(* attribute values: QVariant::toString of a string / an integer / a bool is modelled *)
Inductive aval := AStr (s : qstr) | AInt (z : Z) | ABool (b : bool).
Fixpoint uint_digits (d : Decimal.uint) : qstr :=
  match d with
  | Decimal.Nil => [] | Decimal.D0 d => 48 :: uint_digits d | Decimal.D1 d => 49 :: uint_digits d
  | Decimal.D2 d => 50 :: uint_digits d | Decimal.D3 d => 51 :: uint_digits d | Decimal.D4 d => 52 :: uint_digits d
  | Decimal.D5 d => 53 :: uint_digits d | Decimal.D6 d => 54 :: uint_digits d | Decimal.D7 d => 55 :: uint_digits d
  | Decimal.D8 d => 56 :: uint_digits d | Decimal.D9 d => 57 :: uint_digits d
  end.
Definition dec_N (n : N) : qstr := uint_digits (N.to_uint n).
Definition dec_Z (z : Z) : qstr := if (z <? 0)%Z then 45 :: dec_N (Z.abs_N z) else dec_N (Z.to_N z).
Fixpoint hex_digits (d : Hexadecimal.uint) : qstr :=
  match d with
  | Hexadecimal.Nil => [] | Hexadecimal.D0 d => 48 :: hex_digits d | Hexadecimal.D1 d => 49 :: hex_digits d
  | Hexadecimal.D2 d => 50 :: hex_digits d | Hexadecimal.D3 d => 51 :: hex_digits d | Hexadecimal.D4 d => 52 :: hex_digits d
  | Hexadecimal.D5 d => 53 :: hex_digits d | Hexadecimal.D6 d => 54 :: hex_digits d | Hexadecimal.D7 d => 55 :: hex_digits d
  | Hexadecimal.D8 d => 56 :: hex_digits d | Hexadecimal.D9 d => 57 :: hex_digits d | Hexadecimal.Da d => 97 :: hex_digits d
  | Hexadecimal.Db d => 98 :: hex_digits d | Hexadecimal.Dc d => 99 :: hex_digits d | Hexadecimal.Dd d => 100 :: hex_digits d
  | Hexadecimal.De d => 101 :: hex_digits d | Hexadecimal.Df d => 102 :: hex_digits d
  end.
Definition hex_N (n : N) : qstr := hex_digits (N.to_hex_uint n).
Definition render (v : aval) : qstr :=
  match v with AStr s => s | AInt z => dec_Z z
             | ABool true => [116;114;117;101] | ABool false => [102;97;108;115;101] end.

(* a message as the formatter sees it.  Supplied by the environment (outside the model):
   [mfunc_clean] = the %{func} rendering of the function (FunctionToken::cleanup belongs to C14),
   [mtime fmt]   = QDateTime::toString / the process- and boot-relative seconds for a time format *)
Record msg := { mt : mtype; text : qstr; mfile : qstr; mfunc : qstr; mfunc_clean : qstr; mcat : qstr;
                mline : Z; mtime : qstr -> qstr; mtid : N; mptr : N; attrs : list (qstr * aval) }.
Fixpoint lookup (k : qstr) (l : list (qstr * aval)) : option aval :=
  match l with [] => None | (k', v) :: r => if qeqb k k' then Some v else lookup k r end.

Definition short_file (base f : qstr) : qstr :=
  match base with
  | [] => match rindex_of 47 f with
          | Some i => skipn (S i) f
          | None => match rindex_of 92 f with Some i => skipn (S i) f | None => f end
          end
  | _ => if prefixb base f then
           let r := skipn (length base) f in
           match r with c :: r' => if (c =? 47) || (c =? 92) then r' else r | [] => r end
         else f
  end.

(* the value a token inserts (before padding) *)
Definition value_of (k : tkind) (m : msg) : qstr :=
  match k with
  | KLit t => t | KMessage => text m | KType => type_name (mt m) | KLine => dec_Z (mline m) | KFile => mfile m
  | KShortFile b => short_file b (mfile m) | KFunction => mfunc m | KFunc => mfunc_clean m | KCategory => mcat m
  | KTime f => mtime m f | KThreadId => dec_N (mtid m) | KQThreadPtr => [48;120] ++ hex_N (mptr m)
  | KAttr n _ _ _ => match lookup n (attrs m) with Some v => render v | None => [c_pct;c_lbrace] ++ n ++ [c_rbrace] end
  end.

Definition cond_ok (m : msg) (t : token) : bool := match cond t with None => true | Some c => mtype_eqb c (mt m) end.
Definition chop (n : nat) (l : qstr) : qstr := firstn (length l - n) l.

(* ---- the evaluator of the code as committed: OUT-OF-BAND pending-remove counter ----
   state = (output so far, pending number of units the next literal has to drop) *)
Definition grow (e : qstr) (st : qstr * N) : qstr * N :=
  (fst st ++ e, match e with [] => snd st | _ => 0 end).      (* "if (result.size() > sizeBefore) pending = 0" *)
Definition emit_oob (m : msg) (st : qstr * N) (t : token) : qstr * N :=
  match kind t with
  | KLit txt => (fst st ++ (if snd st <? lenN txt then skipn (N.to_nat (snd st)) txt else []), 0)
  | KAttr n true rb ra =>
      match lookup n (attrs m) with
      | Some v => grow (pad (tspec t) (render v)) st
      | None =>
          let '(o1, p1) :=
            if (0 <? rb) && (rb <=? lenN (fst st) + snd st) then
              let fp := N.min rb (snd st) in (chop (N.to_nat (rb - fp)) (fst st), snd st - fp)
            else st in
          (o1, if 0 <? ra then N.min (p1 + ra) src_pending_max else p1)     (* saturates at INT_MAX *)
      end
  | k => grow (pad (tspec t) (value_of k m)) st
  end.
Definition run_oob (m : msg) (toks : list token) (st : qstr * N) : qstr * N :=
  fold_left (fun st t => if cond_ok m t then emit_oob m st t else st) toks st.
Definition format_oob (toks : list token) (m : msg) : qstr :=
  match toks with [] => text m | _ => fst (run_oob m toks ([], 0)) end.

(* ---- the evaluator of the code BEFORE the F4 repair: IN-BAND marker code point ----
   kept to document the repaired defect (inband_refuted) and to follow the source if the marker
   ever comes back (then the property theorems stop checking and the differential run shows why) *)
Fixpoint strip_trailing (mk : N) (r : qstr) (cnt : nat) : qstr * nat :=   (* on the reversed buffer *)
  match r with c :: t => if c =? mk then strip_trailing mk t (S cnt) else (r, cnt) | [] => ([], cnt) end.
Definition emit_inband (mk : N) (m : msg) (out : qstr) (t : token) : qstr :=
  match kind t with
  | KLit txt =>
      let '(rb', k) := strip_trailing mk (rev out) O in
      if Nat.eqb k O then rev rb' ++ txt
      else if Nat.ltb k (length txt) then rev rb' ++ skipn k txt else rev rb'
  | KAttr n true rb ra =>
      match lookup n (attrs m) with
      | Some v => out ++ pad (tspec t) (render v)
      | None =>
          let b1 := if (0 <? rb) && (rb <=? lenN out) then chop (N.to_nat rb) out else out in
          b1 ++ repeat mk (N.to_nat ra)
      end
  | k => out ++ pad (tspec t) (value_of k m)
  end.
Definition format_inband (mk : N) (toks : list token) (m : msg) : qstr :=
  match toks with [] => text m | _ =>
  filter (fun c => negb (c =? mk)) (fold_left (fun o t => if cond_ok m t then emit_inband mk m o t else o) toks []) end.

(* ---- THE model: the evaluator the source uses today (read by the translator) ---- *)
Definition format_model (toks : list token) (m : msg) : qstr :=
  match src_inband_marker with None => format_oob toks m | Some mk => format_inband mk toks m end.
Definition format_pattern (p : qstr) (m : msg) : qstr := format_model (parse_pattern p) m.

(* ---- ONE formatter object used for several messages ----
   What a PatternFormatter carries from one format() call to the next: the token list its constructor
   built (never written afterwards) and - through the thread it runs on - the value the thread_local
   pending-remove counter was left with ([opending]; whatever ran before on the thread may have left
   anything there).  format() assigns 0 to the counter on entry and again before it returns; with an
   empty token list it returns the message before touching the counter. *)
Record fobj := { otoks : list token; opending : N }.
Definition construct (p : qstr) (leftover : N) : fobj := {| otoks := parse_pattern p; opending := leftover |}.
Definition call_oob (o : fobj) (m : msg) : qstr * fobj :=
  match otoks o with
  | [] => (text m, o)
  | _ => (fst (run_oob m (otoks o) ([], 0)), {| otoks := otoks o; opending := 0 |})
  end.
(* the in-band evaluator has no state besides the tokens *)
Definition call_model (o : fobj) (m : msg) : qstr * fobj :=
  match src_inband_marker with None => call_oob o m | Some mk => (format_inband mk (otoks o) m, o) end.
(* the results of formatting the messages [ms], in this order, with the same object *)
Fixpoint calls_model (o : fobj) (ms : list msg) : list qstr * fobj :=
  match ms with
  | [] => ([], o)
  | m :: r => let '(x, o1) := call_model o m in let '(xs, o2) := calls_model o1 r in (x :: xs, o2)
  end.
Definition format_seq (p : qstr) (leftover : N) (ms : list msg) : list qstr := fst (calls_model (construct p leftover) ms).
(* what format() would be WITHOUT the two resets (the counter of the previous call is picked up and the
   final one is left behind): kept only to show that the statelessness theorem is not vacuous *)
Definition call_leaky (o : fobj) (m : msg) : qstr * fobj :=
  match otoks o with
  | [] => (text m, o)
  | _ => let st := run_oob m (otoks o) ([], opending o) in (fst st, {| otoks := otoks o; opending := snd st |})
  end.

(* what a %{time f} token would be if it KEPT the last rendered text for as long as some key of the message
   (its clock second, say) is unchanged - state carried by the token from one format() call to the next.
   Kept only to show that the per-message time theorems are not vacuous (seeded/C12-ind-r5-3). *)
Definition time_cached_call (key : msg -> N) (f : qstr) (st : option (N * qstr)) (m : msg) : qstr * option (N * qstr) :=
  match st with
  | Some (k, v) => if k =? key m then (v, st) else (mtime m f, Some (key m, mtime m f))
  | None => (mtime m f, Some (key m, mtime m f))
  end.

(* ---- the documented reading, token by token ---- *)
Definition missing_optional (m : msg) (t : token) : bool :=
  match kind t with KAttr n true _ _ => match lookup n (attrs m) with None => true | Some _ => false end | _ => false end.
(* a missing optional attribute that asks for something to be removed *)
Definition removes (m : msg) (t : token) : bool :=
  match kind t with
  | KAttr n true rb ra => match lookup n (attrs m) with None => (0 <? rb) || (0 <? ra) | Some _ => false end
  | _ => false end.
Definition removal_of (m : msg) (t : token) : N :=
  match kind t with
  | KAttr n true rb ra => match lookup n (attrs m) with None => rb + ra | Some _ => 0 end
  | _ => 0 end.
(* the text a token stands for: literal text / padded value / nothing for a missing optional attribute *)
Definition piece (m : msg) (t : token) : qstr :=
  match kind t with
  | KLit txt => txt
  | KAttr n true _ _ => match lookup n (attrs m) with Some v => pad (tspec t) (render v) | None => [] end
  | k => pad (tspec t) (value_of k m)
  end.
Definition active (m : msg) (toks : list token) : list token := filter (cond_ok m) toks.
Definition concat_pieces (m : msg) (toks : list token) : qstr := concat (map (piece m) (active m toks)).
Definition budget (m : msg) (toks : list token) : N := fold_left (fun n t => n + removal_of m t) (active m toks) 0.

(* ---- boolean oracle, evaluated on what the IMPLEMENTATION printed ----
   [o] must be: the raw message when there is no token; exactly the concatenation of the pieces
   when no active missing optional attribute asks for a removal (every value and every literal
   verbatim, in place); otherwise a subsequence of that concatenation (nothing added, altered or
   reordered) that lost at most the total of the requested N's and M's. *)
Fixpoint subseqb (a b : qstr) : bool :=
  match b with
  | [] => match a with [] => true | _ => false end
  | y :: b' => match a with [] => true | x :: a' => if x =? y then subseqb a' b' else subseqb a b' end
  end.
Definition prop_c12_b (toks : list token) (m : msg) (o : qstr) : bool :=
  match toks with [] => qeqb o (text m) | _ =>
  let full := concat_pieces m toks in
  if existsb (removes m) (active m toks)
  then subseqb o full && (lenN full <=? lenN o + budget m toks)
  else qeqb o full end.
Definition oracle_pattern (p : qstr) (m : msg) (o : qstr) : bool := prop_c12_b (parse_pattern p) m o.

(* ---- null or empty?  (LogMessage::isFormatted() is !isNull(): a NULL result makes every sink print
   the raw message instead of the formatted text.)  With at least one token the result is a string that
   format() built - never null, even when no token emitted anything; without tokens it is the message
   object itself, null iff the message is. *)
Definition result_is_null (toks : list token) (msg_null : bool) : bool :=
  match toks with [] => msg_null | _ => false end.
Definition oracle_pattern_null (p : qstr) (m : msg) (msg_null : bool) (o : qstr) (o_null : bool) : bool :=
  oracle_pattern p m o && Bool.eqb o_null (result_is_null (parse_pattern p) msg_null).

(* ---- several messages through one formatter object: every result must be the documented reading of
   ITS OWN message (what the other messages of the sequence contain or lack is irrelevant) ---- *)
Fixpoint oracle_seq (p : qstr) (ms : list msg) (os : list qstr) : bool :=
  match ms, os with
  | [], [] => true
  | m :: ms', o :: os' => oracle_pattern p m o && oracle_seq p ms' os'
  | _, _ => false
  end.
