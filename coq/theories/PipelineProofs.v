(* C01 — lemmas.  The headline results hold for every configuration [c] passing the decidable check
   [cfg_goodb] (the translator's output is checked against it in Properties_C01.v). *)
From Coq Require Import List NArith ZArith Bool Arith Lia.
Import ListNotations.
Require Import QtlVerif.PipelineDefs.

(* ------------------------------------------------------------ the good configuration is unique *)
Lemma good_is_std c : cfg_goodb c = true -> c = std_cfg.
Proof.
  destruct c. unfold cfg_goodb. cbn. intros H.
  repeat (apply andb_prop in H; destruct H as [H ?]). subst. reflexivity.
Qed.

(* ------------------------------------------------------------ induction over handler trees *)
Section HandlerInd.
  Variables (P : handler -> Prop) (Q : list handler -> Prop).
  Hypothesis Hleaf : forall o l, P (HLeaf o l).
  Hypothesis Hnull : P HNull.
  Hypothesis Hpipe : forall sc hs, Q hs -> P (HPipe sc hs).
  Hypothesis Hnil : Q [].
  Hypothesis Hcons : forall h t, P h -> Q t -> Q (h :: t).
  Fixpoint handler_ind2 (h : handler) : P h :=
    match h with
    | HLeaf o l => Hleaf o l
    | HNull => Hnull
    | HPipe sc hs =>
        Hpipe sc hs ((fix go (hs : list handler) : Q hs :=
                        match hs with [] => Hnil | h :: t => Hcons h t (handler_ind2 h) (go t) end) hs)
    end.
  Fixpoint hlist_ind2 (hs : list handler) : Q hs :=
    match hs with [] => Hnil | h :: t => Hcons h t (handler_ind2 h) (hlist_ind2 t) end.
End HandlerInd.

(* ------------------------------------------------------------ unfolding equations *)
Lemma exec_pipe c sc hs st m :
  exec c (HPipe sc hs) st m =
    let '(st', m', ok, evs) := run c hs st m in
    (st', restore c sc m m', if pipe_returns_true c then true else ok, evs).
Proof. reflexivity. Qed.
Lemma exec_leaf_eq c o l st m : exec c (HLeaf o l) st m = exec_leaf c o l st m.
Proof. reflexivity. Qed.
Lemma exec_null c st m : exec c HNull st m = (st, m, true, []).
Proof. reflexivity. Qed.
Lemma run_nil c st m : run c [] st m = (st, m, true, []).
Proof. reflexivity. Qed.

Definition restore_std (sc : bool) (entry m' : msg) : msg :=
  if sc then set_at (set_fmt m' (fmt entry)) (mattrs entry) else m'.
Lemma restore_std_eq sc m m' : restore std_cfg sc m m' = restore_std sc m m'.
Proof. unfold restore, restore_std, saved_fmt. cbn. destruct sc; [|reflexivity]. destruct (fmt m); reflexivity. Qed.

Lemma exec_pipe_std sc hs st m :
  exec std_cfg (HPipe sc hs) st m =
    let '(st', m', _, evs) := run std_cfg hs st m in (st', restore_std sc m m', true, evs).
Proof.
  rewrite exec_pipe. destruct (run std_cfg hs st m) as [[[st' m'] ok] evs].
  rewrite restore_std_eq. reflexivity.
Qed.

Lemma run_std_cons h t st m :
  run std_cfg (h :: t) st m =
    let '(st1, m1, k, e1) := exec std_cfg h st m in
    if k then let '(st2, m2, k2, e2) := run std_cfg t st1 m1 in (st2, m2, k2, e1 ++ e2)
    else (st1, m1, false, e1).
Proof.
  destruct h; [reflexivity| |reflexivity].
  change (run std_cfg (HNull :: t) st m) with (run std_cfg t st m).
  rewrite exec_null. destruct (run std_cfg t st m) as [[[? ?] ?] ?]. reflexivity.
Qed.

Lemma run_app a : forall b st m,
  run std_cfg (a ++ b) st m =
    let '(st1, m1, k, e1) := run std_cfg a st m in
    if k then let '(st2, m2, k2, e2) := run std_cfg b st1 m1 in (st2, m2, k2, e1 ++ e2)
    else (st1, m1, false, e1).
Proof.
  induction a as [|h a IH]; intros b st m.
  - cbn [app]. rewrite run_nil. destruct (run std_cfg b st m) as [[[? ?] ?] ?]. reflexivity.
  - cbn [app]. rewrite !run_std_cons. destruct (exec std_cfg h st m) as [[[st1 m1] k] e1].
    destruct k; [|reflexivity]. rewrite IH. destruct (run std_cfg a st1 m1) as [[[st2 m2] k2] e2].
    destruct k2; [|reflexivity]. destruct (run std_cfg b st2 m2) as [[[st3 m3] k3] e3].
    rewrite app_assoc. reflexivity.
Qed.

(* ------------------------------------------------------------ text and type never change *)
Lemma leaf_preserves o l st m :
  text (res_msg (exec_leaf std_cfg o l st m)) = text m /\ mt (res_msg (exec_leaf std_cfg o l st m)) = mt m.
Proof.
  destruct l; cbn; try tauto.
  destruct (seqb (text m) _); cbn; tauto.
Qed.

Lemma preserves_both :
  (forall h st m, text (res_msg (exec std_cfg h st m)) = text m /\ mt (res_msg (exec std_cfg h st m)) = mt m)
  /\ (forall hs st m, text (res_msg (run std_cfg hs st m)) = text m /\ mt (res_msg (run std_cfg hs st m)) = mt m).
Proof.
  pose (P := fun h => forall st m, text (res_msg (exec std_cfg h st m)) = text m /\ mt (res_msg (exec std_cfg h st m)) = mt m).
  pose (Q := fun hs => forall st m, text (res_msg (run std_cfg hs st m)) = text m /\ mt (res_msg (run std_cfg hs st m)) = mt m).
  assert (Hleaf : forall o l, P (HLeaf o l)) by (intros o l st m; apply leaf_preserves).
  assert (Hnull : P HNull) by (intros st m; cbn; tauto).
  assert (Hpipe : forall sc hs, Q hs -> P (HPipe sc hs)).
  { intros sc hs Hq st m. rewrite exec_pipe_std. specialize (Hq st m).
    destruct (run std_cfg hs st m) as [[[st' m'] ok] evs]. unfold res_msg in *. cbn in *.
    destruct sc; cbn; tauto. }
  assert (Hnil : Q []) by (intros st m; cbn; tauto).
  assert (Hcons : forall h t, P h -> Q t -> Q (h :: t)).
  { intros h t Hp Hq st m. rewrite run_std_cons. specialize (Hp st m).
    destruct (exec std_cfg h st m) as [[[st1 m1] k] e1]. unfold res_msg in *. cbn in Hp.
    destruct k; [|cbn; exact Hp]. specialize (Hq st1 m1).
    destruct (run std_cfg t st1 m1) as [[[st2 m2] k2] e2]. cbn in *. destruct Hp, Hq. split; congruence. }
  split; [exact (handler_ind2 P Q Hleaf Hnull Hpipe Hnil Hcons)|exact (hlist_ind2 P Q Hleaf Hnull Hpipe Hnil Hcons)].
Qed.
Definition exec_preserves := proj1 preserves_both.
Definition run_preserves := proj2 preserves_both.

Lemma restore_id m m' : text m' = text m -> mt m' = mt m -> restore_std true m m' = m.
Proof. intros H1 H2. destruct m, m'. cbn in *. subst. reflexivity. Qed.

(* ------------------------------------------------------------ the laws, for the good configuration *)
Lemma std_child_never_stops_parent sc hs st m : res_ok (exec std_cfg (HPipe sc hs) st m) = true.
Proof. rewrite exec_pipe_std. destruct (run std_cfg hs st m) as [[[? ?] ?] ?]. reflexivity. Qed.

Lemma std_nesting_equation sc hs rest st m :
  run std_cfg (HPipe sc hs :: rest) st m =
    let '(st1, m1, _, e1) := run std_cfg hs st m in
    let '(st2, m2, k2, e2) := run std_cfg rest st1 (restore_std sc m m1) in (st2, m2, k2, e1 ++ e2).
Proof.
  rewrite run_std_cons, exec_pipe_std. destruct (run std_cfg hs st m) as [[[st1 m1] k1] e1]. reflexivity.
Qed.

Lemma std_scoped_restores hs st m :
  let m' := res_msg (exec std_cfg (HPipe true hs) st m) in
  fmt m' = fmt m /\ mattrs m' = mattrs m /\ text m' = text m /\ mt m' = mt m.
Proof.
  cbn zeta. pose proof (exec_preserves (HPipe true hs) st m) as [Ht Hm].
  rewrite exec_pipe_std in *. destruct (run std_cfg hs st m) as [[[st' m'] ok] evs].
  unfold res_msg in *. cbn in *. tauto.
Qed.

Lemma std_scoped_identity hs st m : res_msg (exec std_cfg (HPipe true hs) st m) = m.
Proof.
  pose proof (std_scoped_restores hs st m) as H. cbn zeta in H.
  destruct (res_msg (exec std_cfg (HPipe true hs) st m)), m. cbn in *. destruct H as (-> & -> & -> & ->). reflexivity.
Qed.

Lemma std_reject_skips_rest h t st m st1 m1 e1 :
  exec std_cfg h st m = (st1, m1, false, e1) -> run std_cfg (h :: t) st m = (st1, m1, false, e1).
Proof. intros E. rewrite run_std_cons, E. reflexivity. Qed.

Lemma std_siblings_independent a b rest st m :
  run std_cfg (HPipe true a :: HPipe true b :: rest) st m =
    let '(st1, _, _, e1) := run std_cfg a st m in
    let '(st2, _, _, e2) := run std_cfg b st1 m in
    let '(st3, m3, k3, e3) := run std_cfg rest st2 m in (st3, m3, k3, e1 ++ e2 ++ e3).
Proof.
  rewrite std_nesting_equation. pose proof (run_preserves a st m) as [Ha1 Ha2].
  destruct (run std_cfg a st m) as [[[st1 m1] k1] e1]. unfold res_msg in *. cbn in Ha1, Ha2.
  rewrite (restore_id m m1 Ha1 Ha2). rewrite std_nesting_equation.
  pose proof (run_preserves b st1 m) as [Hb1 Hb2].
  destruct (run std_cfg b st1 m) as [[[st2 m2] k2] e2]. unfold res_msg in *. cbn in Hb1, Hb2.
  rewrite (restore_id m m2 Hb1 Hb2). destruct (run std_cfg rest st2 m) as [[[st3 m3] k3] e3].
  reflexivity.
Qed.

Lemma std_unscoped_is_inline hs rest st m :
  res_ok (run std_cfg hs st m) = true ->
  run std_cfg (HPipe false hs :: rest) st m = run std_cfg (hs ++ rest) st m.
Proof.
  intros Hk. rewrite std_nesting_equation, run_app.
  destruct (run std_cfg hs st m) as [[[st1 m1] k1] e1]. unfold res_ok in Hk. cbn in Hk. subst k1.
  reflexivity.
Qed.

Lemma std_sink_gets_latest pre o rest st m st1 m1 e1 :
  run std_cfg pre st m = (st1, m1, true, e1) ->
  run std_cfg (pre ++ HLeaf o LSink :: rest) st m =
    let '(st2, m2, k2, e2) := run std_cfg rest st1 m1 in
    (st2, m2, k2, e1 ++ EDeliver o false (content_of m1) :: e2).
Proof.
  intros E. rewrite run_app, E, run_std_cons. cbn.
  destruct (run std_cfg rest st1 m1) as [[[st2 m2] k2] e2]. reflexivity.
Qed.

Lemma shown_spec m :
  c_text (content_of m) = (if c_formatted (content_of m) then match fmt m with Some f => f | None => [] end else text m)
  /\ (c_formatted (content_of m) = true <-> fmt m <> None).
Proof.
  unfold content_of, shown, is_formatted. cbn. destruct (fmt m); cbn; split; try reflexivity; split; congruence.
Qed.

(* ------------------------------------------------------------ event order: in-order traversal *)
Lemma leaf_event_exec o l st m :
  exists e, res_events (exec_leaf std_cfg o l st m) = [e]
            /\ leaf_event o l e = Some (res_ok (exec_leaf std_cfg o l st m)).
Proof.
  destruct l; cbn; try (eexists; split; [reflexivity|]; cbn; rewrite Nat.eqb_refl; reflexivity).
  - destruct r; eexists; (split; [reflexivity|]); cbn; rewrite Nat.eqb_refl; reflexivity.
  - destruct r; eexists; (split; [reflexivity|]); cbn; rewrite Nat.eqb_refl; reflexivity.
  - destruct r; eexists; (split; [reflexivity|]); cbn; rewrite Nat.eqb_refl; reflexivity.
  - destruct r; eexists; (split; [reflexivity|]); cbn; rewrite Nat.eqb_refl; reflexivity.
  - destruct (seqb (text m) _); eexists; (split; [reflexivity|]); cbn; rewrite Nat.eqb_refl; reflexivity.
Qed.

Lemma std_in_order : forall hs st m, Trav hs (res_events (run std_cfg hs st m)).
Proof.
  pose (Q := fun hs => forall st m, Trav hs (res_events (run std_cfg hs st m))).
  pose (P := fun h => forall t, Q t -> Q (h :: t)).
  apply (hlist_ind2 P Q); unfold P, Q.
  - intros o l t Ht st m. rewrite run_std_cons, exec_leaf_eq.
    destruct (leaf_event_exec o l st m) as (e & He & Hl).
    destruct (exec_leaf std_cfg o l st m) as [[[st1 m1] k] e1]. unfold res_events, res_ok in *. cbn in He, Hl. subst e1.
    destruct k.
    + specialize (Ht st1 m1). destruct (run std_cfg t st1 m1) as [[[st2 m2] k2] e2]. cbn in *.
      apply TGo; assumption.
    + cbn. apply TStop; assumption.
  - intros t Ht st m. change (run std_cfg (HNull :: t) st m) with (run std_cfg t st m). apply TNull, Ht.
  - intros sc hs Hq t Ht st m. rewrite std_nesting_equation. specialize (Hq st m).
    destruct (run std_cfg hs st m) as [[[st1 m1] k1] e1].
    specialize (Ht st1 (restore_std sc m m1)).
    destruct (run std_cfg t st1 (restore_std sc m m1)) as [[[st2 m2] k2] e2]. unfold res_events in *. cbn in *.
    apply TPipe; assumption.
  - intros st m. cbn. constructor.
  - intros h t Hp Hq. apply Hp, Hq.
Qed.

Lemma accept_h_pipe sc c evs :
  accept_h (HPipe sc c) evs = match accept c evs with Some r => Some (true, r) | None => None end.
Proof. reflexivity. Qed.

Lemma accept_complete hs used : Trav hs used -> forall r, accept hs (used ++ r) = Some r.
Proof.
  induction 1 as [|t evs _ IH|o l e t He|o l e t evs He _ IH|sc c t e1 e2 _ IH1 _ IH2]; intros r.
  - reflexivity.
  - cbn [accept accept_h]. apply IH.
  - cbn [accept accept_h app]. rewrite He. reflexivity.
  - cbn [accept accept_h app]. rewrite He. apply IH.
  - cbn [accept]. rewrite accept_h_pipe, <- app_assoc, IH1. apply IH2.
Qed.

Lemma accept_sound : forall hs evs r, accept hs evs = Some r -> exists used, evs = used ++ r /\ Trav hs used.
Proof.
  pose (Q := fun hs => forall evs r, accept hs evs = Some r -> exists used, evs = used ++ r /\ Trav hs used).
  pose (P := fun h => forall t, Q t -> Q (h :: t)).
  apply (hlist_ind2 P Q); unfold P, Q.
  - intros o l t Ht evs r H. cbn [accept accept_h] in H. destruct evs as [|e evs]; [discriminate|].
    destruct (leaf_event o l e) as [[|]|] eqn:He; [| |discriminate].
    + destruct (Ht _ _ H) as (u & -> & Hu). exists (e :: u). split; [reflexivity|]. apply TGo; assumption.
    + injection H as <-. exists [e]. split; [reflexivity|]. apply TStop; assumption.
  - intros t Ht evs r H. cbn [accept accept_h] in H. destruct (Ht _ _ H) as (u & -> & Hu).
    exists u. split; [reflexivity|]. apply TNull, Hu.
  - intros sc c Hc t Ht evs r H. cbn [accept] in H. rewrite accept_h_pipe in H.
    destruct (accept c evs) as [r1|] eqn:E1; [|discriminate].
    destruct (Hc _ _ E1) as (u1 & -> & Hu1). destruct (Ht _ _ H) as (u2 & -> & Hu2).
    exists (u1 ++ u2). split; [apply app_assoc|]. apply TPipe; assumption.
  - intros evs r H. injection H as <-. exists []. split; [reflexivity|constructor].
  - intros h t Hp Hq. apply Hp, Hq.
Qed.

Lemma trav_b_iff hs evs : trav_b hs evs = true <-> Trav hs evs.
Proof.
  unfold trav_b. split.
  - destruct (accept hs evs) as [[|]|] eqn:E; try discriminate. intros _.
    destruct (accept_sound _ _ _ E) as (u & -> & Hu). rewrite app_nil_r. exact Hu.
  - intros H. pose proof (accept_complete _ _ H []) as E. rewrite app_nil_r in E. rewrite E. reflexivity.
Qed.

(* without a rejection nothing is skipped: the executed objects are exactly the leaves of the tree, in order *)
Definition ev_oid (e : event) : nat := match e with EExec o _ => o | EDeliver o _ _ => o end.
Fixpoint leaf_oids_h (h : handler) : list nat :=
  match h with
  | HLeaf o _ => [o]
  | HNull => []
  | HPipe _ c => (fix go (hs : list handler) : list nat :=
                    match hs with [] => [] | h :: t => leaf_oids_h h ++ go t end) c
  end.
Fixpoint leaf_oids (hs : list handler) : list nat :=
  match hs with [] => [] | h :: t => leaf_oids_h h ++ leaf_oids t end.
Definition accepts (e : event) : bool := match e with EExec _ r => r | EDeliver _ _ _ => true end.

Lemma leaf_event_oid o l e k : leaf_event o l e = Some k -> ev_oid e = o /\ (k = false -> accepts e = false).
Proof.
  destruct l, e as [o' rr|o' pb cc]; cbn; try discriminate;
    try (destruct pb; try discriminate);
    destruct (Nat.eqb_spec o o') as [->|]; cbn; try discriminate;
    try (destruct rr; cbn; try discriminate; intros [= <-]; split; [reflexivity|congruence]);
    try (intros [= <-]; split; [reflexivity|congruence]).
  all: destruct rr, r; cbn; try discriminate; intros [= <-]; split; try reflexivity; congruence.
Qed.

Lemma trav_none_skipped hs evs :
  Trav hs evs -> forallb accepts evs = true -> map ev_oid evs = leaf_oids hs.
Proof.
  induction 1 as [|t evs _ IH|o l e t He|o l e t evs He _ IH|sc c t e1 e2 _ IH1 _ IH2]; intros Ha.
  - reflexivity.
  - exact (IH Ha).
  - destruct (leaf_event_oid _ _ _ _ He) as [_ Hf]. cbn in Ha. rewrite (Hf eq_refl) in Ha. discriminate.
  - destruct (leaf_event_oid _ _ _ _ He) as [Ho _]. cbn in Ha. apply andb_prop in Ha as [_ Ha].
    cbn. rewrite Ho, (IH Ha). reflexivity.
  - rewrite forallb_app in Ha. apply andb_prop in Ha as [H1 H2]. rewrite map_app, (IH1 H1), (IH2 H2). reflexivity.
Qed.

(* ------------------------------------------------------------ the oracle holds on every run *)
Lemma accept_run hs st m r : accept hs (res_events (run std_cfg hs st m) ++ r) = Some r.
Proof. apply accept_complete, std_in_order. Qed.

Lemma accept_h_exec h st m r :
  accept_h h (res_events (exec std_cfg h st m) ++ r) = Some (res_ok (exec std_cfg h st m), r).
Proof.
  destruct h as [o l| |sc c].
  - rewrite exec_leaf_eq. destruct (leaf_event_exec o l st m) as (e & He & Hl). rewrite He. cbn. rewrite Hl. reflexivity.
  - reflexivity.
  - rewrite accept_h_pipe, std_child_never_stops_parent, exec_pipe_std.
    pose proof (accept_run c st m r) as H. destruct (run std_cfg c st m) as [[[st1 m1] k1] e1].
    unfold res_events in *. cbn in *. rewrite H. reflexivity.
Qed.

Lemma seqb_refl s : seqb s s = true.
Proof. induction s as [|x s IH]; [reflexivity|]. cbn. rewrite N.eqb_refl, IH. reflexivity. Qed.
Lemma seqb_eq a : forall b, seqb a b = true -> a = b.
Proof.
  induction a as [|x a IH]; destruct b as [|y b]; cbn; try discriminate; [reflexivity|].
  intros H. apply andb_prop in H as [H1 H2]. apply N.eqb_eq in H1. rewrite (IH _ H2), H1. reflexivity.
Qed.
Lemma val_eqb_refl v : val_eqb v v = true.
Proof. destruct v; cbn; [apply seqb_refl|apply Z.eqb_refl|apply eqb_reflx|apply Z.eqb_refl|apply seqb_refl]. Qed.
Lemma val_eqb_iff a b : val_eqb a b = true <-> a = b.
Proof.
  split; [|intros ->; apply val_eqb_refl].
  destruct a, b; cbn; try discriminate; intros H.
  - f_equal. apply seqb_eq, H.
  - f_equal. apply Z.eqb_eq, H.
  - f_equal. apply eqb_prop, H.
  - f_equal. apply Z.eqb_eq, H.
  - f_equal. apply seqb_eq, H.
Qed.
Lemma attrs_eqb_refl a : attrs_eqb a a = true.
Proof. induction a as [|[k v] a IH]; [reflexivity|]. cbn. rewrite seqb_refl, val_eqb_refl, IH. reflexivity. Qed.
Lemma content_eqb_refl c : content_eqb c c = true.
Proof. unfold content_eqb. rewrite !seqb_refl, attrs_eqb_refl, eqb_reflx. reflexivity. Qed.

Lemma set_same m : set_at (set_fmt m (fmt m)) (mattrs m) = m.
Proof. destruct m. reflexivity. Qed.

(* a handler without leaves is transparent; the first leaf reached runs on the message and the handler
   states exactly as they came in *)
Lemma first_leaf_both :
  (forall h st m,
     (first_leaf_h h = None -> exec std_cfg h st m = (st, m, true, []))
     /\ (forall o l, first_leaf_h h = Some (o, l) ->
         exists rest, res_events (exec std_cfg h st m) = res_events (exec_leaf std_cfg o l st m) ++ rest))
  /\ (forall hs st m,
     (first_leaf hs = None -> run std_cfg hs st m = (st, m, true, []))
     /\ (forall o l, first_leaf hs = Some (o, l) ->
         exists rest, res_events (run std_cfg hs st m) = res_events (exec_leaf std_cfg o l st m) ++ rest)).
Proof.
  pose (P := fun h => forall st m,
     (first_leaf_h h = None -> exec std_cfg h st m = (st, m, true, []))
     /\ (forall o l, first_leaf_h h = Some (o, l) ->
         exists rest, res_events (exec std_cfg h st m) = res_events (exec_leaf std_cfg o l st m) ++ rest)).
  pose (Q := fun hs => forall st m,
     (first_leaf hs = None -> run std_cfg hs st m = (st, m, true, []))
     /\ (forall o l, first_leaf hs = Some (o, l) ->
         exists rest, res_events (run std_cfg hs st m) = res_events (exec_leaf std_cfg o l st m) ++ rest)).
  assert (Hleaf : forall o l, P (HLeaf o l)).
  { intros o l st m. split; [discriminate|]. intros o' l' H. cbn in H. injection H as -> ->.
    exists []. rewrite app_nil_r. reflexivity. }
  assert (Hnull : P HNull) by (intros st m; split; [reflexivity|discriminate]).
  assert (Hpipe : forall sc hs, Q hs -> P (HPipe sc hs)).
  { intros sc hs Hq st m. change (first_leaf_h (HPipe sc hs)) with (first_leaf hs).
    destruct (Hq st m) as [H0 H1]. rewrite exec_pipe_std. split.
    - intros E. rewrite (H0 E). unfold restore_std. destruct sc; [rewrite set_same|]; reflexivity.
    - intros o l E. destruct (H1 o l E) as (rest & Hr). destruct (run std_cfg hs st m) as [[[st1 m1] k1] e1].
      exists rest. exact Hr. }
  assert (Hnil : Q []) by (intros st m; split; [reflexivity|discriminate]).
  assert (Hcons : forall h t, P h -> Q t -> Q (h :: t)).
  { intros h t Hp Hq st m. cbn [first_leaf]. rewrite run_std_cons. destruct (Hp st m) as [H0 H1].
    destruct (first_leaf_h h) as [[o' l']|] eqn:Eh.
    - split; [discriminate|]. intros o l E. injection E as -> ->. destruct (H1 o l eq_refl) as (rest & Hr).
      destruct (exec std_cfg h st m) as [[[st1 m1] k] e1]. unfold res_events in *. cbn [snd] in Hr. subst e1.
      destruct k; [|exists rest; reflexivity].
      destruct (run std_cfg t st1 m1) as [[[st2 m2] k2] e2]. exists (rest ++ e2). cbn [snd]. rewrite app_assoc. reflexivity.
    - rewrite (H0 eq_refl). destruct (Hq st m) as [G0 G1]. split.
      + intros E. rewrite (G0 E). reflexivity.
      + intros o l E. destruct (G1 o l E) as (rest & Hr).
        destruct (run std_cfg t st m) as [[[st2 m2] k2] e2]. exists rest. exact Hr. }
  split; [exact (handler_ind2 P Q Hleaf Hnull Hpipe Hnil Hcons)|exact (hlist_ind2 P Q Hleaf Hnull Hpipe Hnil Hcons)].
Qed.

Lemma entry_content_run hs st m r :
  entry_content hs (res_events (run std_cfg hs st m) ++ r) = None
  \/ entry_content hs (res_events (run std_cfg hs st m) ++ r) = Some (content_of m).
Proof.
  unfold entry_content. destruct (first_leaf hs) as [[o l]|] eqn:E; [|left; reflexivity].
  destruct l; try (left; reflexivity).
  destruct (proj2 (proj2 first_leaf_both hs st m) o _ E) as (rest & Hr). rewrite Hr. right. reflexivity.
Qed.

Lemma next_delivery_run t st m r :
  next_delivery t (res_events (run std_cfg t st m) ++ r) = None
  \/ next_delivery t (res_events (run std_cfg t st m) ++ r) = Some (content_of m).
Proof.
  unfold next_delivery. destruct (first_leaf t) as [[o l]|] eqn:E; [|left; reflexivity].
  destruct l; try (left; reflexivity);
    destruct (proj2 (proj2 first_leaf_both t st m) o _ E) as (rest & Hr); rewrite Hr; right; reflexivity.
Qed.

Lemma probes_ok_h_pipe sc c evs : probes_ok_h (HPipe sc c) evs = probes_ok c evs.
Proof. reflexivity. Qed.

Lemma probes_ok_run : forall hs st m r, probes_ok hs (res_events (run std_cfg hs st m) ++ r) = true.
Proof.
  pose (P := fun h => forall st m r, probes_ok_h h (res_events (exec std_cfg h st m) ++ r) = true).
  pose (Q := fun hs => forall st m r, probes_ok hs (res_events (run std_cfg hs st m) ++ r) = true).
  apply (hlist_ind2 P Q); unfold P, Q.
  - reflexivity.
  - reflexivity.
  - intros sc c Hc st m r. rewrite probes_ok_h_pipe, exec_pipe_std. specialize (Hc st m r).
    destruct (run std_cfg c st m) as [[[st1 m1] k1] e1]. exact Hc.
  - reflexivity.
  - intros h t Hp Hq st m r. cbn [probes_ok]. rewrite run_std_cons.
    pose proof (Hp st m) as Hp'. pose proof (accept_h_exec h st m) as Ha.
    pose proof (exec_preserves h st m) as [Hx1 Hx2].
    destruct (exec std_cfg h st m) as [[[st1 m1] k] e1] eqn:Ex. unfold res_events, res_ok, res_msg in *. cbn in Hp', Ha, Hx1, Hx2.
    destruct k.
    + pose proof (Hq st1 m1 r) as Hq'. pose proof (entry_content_run t st1 m1 r) as Ht.
      destruct (run std_cfg t st1 m1) as [[[st2 m2] k2] e2]. cbn in *.
      rewrite <- app_assoc, Hp', Ha, Hq'. rewrite andb_true_r. cbn.
      destruct h as [| |[|] c']; try reflexivity.
      (* scoped child: what it received = what the next handler receives *)
      rewrite exec_pipe_std in Ex. pose proof (entry_content_run c' st m (e2 ++ r)) as Hc.
      destruct (run std_cfg c' st m) as [[[st1' m1'] k1'] e1']. injection Ex as -> <- <-.
      unfold res_events in Hc. cbn in Hc.
      assert (Em : set_at (set_fmt m1' (fmt m)) (mattrs m) = m) by (exact (restore_id m m1' Hx1 Hx2)).
      rewrite Em in Ht. destruct Hc as [-> | ->]; [reflexivity|]. destruct Ht as [-> | ->]; [reflexivity|].
      cbn. apply content_eqb_refl.
    + cbn. rewrite Hp', Ha. reflexivity.
Qed.

Definition deliv_good (raw : str) (e : event) : bool :=
  match e with
  | EDeliver _ _ c => seqb (c_raw c) raw && (c_formatted c || seqb (c_text c) (c_raw c))
  | EExec _ _ => true
  end.
Lemma content_good m : seqb (c_raw (content_of m)) (text m)
                       && (c_formatted (content_of m) || seqb (c_text (content_of m)) (c_raw (content_of m))) = true.
Proof. unfold content_of, shown, is_formatted. cbn. rewrite seqb_refl. destruct (fmt m); cbn; [reflexivity|apply seqb_refl]. Qed.
Lemma leaf_deliv_good o l st m : forallb (deliv_good (text m)) (res_events (exec_leaf std_cfg o l st m)) = true.
Proof.
  destruct l; try reflexivity.
  - change (deliv_good (text m) (EDeliver o false (content_of m)) && true = true).
    unfold deliv_good. rewrite content_good. reflexivity.
  - change (deliv_good (text m) (EDeliver o true (content_of m)) && true = true).
    unfold deliv_good. rewrite content_good. reflexivity.
  - cbn. destruct (seqb (text m) _); reflexivity.
Qed.
Lemma deliv_ok_run : forall hs st m, forallb (deliv_good (text m)) (res_events (run std_cfg hs st m)) = true.
Proof.
  pose (P := fun h => forall st m, forallb (deliv_good (text m)) (res_events (exec std_cfg h st m)) = true).
  pose (Q := fun hs => forall st m, forallb (deliv_good (text m)) (res_events (run std_cfg hs st m)) = true).
  apply (hlist_ind2 P Q); unfold P, Q.
  - intros o l st m. apply leaf_deliv_good.
  - reflexivity.
  - intros sc c Hc st m. rewrite exec_pipe_std. specialize (Hc st m).
    destruct (run std_cfg c st m) as [[[st1 m1] k1] e1]. exact Hc.
  - reflexivity.
  - intros h t Hp Hq st m. rewrite run_std_cons. specialize (Hp st m).
    pose proof (exec_preserves h st m) as [Hx1 _].
    destruct (exec std_cfg h st m) as [[[st1 m1] k] e1]. unfold res_events, res_msg in *. cbn in Hp, Hx1.
    destruct k; [|exact Hp]. specialize (Hq st1 m1). rewrite Hx1 in Hq.
    destruct (run std_cfg t st1 m1) as [[[st2 m2] k2] e2]. cbn in *. rewrite forallb_app, Hp, Hq. reflexivity.
Qed.

Lemma prefixb_app p r : prefixb p (p ++ r) = true.
Proof. induction p as [|x p IH]; [reflexivity|]. cbn. rewrite N.eqb_refl, IH. reflexivity. Qed.
Lemma lookup_insert k v a : lookup k (insert k v a) = Some v.
Proof.
  induction a as [|[k' v'] a IH]; cbn; [rewrite seqb_refl; reflexivity|].
  destruct (seqb k k') eqn:E; cbn; [rewrite seqb_refl; reflexivity|]. rewrite E. exact IH.
Qed.
Lemma lookup_remove k a : lookup k (remove k a) = None.
Proof.
  induction a as [|[k' v'] a IH]; [reflexivity|]. cbn. destruct (seqb k k') eqn:E; [exact IH|]. cbn. rewrite E. exact IH.
Qed.

Lemma lookup_insert_other k k' v a : seqb k k' = false -> lookup k (insert k' v a) = lookup k a.
Proof.
  intros H. induction a as [|[k2 v2] a IH]; cbn; [rewrite H; reflexivity|].
  destruct (seqb k' k2) eqn:E; cbn.
  - apply seqb_eq in E. subst k2. rewrite H. reflexivity.
  - destruct (seqb k k2); [reflexivity|exact IH].
Qed.
Lemma lookup_merge_many k kvs : forall a,
  lookup k (merge_many kvs a) = match last_val k kvs with Some v => Some v | None => lookup k a end.
Proof.
  induction kvs as [|[k' v] r IH]; intros a; [reflexivity|]. cbn [merge_many last_val]. rewrite IH.
  destruct (last_val k r); [reflexivity|]. destruct (seqb k k') eqn:E.
  - apply seqb_eq in E. subst k'. apply lookup_insert.
  - apply lookup_insert_other, E.
Qed.

Lemma effect_after_exec o l st m :
  res_ok (exec_leaf std_cfg o l st m) = true ->
  effect_seen l (content_of (res_msg (exec_leaf std_cfg o l st m))) = true.
Proof.
  destruct l; cbn; try reflexivity; intros _;
    try (rewrite lookup_insert; try apply val_eqb_refl; reflexivity);
    try (rewrite lookup_remove; reflexivity);
    try apply seqb_refl.
  - apply forallb_forall. intros [k v] _. cbn [fst]. rewrite lookup_merge_many.
    destruct (last_val k kvs); [apply val_eqb_refl|reflexivity].
  - change (tag ++ 58%N :: shown m) with (tag ++ [58%N] ++ shown m). rewrite app_assoc. apply prefixb_app.
  - change (tag ++ 91%N :: attr_val_str m k ++ [93%N]) with (tag ++ [91%N] ++ attr_val_str m k ++ [93%N]).
    rewrite app_assoc. apply prefixb_app.
  - apply prefixb_app.
Qed.

Lemma effects_ok_h_pipe sc c evs : effects_ok_h (HPipe sc c) evs = effects_ok c evs.
Proof. reflexivity. Qed.

Lemma effects_ok_run : forall hs st m r, effects_ok hs (res_events (run std_cfg hs st m) ++ r) = true.
Proof.
  pose (P := fun h => forall st m r, effects_ok_h h (res_events (exec std_cfg h st m) ++ r) = true).
  pose (Q := fun hs => forall st m r, effects_ok hs (res_events (run std_cfg hs st m) ++ r) = true).
  apply (hlist_ind2 P Q); unfold P, Q.
  - reflexivity.
  - reflexivity.
  - intros sc c Hc st m r. rewrite effects_ok_h_pipe, exec_pipe_std. specialize (Hc st m r).
    destruct (run std_cfg c st m) as [[[st1 m1] k1] e1]. exact Hc.
  - reflexivity.
  - intros h t Hp Hq st m r. cbn [effects_ok]. rewrite run_std_cons.
    pose proof (Hp st m) as Hp'. pose proof (accept_h_exec h st m) as Ha.
    assert (Hef : forall o l, h = HLeaf o l -> res_ok (exec std_cfg h st m) = true ->
                              effect_seen l (content_of (res_msg (exec std_cfg h st m))) = true).
    { intros o l -> Hk. rewrite exec_leaf_eq in *. apply effect_after_exec, Hk. }
    destruct (exec std_cfg h st m) as [[[st1 m1] k] e1]. unfold res_events, res_ok, res_msg in *. cbn [fst snd] in Hp', Ha, Hef.
    destruct k.
    + pose proof (Hq st1 m1 r) as Hq'. pose proof (next_delivery_run t st1 m1 r) as Ht.
      destruct (run std_cfg t st1 m1) as [[[st2 m2] k2] e2]. cbn [fst snd] in *.
      rewrite <- app_assoc, Hp', Ha, Hq'. rewrite andb_true_r. cbn [andb].
      unfold res_events in Ht. cbn [snd] in Ht.
      destruct h as [o l| |sc c']; try reflexivity. unfold effect_check.
      destruct Ht as [-> | ->]; [reflexivity|]. exact (Hef o l eq_refl eq_refl).
    + cbn [snd]. rewrite Hp', Ha. reflexivity.
Qed.

Lemma std_oracle_holds hs st m : prop_c01_b hs m (res_events (run std_cfg hs st m)) = true.
Proof.
  unfold prop_c01_b. rewrite (proj2 (trav_b_iff _ _) (std_in_order hs st m)).
  pose proof (probes_ok_run hs st m []) as H. rewrite app_nil_r in H. rewrite H.
  pose proof (effects_ok_run hs st m []) as H2. rewrite app_nil_r in H2. rewrite H2.
  change (deliv_ok m (res_events (run std_cfg hs st m))) with (forallb (deliv_good (text m)) (res_events (run std_cfg hs st m))).
  rewrite (deliv_ok_run hs st m). reflexivity.
Qed.

(* ------------------------------------------------------------ inlining unscoped children *)
Lemma inline_h_unscoped c : inline_h (HPipe false c) = inline c.
Proof. reflexivity. Qed.
Lemma inline_h_scoped c : inline_h (HPipe true c) = [HPipe true (inline c)].
Proof. reflexivity. Qed.
Lemma all_accept_app a b : all_accept (a ++ b) = all_accept a && all_accept b.
Proof. apply forallb_app. Qed.

Lemma leaf_event_false o l e : leaf_event o l e = Some false -> all_accept [e] = false.
Proof.
  destruct l, e as [o' rr|o' pb cc]; cbn; try discriminate;
    try (destruct pb; try discriminate; destruct (Nat.eqb o o'); discriminate);
    try (destruct (Nat.eqb o o'); cbn; [destruct rr; cbn; congruence|discriminate]).
  all: destruct (Nat.eqb o o'); cbn; try discriminate; destruct rr, r; cbn; congruence.
Qed.

Lemma exec_ok_of_all_accept h st m :
  all_accept (res_events (exec std_cfg h st m)) = true -> res_ok (exec std_cfg h st m) = true.
Proof.
  destruct h as [o l| |sc c]; [|reflexivity|intros _; apply std_child_never_stops_parent].
  rewrite exec_leaf_eq. destruct (leaf_event_exec o l st m) as (e & He & Hl). rewrite He.
  destruct (res_ok (exec_leaf std_cfg o l st m)); [reflexivity|].
  intros H. rewrite (leaf_event_false _ _ _ Hl) in H. discriminate.
Qed.

Lemma run_ok_of_all_accept hs : forall st m,
  all_accept (res_events (run std_cfg hs st m)) = true -> res_ok (run std_cfg hs st m) = true.
Proof.
  induction hs as [|h t IH]; intros st m; [reflexivity|]. rewrite run_std_cons.
  pose proof (exec_ok_of_all_accept h st m) as Hx.
  destruct (exec std_cfg h st m) as [[[st1 m1] k] e1]. unfold res_events, res_ok in *. cbn in Hx.
  destruct k.
  - specialize (IH st1 m1). destruct (run std_cfg t st1 m1) as [[[st2 m2] k2] e2]. cbn in *.
    rewrite all_accept_app. intros H. apply andb_prop in H as [_ H]. exact (IH H).
  - cbn. exact Hx.
Qed.

Lemma std_inline_preserves : forall hs st m,
  all_accept (res_events (run std_cfg hs st m)) = true -> run std_cfg (inline hs) st m = run std_cfg hs st m.
Proof.
  pose (P := fun h => forall st m, all_accept (res_events (exec std_cfg h st m)) = true ->
                                   run std_cfg (inline_h h) st m = exec std_cfg h st m).
  pose (Q := fun hs => forall st m, all_accept (res_events (run std_cfg hs st m)) = true ->
                                    run std_cfg (inline hs) st m = run std_cfg hs st m).
  apply (hlist_ind2 P Q); unfold P, Q.
  - intros o l st m _. cbn [inline_h]. rewrite run_std_cons.
    destruct (exec std_cfg (HLeaf o l) st m) as [[[st1 m1] k] e1]. destruct k; [|reflexivity].
    rewrite run_nil, app_nil_r. reflexivity.
  - reflexivity.
  - intros sc c Hc st m H. destruct sc.
    + rewrite inline_h_scoped, run_std_cons, !exec_pipe_std. rewrite exec_pipe_std in H.
      specialize (Hc st m). destruct (run std_cfg c st m) as [[[st1 m1] k1] e1]. unfold res_events in *. cbn in H.
      rewrite (Hc H), run_nil, app_nil_r. reflexivity.
    + rewrite inline_h_unscoped, exec_pipe_std. rewrite exec_pipe_std in H.
      specialize (Hc st m). pose proof (run_ok_of_all_accept c st m) as Hk.
      destruct (run std_cfg c st m) as [[[st1 m1] k1] e1]. unfold res_events, res_ok in *. cbn in H, Hk.
      rewrite (Hc H), (Hk H). reflexivity.
  - reflexivity.
  - intros h t Hp Hq st m H. cbn [inline]. rewrite run_app. rewrite run_std_cons in *.
    specialize (Hp st m). destruct (exec std_cfg h st m) as [[[st1 m1] k] e1]. unfold res_events in *. cbn in Hp.
    destruct k.
    + specialize (Hq st1 m1). destruct (run std_cfg t st1 m1) as [[[st2 m2] k2] e2]. cbn in *.
      rewrite all_accept_app in H. apply andb_prop in H as [H1 H2]. rewrite (Hp H1), (Hq H2). reflexivity.
    + cbn in H. rewrite (Hp H). reflexivity.
Qed.

(* ------------------------------------------------------------ message sequences *)
Lemma run_seq_app c root a : forall st b,
  run_seq c root st (a ++ b) =
    let '(st1, o1) := run_seq c root st a in
    let '(st2, o2) := run_seq c root st1 b in (st2, o1 ++ o2).
Proof.
  induction a as [|m a IH]; intros st b; cbn [app run_seq].
  - destruct (run_seq c root st b). reflexivity.
  - destruct (run c root st m) as [[[st1 m1] k] e]. rewrite IH.
    destruct (run_seq c root st1 a) as [st2 o1]. destruct (run_seq c root st2 b) as [st3 o2]. reflexivity.
Qed.

(* every per-message law that holds from every store lifts to every message of every sequence *)
Lemma run_seq_lifts c root (R : msg -> list event -> content -> Prop) :
  (forall st m, R m (res_events (run c root st m)) (content_of (res_msg (run c root st m)))) ->
  forall ms st, Forall2 (fun m out => R m (fst out) (snd out)) ms (snd (run_seq c root st ms)).
Proof.
  intros H. induction ms as [|m ms IH]; intros st; cbn [run_seq]; [constructor|].
  specialize (H st m). destruct (run c root st m) as [[[st1 m1] k] e]. specialize (IH st1).
  destruct (run_seq c root st1 ms) as [st2 out]. cbn in *. constructor; assumption.
Qed.

(* the k-th output of a sequence is the single-message run from the store the prefix left *)
Lemma run_seq_nth c root pre m post st :
  let st_pre := fst (run_seq c root st pre) in
  nth_error (snd (run_seq c root st (pre ++ m :: post))) (length pre)
  = Some (res_events (run c root st_pre m), content_of (res_msg (run c root st_pre m))).
Proof.
  cbn zeta. rewrite run_seq_app. destruct (run_seq c root st pre) as [st1 o1] eqn:E1. cbn [fst run_seq].
  assert (Hl : length o1 = length pre).
  { clear -E1. revert st st1 o1 E1. induction pre as [|x pre IH]; intros st st1 o1 E; cbn [run_seq] in E.
    - injection E as <- <-. reflexivity.
    - destruct (run c root st x) as [[[sa ma] ka] ea]. destruct (run_seq c root sa pre) as [sb ob] eqn:Eb.
      injection E as <- <-. cbn. rewrite (IH _ _ _ Eb). reflexivity. }
  destruct (run c root st1 m) as [[[st2 m2] k2] e2]. destruct (run_seq c root st2 post) as [st3 o3].
  cbn [snd]. rewrite nth_error_app2 by lia. rewrite Hl, Nat.sub_diag. reflexivity.
Qed.

(* no handler function returned false in any message of the sequence (stores threaded) *)
Fixpoint all_accept_seq (c : pipe_cfg) (root : list handler) (st : store) (ms : list msg) : bool :=
  match ms with
  | [] => true
  | m :: r => all_accept (res_events (run c root st m)) && all_accept_seq c root (res_store (run c root st m)) r
  end.
Lemma std_seq_inline root ms : forall st,
  all_accept_seq std_cfg root st ms = true -> run_seq std_cfg (inline root) st ms = run_seq std_cfg root st ms.
Proof.
  induction ms as [|m ms IH]; intros st H; [reflexivity|]. cbn [all_accept_seq] in H.
  apply andb_prop in H as [H1 H2]. cbn [run_seq]. rewrite (std_inline_preserves root st m H1).
  destruct (run std_cfg root st m) as [[[st1 m1] k] e]. unfold res_store in H2. cbn [fst] in H2.
  rewrite (IH st1 H2). reflexivity.
Qed.

(* ------------------------------------------------------------ the last write to a key wins *)
Lemma lookup_remove_other k k' a : seqb k k' = false -> lookup k (remove k' a) = lookup k a.
Proof.
  intros H. induction a as [|[k2 v2] a IH]; [reflexivity|]. cbn. destruct (seqb k' k2) eqn:E.
  - apply seqb_eq in E. subst k2. rewrite H. exact IH.
  - cbn. destruct (seqb k k2); [reflexivity|exact IH].
Qed.

Lemma leaf_sets_lookup o l st m k v :
  leaf_sets l k = Some v -> lookup k (mattrs (res_msg (exec_leaf std_cfg o l st m))) = Some v.
Proof.
  destruct l; cbn; try discriminate; intros H;
    try (match type of H with (if seqb ?a ?b then _ else _) = _ =>
           destruct (seqb a b) eqn:E; [|discriminate]; injection H as ->; apply seqb_eq in E; subst; apply lookup_insert end).
  rewrite lookup_merge_many, H. reflexivity.
Qed.

Lemma leaf_frame o l st m k :
  writes_key l k = false -> lookup k (mattrs (res_msg (exec_leaf std_cfg o l st m))) = lookup k (mattrs m).
Proof.
  destruct l; cbn; try reflexivity; intros H;
    try (apply lookup_insert_other, H); try (apply lookup_remove_other, H).
  - rewrite lookup_merge_many. destruct (last_val k kvs); [discriminate|reflexivity].
  - destruct (seqb (text m) _); reflexivity.
Qed.

Lemma may_write_unscoped k c : may_write k (HPipe false c) = may_write_l k c.
Proof. induction c as [|h t IH]; [reflexivity|]. cbn [may_write_l]. rewrite <- IH. reflexivity. Qed.

Lemma frame_both k :
  (forall h st m, may_write k h = false -> lookup k (mattrs (res_msg (exec std_cfg h st m))) = lookup k (mattrs m))
  /\ (forall hs st m, may_write_l k hs = false -> lookup k (mattrs (res_msg (run std_cfg hs st m))) = lookup k (mattrs m)).
Proof.
  pose (P := fun h => forall st m, may_write k h = false -> lookup k (mattrs (res_msg (exec std_cfg h st m))) = lookup k (mattrs m)).
  pose (Q := fun hs => forall st m, may_write_l k hs = false -> lookup k (mattrs (res_msg (run std_cfg hs st m))) = lookup k (mattrs m)).
  assert (Hleaf : forall o l, P (HLeaf o l)) by (intros o l st m H; rewrite exec_leaf_eq; apply leaf_frame, H).
  assert (Hnull : P HNull) by (intros st m _; reflexivity).
  assert (Hpipe : forall sc hs, Q hs -> P (HPipe sc hs)).
  { intros sc hs Hq st m H. destruct sc.
    - pose proof (std_scoped_restores hs st m) as R. cbn zeta in R. destruct R as (_ & -> & _). reflexivity.
    - rewrite may_write_unscoped in H. specialize (Hq st m H). rewrite exec_pipe_std.
      destruct (run std_cfg hs st m) as [[[st' m'] ok] evs]. exact Hq. }
  assert (Hnil : Q []) by (intros st m _; reflexivity).
  assert (Hcons : forall h t, P h -> Q t -> Q (h :: t)).
  { intros h t Hp Hq st m H. cbn [may_write_l] in H. apply orb_false_elim in H as [H1 H2].
    rewrite run_std_cons. specialize (Hp st m H1).
    destruct (exec std_cfg h st m) as [[[st1 m1] kk] e1]. unfold res_msg in *. cbn [fst snd] in Hp.
    destruct kk; [|exact Hp]. specialize (Hq st1 m1 H2).
    destruct (run std_cfg t st1 m1) as [[[st2 m2] k2] e2]. cbn [fst snd] in *. congruence. }
  split; [exact (handler_ind2 P Q Hleaf Hnull Hpipe Hnil Hcons)|exact (hlist_ind2 P Q Hleaf Hnull Hpipe Hnil Hcons)].
Qed.

(* after setter l wrote (type, value) v to k and everything up to the end of [mid] ran without a rejection, k
   holds exactly v - whatever [pre] did to k and whatever the scoped children inside [mid] do *)
Lemma std_last_write_wins pre o l mid st m st3 m3 e3 k v :
  leaf_sets l k = Some v -> may_write_l k mid = false ->
  run std_cfg (pre ++ HLeaf o l :: mid) st m = (st3, m3, true, e3) ->
  lookup k (mattrs m3) = Some v.
Proof.
  intros Hs Hm. rewrite run_app. destruct (run std_cfg pre st m) as [[[st1 m1] k1] e1]. destruct k1; [|discriminate].
  rewrite run_std_cons, exec_leaf_eq. pose proof (leaf_sets_lookup o l st1 m1 k v Hs) as Hl.
  destruct (exec_leaf std_cfg o l st1 m1) as [[[st2 m2] k2] e2]. unfold res_msg in Hl. cbn [fst snd] in Hl.
  destruct k2; [|discriminate].
  pose proof (proj2 (frame_both k) mid st2 m2 Hm) as Hf.
  destruct (run std_cfg mid st2 m2) as [[[sa ma] ka] ea]. unfold res_msg in Hf. cbn [fst snd] in Hf.
  intros E. injection E as _ <- _ _. rewrite Hf. exact Hl.
Qed.

(* ... and that is what a sink placed there is handed: the delivered attribute map carries the LAST written
   (type, value) of the key *)
Lemma std_sink_sees_last_write pre o l mid o' rest st m st3 m3 e3 k v :
  leaf_sets l k = Some v -> may_write_l k mid = false ->
  run std_cfg (pre ++ HLeaf o l :: mid) st m = (st3, m3, true, e3) ->
  run std_cfg ((pre ++ HLeaf o l :: mid) ++ HLeaf o' LSink :: rest) st m =
    (let '(st4, m4, k4, e4) := run std_cfg rest st3 m3 in
     (st4, m4, k4, e3 ++ EDeliver o' false (content_of m3) :: e4))
  /\ lookup k (c_attrs (content_of m3)) = Some v.
Proof.
  intros Hs Hm E. split; [apply std_sink_gets_latest, E|]. exact (std_last_write_wins _ _ _ _ _ _ _ _ _ _ _ Hs Hm E).
Qed.

(* ------------------------------------------------------------ structural edits *)
Lemma op_append_nonnull h l : h <> HNull -> apply_op (OAppend h) l = l ++ [h].
Proof. destruct h; [reflexivity|congruence|reflexivity]. Qed.
Lemma op_append_null l : apply_op (OAppend HNull) l = l.
Proof. reflexivity. Qed.
Lemma op_remove_spec o l h : In h (apply_op (ORemove o) l) <-> In h l /\ has_oid o h = false.
Proof. cbn. rewrite filter_In, negb_true_iff. reflexivity. Qed.
Lemma op_clear_class_spec k l h : In h (apply_op (OClearClass k) l) <-> In h l /\ in_cls [k] h = false.
Proof. cbn. unfold clear_class. rewrite filter_In, negb_true_iff. reflexivity. Qed.
Lemma insert_at_split n h l : exists a b, l = a ++ b /\ insert_at n h l = a ++ h :: b.
Proof. exists (firstn n l), (skipn n l). split; [symmetry; apply firstn_skipn|reflexivity]. Qed.
(* a typed call inserts exactly its one handler and keeps the relative order of all others
   (setFormatter: of all others but the formatters, which it removes first) *)
Lemma op_sorted_inserts_one h l :
  class_of h <> None ->
  exists a b, (match class_of h with Some CFmt => clear_class CFmt l | _ => l end) = a ++ b
              /\ apply_op (OSorted h) l = a ++ h :: b.
Proof.
  intros Hn. cbn [apply_op]. destruct (class_of h) as [[| | | | |]|]; try congruence;
    try (apply insert_at_split); (exists l, []; split; [symmetry; apply app_nil_r|reflexivity]).
Qed.

(* the appended handler runs last, on what the old list left, unless the old list rejected *)
Lemma std_append_runs_last h l st m :
  h <> HNull ->
  run std_cfg (apply_op (OAppend h) l) st m =
    let '(st1, m1, k, e1) := run std_cfg l st m in
    if k then let '(st2, m2, k2, e2) := run std_cfg [h] st1 m1 in (st2, m2, k2, e1 ++ e2)
    else (st1, m1, false, e1).
Proof. intros Hn. rewrite (op_append_nonnull h l Hn). apply run_app. Qed.

Lemma map_nth_other i f : forall l j, j <> i -> nth_error (map_nth i f l) j = nth_error l j.
Proof.
  induction i as [|i IH]; intros [|x l] [|j] H; cbn; try reflexivity; try congruence.
  apply IH. congruence.
Qed.
Lemma map_nth_same i f : forall l, nth_error (map_nth i f l) i = option_map f (nth_error l i).
Proof. induction i as [|i IH]; intros [|x l]; cbn; try reflexivity. apply IH. Qed.
Lemma map_nth_length i f : forall l, length (map_nth i f l) = length l.
Proof. induction i as [|i IH]; intros [|x l]; cbn; try reflexivity. rewrite IH. reflexivity. Qed.

(* an edit addressed inside entry i changes nothing but the handler list of that child (its scopedness,
   its position and every other entry of every enclosing list stay) *)
Lemma edit_at_root f hs : edit_at [] f hs = f hs.
Proof. reflexivity. Qed.
Lemma edit_at_child i p f hs sc c :
  nth_error hs i = Some (HPipe sc c) -> nth_error (edit_at (i :: p) f hs) i = Some (HPipe sc (edit_at p f c)).
Proof. intros H. cbn [edit_at]. rewrite map_nth_same, H. reflexivity. Qed.
Lemma edit_at_elsewhere i p f hs j : j <> i -> nth_error (edit_at (i :: p) f hs) j = nth_error hs j.
Proof. intros H. cbn [edit_at]. apply map_nth_other, H. Qed.
Lemma edit_at_length i p f hs : length (edit_at (i :: p) f hs) = length hs.
Proof. cbn [edit_at]. apply map_nth_length. Qed.

(* ------------------------------------------------------------ histories: messages and edits interleaved *)
Lemma run_steps_app c a : forall root st b,
  run_steps c root st (a ++ b) =
    let '(st1, root1, o1) := run_steps c root st a in
    let '(st2, root2, o2) := run_steps c root1 st1 b in (st2, root2, o1 ++ o2).
Proof.
  induction a as [|[m|e] a IH]; intros root st b; cbn [app run_steps].
  - destruct (run_steps c root st b) as [[? ?] ?]. reflexivity.
  - destruct (run c root st m) as [[[st1 m1] k] ev]. rewrite IH.
    destruct (run_steps c root st1 a) as [[st2 r2] o1]. destruct (run_steps c r2 st2 b) as [[st3 r3] o2]. reflexivity.
  - apply IH.
Qed.

Lemma steps_tree c steps : forall root st, snd (fst (run_steps c root st steps)) = tree_after root steps.
Proof.
  induction steps as [|[m|e] r IH]; intros root st; cbn [run_steps tree_after fold_left]; [reflexivity| |apply IH].
  destruct (run c root st m) as [[[st1 m1] k] ev]. specialize (IH root st1).
  destruct (run_steps c root st1 r) as [[st2 r2] o]. exact IH.
Qed.

Lemma steps_out_length c steps : forall root st, length (snd (run_steps c root st steps)) = count_msgs steps.
Proof.
  induction steps as [|[m|e] r IH]; intros root st; cbn [run_steps count_msgs]; [reflexivity| |apply IH].
  destruct (run c root st m) as [[[st1 m1] k] ev]. specialize (IH root st1).
  destruct (run_steps c root st1 r) as [[st2 r2] o]. cbn in *. rewrite IH. reflexivity.
Qed.

(* without edits a history is the message sequence of [run_seq] *)
Lemma run_steps_msgs c root ms : forall st,
  fst (fst (run_steps c root st (map SMsg ms))) = fst (run_seq c root st ms)
  /\ snd (fst (run_steps c root st (map SMsg ms))) = root
  /\ map (fun o => (o_events o, o_final o)) (snd (run_steps c root st (map SMsg ms))) = snd (run_seq c root st ms).
Proof.
  induction ms as [|m ms IH]; intros st; cbn [map run_steps run_seq]; [repeat split|].
  destruct (run c root st m) as [[[st1 m1] k] ev]. specialize (IH st1).
  destruct (run_steps c root st1 (map SMsg ms)) as [[st2 r2] o]. destruct (run_seq c root st1 ms) as [st3 o3].
  cbn in *. destruct IH as (-> & -> & ->). repeat split.
Qed.

(* THE law of edits: the message after the prefix [pre] is evaluated by [run] on the tree with exactly the
   edits of [pre] applied, from the handler states the messages of [pre] left *)
Lemma run_steps_nth c root pre m post st :
  let st_pre := fst (fst (run_steps c root st pre)) in
  let tree := tree_after root pre in
  nth_error (snd (run_steps c root st (pre ++ SMsg m :: post))) (count_msgs pre)
  = Some {| o_tree := tree; o_msg := m; o_events := res_events (run c tree st_pre m);
            o_final := content_of (res_msg (run c tree st_pre m)) |}.
Proof.
  cbn zeta. rewrite run_steps_app. pose proof (steps_tree c pre root st) as Ht.
  pose proof (steps_out_length c pre root st) as Hl.
  destruct (run_steps c root st pre) as [[st1 r1] o1]. cbn [fst snd] in *. subst r1. cbn [run_steps].
  destruct (run c (tree_after root pre) st1 m) as [[[st2 m2] k2] e2].
  destruct (run_steps c (tree_after root pre) st2 post) as [[st3 r3] o3].
  cbn [snd]. rewrite nth_error_app2 by lia. rewrite Hl, Nat.sub_diag. reflexivity.
Qed.

(* every per-message law that holds for every tree and store holds for every message of every history,
   relative to the tree of its moment *)
Lemma run_steps_lifts c (R : list handler -> msg -> list event -> content -> Prop) :
  (forall tree st m, R tree m (res_events (run c tree st m)) (content_of (res_msg (run c tree st m)))) ->
  forall steps root st,
    Forall (fun o => R (o_tree o) (o_msg o) (o_events o) (o_final o)) (snd (run_steps c root st steps)).
Proof.
  intros H. induction steps as [|[m|e] r IH]; intros root st; cbn [run_steps]; [constructor| |apply IH].
  specialize (H root st m). destruct (run c root st m) as [[[st1 m1] k] ev]. specialize (IH root st1).
  destruct (run_steps c root st1 r) as [[st2 r2] o]. cbn in *. constructor; assumption.
Qed.

Lemma which_zero hs m evs : prop_c01_b hs m evs = true -> prop_c01_which hs m evs = 0.
Proof.
  unfold prop_c01_b, prop_c01_which. intros H.
  repeat (apply andb_prop in H; destruct H as [H ?]). rewrite H, H0, H1, H2. reflexivity.
Qed.

(* ------------------------------------------------------------ the same, for every good configuration *)
Section Good.
Variable c : pipe_cfg.
Hypothesis G : cfg_goodb c = true.

Lemma nesting_equation sc hs rest st m :
  run c (HPipe sc hs :: rest) st m =
    let '(st1, m1, _, e1) := run c hs st m in
    let handed_on := if sc then set_at (set_fmt m1 (fmt m)) (mattrs m) else m1 in
    let '(st2, m2, k2, e2) := run c rest st1 handed_on in (st2, m2, k2, e1 ++ e2).
Proof. rewrite (good_is_std c G). apply std_nesting_equation. Qed.

Lemma child_never_stops_parent sc hs st m : res_ok (exec c (HPipe sc hs) st m) = true.
Proof. rewrite (good_is_std c G). apply std_child_never_stops_parent. Qed.

Lemma scoped_restores hs st m :
  let m' := res_msg (exec c (HPipe true hs) st m) in
  fmt m' = fmt m /\ mattrs m' = mattrs m /\ text m' = text m /\ mt m' = mt m.
Proof. rewrite (good_is_std c G). apply std_scoped_restores. Qed.

Lemma text_type_never_change hs st m :
  text (res_msg (run c hs st m)) = text m /\ mt (res_msg (run c hs st m)) = mt m.
Proof. rewrite (good_is_std c G). apply run_preserves. Qed.

Lemma reject_skips_rest h t st m st1 m1 e1 :
  exec c h st m = (st1, m1, false, e1) -> run c (h :: t) st m = (st1, m1, false, e1).
Proof. rewrite (good_is_std c G). apply std_reject_skips_rest. Qed.

Lemma siblings_independent a b rest st m :
  run c (HPipe true a :: HPipe true b :: rest) st m =
    let '(st1, _, _, e1) := run c a st m in
    let '(st2, _, _, e2) := run c b st1 m in
    let '(st3, m3, k3, e3) := run c rest st2 m in (st3, m3, k3, e1 ++ e2 ++ e3).
Proof. rewrite (good_is_std c G). apply std_siblings_independent. Qed.

Lemma in_order hs st m : Trav hs (res_events (run c hs st m)).
Proof. rewrite (good_is_std c G). apply std_in_order. Qed.

Lemma none_skipped_without_rejection hs st m :
  forallb accepts (res_events (run c hs st m)) = true ->
  map ev_oid (res_events (run c hs st m)) = leaf_oids hs.
Proof. apply trav_none_skipped, in_order. Qed.

Lemma sink_gets_latest pre o rest st m st1 m1 e1 :
  run c pre st m = (st1, m1, true, e1) ->
  run c (pre ++ HLeaf o LSink :: rest) st m =
    let '(st2, m2, k2, e2) := run c rest st1 m1 in
    (st2, m2, k2, e1 ++ EDeliver o false (content_of m1) :: e2).
Proof. rewrite (good_is_std c G). apply std_sink_gets_latest. Qed.

Lemma unscoped_is_inline hs rest st m :
  res_ok (run c hs st m) = true -> run c (HPipe false hs :: rest) st m = run c (hs ++ rest) st m.
Proof. rewrite (good_is_std c G). apply std_unscoped_is_inline. Qed.

Lemma inline_preserves hs st m :
  all_accept (res_events (run c hs st m)) = true -> run c (inline hs) st m = run c hs st m.
Proof. rewrite (good_is_std c G). apply std_inline_preserves. Qed.

Lemma seq_inline root ms st :
  all_accept_seq c root st ms = true -> run_seq c (inline root) st ms = run_seq c root st ms.
Proof. rewrite (good_is_std c G). apply std_seq_inline. Qed.

Lemma oracle_holds hs st m : prop_c01_b hs m (res_events (run c hs st m)) = true.
Proof. rewrite (good_is_std c G). apply std_oracle_holds. Qed.

Lemma seq_in_order root ms st :
  Forall2 (fun m out => Trav root (fst out)) ms (snd (run_seq c root st ms)).
Proof. apply (run_seq_lifts c root (fun _ evs _ => Trav root evs)). intros. apply in_order. Qed.

Lemma seq_oracle_holds root ms st :
  Forall2 (fun m out => prop_c01_b root m (fst out) = true) ms (snd (run_seq c root st ms)).
Proof. apply (run_seq_lifts c root (fun m evs _ => prop_c01_b root m evs = true)). intros. apply oracle_holds. Qed.

(* after the root returned, only what an unscoped path set is left; text and type are the message's own *)
Lemma seq_text_type root ms st :
  Forall2 (fun m out => c_raw (snd out) = text m) ms (snd (run_seq c root st ms)).
Proof.
  apply (run_seq_lifts c root (fun m _ fin => c_raw fin = text m)). intros st' m.
  exact (proj1 (text_type_never_change root st' m)).
Qed.
Lemma last_write_wins pre o l mid st m st3 m3 e3 k v :
  leaf_sets l k = Some v -> may_write_l k mid = false ->
  run c (pre ++ HLeaf o l :: mid) st m = (st3, m3, true, e3) ->
  lookup k (mattrs m3) = Some v.
Proof. rewrite (good_is_std c G). apply std_last_write_wins. Qed.

Lemma sink_sees_last_write pre o l mid o' rest st m st3 m3 e3 k v :
  leaf_sets l k = Some v -> may_write_l k mid = false ->
  run c (pre ++ HLeaf o l :: mid) st m = (st3, m3, true, e3) ->
  run c ((pre ++ HLeaf o l :: mid) ++ HLeaf o' LSink :: rest) st m =
    (let '(st4, m4, k4, e4) := run c rest st3 m3 in
     (st4, m4, k4, e3 ++ EDeliver o' false (content_of m3) :: e4))
  /\ lookup k (c_attrs (content_of m3)) = Some v.
Proof. rewrite (good_is_std c G). apply std_sink_sees_last_write. Qed.

Lemma untouched_key_kept k hs st m :
  may_write_l k hs = false -> lookup k (mattrs (res_msg (run c hs st m))) = lookup k (mattrs m).
Proof. rewrite (good_is_std c G). apply (proj2 (frame_both k)). Qed.

Lemma append_runs_last h l st m :
  h <> HNull ->
  run c (apply_op (OAppend h) l) st m =
    let '(st1, m1, k, e1) := run c l st m in
    if k then let '(st2, m2, k2, e2) := run c [h] st1 m1 in (st2, m2, k2, e1 ++ e2)
    else (st1, m1, false, e1).
Proof. rewrite (good_is_std c G). apply std_append_runs_last. Qed.

Lemma steps_in_order steps root st :
  Forall (fun o => Trav (o_tree o) (o_events o)) (snd (run_steps c root st steps)).
Proof. apply (run_steps_lifts c (fun t _ evs _ => Trav t evs)). intros. apply in_order. Qed.

Lemma steps_oracle_holds steps root st :
  Forall (fun o => prop_c01_b (o_tree o) (o_msg o) (o_events o) = true) (snd (run_steps c root st steps)).
Proof. apply (run_steps_lifts c (fun t m evs _ => prop_c01_b t m evs = true)). intros. apply oracle_holds. Qed.

(* the history oracle of the check accepts the model's own events for every message *)
Lemma steps_which_zero steps : forall root st,
  which_steps root steps (map o_events (snd (run_steps c root st steps))) = repeat 0 (count_msgs steps).
Proof.
  induction steps as [|[m|e] r IH]; intros root st; cbn [run_steps which_steps count_msgs]; [reflexivity| |apply IH].
  pose proof (oracle_holds root st m) as Ho. destruct (run c root st m) as [[[st1 m1] k] ev]. specialize (IH root st1).
  destruct (run_steps c root st1 r) as [[st2 r2] o]. unfold res_events in Ho. cbn in *.
  rewrite (which_zero _ _ _ Ho), IH. reflexivity.
Qed.
End Good.

(* ---- children that are copies of a built pipeline object: the tag is forgotten, so every law about a tree holds for
   the tree with copies and a scenario with copies denotes exactly what the scenario without them denotes *)
Fixpoint forget_refresh (b : bhandler) : forget (refresh b) = forget b.
Proof.
  destruct b as [o l| |how sc hs]; cbn [refresh forget]; try reflexivity.
  f_equal. induction hs as [|x xs IH]; cbn [map]; [reflexivity|].
  rewrite (forget_refresh x), IH. reflexivity.
Qed.
Lemma forget_l_refresh bs : forget_l (map refresh bs) = forget_l bs.
Proof.
  unfold forget_l. induction bs as [|x xs IH]; cbn [map]; [reflexivity|].
  rewrite forget_refresh, IH. reflexivity.
Qed.
Lemma copy_is_original c bs st m : run c (forget_l bs) st m = run c (forget_l (map refresh bs)) st m.
Proof. rewrite forget_l_refresh. reflexivity. Qed.
Lemma copy_is_original_steps c bs st steps :
  run_steps c (forget_l bs) st steps = run_steps c (forget_l (map refresh bs)) st steps.
Proof. rewrite forget_l_refresh. reflexivity. Qed.
Lemma copied_child_same_as_child c how sc hs rest st m :
  run c (forget_l (BPipe how sc hs :: rest)) st m = run c (HPipe sc (forget_l hs) :: forget_l rest) st m.
Proof. reflexivity. Qed.
