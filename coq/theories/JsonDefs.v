(* C13 (shared with C18) — executable model of the JSON path of qtlogger: the Qt 5.15 QJsonDocument
   writer as used by JsonFormatter (compact / indented), QJsonObject's key order, LogMessage::
   allAttributes, an RFC 8259 parser written in Gallina, key lookup, and the boolean oracle the
   check evaluates on the implementation's output.  Definitions only: this file must keep compiling
   (and extracting) when a proof elsewhere breaks.  Strings are lists of UTF-16 code units. *)
From Coq Require Import List NArith ZArith Bool Decimal DecimalZ.
Import ListNotations.
Local Open Scope N_scope.

Definition str := list N.
Inductive json :=
| JNull | JBool (b : bool) | JNum (z : Z) | JStr (s : str) | JArr (l : list json) | JObj (kv : list (str * json)).

(* ------------------------------------------------------------------ the writer (qjsonwriter.cpp) *)
Definition hexd (n : N) : N := if n <? 10 then 48 + n else 87 + n.
Definition is_high (u : N) := (55296 <=? u) && (u <=? 56319).
Definition is_low (u : N) := (56320 <=? u) && (u <=? 57343).
Definition esc_u (u : N) : str :=
  [92; 117; hexd (u / 4096); hexd ((u / 256) mod 16); hexd ((u / 16) mod 16); hexd (u mod 16)].
(* escapedString(): the seven short escapes, \u00XX below 0x20, a lone surrogate as \uXXXX, a proper
   pair and everything else (DEL, U+2028, U+2029, astral) raw *)
Fixpoint escape (s : str) : str :=
  match s with
  | [] => []
  | u :: r =>
    if u =? 34 then 92 :: 34 :: escape r else if u =? 92 then 92 :: 92 :: escape r
    else if u =? 8 then 92 :: 98 :: escape r else if u =? 12 then 92 :: 102 :: escape r
    else if u =? 10 then 92 :: 110 :: escape r else if u =? 13 then 92 :: 114 :: escape r
    else if u =? 9 then 92 :: 116 :: escape r
    else if u <? 32 then esc_u u ++ escape r
    else if is_high u then
      match r with
      | v :: r' => if is_low v then u :: v :: escape r' else esc_u u ++ escape r
      | [] => esc_u u
      end
    else if is_low u then esc_u u ++ escape r
    else u :: escape r
  end.
Definition quote (s : str) : str := 34 :: escape s ++ [34].

Fixpoint uint_chars (u : uint) : str :=
  match u with
  | Nil => [] | D0 u => 48 :: uint_chars u | D1 u => 49 :: uint_chars u | D2 u => 50 :: uint_chars u
  | D3 u => 51 :: uint_chars u | D4 u => 52 :: uint_chars u | D5 u => 53 :: uint_chars u
  | D6 u => 54 :: uint_chars u | D7 u => 55 :: uint_chars u | D8 u => 56 :: uint_chars u | D9 u => 57 :: uint_chars u
  end.
Definition num_chars (z : Z) : str :=
  match Z.to_int z with Pos u => uint_chars u | Neg u => 45 :: uint_chars u end.

Definition ind (compact : bool) (n : nat) : str := if compact then [] else repeat 32 (4 * n).
Definition nl (compact : bool) : str := if compact then [] else [10].
Definition sp (compact : bool) : str := if compact then [] else [32].

Fixpoint wv (compact : bool) (lvl : nat) (v : json) {struct v} : str :=
  match v with
  | JNull => [110;117;108;108] | JBool true => [116;114;117;101] | JBool false => [102;97;108;115;101]
  | JNum z => num_chars z
  | JStr s => quote s
  | JArr l =>
      91 :: nl compact ++
      (fix wl (l : list json) : str :=
         match l with
         | [] => []
         | [x] => ind compact (S lvl) ++ wv compact (S lvl) x ++ nl compact
         | x :: r => ind compact (S lvl) ++ wv compact (S lvl) x ++ 44 :: nl compact ++ wl r
         end) l ++ ind compact lvl ++ [93]
  | JObj kv =>
      123 :: nl compact ++
      (fix wo (l : list (str * json)) : str :=
         match l with
         | [] => []
         | [(k, x)] => ind compact (S lvl) ++ quote k ++ 58 :: (if compact then [] else [32]) ++ wv compact (S lvl) x ++ nl compact
         | (k, x) :: r => ind compact (S lvl) ++ quote k ++ 58 :: (if compact then [] else [32]) ++ wv compact (S lvl) x ++ 44 :: nl compact ++ wo r
         end) kv ++ ind compact lvl ++ [125]
  end.
(* document level: "}\n" in indented mode, "}" in compact mode *)
Definition write_doc (compact : bool) (v : json) : str := wv compact 0 v ++ nl compact.

(* QJsonObject keeps its members sorted by key (QString order = lexicographic on UTF-16 units);
   insert() replaces the value of an existing key *)
Fixpoint str_ltb (a b : str) : bool :=
  match a, b with
  | [], [] => false | [], _ => true | _, [] => false
  | x :: a', y :: b' => if x <? y then true else if y <? x then false else str_ltb a' b'
  end.
Fixpoint ins (k : str) (v : json) (l : list (str * json)) : list (str * json) :=
  match l with
  | [] => [(k, v)]
  | (k', v') :: r => if str_ltb k k' then (k, v) :: l else if str_ltb k' k then (k', v') :: ins k v r else (k, v) :: r
  end.
Fixpoint sort_keys (v : json) : json :=
  match v with
  | JArr l => JArr (map sort_keys l)
  | JObj kv => JObj ((fix go (l : list (str * json)) (acc : list (str * json)) :=
                       match l with [] => acc | (k, x) :: r => go r (ins k (sort_keys x) acc) end) kv [])
  | _ => v
  end.

(* ------------------------------------------------------------------ an RFC 8259 parser *)
Definition unhex (c : N) : option N :=
  if (48 <=? c) && (c <=? 57) then Some (c - 48)
  else if (97 <=? c) && (c <=? 102) then Some (c - 87)
  else if (65 <=? c) && (c <=? 70) then Some (c - 55) else None.
(* string body after the opening quote; returns the decoded units and the rest after the closing quote *)
Fixpoint parse_chars (s : str) (acc : str) : option (str * str) :=
  match s with
  | [] => None
  | c :: r =>
    if c =? 34 then Some (List.rev acc, r)
    else if c =? 92 then
      match r with
      | e :: r' =>
        if e =? 34 then parse_chars r' (34 :: acc) else if e =? 92 then parse_chars r' (92 :: acc)
        else if e =? 47 then parse_chars r' (47 :: acc) else if e =? 98 then parse_chars r' (8 :: acc)
        else if e =? 102 then parse_chars r' (12 :: acc) else if e =? 110 then parse_chars r' (10 :: acc)
        else if e =? 114 then parse_chars r' (13 :: acc) else if e =? 116 then parse_chars r' (9 :: acc)
        else if e =? 117 then
          match r' with
          | a :: b :: c2 :: d :: r'' =>
            match unhex a, unhex b, unhex c2, unhex d with
            | Some a', Some b', Some c', Some d' => parse_chars r'' ((a' * 4096 + b' * 256 + c' * 16 + d') :: acc)
            | _, _, _, _ => None
            end
          | _ => None
          end
        else None
      | [] => None
      end
    else if c <? 32 then None
    else parse_chars r (c :: acc)
  end.

Definition is_digit (c : N) : bool := (48 <=? c) && (c <=? 57).
Definition digit_of (c : N) (u : uint) : uint :=
  if c =? 48 then D0 u else if c =? 49 then D1 u else if c =? 50 then D2 u else if c =? 51 then D3 u
  else if c =? 52 then D4 u else if c =? 53 then D5 u else if c =? 54 then D6 u else if c =? 55 then D7 u
  else if c =? 56 then D8 u else D9 u.
Fixpoint parse_digits (s : str) : uint * str :=
  match s with
  | c :: r => if is_digit c then let (u, r') := parse_digits r in (digit_of c u, r') else (Nil, s)
  | [] => (Nil, [])
  end.
Definition is_ws (c : N) : bool := (c =? 32) || (c =? 9) || (c =? 10) || (c =? 13).
Fixpoint skip_ws (s : str) : str := match s with c :: r => if is_ws c then skip_ws r else s | [] => [] end.

(* values: null true false, strings, arrays, objects, integers (the json type has no fractions, so a
   number with a fraction or an exponent is rejected: what is left after the digits is not a legal
   continuation).  Whitespace is accepted wherever the grammar allows it. *)
Fixpoint parse (fuel : nat) (s : str) : option (json * str) :=
  match fuel with O => None | S f =>
    match skip_ws s with
    | 110 :: 117 :: 108 :: 108 :: r => Some (JNull, r)
    | 116 :: 114 :: 117 :: 101 :: r => Some (JBool true, r)
    | 102 :: 97 :: 108 :: 115 :: 101 :: r => Some (JBool false, r)
    | 34 :: r => match parse_chars r [] with Some (str, r') => Some (JStr str, r') | None => None end
    | 91 :: r => match skip_ws r with
                 | 93 :: r' => Some (JArr [], r')
                 | _ => match parse_elems f r with Some (vs, r') => Some (JArr vs, r') | None => None end
                 end
    | 123 :: r => match skip_ws r with
                  | 125 :: r' => Some (JObj [], r')
                  | _ => match parse_members f r with Some (kv, r') => Some (JObj kv, r') | None => None end
                  end
    | 45 :: r => let (u, r') := parse_digits r in
                 match u with Nil => None | _ => Some (JNum (Z.of_int (Neg u)), r') end
    | c :: r => if is_digit c then let (u, r') := parse_digits (c :: r) in Some (JNum (Z.of_int (Pos u)), r') else None
    | [] => None
    end
  end
with parse_elems (fuel : nat) (s : str) : option (list json * str) :=
  match fuel with O => None | S f =>
    match parse f s with
    | Some (v, r) =>
      match skip_ws r with
      | 44 :: r' => match parse_elems f r' with Some (vs, r'') => Some (v :: vs, r'') | None => None end
      | 93 :: r' => Some ([v], r')
      | _ => None
      end
    | None => None
    end
  end
with parse_members (fuel : nat) (s : str) : option (list (str * json) * str) :=
  match fuel with O => None | S f =>
    match skip_ws s with
    | 34 :: r =>
      match parse_chars r [] with
      | Some (k, r1) =>
        match skip_ws r1 with
        | 58 :: r2 =>
          match parse f r2 with
          | Some (v, r3) =>
            match skip_ws r3 with
            | 44 :: r4 => match parse_members f r4 with Some (kv, r5) => Some ((k, v) :: kv, r5) | None => None end
            | 125 :: r4 => Some ([(k, v)], r4)
            | _ => None
            end
          | None => None
          end
        | _ => None
        end
      | None => None
      end
    | _ => None
    end
  end.
(* a whole document: one value, then only whitespace.  The fuel is derived from the input. *)
Definition parse_doc (s : str) : option json :=
  match parse (S (length s)) s with
  | Some (v, rest) => if forallb is_ws rest then Some v else None
  | None => None
  end.

(* ------------------------------------------------------------------ lookup and equality *)
Fixpoint seqb (a b : str) : bool :=
  match a, b with [], [] => true | x :: a', y :: b' => (x =? y) && seqb a' b' | _, _ => false end.
Fixpoint look (k : str) (l : list (str * json)) : option json :=
  match l with [] => None | (k', v) :: r => if seqb k k' then Some v else look k r end.
Definition has_key (k : str) (l : list (str * json)) : bool := existsb (fun kv => seqb k (fst kv)) l.
(* equality of JSON values, decided on their compact rendering (the writer is injective on
   well-formed values: JsonProofs.json_eqb_true) *)
Definition json_eqb (a b : json) : bool := seqb (wv true 0 a) (wv true 0 b).
Definition opt_json_eqb (a : option json) (b : json) : bool := match a with Some x => json_eqb x b | None => false end.

(* ------------------------------------------------------------------ numeric QVariant types *)
(* An attribute value is a QVariant.  The numeric types an attribute can carry, each holding the
   mathematical integer z: int, uint, qlonglong, qulonglong, double, float (integral value).
   [num_store t z] is the integer the C++ object of type t holds after z was converted to it
   (two's-complement wrap-around for the 32-bit types, a negative value into an unsigned 64-bit type
   wraps modulo 2^64); QJsonValue::fromVariant of Qt 5.15 then yields that number whatever the type:
   int / uint / qlonglong through toLongLong(), qulonglong through toLongLong() up to 2^63-1,
   float / double through toDouble(), and a double that holds an integer is written as that integer.
   The property quantifies over |z| <= 2^53 inside the range of the type (for a float: the integers up to
   2^24, all of which it represents exactly): [num_in_range]. *)
Inductive numty := TInt | TUInt | TLongLong | TULongLong | TDouble | TFloat.
Definition numty_code (t : numty) : N :=
  match t with TInt => 0 | TUInt => 1 | TLongLong => 2 | TULongLong => 3 | TDouble => 4 | TFloat => 5 end.
Definition two24 : Z := 16777216.
Definition two31 : Z := 2147483648.
Definition two32 : Z := 4294967296.
Definition two53 : Z := 9007199254740992.
Definition two64 : Z := 18446744073709551616.
Definition num_store (t : numty) (z : Z) : Z :=
  match t with
  | TInt => ((z + two31) mod two32 - two31)%Z
  | TUInt => (z mod two32)%Z
  | TULongLong => (z mod two64)%Z
  | TLongLong | TDouble | TFloat => z
  end.
Definition num_in_range (t : numty) (z : Z) : bool :=
  match t with
  | TInt => ((- two31 <=? z) && (z <? two31))%Z
  | TUInt => ((0 <=? z) && (z <? two32))%Z
  | TULongLong => ((0 <=? z) && (z <=? two53))%Z
  | TLongLong | TDouble => ((- two53 <=? z) && (z <=? two53))%Z
  | TFloat => ((- two24 <=? z) && (z <=? two24))%Z   (* every integer of this magnitude is a binary32 value *)
  end.
(* QJsonValue::fromVariant(QVariant::fromValue<t>(z)) *)
Definition num_value (t : numty) (z : Z) : json := JNum (num_store t z).

(* ------------------------------------------------------------------ the message and allAttributes() *)
(* file / function / category are C strings that may be null pointers (None) *)
Record lmsg := { mtype : N; mtext : str; mfmt : option str; mfile : option str; mfunc : option str; mcat : option str;
                 mline : Z; mtime : str; mtid : Z;
                 mattrs : list (str * json) (* the setAttribute calls, in order: a later one overrides *) }.
Definition cstr (o : option str) : str := match o with Some s => s | None => [] end.
Definition shown (m : lmsg) : str := match mfmt m with Some f => f | None => mtext m end.

(* which accessor a built-in entry of allAttributes() reads *)
Inductive bfield := BType | BLine | BFile | BFunction | BCategory | BMessage | BFormatted | BTime | BThreadId.
Definition bfield_code (f : bfield) : N :=
  match f with BType => 0 | BLine => 1 | BFile => 2 | BFunction => 3 | BCategory => 4 | BMessage => 5
             | BFormatted => 6 | BTime => 7 | BThreadId => 8 end.
(* what the translator reads from logmessage.h / jsonformatter.cpp *)
Record json_cfg := {
  type_names : list (N * str);          (* qtMsgTypeToString's table, keyed by the QtMsgType value *)
  type_default : str;
  builtins : list (str * bfield);       (* the initialiser list of allAttributes(), in source order *)
  custom_overlay : bool;                (* attrs.insert(m_attributes) after the built-ins *)
  flag_true_is_compact : bool           (* m_compact ? Compact : Indented *) }.
Fixpoint assoc_n (t : N) (l : list (N * str)) (d : str) : str :=
  match l with [] => d | (t', s) :: r => if t =? t' then s else assoc_n t r d end.
Definition type_name (cfg : json_cfg) (t : N) : str := assoc_n t (type_names cfg) (type_default cfg).
Definition field_value (tn : N -> str) (f : bfield) (m : lmsg) : json :=
  match f with
  | BType => JStr (tn (mtype m)) | BLine => JNum (mline m)
  | BFile => JStr (cstr (mfile m)) | BFunction => JStr (cstr (mfunc m)) | BCategory => JStr (cstr (mcat m))
  | BMessage => JStr (mtext m) | BFormatted => JStr (shown m)
  | BTime => JStr (mtime m) | BThreadId => JNum (mtid m)
  end.
Definition all_attributes (cfg : json_cfg) (m : lmsg) : json :=
  JObj (map (fun kf => (fst kf, field_value (type_name cfg) (snd kf) m)) (builtins cfg)
        ++ (if custom_overlay cfg then mattrs m else [])).
Definition mode_of (cfg : json_cfg) (flag : bool) : bool := if flag_true_is_compact cfg then flag else negb flag.
(* JsonFormatter(flag).format(m) *)
Definition json_format (cfg : json_cfg) (flag : bool) (m : lmsg) : str :=
  write_doc (mode_of cfg flag) (sort_keys (all_attributes cfg m)).

(* ------------------------------------------------------------------ the specification side *)
Definition k_type : str := [116;121;112;101].
Definition k_line : str := [108;105;110;101].
Definition k_file : str := [102;105;108;101].
Definition k_function : str := [102;117;110;99;116;105;111;110].
Definition k_category : str := [99;97;116;101;103;111;114;121].
Definition k_message : str := [109;101;115;115;97;103;101].
Definition k_time : str := [116;105;109;101].
Definition k_threadId : str := [116;104;114;101;97;100;73;100].
(* the built-in fields the property names, with the accessor each must carry *)
Definition spec_fields : list (str * bfield) :=
  [(k_type, BType); (k_line, BLine); (k_file, BFile); (k_function, BFunction); (k_category, BCategory);
   (k_message, BMessage); (k_time, BTime); (k_threadId, BThreadId)].
(* the documented type names, by QtMsgType value (0 debug, 1 warning, 2 critical, 3 fatal, 4 info) *)
Definition spec_type_name (t : N) : str :=
  if t =? 0 then [100;101;98;117;103] else if t =? 1 then [119;97;114;110;105;110;103]
  else if t =? 2 then [99;114;105;116;105;99;97;108] else if t =? 3 then [102;97;116;97;108]
  else [105;110;102;111].
Definition is_spec_name (k : str) : bool := existsb (fun kf => seqb k (fst kf)) spec_fields.

Fixpoint customs_ok (kv : list (str * json)) (l : list (str * json)) : bool :=
  match l with
  | [] => true
  | (k, v) :: r => (if has_key k r || is_spec_name k then true else opt_json_eqb (look k kv) (sort_keys v))
                   && customs_ok kv r
  end.
Definition fields_ok (kv : list (str * json)) (m : lmsg) : bool :=
  forallb (fun kf => if has_key (fst kf) (mattrs m) then true
                     else opt_json_eqb (look (fst kf) kv) (field_value spec_type_name (snd kf) m)) spec_fields.
Definition no_line_break (s : str) : bool := forallb (fun c => negb ((c =? 10) || (c =? 13))) s.
(* The boolean oracle, evaluated on what the implementation printed for message m in the given mode:
   the text is exactly one JSON value, an object, followed by nothing but whitespace; every built-in
   field not shadowed by a custom attribute and every custom attribute (at its last setting) that
   does not shadow a built-in is found under its name with exactly its value; compact = no CR/LF;
   the object has no member that is neither a built-in field nor an attribute of this message. *)
(* nothing else: every member is a built-in field or a custom attribute of THIS message *)
Definition only_known (kv : list (str * json)) (m : lmsg) : bool :=
  forallb (fun kv' => is_spec_name (fst kv') || has_key (fst kv') (mattrs m)) kv.
Definition prop_c13_b (compact : bool) (m : lmsg) (out : str) : bool :=
  match parse_doc out with
  | Some (JObj kv) => fields_ok kv m && customs_ok kv (mattrs m) && (if compact then no_line_break out else true)
                      && only_known kv m
  | _ => false
  end.

(* well-formedness of inputs: every string is made of 16-bit units *)
Definition unitsb (s : str) : bool := forallb (fun u => u <? 65536) s.

(* ------------------------------------------------------------------ front ends (round 8)
   How an application obtains JsonFormatter OBJECTS: SimplePipeline::formatToJson(flag) and
   JsonFormatter::instance().  The state is what survives between calls in one process: the
   function-local static object behind instance(), once created, with the flag it was created with. *)
Inductive fluent_src :=
| FFresh          (* formatToJson(flag) appends a NEW JsonFormatter(flag) *)
| FFreshNoFlag    (* a new object, the flag is not handed on *)
| FShared.        (* formatToJson(flag) appends the shared static object, created (with this flag) by the first request *)
Record json_front := {
  fluent_obj : fluent_src;
  ctor_default_compact : bool;      (* JsonFormatter(bool compact = <this>) *)
  instance_arg : option bool }.     (* instance(): JsonFormatterPtr::create(<this>) ; None = no argument *)
Inductive fcall := CFluent (flag : bool) | CInstance.
Definition fstate := option bool.     (* flag of the static object, if it exists already *)
Definition instance_flag (fr : json_front) : bool :=
  match instance_arg fr with Some b => b | None => ctor_default_compact fr end.
(* one request: new state, constructor flag of the object the caller gets *)
Definition obtain (fr : json_front) (st : fstate) (c : fcall) : fstate * bool :=
  match c with
  | CInstance => match st with Some b => (st, b) | None => (Some (instance_flag fr), instance_flag fr) end
  | CFluent flag =>
      match fluent_obj fr with
      | FFresh => (st, flag)
      | FFreshNoFlag => (st, ctor_default_compact fr)
      | FShared => match st with Some b => (st, b) | None => (Some flag, flag) end
      end
  end.
Definition obtain_all (fr : json_front) (st : fstate) (cs : list fcall) : fstate := fold_left (fun s c => fst (obtain fr s c)) cs st.
(* what the caller asked for: formatToJson(flag) asks for flag; instance() is documented as the indented default formatter *)
Definition requested (c : fcall) : bool := match c with CFluent f => f | CInstance => false end.
Definition front_goodb (fr : json_front) : bool :=
  match fluent_obj fr with FFresh => true | _ => false end && negb (ctor_default_compact fr)
  && match instance_arg fr with None => true | Some b => negb b end.
(* the text a formatter obtained by request c (after the earlier requests cs of this process) produces *)
Definition front_format (cfg : json_cfg) (fr : json_front) (cs : list fcall) (c : fcall) (m : lmsg) : str :=
  json_format cfg (snd (obtain fr (obtain_all fr None cs) c)) m.
