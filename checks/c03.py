"""C03 — Asynchronous hand-off preserves message content and order."""
import concurrent.futures, json, os, re
import vlib

META = {
    'id': 'C03',
    'level': 'proof',
    'technique': 'Coq proof (copy-constructor model driven by the translated member table; protocol model of post/queue/worker over '
                 'all action lists, refined into an extracted trace acceptor) + translated skeleton equality + ticketed traces and '
                 'field-by-field content comparison on the real library with freed caller buffers',
    'text': 'Properties_C03.v proves: the copy handed to the worker is observationally equal to the original for every accessor '
            '(null == ""), given the member table translated from LogMessage\'s copy constructor; pending = |queue| + in-flight and '
            'queue = posts not yet delivered, in post order; the sink log at quiescence = the synchronous log of the messages in post '
            'order; deliveries are a prefix of posts, per-producer program order, and a call that returned before another began is '
            'delivered first (for every trace the acceptor takes, and every model trace is taken); producers never run or wait for the '
            'sink. Partial tie: skeletons of process()/customEvent() must equal the expected ones, real traces must be accepted, '
            'every delivered message must equal its synchronous twin and the model copy, and be delivered on the worker thread.',
    'note': 'Trusted: Coq 8.16.1 kernel (vm_compute on closed terms only), no axioms; tools/s2c/async.py (+ the walker of conc.py); '
            'extraction (ExtrOcamlBasic) + ocaml/drv_async.ml; harness/h_async.cpp. ASSUMED, not verified: Qt delivers events posted '
            'to one receiver at equal priority in posting order (FIFO event queue); QThread/QMutex/QAtomicInt semantics; the post '
            '(count + postEvent) is modelled as one atomic step inside the critical section of M.',
    'design_ref': 'DESIGN.md section 4, C03',
    'engine': 'coq+extraction+harness',
}

FIELDS = ['type', 'text', 'file', 'line', 'function', 'category', 'time (msecs~timeSpec~offsetFromUtc~ISO)', 'steady_time', 'thread_id', 'formatted', 'attributes', 'seq_number']


def parse_out(out):
    hdr, ev, tw, asy = None, [], {}, []
    flushes = []
    for l in out.splitlines():
        if l.startswith('RUN '):
            hdr = l
        elif l.startswith('EV '):
            ev = l[3:].split()
        elif l.startswith('TW '):
            _, p, i, d = l.split(' ', 3)
            tw[(int(p), int(i))] = d.split('|')
        elif l.startswith('AS '):
            _, k, p, i, w, d = l.split(' ', 5)
            asy.append((int(k), int(p), int(i), int(w), d.split('|')))
        elif l.startswith('FL '):
            flushes.append(tuple(int(x) for x in l.split()[1:4]))
    return hdr, ev, tw, asy, flushes


def canon(f):
    """null pointer == empty string in every observation"""
    g = list(f)
    for k in (2, 4, 5):
        if g[k] == '-':
            g[k] = 'h'
    return g


def unhex_text(f):
    try:
        return bytes.fromhex(f[1:]).decode('utf-8', 'replace') if f.startswith('h') else None
    except ValueError:
        return None


def rendered_times(d):
    """the text the sink received from PatternFormatter("%{time process}~%{time boot}~%{time hh:mm:ss.zzz}") -> (process ms, boot ms, clock text)"""
    txt = unhex_text(d[9])
    if txt is None:
        return None
    f = txt.split('~')
    try:
        return int(round(float(f[0]) * 1000)), int(round(float(f[1]) * 1000)), f[2]
    except (ValueError, IndexError):
        return None


def time_diff(mode, twin, got, tcal, model_src):
    """time-format runs: the time stamps the sink can see - steadyTime(), time() and the text rendered from them on the logger
    thread - against the values captured at the call.  model_src = what the translated formatter reads for (process, boot):
    'message' (lmsg.steadyTime()) is the case theorem C03_rendered_time_same_as_synchronous is about.
    returns (what, detail dict) or None"""
    r = rendered_times(got)
    if r is None:
        return 'the sink did not receive the text of the time formatter', {'formatted': got[9][:80]}
    proc_ms, boot_ms, clock = r
    own_ms = int(got[7]) // 10 ** 6
    det = {'rendered_process_s': proc_ms / 1000.0, 'rendered_boot_s': boot_ms / 1000.0, 'message_steadyTime_ms': own_ms,
           'boot_minus_process_ms': boot_ms - proc_ms, 'calibrated_boot_minus_process_ms': tcal, 'formatter_reads_translated': model_src}
    if mode == 'logger' and '..' in twin[7]:
        lo, hi = (int(x) // 10 ** 6 for x in twin[7].split('..'))
        det['call_interval_steady_ms'] = [lo, hi]
        if boot_ms > hi or boot_ms < lo:
            return ('%%{time boot} reached the sink as %.3f s but the logging call ran in [%.3f, %.3f] s of the same clock: %d ms %s the call'
                    % (boot_ms / 1000.0, lo / 1000.0, hi / 1000.0, boot_ms - hi if boot_ms > hi else lo - boot_ms,
                       'AFTER the return of' if boot_ms > hi else 'before')), det
    if boot_ms != own_ms:
        return ('%%{time boot} reached the sink as %.3f s but steadyTime() of that very message is %.3f s (%+d ms)'
                % (boot_ms / 1000.0, own_ms / 1000.0, boot_ms - own_ms)), det
    if abs(boot_ms - proc_ms - tcal) > 1:
        return ('%%{time process} reached the sink as %.3f s, %+d ms off what steadyTime() of the message gives (%%{time boot} = %.3f s, '
                'process start = boot - %d ms)' % (proc_ms / 1000.0, tcal - (boot_ms - proc_ms), boot_ms / 1000.0, tcal)), det
    iso = got[6].split('~')[-1]
    if len(iso) >= 23 and clock != iso[11:23]:
        return '%%{time hh:mm:ss.zzz} reached the sink as %s but time() of the message is %s' % (clock, iso), det
    return None


def content_diff(mode, twin, got, tfmt=0):
    """fields of the delivered message that differ from what a synchronous sink saw"""
    t, g = canon(twin), canon(got)
    bad = []
    for k in range(11):
        if mode == 'logger' and k == 6:
            # twin: lo..hi~timeSpec~offsetFromUtc~*   delivered: msecs~timeSpec~offsetFromUtc~ISO text
            tt, gt = t[6].split('~'), g[6].split('~')
            lo, hi = (int(x) for x in tt[0].split('..'))
            if not (lo <= int(gt[0]) <= hi) or tt[1:3] != gt[1:3]:
                bad.append(k)
        elif mode == 'logger' and k == 7:
            # twin: the steady clock before the call .. after it returned
            if '..' in t[7]:
                lo, hi = (int(x) for x in t[7].split('..'))
                if not (lo <= int(g[7]) <= hi):
                    bad.append(k)
        elif mode == 'logger' and k == 9 and tfmt:
            continue            # rendered on the logger thread from the message's own time stamps: see time_diff
        elif t[k] != g[k]:
            bad.append(k)
    return bad


def order_oracles(ev, n, per, quotas=None):
    """direct boolean oracles on the ticketed trace"""
    pos = {}
    posts, delivs = [], []
    bad = []
    for k, tok in enumerate(ev):
        f = tok.split('.')
        if f[0] == '?':
            bad.append(('torn_trace', 'unwritten event slot', k)); continue
        key = (f[0], int(f[1]), int(f[2]))
        if key in pos and f[0] == 'D':
            bad.append(('duplicate', 'message %s of producer %s delivered twice' % (f[2], f[1]), k))
        pos[key] = k
        if f[0] == 'P':
            posts.append((int(f[1]), int(f[2])))
        elif f[0] == 'D':
            delivs.append((int(f[1]), int(f[2])))
    quotas = quotas or [per] * n
    n = len(quotas)
    want = [(p, i) for p in range(n) for i in range(quotas[p])]
    missing = [m for m in want if ('D',) + m not in pos]
    if missing:
        bad.append(('lost', 'message %d of producer %d never delivered (%d missing)' % (missing[0][1], missing[0][0], len(missing)), len(ev)))
    nxt = [0] * n
    for k, (p, i) in enumerate(delivs):
        if 0 <= p < n:
            if i != nxt[p]:
                bad.append(('producer_order', 'producer %d: message %d delivered where %d was due' % (p, i, nxt[p]), k));
            nxt[p] = max(nxt[p], i + 1)
    if not bad and delivs != posts:
        k = next(j for j in range(min(len(delivs), len(posts))) if delivs[j] != posts[j]) if len(delivs) == len(posts) else min(len(delivs), len(posts))
        bad.append(('fifo', 'delivery #%d is %s but post #%d was %s' % (k, delivs[k] if k < len(delivs) else None, k, posts[k] if k < len(posts) else None), k))
    # real time: a call that returned before another began is delivered first
    suffix_min = None
    for (p, i) in reversed(delivs):
        c = pos.get(('C', p, i))
        if suffix_min is not None and c is not None and suffix_min[0] < c:
            a = suffix_min[1]
            bad.append(('real_time', 'call (%d,%d) returned (ticket %d) before call (%d,%d) began (ticket %d) but was delivered later' % (a[0], a[1], suffix_min[0], p, i, c), c))
            break
        t = pos.get(('T', p, i))
        if t is not None and (suffix_min is None or t < suffix_min[0]):
            suffix_min = (t, (p, i))
    for (p, i) in delivs:
        if ('P', p, i) in pos and pos[('D', p, i)] < pos[('P', p, i)]:
            bad.append(('early_delivery', 'message (%d,%d) delivered before its post' % (p, i), pos[('D', p, i)])); break
    return bad


DRAIN = ('drain', 'drainlast')


def run_one(impl, cfg, timeout=120, env=None):
    line = '%s %d %d %d %d %d %d %d' % (cfg['mode'], cfg['n'], cfg['per'], cfg['seed'], cfg['perturb'], cfg['sinkdelay'], cfg.get('stall', 0), cfg.get('tfmt', 0))
    env = dict(env or {})
    if cfg.get('tz'):
        env['TZ'] = cfg['tz']       # a POSIX zone that is not UTC (no tz database needed): local time != UTC for the child
    rc, out, err = vlib.sh([impl] + (['--no-app-first'] if cfg.get('noappfirst') else []), inp=(line + '\n').encode(), timeout=timeout, env=env)
    return (rc,) + parse_out(out) + (err,)


def gen_configs(chk, reps, total):
    cfgs = []
    for rep in range(reps):
        for mode in ('bare', 'logger'):
            for n in (1, 2, 4, 8, 16):
                cfgs.append({'mode': mode, 'n': n, 'per': max(2, total // n), 'seed': chk.rng.randrange(1, 2 ** 31),
                             'perturb': chk.rng.choice([0, 1, 2, 2, 3]), 'sinkdelay': chk.rng.choice([0, 1, 2, 2]), 'stall': 0,
                             'tz': chk.rng.choice(['DEMO-05:30', 'DEMO-05:30', 'XYZ+03', '']), 'tfmt': chk.rng.choice([0, 1])})
    return cfgs


def special_configs(chk, reps):
    """a sink that logs from the logger thread while a backlog is queued; a producer logging while resetOwnThread() drains"""
    cfgs = []
    for _ in range(reps):
        for mode, n, per in (('relog', 2, 300), ('relog', 4, 150), ('drain', 2, 15), ('drainlast', 2, chk.rng.choice([1, 2, 3]))):
            cfgs.append({'mode': mode, 'n': n, 'per': per, 'seed': chk.rng.randrange(1, 2 ** 31), 'perturb': chk.rng.choice([0, 1]),
                         'sinkdelay': 1 if mode == 'relog' else 0, 'stall': 400 if mode == 'drainlast' else 0, 'tz': '', 'tfmt': 1 if mode in DRAIN else 0})
    return cfgs


def noapp_configs(chk, reps):
    """moveToOwnThread() called (and messages logged) while NO QCoreApplication exists yet; the application object is created
    afterwards, more messages are logged from the main thread and a second thread, the main thread spins its event loop until all
    are delivered: every handler step must still run on the logger thread (never on the caller once it runs an event loop).
    noappfirst=0 is the control: the same scenario with the application object present from the start."""
    return [{'mode': 'noapp', 'n': 2, 'per': chk.rng.choice([3, 20, 100]), 'seed': chk.rng.randrange(1, 2 ** 31), 'perturb': chk.rng.choice([0, 1, 2]),
             'sinkdelay': chk.rng.choice([0, 1]), 'stall': 0, 'tz': '', 'tfmt': chk.rng.choice([0, 1]), 'noappfirst': f}
            for _ in range(reps) for f in (1, 0)]


def long_drain_configs(chk, thorough):
    """a slow sink and a burst worth 8 s of sink work queued when resetOwnThread() is called (more than any grace period - 3 s of
    draining + wait(3000) - a stop could apply): every message must still reach the sink, in order, on the logger thread"""
    shapes = [(16, 500)] + ([(80, 100), (32, 250)] if thorough else [])
    return [{'mode': 'drain', 'n': 2, 'per': per, 'seed': chk.rng.randrange(1, 2 ** 31), 'perturb': chk.rng.choice([0, 1]), 'sinkdelay': 0,
             'stall': ms, 'tz': '', 'tfmt': 1} for per, ms in shapes]


def stall_configs(chk, total, ms):
    """a stalled sink and a large backlog: the sink sleeps `ms` inside its first delivery while `total` messages are posted;
    no logging call may wait for it; the pipeline renders %{time process} / %{time boot} on the logger thread, up to `ms` after the call"""
    return [{'mode': mode, 'n': 4, 'per': total // 4, 'seed': chk.rng.randrange(1, 2 ** 31), 'perturb': 0, 'sinkdelay': 0, 'stall': ms, 'tfmt': 1}
            for mode in ('bare', 'logger')]


def evaluate(chk, model, cfg, res, stats, report):
    rc, hdr, ev, tw, asy, flushes, err = res
    n, per, mode = cfg['n'], cfg['per'], cfg['mode']
    mq = re.search(r'quotas=([\d,]+)', hdr or '')
    quotas = [int(x) for x in mq.group(1).split(',')] if mq else [per] * n
    cmode = 'logger' if mode == 'relog' else ('bare' if mode in DRAIN or mode == 'noapp' else mode)      # how the twin records were made
    if rc != 0 or hdr is None or 'AddressSanitizer' in err or 'runtime error' in err:
        kind = 'hang' if rc == 124 else ('sanitizer' if ('AddressSanitizer' in err or 'runtime error' in err) else 'crash')
        stats['kinds'][kind] = stats['kinds'].get(kind, 0) + 1
        report('%s of the harness during asynchronous logging (%s, %d producers)' % (kind, mode, n),
               dict(cfg, kind=kind, rc=rc, stderr=err[-1500:]), kind)
        return
    stats['events'] += len(ev); stats['deliveries'] += len(asy)
    if mode == 'noapp':
        ma = re.search(r'app_at_move=(-?\d+)', hdr)
        want_app = 0 if cfg.get('noappfirst') else 1
        if not ma or int(ma.group(1)) != want_app:
            chk.broke('the harness did not set up the requested application-object state at moveToOwnThread() time', dict(cfg, kind='noapp_setup', header=hdr))
        stats['noapp_runs' if cfg.get('noappfirst') else 'noapp_control_runs'] += 1
        stats['deliveries_moved_before_app'] += len(asy) if cfg.get('noappfirst') else 0
    # --- a sink that logs from the logger thread: the nested message is queued like any other, the pipeline never runs nested
    mn = re.search(r'max_nesting=(\d+)', hdr)
    if mode == 'relog':
        stats['relog_runs'] += 1
        if mn and int(mn.group(1)) > 1:
            stats['kinds']['nested_pipeline'] = stats['kinds'].get('nested_pipeline', 0) + 1
            report('a message logged by a sink on the logger thread was run through the pipeline NESTED inside the delivery of another message '
                   '(depth %s) instead of being queued behind the %d messages already posted' % (mn.group(1), sum(quotas) - 1),
                   dict(cfg, kind='nested_pipeline', depth=int(mn.group(1)), header=hdr), 'nested_pipeline')
    # --- a producer logging while resetOwnThread() drains the backlog behind a slow sink
    mc = re.search(r'maxcall_us=(\d+)', hdr)
    if mode in DRAIN and mc:
        stats['drain_runs'] += 1
        stats['max_call_ms_during_drain'] = max(stats['max_call_ms_during_drain'], int(mc.group(1)) // 1000)
        stats['max_backlog_ms_at_reset'] = max(stats['max_backlog_ms_at_reset'], quotas[0] * (cfg.get('stall') or 100))
        if int(mc.group(1)) > 500000:
            stats['kinds']['blocked_on_sink'] = stats['kinds'].get('blocked_on_sink', 0) + 1
            report('a logging call made %s after resetOwnThread() began took %d ms: it waited until the slow sink (%d ms per message) had '
                   'drained the %d queued messages' % ('200 ms' if mode == 'drain' else 'while the sink was inside the last queued message,',
                                                       int(mc.group(1)) // 1000, cfg.get('stall') or 100, quotas[0]),
                   dict(cfg, kind='blocked_on_sink', scenario=mode, max_call_ms=int(mc.group(1)) // 1000, queued=quotas[0], header=hdr), 'blocked_on_sink')
    # --- the logging call never waits for a sink
    if cfg.get('stall') and mc and mode not in DRAIN:
        stats['stalled_sink_runs'] += 1
        stats['max_call_ms_while_sink_stalled'] = max(stats['max_call_ms_while_sink_stalled'], int(mc.group(1)) // 1000)
        if int(mc.group(1)) > cfg['stall'] * 1000 * 2 // 3:
            stats['kinds']['blocked_on_sink'] = stats['kinds'].get('blocked_on_sink', 0) + 1
            report('a logging call took %d ms while the sink was stalled for %d ms with %d messages outstanding: the call waited for the sink'
                   % (int(mc.group(1)) // 1000, cfg['stall'], n * per),
                   dict(cfg, kind='blocked_on_sink', max_call_ms=int(mc.group(1)) // 1000, backlog=n * per, header=hdr), 'blocked_on_sink')
    # --- content: every delivered message vs its synchronous twin
    tfmt = cfg.get('tfmt', 0)
    mt = re.search(r'tcal=(-?\d+)', hdr)
    tcal = int(mt.group(1)) if mt else 0
    stats['time_format_runs'] += 1 if tfmt else 0
    for k, p, i, w, d in asy:
        twin = tw.get((p, i))
        if twin is None:
            stats['kinds']['foreign'] = stats['kinds'].get('foreign', 0) + 1
            report('sink received a message nobody sent: producer %d index %d' % (p, i), dict(cfg, kind='foreign', delivered=d), 'foreign')
            break
        td = time_diff(cmode, twin, d, tcal, stats['model_time_source']) if tfmt else None
        stats['rendered_times_checked'] += 1 if tfmt else 0
        if td:
            stats['kinds']['timestamp'] = stats['kinds'].get('timestamp', 0) + 1
            report('the time stamp a sink observes differs from the one the message was logged with: %s (message %d of producer %d, %s mode, '
                   'delivery #%d of %d; PatternFormatter "%%{time process}~%%{time boot}~%%{time hh:mm:ss.zzz}" in the asynchronous pipeline)'
                   % (td[0], i, p, mode, k, len(asy)),
                   dict(cfg, kind='timestamp', producer=p, index=i, delivery=k, detail=td[0], **td[1]), 'timestamp')
            break
        bad = content_diff(cmode, twin, d, tfmt)
        if bad:
            stats['kinds']['content'] = stats['kinds'].get('content', 0) + 1
            report('delivered message differs from what a synchronous sink sees in field(s) %s (message %d of producer %d, %s mode)'
                   % ([FIELDS[b] for b in bad], i, p, mode),
                   dict(cfg, kind='content', fields=[FIELDS[b] for b in bad], producer=p, index=i,
                        synchronous={FIELDS[b]: twin[b] for b in bad}, asynchronous={FIELDS[b]: d[b] for b in bad},
                        null_file=(twin[2] == '-'), delivery=k), 'content')
            break
        if d[11] != str(k):
            stats['kinds']['seq'] = stats['kinds'].get('seq', 0) + 1
            report('delivery #%d carries seq_number %s' % (k, d[11]), dict(cfg, kind='seq', delivery=k, seq=d[11]), 'seq')
            break
        if w != 1:
            stats['kinds']['off_worker'] = stats['kinds'].get('off_worker', 0) + 1
            report('message %d of producer %d was run through the sink on a thread that is not the logger thread (ownThread())%s' % (i, p,
                   '; moveToOwnThread() was called before the QCoreApplication existed, the application object was created afterwards and the main '
                   'thread ran its event loop' if cfg.get('noappfirst') else ''),
                   dict(cfg, kind='off_worker', producer=p, index=i, delivery=k, deliveries_off_the_logger_thread=sum(1 for a in asy if a[3] != 1),
                        deliveries=len(asy), app_exists_at_moveToOwnThread=(0 if cfg.get('noappfirst') else 1)), 'off_worker')
            break
    # --- every sink entry point (send AND flush) on the logger thread only
    stats['fatal_msgs'] += sum(1 for v in tw.values() if v[0] == '3')
    off = [f for f in flushes if f[2] != 1]
    if off:
        stats['kinds']['off_worker'] = stats['kinds'].get('off_worker', 0) + 1
        report('Sink::flush() was entered on a producer thread (producer %d, while logging its message %d) although the logger runs in its own thread'
               % (off[0][0], off[0][1]), dict(cfg, kind='off_worker', entry='flush', producer=off[0][0], index=off[0][1],
                                               message_type=(tw.get((off[0][0], off[0][1])) or ['?'])[0], flush_entries_off_worker=len(off)), 'off_worker')
    stats['null_ptr_msgs'] += sum(1 for v in tw.values() if v[2] == '-')
    stats['nul_texts'] += sum(1 for v in tw.values() if '00' in [v[1][k:k + 2] for k in range(1, len(v[1]), 2)])
    stats['preformatted_msgs'] += sum(1 for v in tw.values() if v[9] != '-')
    stats['empty_texts'] += sum(1 for v in tw.values() if v[1] == 'h')
    stats['empty_texts_delivered'] += sum(1 for a in asy if a[4][1] == 'h')
    stats['empty_first_or_last'] += sum(1 for (p, i), v in tw.items() if v[1] == 'h' and (i == 0 or (p < len(quotas) and i == quotas[p] - 1)))
    # --- model copy == implementation (bare mode: the twin dump is the original message)
    if cmode == 'bare' and asy:
        keys = [(p, i) for _, p, i, _, _ in asy if (p, i) in tw]
        rcm, outm, _ = vlib.run_lines(model, ['|'.join(tw[k]) for k in keys], ['copy'])
        got = {(p, i): d for _, p, i, _, d in asy}
        for key, mo in zip(keys, outm):
            stats['model_copies'] += 1
            if mo.split('|') != canon(got[key])[:11]:
                stats['model_disagreements'] += 1
                if not content_diff(cmode, tw[key], got[key]):
                    chk.broke('model copy differs from the delivered message although it equals its twin', dict(cfg, kind='model_copy', model=mo, impl='|'.join(got[key])))
                break
    # --- order: acceptor + direct oracles
    bad = order_oracles(ev, n, per, quotas)
    line = '%d %s %s' % (len(quotas), ','.join(str(q) for q in quotas), ' '.join(t for t in ev if t[0] in 'CPRTD'))
    _, outa, _ = vlib.run_lines(model, [line], ['trace'])
    try:
        acc, pre, tot = (int(x) for x in outa[0].split())
    except Exception:
        chk.broke('model driver produced no verdict', dict(cfg, kind='driver')); return
    stats['acceptor_runs'] += 1
    if bad:
        b = bad[0]
        stats['kinds'][b[0]] = stats['kinds'].get(b[0], 0) + 1
        extra = {}
        if b[0] == 'lost':      # what the synchronous sink saw of the messages that never arrived
            dl = set((p, i) for _, p, i, _, _ in asy)
            lost = sorted(k for k in tw if k not in dl)
            extra = {'lost_messages_as_the_synchronous_sink_saw_them': [dict(producer=k[0], index=k[1], first_of_producer=(k[1] == 0),
                                                                              last_of_producer=(k[0] < len(quotas) and k[1] == quotas[k[0]] - 1),
                                                                              **{FIELDS[x]: tw[k][x] for x in (0, 1, 2, 3, 9)}) for k in lost[:3]],
                     'lost_with_empty_text': sum(1 for k in lost if tw[k][1] == 'h'), 'lost_total': len(lost)}
        report('%s: %s (%s mode, %d producers x %d messages)%s' % (b[0], b[1], mode, n, per,
                                                                     '; %d of the %d lost messages have an empty text' % (extra['lost_with_empty_text'], extra['lost_total']) if extra.get('lost_with_empty_text') else ''),
               dict(cfg, kind=b[0], detail=b[1], **extra, acceptor={'accept': acc, 'prefix': pre, 'events': tot},
                    trace_around_first_rejected_event=ev[max(0, pre - 25):pre + 3], header=hdr), b[0])
    elif acc != 1:
        stats['kinds']['rejected'] = stats['kinds'].get('rejected', 0) + 1
        report('the recorded trace is not a trace of the protocol model: event #%d (%s) rejected' % (pre, ev[pre] if pre < len(ev) else 'end of trace: incomplete'),
               dict(cfg, kind='rejected', acceptor={'accept': acc, 'prefix': pre, 'events': tot},
                    trace_around_first_rejected_event=ev[max(0, pre - 25):pre + 3], header=hdr), 'rejected')
    # backlog actually exercised? (a post happening while an earlier message is still undelivered)
    outstanding = mx = 0
    for t in ev:
        if t[0] == 'P':
            outstanding += 1; mx = max(mx, outstanding)
        elif t[0] == 'D':
            outstanding -= 1
    stats['max_backlog'] = max(stats['max_backlog'], mx)
    stats['runs_with_backlog'] += 1 if mx >= 2 else 0


def run():
    chk = vlib.Check('C03')
    chk.trusted = ['Coq 8.16.1 kernel; vm_compute only on closed terms (skeleton equalities, copy_ok src_copy_cfg, examples)',
                   'axioms: none (every Print Assumptions: Closed under the global context)',
                   'tools/s2c/async.py + the statement walker of tools/s2c/conc.py (logmessage.h, ownthreadhandler.h -> SrcAsync.v)',
                   'extraction ExtrOcamlBasic, ocaml/drv_async.ml; harness/h_async.cpp (tickets only in harness code and the hook)',
                   'QThread, QMutex, QAtomicInt, QCoreApplication::postEvent are modelled, not verified']
    chk.assumptions = ["Qt's posted-event queue is FIFO per receiver at equal priority (ASSUMED; the model's queue is a FIFO list)",
                       'a QCoreApplication exists (at the latest before the logger thread is stopped; moveToOwnThread() before it exists is exercised) and the worker is stopped through resetOwnThread() (exit paths are C04)',
                       'count-and-post is one atomic step inside the critical section of the handler mutex',
                       'null C string and "" are identified in every observation (the copy constructor turns nullptr into "")']
    proof_ok = chk.proof(vlib.proof_leg('Properties_C03', ['async']))
    model = vlib.build_model('async')
    impl = vlib.build_harness('async')
    thorough = chk.tier == 'thorough'
    cfgs = noapp_configs(chk, 3 if thorough else 1) + long_drain_configs(chk, thorough) + stall_configs(chk, 40000 if thorough else 10400, 1500) + special_configs(chk, 3 if thorough else 1) + gen_configs(chk, 8 if thorough else 2, 1200)
    if not proof_ok:
        cfgs += gen_configs(chk, 3, 1200) + stall_configs(chk, 40000, 2500) + special_configs(chk, 2) + long_drain_configs(chk, True)[1:]
    stats = {'events': 0, 'deliveries': 0, 'kinds': {}, 'model_copies': 0, 'model_disagreements': 0, 'acceptor_runs': 0,
             'max_backlog': 0, 'runs_with_backlog': 0, 'null_ptr_msgs': 0, 'preformatted_msgs': 0,
             'stalled_sink_runs': 0, 'max_call_ms_while_sink_stalled': 0, 'fatal_msgs': 0, 'relog_runs': 0, 'drain_runs': 0,
             'max_call_ms_during_drain': 0, 'nul_texts': 0, 'max_backlog_ms_at_reset': 0,
             'empty_texts': 0, 'empty_texts_delivered': 0, 'empty_first_or_last': 0,
             'time_format_runs': 0, 'rendered_times_checked': 0, 'model_time_source': None, 'model_sink_thread': None,
             'noapp_runs': 0, 'noapp_control_runs': 0, 'deliveries_moved_before_app': 0}
    # what the translated TimeToken reads for %{time process} / %{time boot} (the model's render_rel is evaluated with it)
    _, ts_out, _ = vlib.run_lines(model, ['-'], ['tsrc'])
    stats['model_time_source'] = (ts_out or ['?'])[0].strip()
    if stats['model_time_source'] != 'process=message boot=message':
        chk.broke('the translated time formatter does not render %%{time process} / %%{time boot} from the time stamp carried by the message: %s'
                  % stats['model_time_source'], {'kind': 'time_source', 'model_time_source': stats['model_time_source']})
    # the thread the model predicts for the sink steps, application object present / absent at moveToOwnThread() time
    _, wt_out, _ = vlib.run_lines(model, ['-'], ['wthread'])
    stats['model_sink_thread'] = (wt_out or ['?'])[0].strip()
    if stats['model_sink_thread'] != 'app=own noapp=own':
        chk.broke('the translated moveToOwnThread() does not give the worker object the affinity of the own thread unconditionally: the model '
                  'predicts the sink steps on %s' % stats['model_sink_thread'], {'kind': 'worker_affinity', 'model_sink_thread': stats['model_sink_thread']})
    reported = [0]

    def report(what, replay, kind):
        if reported[0] < 4:
            chk.fail(what, replay, kind=kind)
            reported[0] += 1

    with concurrent.futures.ThreadPoolExecutor(max_workers=4) as ex:
        futs = [(c, ex.submit(run_one, impl, c, 40 if c['mode'] in ('relog', 'drain') and not c.get('stall') else 120)) for c in cfgs]
        results = [(c, f.result()) for c, f in futs]
    for c, r in results:
        evaluate(chk, model, c, r, stats, report)
    san = None
    if thorough or os.path.exists(os.path.join(vlib.BUILD, 'libqtlogger_san.a')):
        # freed-buffer case under ASan+UBSan (always in the thorough tier; in the quick tier when the sanitized library is already built)
        try:
            simpl = vlib.build_harness('async', 'san')
            scfgs = gen_configs(chk, 1, 600)[:(10 if thorough else 3)]
            env = {'ASAN_OPTIONS': 'detect_leaks=0:abort_on_error=0:exitcode=23', 'UBSAN_OPTIONS': 'print_stacktrace=1'}
            for c in scfgs:
                r = run_one(simpl, c, timeout=300, env=env)
                evaluate(chk, model, dict(c, sanitizer=True), r, stats, report)
            san = {'runs': len(scfgs)}
        except RuntimeError as e:
            san = {'error': str(e)[-400:]}
    chk.cov.update({'evaluations': len(results) + (san or {}).get('runs', 0),
                    'distinct_nontrivial': sum(1 for c, r in results if r[1] is not None and len(r[4]) >= 2 * c['n']),
                    'rule': 'runs = repetitions x {bare OwnThreadHandler<SimplePipeline>, installed Logger via QMessageLogger} in own-thread mode x '
                            'producers in {1,2,4,8,16}, ~1200 messages per run, heap source-location buffers scrubbed+freed after the call, '
                            'every 5th message null file/function, every 7th null category, empty texts (null QString / "": first message of every other producer, last message of the others, every 13th in between), all five message types incl. QtFatalMsg (fatal via '
                            'process()/Logger::processMessage directly), children run under non-UTC POSIX zones (TZ=DEMO-05:30 / XYZ+03), '
                            'the time is compared as msecs+timeSpec+offsetFromUtc+ISO text, send() and flush() entries must be on the logger thread, seeded perturbation at the schedule points, '
                            'half of the runs with PatternFormatter("%{time process}~%{time boot}~%{time hh:mm:ss.zzz}") in the asynchronous pipeline: the rendered '
                            'text must be what the message\'s own steadyTime()/time() give (bare: equal to the synchronous rendering; logger: inside the steady-clock '
                            'interval of the call; the stalled-sink and drain runs render up to seconds after the call), '
                            'slow/fast sink, a burst worth 8 s of sink work queued when resetOwnThread() is called (every message must still be delivered), plus runs with a sink stalled for 1.5 s under a backlog of >= 10 400 messages (no call may wait for it); '
                            'non-trivial = at least two deliveries per producer',
                    'events_recorded': stats['events'], 'deliveries_compared_with_twin': stats['deliveries'],
                    'messages_with_null_pointers': stats['null_ptr_msgs'], 'messages_preformatted': stats['preformatted_msgs'],
                    'model_copies_compared': stats['model_copies'], 'model_vs_impl_disagreements': stats['model_disagreements'],
                    'traces_fed_to_acceptor': stats['acceptor_runs'], 'max_backlog_seen': stats['max_backlog'],
                    'runs_with_backlog_ge_2': stats['runs_with_backlog'],
                    'mode_histogram': {m: sum(1 for c, _ in results if c['mode'] == m) for m in ('bare', 'logger', 'relog', 'drain', 'drainlast', 'noapp')},
                    'producers_histogram': {str(n): sum(1 for c, _ in results if c['n'] == n) for n in (1, 2, 4, 8, 16)},
                    'sinkdelay_histogram': {str(d): sum(1 for c, _ in results if c['sinkdelay'] == d) for d in range(3)},
                    'fatal_level_messages': stats['fatal_msgs'], 'texts_with_embedded_NUL': stats['nul_texts'],
                    'messages_with_empty_text': stats['empty_texts'], 'empty_text_messages_delivered': stats['empty_texts_delivered'],
                    'empty_text_as_first_or_last_message_of_a_producer': stats['empty_first_or_last'],
                    'relogging_sink_runs': stats['relog_runs'], 'drain_runs': stats['drain_runs'], 'max_backlog_ms_queued_at_reset': stats['max_backlog_ms_at_reset'], 'max_call_ms_during_drain': stats['max_call_ms_during_drain'],
                    'tz_histogram': {z or 'inherited': sum(1 for c, _ in results if c.get('tz', '') == z) for z in ('DEMO-05:30', 'XYZ+03', '')},
                    'time_format_runs': stats['time_format_runs'], 'rendered_time_texts_compared': stats['rendered_times_checked'],
                    'time_format_histogram': {str(t): sum(1 for c, _ in results if c.get('tfmt', 0) == t) for t in (0, 1)},
                    'translated_time_source': stats['model_time_source'],
                    'moveToOwnThread_before_QCoreApplication_runs': stats['noapp_runs'], 'same_scenario_with_application_first_runs': stats['noapp_control_runs'],
                    'deliveries_checked_on_logger_thread_moved_before_app': stats['deliveries_moved_before_app'],
                    'model_sink_thread_by_application_object_at_move': stats['model_sink_thread'],
                    'stalled_sink_runs': stats['stalled_sink_runs'], 'max_call_ms_while_sink_stalled': stats['max_call_ms_while_sink_stalled'],
                    'violation_kinds': stats['kinds'], 'sanitizer_variant': san})
    chk.samples = [{'config': c, 'header': r[1], 'first_events': r[2][:14]} for c, r in results[:3]]
    return chk.finish()


def replay(path):
    r = json.load(open(path))['replay']
    if isinstance(r, list):
        r = r[0]
    if 'mode' not in r:
        print(json.dumps(r, indent=1)); return 0
    vlib.gen_src(['async'])
    model = vlib.build_model('async')
    impl = vlib.build_harness('async', 'san' if r.get('sanitizer') else '')
    cfg = {k: r.get(k, 0) for k in ('mode', 'n', 'per', 'seed', 'perturb', 'sinkdelay', 'stall', 'tfmt')}
    cfg['tz'] = r.get('tz', '')
    cfg['noappfirst'] = r.get('noappfirst', 0)
    print('recorded:', r.get('kind'), r.get('detail') or r.get('fields'), {k: r.get(k) for k in ('synchronous', 'asynchronous') if k in r})
    for k in range(3):
        rc, hdr, ev, tw, asy, flushes, err = run_one(impl, cfg)
        cm = 'logger' if cfg['mode'] == 'relog' else ('bare' if cfg['mode'] in DRAIN or cfg['mode'] == 'noapp' else cfg['mode'])
        diffs = [(p, i, [FIELDS[b] for b in content_diff(cm, tw[(p, i)], d, cfg['tfmt'])]) for _, p, i, _, d in asy if (p, i) in tw and content_diff(cm, tw[(p, i)], d, cfg['tfmt'])]
        if cfg['tfmt']:
            mt = re.search(r'tcal=(-?\d+)', hdr or '')
            tds = [(p, i, time_diff(cm, tw[(p, i)], d, int(mt.group(1)) if mt else 0, None)) for _, p, i, _, d in asy if (p, i) in tw]
            tds = [(p, i, t[0]) for p, i, t in tds if t]
            print('          rendered time stamps that differ from the message\'s own: %d of %d, first: %s' % (len(tds), len(asy), tds[:1]))
        line = '%d %s %s' % (cfg['n'], ','.join([str(cfg['per'])] * cfg['n']), ' '.join(ev))
        print('re-run %d: rc=%d %s content differences: %s; order: %s; acceptor: %s; off-worker deliveries: %d'
              % (k, rc, hdr, diffs[:2], order_oracles(ev, cfg['n'], cfg['per'])[:2], vlib.run_lines(model, [line], ['trace'])[1],
                 sum(1 for a in asy if a[3] != 1) + sum(1 for f in flushes if f[2] != 1)))
    return 0
