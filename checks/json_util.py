"""helpers shared by checks/c13.py and checks/c18.py: hex line protocol, generators of strings /
attribute values / attribute names aimed at the case splits of the JSON proofs, and the conversion
of a generated value into what Python's json module must give back."""
import json

HIGH = (0xD800, 0xDBFF)
LOW = (0xDC00, 0xDFFF)


def hx(units):
    """list of UTF-16 code units -> protocol token ('-' for the empty string)"""
    return ''.join('%04x' % u for u in units) if units else '-'


def unhx(tok):
    if tok in ('-', '0', ''):
        return []
    return [int(tok[i:i + 4], 16) for i in range(0, len(tok), 4)]


def units(s):
    """python str (may hold lone surrogates) -> UTF-16 code units"""
    b = s.encode('utf-16-be', 'surrogatepass')
    return [(b[i] << 8) | b[i + 1] for i in range(0, len(b), 2)]


def pystr(us):
    """UTF-16 code units -> python str, pairing surrogates (lone ones stay lone)"""
    b = bytes(x for u in us for x in (u >> 8, u & 255))
    return b.decode('utf-16-be', 'surrogatepass')


def well_formed(us):
    i = 0
    while i < len(us):
        u = us[i]
        if HIGH[0] <= u <= HIGH[1]:
            if i + 1 < len(us) and LOW[0] <= us[i + 1] <= LOW[1]:
                i += 2
                continue
            return False
        if LOW[0] <= u <= LOW[1]:
            return False
        i += 1
    return True


# every branch of `escape` (JsonDefs.v) and of the key order `str_ltb`
ESCAPE_CLASSES = {
    'quote': [0x22], 'backslash': [0x5C], 'b': [8], 'f': [12], 'n': [10], 'r': [13], 't': [9],
    'ctl_u00XX': [0, 1, 7, 0x0B, 0x0E, 0x1F], 'slash': [0x2F], 'del': [0x7F], 'c1': [0x80, 0x85, 0x9F],
    'u2028': [0x2028, 0x2029], 'bmp': [0xE9, 0x4E2D, 0x65E5, 0xFFFD, 0xFEFF], 'bmp_high': [0xE000, 0xFFFF, 0xFFFE],
    'ascii': [0x20, 0x41, 0x61, 0x7A, 0x7E, 0x7B, 0x7D, 0x5B, 0x5D, 0x3A, 0x2C, 0x30, 0x39, 0x2D, 0x25],
    # single characters that are well-formed but not in Unicode normalisation form C (singleton / compatibility-ideograph /
    # excluded decompositions: ANGSTROM, OHM, KELVIN SIGN, U+F900, EN QUAD, U+0340, U+0343, U+0344, U+0374, U+037E, U+0387, U+1F71,
    # U+0958, U+FB1D, U+2ADC) and lone combining marks / conjoining jamo that compose with what a neighbour may be
    'not_nfc': [0x212B, 0x2126, 0x212A, 0xF900, 0x2000, 0x0340, 0x0343, 0x0344, 0x0374, 0x037E, 0x0387, 0x1F71, 0x0958, 0xFB1D, 0x2ADC,
                0x0301, 0x0308, 0x030A, 0x1161, 0x11A8],
}
ASTRAL = [[0xD83D, 0xDE00], [0xD800, 0xDC00], [0xDBFF, 0xDFFF], [0xD834, 0xDD1E]]
# well-formed sequences that are NOT in normalisation form C / KC / D: nothing may compose, decompose or reorder them
# (e + U+0301, A + U+030A, marks in non-canonical order, decomposed Hangul jamo LV / LVT, U+1D15E as a surrogate pair, NFD of U+00C5)
NOT_NFC_SEQS = [[0x65, 0x0301], [0x41, 0x030A], [0x61, 0x0307, 0x0323], [0x1100, 0x1161], [0x1100, 0x1161, 0x11A8], [0xD834, 0xDD5E],
                [0x212B], [0x2126], [0x6F, 0x0308, 0x0304], [0x0915, 0x093C], [0xAC00, 0x11A8], [0xFB01], [0xFF21], [0x00B5], [0x1E9B, 0x0323]]
POOL = ['', 'a', 'hello world', 'q"uote', 'back\\slash', 'nl\nx', 'tab\t', '\x01\x1f', '\x7f', '\u00e9', '  ',
        '\U0001F600', '\u65e5\u672c', '/slash', '\r\n', '{"k":1}', '%{x}', '\u2028\u2029', 'null', 'true', '-1',
        '\\u0041', '\\n', '"', '\\', '\\"', 'a\x00b', '\ud7ff\ue000', '</script>', '\x1b[0m',
        'cafe\u0301', '\u212b\u2126\u212a', '\u1100\u1161\u11a8', '\U0001D15E', 'A\u030a ngstro\u0308m', 'a\u0307\u0323']


def gen_units(rng, hist=None, maxlen=24, malformed=False):
    """a string as UTF-16 units; classes counted into hist"""
    r = rng.random()
    if r < 0.25:
        s = units(rng.choice(POOL))
        if hist is not None:
            hist['pool'] = hist.get('pool', 0) + 1
    else:
        n = rng.choice([0, 1, 1, 2, 3, 5, 8, 13, rng.randint(0, maxlen)])
        s = []
        for _ in range(n):
            q = rng.random()
            if q < 0.12:
                s += rng.choice(ASTRAL)
                cls = 'astral'
            elif q < 0.2:
                s += rng.choice(NOT_NFC_SEQS)
                cls = 'not_nfc_sequence'
            else:
                cls = rng.choice(list(ESCAPE_CLASSES))
                s.append(rng.choice(ESCAPE_CLASSES[cls]))
            if hist is not None:
                hist[cls] = hist.get(cls, 0) + 1
    if malformed:
        k = rng.choice(['lone_high', 'lone_low', 'reversed', 'high_at_end', 'high_high_low'])
        pos = rng.randint(0, len(s))
        # never split an existing pair
        while 0 < pos < len(s) and LOW[0] <= s[pos] <= LOW[1]:
            pos -= 1
        ins = {'lone_high': [0xD800, 0x41], 'lone_low': [0xDC00], 'reversed': [0xDC00, 0xD800, 0x20],
               'high_at_end': [0xDBFF], 'high_high_low': [0xD83D, 0xD83D, 0xDE00]}[k]
        if k == 'high_at_end':
            s = s + ins
        else:
            s = s[:pos] + ins + s[pos:]
        if hist is not None:
            hist[k] = hist.get(k, 0) + 1
    return s


INTS = [0, 1, -1, 42, -7, 9, 10, 99, 100, 2 ** 53, -(2 ** 53), 2 ** 53 - 1, 2 ** 31, 2 ** 31 - 1, -(2 ** 31), 2 ** 32, 10 ** 15, 123456789012,
        1000000, -1000000, 2 ** 52 + 1, 2 ** 32 - 1, -(2 ** 31) - 1, -(2 ** 32), 2 ** 53 - 2 ** 31]
SMALL_INTS = [0, 1, -1, 42, -7, 2 ** 31 - 1, -(2 ** 31), 99999]
# the numeric QVariant types (token letter -> C++ type, range inside the property's |n| <= 2^53, boundary values);
# JsonDefs.num_in_range is the same table on the Coq side
NUM_TYPES = {
    'I': ('int', -(2 ** 31), 2 ** 31 - 1, SMALL_INTS + [2 ** 31 - 2, -(2 ** 31) + 1, 65536, -65536]),
    'u': ('uint', 0, 2 ** 32 - 1, [0, 1, 42, 2 ** 31 - 1, 2 ** 31, 2 ** 31 + 1, 2 ** 32 - 1, 2 ** 32 - 2, 3000000000, 65536]),
    'i': ('qlonglong', -(2 ** 53), 2 ** 53, INTS),
    'U': ('qulonglong', 0, 2 ** 53, [0, 1, 42, 2 ** 31 - 1, 2 ** 31, 2 ** 32 - 1, 2 ** 32, 2 ** 53, 2 ** 53 - 1, 10 ** 15, 2 ** 52 + 1]),
    'd': ('double', -(2 ** 53), 2 ** 53, INTS),
    'F': ('float', -(2 ** 24), 2 ** 24, [0, 1, -1, 42, -7, 2 ** 24, -(2 ** 24), 2 ** 24 - 1, 65536, 1000000, -99999]),
}
NUM_TOKENS = ''.join(NUM_TYPES)          # 'IuiUdF'
INT_TYPED = 'IuiU'                       # QVariant::toString() gives the plain digits (double / float: shortest 'g' form)
MAPKEYS = ['k', 'a', 'z', 'K', '\u00e9', 'k2', '', '"q', 'k\n', '\uffff', '\ue000', '\U0001F600', 'message', 'type']


def gen_number(rng, hist, types=NUM_TOKENS):
    """('<type letter>', integer): a value of one numeric QVariant type, boundary values of the type preferred"""
    t = rng.choice(types)
    name, lo, hi, pool = NUM_TYPES[t]
    z = rng.choice(pool) if rng.random() < 0.7 else rng.randint(lo, hi)
    if hist is not None:
        hist['num_' + name] = hist.get('num_' + name, 0) + 1
        for label, b in (('INT_MAX', 2 ** 31 - 1), ('INT_MAX+1', 2 ** 31), ('UINT_MAX', 2 ** 32 - 1), ('2^53', 2 ** 53), ('-2^53', -(2 ** 53)),
                         ('INT_MIN', -(2 ** 31))):
            if z == b:
                hist['num_at_' + label] = hist.get('num_at_' + label, 0) + 1
        if z >= 2 ** 31 and t in 'uU':
            hist['num_unsigned_above_INT_MAX'] = hist.get('num_unsigned_above_INT_MAX', 0) + 1
    return (t, z)


def gen_value(rng, hist, depth=0, malformed=False):
    """value tree: ('n',) ('b',bool) (<one of NUM_TOKENS>,int) ('s',units) ('a',[v]) ('o',[(units,v)])"""
    r = rng.random()
    if r < 0.08:
        k = ('n',)
    elif r < 0.18:
        k = ('b', rng.random() < 0.5)
    elif r < 0.42:
        k = gen_number(rng, hist)
    elif r < 0.74 or depth > 2:
        k = ('s', gen_units(rng, None, 12, malformed and rng.random() < 0.5))
    elif r < 0.87:
        k = ('a', [gen_value(rng, hist, depth + 1, malformed) for _ in range(rng.choice([0, 1, 2, 3]))])
    else:
        n = rng.choice([0, 1, 2, 3, 4])
        keys = [units(x) for x in rng.sample(MAPKEYS, n)]
        if rng.random() < 0.2 and keys:
            keys.append(keys[0])  # a duplicate key inside a map: the later insert replaces
        k = ('o', [(kk, gen_value(rng, hist, depth + 1, malformed)) for kk in keys])
    hist['value_' + k[0]] = hist.get('value_' + k[0], 0) + 1
    return k


# ---- category / file / function: printable ASCII, path-like families (nothing may tidy, resolve or trim them)
PATHS = ['src//main.cpp', './main.cpp', 'build/gen/../moc_x.cpp', 'gen/', '../../x.cpp', '/', '//', '.', '..', './', '../', 'a/./b.cpp',
         'a/b/../../c.cpp', '/a//b///c.cpp', 'C:\\src\\a.cpp', 'C:\\src\\..\\a.cpp', '\\\\host\\share\\f.cpp', 'dir with space/f x.cpp', ' ',
         ' lead.cpp', 'trail.cpp ', 'a/b/', '/usr/include/../include/./qt5//QtCore/qglobal.h', '~/.x.cpp', 'file:///tmp/x.cpp',
         'qrc:/main.qml', ':/res/x.qml', 'a\\b/c', '%20.cpp', 'x.cpp?y#z', '../../src/./net/client.cpp', '.hidden', '...', 'a/.../b',
         '/.', '/..', '/../x.cpp', 'a//', 'a/.', 'a/..', '\\', 'a\\', 'C:/', 'c:/x/../y.cpp', 'A/B.CPP', 'x.cpp/', '  ', 'a/ /b', '/a/b.cpp/.']
SEGMENTS = ['', '.', '..', 'a', 'src', 'x y', 'b.cpp', ' ', 'gen', '...', 'C:', '~', 'moc_x.cpp']
SEPS = ['/', '/', '/', '//', '\\', '/./', '/../']


def path_shapes(s):
    """which normalisation triggers a printable-ASCII string holds (for the coverage histogram)"""
    out = []
    if '//' in s:
        out.append('double_slash')
    segs = s.replace('\\', '/').split('/')
    if '.' in segs and len(segs) > 1:
        out.append('dot_segment')
    if '..' in segs and len(segs) > 1:
        out.append('dotdot_segment')
    if any(a not in ('', '.', '..') and b == '..' for a, b in zip(segs, segs[1:])):
        out.append('dir_dotdot_pair')
    if len(s) > 1 and s.endswith('/'):
        out.append('trailing_slash')
    if s in ('/', '\\'):
        out.append('lone_separator')
    if '\\' in s:
        out.append('backslash')
    if ' ' in s:
        out.append('space')
    if s != s.strip():
        out.append('outer_space')
    return out


def gen_ascii(rng, hist, base, what):
    """a printable-ASCII C string for category / file / function: the plain pool `base`, the path-like
    families, composed paths, or random printable ASCII"""
    r = rng.random()
    if r < 0.45:
        s = rng.choice(base)
    elif r < 0.65:
        s = rng.choice(PATHS)
    elif r < 0.85:
        n = rng.choice([1, 2, 2, 3, 4, 6])
        s = ('/' if rng.random() < 0.3 else '')
        for i in range(n):
            s += rng.choice(SEGMENTS) + (rng.choice(SEPS) if i + 1 < n or rng.random() < 0.3 else '')
    else:
        s = ''.join(chr(rng.randint(0x20, 0x7E)) for _ in range(rng.choice([1, 2, 3, 5, 8, 13])))
    if hist is not None:
        for sh in path_shapes(s):
            hist['%s_%s' % (what, sh)] = hist.get('%s_%s' % (what, sh), 0) + 1
    return s


def value_tokens(v):
    t = v[0]
    if t == 'n':
        return ['n']
    if t == 'b':
        return ['t' if v[1] else 'f']
    if t in NUM_TOKENS:
        return ['%s%d' % (t, v[1])]
    if t == 's':
        return ['s' + (hx(v[1]) if v[1] else '')]
    if t == 'a':
        return ['a%d' % len(v[1])] + [x for e in v[1] for x in value_tokens(e)]
    if t == 'o':
        return ['o%d' % len(v[1])] + [x for kk, e in v[1] for x in [hx(kk)] + value_tokens(e)]
    raise ValueError(v)


def value_py(v):
    """what an independent JSON parser must return for the value"""
    t = v[0]
    if t == 'n':
        return None
    if t == 'b':
        return v[1]
    if t in NUM_TOKENS:
        return v[1]
    if t == 's':
        return pystr(v[1])
    if t == 'a':
        return [value_py(e) for e in v[1]]
    if t == 'o':
        d = {}
        for kk, e in v[1]:
            d[pystr(kk)] = value_py(e)
        return d
    raise ValueError(v)


def value_wf(v):
    t = v[0]
    if t == 's':
        return well_formed(v[1])
    if t == 'a':
        return all(value_wf(e) for e in v[1])
    if t == 'o':
        return all(well_formed(kk) and value_wf(e) for kk, e in v[1])
    return True


def same(a, b):
    """type-strict equality of parsed JSON (bool is not int, 1 is not 1.0)"""
    if type(a) is not type(b):
        return False
    if isinstance(a, list):
        return len(a) == len(b) and all(same(x, y) for x, y in zip(a, b))
    if isinstance(a, dict):
        return set(a) == set(b) and all(same(a[k], b[k]) for k in a)
    return a == b


class DuplicateKey(Exception):
    pass


def _pairs(pairs):
    d = {}
    for k, v in pairs:
        if k in d:
            raise DuplicateKey(k)
        d[k] = v
    return d


def loads_strict(text):
    """Python's json as the independent parser: one value, unique keys, no NaN/Infinity"""
    def bad(x):
        raise ValueError('non-standard constant ' + x)
    return json.loads(text, object_pairs_hook=_pairs, parse_constant=bad)
