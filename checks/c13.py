"""C13 — JSON output is always valid, complete and lossless; compact = one line."""
import json, os
import vlib
from checks import json_util as J

META = {
    'id': 'C13',
    'level': 'proof',
    'technique': 'Coq proof (parse-after-write round trip of a Gallina RFC 8259 parser over a model of the Qt 5.15 JSON writer, '
                 'lookup through the key sort, no control character in compact output) + source-to-Coq translation of '
                 'allAttributes()/JsonFormatter + byte-exact differential run of the extracted model against the real JsonFormatter '
                 '+ extracted boolean oracle and Python json as independent parser on the implementation output',
    'text': 'Theorems (Properties_C13.v) show for EVERY message over 16-bit strings (a superset of well-formed Unicode), every attribute '
            'list and both modes that the model output parses back to exactly the object that was written, that every built-in field '
            'and every non-shadowing custom attribute is found under its name with exactly its value, and that compact output holds no '
            'character below U+0020 (hence no LF/CR); a number held by any numeric QVariant type (int, uint, qlonglong, qulonglong, double, float) inside '
            'the range of the type is read back as that number, and its decimal text identifies it.  The model is the one extracted and compared byte for byte with the real '
            'JsonFormatter on generated messages; the source-derived constants are re-read on every run.',
    'note': 'Trusted: Coq 8.16.1 kernel (vm_compute only for the closed configuration check), no axioms; tools/s2c/json.py (regex translation of '
            'logmessage.h allAttributes()/qtMsgTypeToString, jsonformatter.cpp and the front ends SimplePipeline::formatToJson / JsonFormatter::instance()), extraction (ExtrOcamlBasic only), ocaml/drv_json.ml, '
            'harness/h_json.cpp, Python json (independent parser).  Modelled, not verified: QJsonDocument::toJson, QJsonValue::fromVariant, '
            'QJsonObject key order, QVariantHash (tied by the byte-exact comparison only).  Outside: non-integral doubles, QDateTime rendering '
            '(the time string and the thread id are read back from the message and given to the model), UTF-8 transcoding of the result.',
    'design_ref': 'DESIGN.md section 4, C13',
    'engine': 'coq+extraction+harness',
}

TYPE_NAMES = {0: 'debug', 1: 'warning', 2: 'critical', 3: 'fatal', 4: 'info'}
BUILTIN = ['type', 'line', 'file', 'function', 'category', 'message', 'time', 'threadId']
NAMES = ['seq_number', 'appname', 'user', 'Z', 'a', 'zz', '\u00e9', 'x y', 'q"', '\U0001F600k', '_', '0', 'Type', 'Message',
         'messag', 'messagee', 'thread_id', '', 'k\n', '\uffff', '\ue000x', 'tim', 'typf', 'typd', '\u2028', 'a\\b', 'threadid']
CATS = ['default', 'net', 'app.ui', '', 'qt.core', 'a b~{}']
FILES = ['/a/b.cpp', 'main.cpp', '', '../x y/z.h', 'C:\\src\\a.cpp', '"q".cpp']
FUNCS = ['void f(int)', 'int main(int, char**)', '', 'auto ns::C<T>::op()::<lambda()>', 'f', 'T ns::operator/(T, T)', 'void C::f(const QString &) const']
LINES = [0, 1, 42, 99999, 2147483647, -1]


VIAS = ['', '', '01', '10', 'i1', '1i0', '0110', 'i']


def gen_case(rng, hist, stream):
    """stream: 'wf' (inside the quantifier), 'shadow' (custom names shadow built-ins), 'malformed' (lone surrogates)"""
    mal = stream == 'malformed'
    na = rng.choice([0, 0, 1, 2, 3, 4, 6])
    names = NAMES + (BUILTIN if stream == 'shadow' else [])
    keys = [rng.choice(names) for _ in range(na)]  # repeats on purpose: a later setAttribute overrides
    if stream == 'shadow' and keys:
        keys[rng.randrange(len(keys))] = rng.choice(BUILTIN)
    attrs = [(J.units(k), J.gen_value(rng, hist, 0, mal)) for k in keys]
    nul = rng.random() < 0.15
    case = {
        'flag': rng.randrange(2), 'type': rng.randrange(5),
        'msg': J.gen_units(rng, hist, 40, mal),
        'fmt': None if rng.random() < 0.5 else J.gen_units(rng, None, 10),
        'cat': None if rng.random() < 0.03 else J.units(J.gen_ascii(rng, hist, CATS, 'category')),
        'file': None if nul or rng.random() < 0.05 else J.units(J.gen_ascii(rng, hist, FILES, 'file')),
        'fn': None if nul or rng.random() < 0.05 else J.units(J.gen_ascii(rng, hist, FUNCS, 'function')),
        'line': rng.choice(LINES), 'attrs': attrs, 'stream': stream,
    }
    if mal and J.well_formed(case['msg']) and all(J.value_wf(v) for _, v in attrs):
        case['msg'] = case['msg'] + [0xD800]
    # multi-step: the SAME message object is mutated and formatted again
    steps = []
    if rng.random() < 0.3:
        for _ in range(rng.choice([1, 2, 3, 5])):
            op = rng.choice('SSAARUF')
            if op in 'SU':
                ks = [rng.choice(names) for _ in range(rng.choice([0, 1, 2, 3]))]
                if keys and rng.random() < 0.5:
                    ks.append(rng.choice(keys))  # re-set an existing name with another value
                steps.append((op, [(J.units(k), J.gen_value(rng, hist, 1, mal)) for k in ks]))
            elif op == 'A':
                k = rng.choice(keys) if keys and rng.random() < 0.5 else rng.choice(names)
                steps.append(('A', J.units(k), J.gen_value(rng, hist, 1, mal)))
            elif op == 'R':
                steps.append(('R', J.units(rng.choice(keys) if keys and rng.random() < 0.7 else rng.choice(names))))
            else:
                steps.append(('F', rng.randrange(2)))
        steps.append(('F', rng.randrange(2)))
        for st in steps:
            hist['step_' + st[0]] = hist.get('step_' + st[0], 0) + 1
    case['steps'] = steps
    case['codec'] = rng.choice(['utf8', 'latin1'])  # locale codec of the harness process (must not matter)
    # how the process obtained its formatter objects before the first record (round 8): '' = constructed directly,
    # else the sequence of front-end requests ('0'/'1' = SimplePipeline::formatToJson(false/true), 'i' = JsonFormatter::instance())
    case['via'] = rng.choice(VIAS)
    return case


def records(c):
    """the message state at each format() call: [(flag, attribute list with later-overrides semantics)]"""
    attrs = list(c['attrs'])
    out = [(c['flag'], list(attrs))]
    for st in c.get('steps', []):
        if st[0] == 'S':
            attrs = list(st[1])
        elif st[0] == 'U':
            attrs = attrs + list(st[1])
        elif st[0] == 'A':
            attrs = attrs + [(st[1], st[2])]
        elif st[0] == 'R':
            attrs = [(k, v) for k, v in attrs if k != st[1]]
        elif st[0] == 'F':
            out.append((st[1], list(attrs)))
    return out


def view(c, flag, attrs):
    v = dict(c); v['flag'] = flag; v['attrs'] = attrs; v['steps'] = []
    return v


def opt(us):
    return '0' if us is None else J.hx(us)


def line_of(c):
    toks = [str(c['flag']), str(c['type']), J.hx(c['msg']), opt(c['fmt']), opt(c['cat']), opt(c['file']), opt(c['fn']),
            str(c['line']), str(len(c['attrs']))]
    for k, v in c['attrs']:
        toks += [J.hx(k)] + J.value_tokens(v)
    if c.get('steps'):
        toks.append('|')
        for st in c['steps']:
            if st[0] in 'SU':
                toks += [st[0], str(len(st[1]))]
                for k, v in st[1]:
                    toks += [J.hx(k)] + J.value_tokens(v)
            elif st[0] == 'A':
                toks += ['A', J.hx(st[1])] + J.value_tokens(st[2])
            elif st[0] == 'R':
                toks += ['R', J.hx(st[1])]
            else:
                toks += ['F', str(st[1])]
    return ' '.join(toks)


def python_oracle(c, time_tok, tid, out_units):
    """independent check of the implementation output with Python's json; returns (kind, detail) or None"""
    text = J.pystr(out_units)
    try:
        obj = J.loads_strict(text)
    except J.DuplicateKey as e:
        return 'invalid-json', 'duplicate key %r' % (e.args[0],)
    except ValueError as e:
        return 'invalid-json', 'python json rejects the output: %s' % e
    if not isinstance(obj, dict):
        return 'invalid-json', 'not an object'
    if c['flag']:
        if '\n' in text or '\r' in text:
            return 'line-break', 'compact output contains a line break'
    custom = {}
    for k, v in c['attrs']:
        custom[J.pystr(k)] = J.value_py(v)
    want = {'type': TYPE_NAMES[c['type']], 'line': c['line'], 'file': J.pystr(c['file'] or []), 'function': J.pystr(c['fn'] or []),
            'category': J.pystr(c['cat'] or []), 'message': J.pystr(c['msg']), 'time': J.pystr(J.unhx(time_tok)), 'threadId': tid}
    for k, v in want.items():
        if k in custom:
            continue
        if k not in obj:
            return 'field', 'built-in field %r missing' % k
        if not J.same(obj[k], v):
            return 'field', 'built-in field %r is %r, expected %r' % (k, obj[k], v)
    for k, v in custom.items():
        if k in want:
            continue  # shadows a built-in: outside the quantifier
        if k not in obj:
            return 'attribute', 'custom attribute %r missing' % k
        if not J.same(obj[k], v):
            return 'attribute', 'custom attribute %r is %r, expected %r' % (k, obj[k], v)
    for k in obj:
        if k not in want and k not in custom:
            return 'foreign-member', 'the record has a member %r = %r that is neither a built-in field nor an attribute of this message' % (k, obj[k])
    return None


def run_cases(impl, model, cases):
    """returns one dict per case: time, tid, recs = [{flag, attrs, impl, model, verdict}] (one per format() call)"""
    out_i = [None] * len(cases)
    for codec, via in sorted({(c.get('codec', 'utf8'), c.get('via', '')) for c in cases}):
        idx = [i for i, c in enumerate(cases) if c.get('codec', 'utf8') == codec and c.get('via', '') == via]
        lines = [line_of(cases[i]) for i in idx]
        rc, o, err = vlib.run_lines(impl, lines, ([codec] if codec != 'utf8' else []) + (['via=' + via] if via else []))
        if rc != 0 or len(o) != len(lines):
            return None, 'implementation crashed or stopped: rc=%s stderr=%s' % (rc, err[-400:])
        for i, x in zip(idx, o):
            out_i[i] = x
    res, mlines = [], []
    for c, o in zip(cases, out_i):
        t = o.split(' ')
        rs = records(c)
        if len(t) != 2 + len(rs):
            return None, 'harness protocol error on %r -> %r' % (line_of(c), o[:200])
        recs = []
        for (flag, attrs), impl_hex in zip(rs, t[2:]):
            recs.append({'flag': flag, 'attrs': attrs, 'impl': impl_hex})
            mlines.append(' '.join([t[0], t[1], impl_hex, line_of(view(c, flag, attrs))]))
        res.append({'time': t[0], 'tid': int(t[1]), 'recs': recs})
    rc, out_m, err = vlib.run_lines(model, mlines)
    if rc != 0 or len(out_m) != len(mlines):
        return None, 'model driver failed: rc=%s stderr=%s' % (rc, err[-400:])
    k = 0
    for r in res:
        for rec in r['recs']:
            mm = out_m[k].split(' '); k += 1
            rec['model'] = mm[0]
            rec['verdict'] = mm[1] if len(mm) > 1 else '?'
        r['impl'] = r['recs'][-1]['impl']; r['model'] = r['recs'][-1]['model']
    return res, None


def differs(r):
    return any(rec['impl'] != rec['model'] for rec in r['recs'])


def judge(c, r):
    """(kind, detail) if some record of the implementation falsifies the property on this case, else None"""
    if c['stream'] == 'malformed':
        return None  # outside the quantifier: only diffed
    for n, rec in enumerate(r['recs']):
        v = view(c, rec['flag'], rec['attrs'])
        po = python_oracle(v, r['time'], r['tid'], J.unhx(rec['impl']))
        where = '' if len(r['recs']) == 1 else ' [record %d of %d on the same message]' % (n + 1, len(r['recs']))
        if po:
            return po[0], po[1] + where
        if rec['verdict'] != '1':
            return 'oracle', 'extracted oracle prop_c13_b rejects the implementation output (Python json accepted it)' + where
    return None


def shrink_case(c, still_fails):
    cur = dict(c)
    for field in ('steps', 'attrs', 'msg'):
        def f(items, field=field):
            t = dict(cur); t[field] = list(items)
            return still_fails(t)
        cur[field] = vlib.shrink_list(cur[field], f, 120)
    for field, simple in (('cat', J.units('c')), ('file', J.units('f')), ('fn', J.units('g')), ('fmt', None)):
        t = dict(cur); t[field] = simple
        if still_fails(t):
            cur = t
        elif cur[field]:
            # the string itself is the trigger (a path shape, a special character): keep a minimal one
            def f(items, field=field):
                t = dict(cur); t[field] = list(items)
                return bool(items) and still_fails(t)
            cur[field] = vlib.shrink_list(cur[field], f, 80)
    for field, simple in (('line', 1), ('type', 0)):
        t = dict(cur); t[field] = simple
        if still_fails(t):
            cur = t
    # a numeric attribute value: a smaller boundary value of the same type that still fails
    for n, (k, v) in enumerate(cur['attrs']):
        if v[0] in J.NUM_TOKENS:
            for cand in (0, 1, -1, 2 ** 31 - 1, 2 ** 31, -(2 ** 31), 2 ** 32 - 1, 2 ** 32):
                if abs(cand) < abs(v[1]) and J.NUM_TYPES[v[0]][1] <= cand <= J.NUM_TYPES[v[0]][2]:
                    t = dict(cur); t['attrs'] = cur['attrs'][:n] + [(k, (v[0], cand))] + cur['attrs'][n + 1:]
                    if still_fails(t):
                        cur = t
                        break
    return cur


def describe(c, r):
    return {'flag_compact': c['flag'], 'type': c['type'], 'message_units': c['msg'], 'message': repr(J.pystr(c['msg'])),
            'formatted': None if c['fmt'] is None else repr(J.pystr(c['fmt'])),
            'category': None if c['cat'] is None else J.pystr(c['cat']), 'file': None if c['file'] is None else J.pystr(c['file']),
            'function': None if c['fn'] is None else J.pystr(c['fn']), 'line': c['line'],
            'attributes': [[repr(J.pystr(k)), ' '.join(J.value_tokens(v))] for k, v in c['attrs']],
            'steps_after_first_format': [' '.join(line_of({**view(c, 0, []), 'steps': [st]}).split('| ', 1)[1:]) for st in c.get('steps', [])],
            'locale_codec_of_the_process': c.get('codec', 'utf8'),
            'formatter_objects_obtained_by': ('constructing JsonFormatter(flag) directly' if not c.get('via') else
                                             'front-end requests before the first record, in order: ' + ', '.join(
                                                 {'0': 'SimplePipeline().formatToJson(false)', '1': 'SimplePipeline().formatToJson(true)',
                                                  'i': 'JsonFormatter::instance()'}[ch] for ch in c['via'])),
            'input_line': line_of(c), 'case': c,
            'implementation_records': [repr(J.pystr(J.unhx(rec['impl']))) for rec in r['recs']] if r else None,
            'model_records': [repr(J.pystr(J.unhx(rec['model']))) for rec in r['recs']] if r else None}


def run():
    chk = vlib.Check('C13')
    chk.trusted = ['Coq 8.16.1 kernel; vm_compute only on the closed term json_cfg_goodb src_json_cfg; no native_compute',
                   'axioms: none (every Print Assumptions: Closed under the global context)',
                   'tools/s2c/json.py translator (logmessage.h allAttributes()/qtMsgTypeToString, jsonformatter.cpp -> SrcJson.v)',
                   'extraction ExtrOcamlBasic only, no Extract Constant; ocaml/drv_json.ml; harness/h_json.cpp',
                   'Python json module as independent parser of the implementation output',
                   'modelled, not verified: QJsonDocument::toJson, QJsonValue::fromVariant, QJsonObject key order, QVariantHash']
    chk.assumptions = ['strings are sequences of 16-bit units (theorems) / well-formed UTF-16 (oracle streams); lone surrogates are only diffed',
                       'numeric attribute values are integers of magnitude <= 2^53 held by an int, uint, qlonglong, qulonglong, double or float (float: <= 2^24) inside the range of the type; the type is part of the model input (JsonDefs.num_value); long / short / char QVariants are not generated (QJsonValue::fromVariant of Qt 5.15 renders them as strings)',
                       'category/file/function are printable-ASCII C strings (plain names, path-like families with //, ./, dir/../, trailing /, backslashes, spaces, a lone separator, random printable ASCII) or null pointers',
                       'time string and thread id are read from the message and passed to the model as given fields',
                       'custom attribute names that equal a built-in name are outside the recoverability claim (still diffed)',
                       'one JsonFormatter object per mode serves the whole harness run; a record may not depend on earlier messages']
    chk.proof(vlib.proof_leg('Properties_C13', ['json']))
    model = vlib.build_model('json')
    impl = vlib.build_harness('json')
    thorough = chk.tier == 'thorough'
    n = 60000 if thorough else 6000
    hist = {}
    cases = []
    for p in sorted(os.listdir(os.path.join(vlib.VERIF, 'corpus', 'C13'))) if os.path.isdir(os.path.join(vlib.VERIF, 'corpus', 'C13')) else []:
        try:
            cases.append(json.load(open(os.path.join(vlib.VERIF, 'corpus', 'C13', p))))
        except Exception:
            pass
    ncorpus = len(cases)
    for i in range(n):
        r = chk.rng.random()
        cases.append(gen_case(chk.rng, hist, 'wf' if r < 0.8 else ('shadow' if r < 0.9 else 'malformed')))
    # pairs on the shared formatter objects: a message with attributes {a, b}, then one with none / with {c}
    pairs = []
    for codec in ('utf8', 'latin1'):
        for flag in (0, 1):
            a = gen_case(chk.rng, hist, 'wf'); a.update({'codec': codec, 'via': '', 'flag': flag, 'steps': [],
                'attrs': [(J.units('pair_a'), ('s', J.units('x'))), (J.units('pair_b'), ('i', 2))]})
            b = gen_case(chk.rng, hist, 'wf'); b.update({'codec': codec, 'via': '', 'flag': flag, 'steps': [], 'attrs': []})
            c = gen_case(chk.rng, hist, 'wf'); c.update({'codec': codec, 'via': '', 'flag': flag, 'steps': [],
                'attrs': [(J.units('pair_c'), ('b', True))]})
            pairs += [a, b, dict(a), c]
    cases = cases[:ncorpus] + pairs + cases[ncorpus:]
    res, err = run_cases(impl, model, cases)
    if res is None:
        chk.broke('correspondence run failed: ' + err, {'kind': 'infrastructure', 'error': err})
        return chk.finish()

    def kind_of(t):
        rr, e = run_cases(impl, model, [t])
        if rr is None:
            return None
        j = judge(t, rr[0])
        return j[0] if j else None

    def seq_kind(ts):
        ts = [dict(t, codec=ts[-1].get('codec', 'utf8')) for t in ts]
        rr, e = run_cases(impl, model, ts)
        if rr is None:
            return None
        j = judge(ts[-1], rr[-1])
        return j[0] if j else None

    diffs, bad = [], []
    for c, r in zip(cases, res):
        if differs(r):
            diffs.append((c, r))
        j = judge(c, r)
        if j:
            bad.append((c, r, j))
    reported = set()
    for c, r, (kind, detail) in sorted(bad, key=lambda x: len(line_of(x[0]))):
        if kind in reported:
            continue
        reported.add(kind)
        before = None
        if kind_of(c) != kind:
            # not reproducible on freshly started formatters: look for one earlier message of the same sub-run
            # (same process, same JsonFormatter objects)
            pos = next(n for n, x in enumerate(cases) if x is c)
            prev = [x for x in cases[:pos] if x.get('codec', 'utf8') == c.get('codec', 'utf8')][-60:]
            for x in reversed(prev):
                if seq_kind([x, c]) == kind:
                    before = x
                    break
        if before is not None:
            small = shrink_case(c, lambda t, kind=kind: seq_kind([before, t]) == kind)
            before = shrink_case(before, lambda t, kind=kind: seq_kind([t, small]) == kind)
            rr, _ = run_cases(impl, model, [before, small])
            k2 = judge(small, rr[1]) if rr else (kind, detail)
            d = describe(small, rr[1] if rr else None)
            d['earlier_message_on_the_same_formatter'] = {'input_line': line_of(before), 'case': before,
                                                          'attributes': [[repr(J.pystr(k)), ' '.join(J.value_tokens(v))] for k, v in before['attrs']]}
            d.update({'kind': kind, 'detail': (k2 or (kind, detail))[1], 'falsified_cases': sum(1 for b in bad if b[2][0] == kind)})
            chk.fail('JsonFormatter output falsifies C13 (%s): %s' % (kind, d['detail']), d, kind=kind)
            continue
        small = shrink_case(c, lambda t, kind=kind: kind_of(t) == kind)
        rr, _ = run_cases(impl, model, [small])
        k2 = judge(small, rr[0]) if rr else (kind, detail)
        d = describe(small, rr[0] if rr else None)
        d.update({'kind': kind, 'detail': (k2 or (kind, detail))[1], 'falsified_cases': sum(1 for b in bad if b[2][0] == kind)})
        chk.fail('JsonFormatter output falsifies C13 (%s): %s' % (kind, d['detail']), d, kind=kind)
    if diffs:
        c, r = min(diffs, key=lambda x: len(line_of(x[0])))
        d = describe(c, r)
        d['kind'] = 'correspondence'
        chk.broke('correspondence: extracted writer model and JsonFormatter differ on %d of %d messages' % (len(diffs), len(cases)), d)
    # observation probe (not part of the verdict, not modelled): integer QVariant types for which QJsonValue::fromVariant of
    # Qt 5.15 has no case (long, ulong, short, ushort) - how does the record carry the attribute value 5 / -7?
    other_int = {}
    probe = [('l', 'long', 5), ('l', 'long', -7), ('L', 'unsigned long', 5), ('h', 'short', 5), ('h', 'short', -7), ('H', 'unsigned short', 5)]
    rc, o, err = vlib.run_lines(impl, ['1 0 - 0 0063 0066 0067 1 1 %s %s%d' % (J.hx(J.units('p')), t, z) for t, _, z in probe])
    if rc == 0 and len(o) == len(probe):
        for (t, name, z), line in zip(probe, o):
            try:
                got = J.loads_strict(J.pystr(J.unhx(line.split(' ')[2]))).get('p', '<absent>')
            except Exception as e:
                got = 'unparsable: %s' % e
            other_int['%s %d' % (name, z)] = 'number %r (exact)' % got if J.same(got, z) else '%s %r (NOT the number)' % (type(got).__name__, got)
    wf_cases = [c for c in cases if c['stream'] != 'malformed']

    def nontrivial(c):
        return bool(c['attrs']) or any(u < 32 or u in (34, 92) or u > 126 for u in c['msg'])
    chk.cov.update({
        'evaluations': len(cases), 'corpus_cases': ncorpus,
        'distinct_nontrivial': len({line_of(c) for c in cases if nontrivial(c)}),
        'rule': 'generated messages (escape classes of the writer, astral pairs, U+2028/9, key-order boundary names, nested list/map values, '
                'null pointers, path-like category/file/function strings, all six numeric QVariant types at their boundaries, both modes); non-trivial = has attributes or a message character that is escaped / non-ASCII',
        'streams': {s: sum(1 for c in cases if c['stream'] == s) for s in ('wf', 'shadow', 'malformed')},
        'byte_exact_disagreements_model_vs_impl': len(diffs),
        'records_compared': sum(len(r['recs']) for r in res), 'multi_step_cases': sum(1 for c in cases if c.get('steps')),
        'locale_codec': {k: sum(1 for c in cases if c.get('codec', 'utf8') == k) for k in ('utf8', 'latin1')},
        'formatter_objects_obtained_via': {(k or 'direct'): sum(1 for c in cases if c.get('via', '') == k) for k in sorted(set(VIAS))},
        'oracle_evaluated_on_impl_outputs': sum(len(r['recs']) for c, r in zip(cases, res) if c['stream'] != 'malformed'), 'oracle_falsified': len(bad),
        'python_json_parsed': len(wf_cases),
        'modes': {'compact': sum(c['flag'] for c in cases), 'indented': sum(1 - c['flag'] for c in cases)},
        'null_pointers': {'file': sum(c['file'] is None for c in cases), 'function': sum(c['fn'] is None for c in cases),
                          'category': sum(c['cat'] is None for c in cases)},
        'attribute_count_histogram': {str(k): sum(1 for c in cases if len(c['attrs']) == k) for k in range(0, 7)},
        'duplicate_attribute_names': sum(1 for c in cases if len({tuple(k) for k, _ in c['attrs']}) < len(c['attrs'])),
        'path_like_strings': {f: sum(1 for c in cases if c[f] and J.path_shapes(J.pystr(c[f]))) for f in ('cat', 'file', 'fn')},
        'numeric_type_histogram': {J.NUM_TYPES[t][0]: hist.get('num_' + J.NUM_TYPES[t][0], 0) for t in J.NUM_TOKENS},
        'observation_other_integer_qvariant_types': other_int,
        'generator_histogram': dict(sorted(hist.items())),
    })
    for i in (0, len(cases) // 3, len(cases) - 1):
        chk.samples.append({'input': line_of(cases[i])[:300], 'impl': J.pystr(J.unhx(res[i]['impl']))[:300], 'equal_to_model': not differs(res[i])})
    return chk.finish()


def replay(path):
    r = json.load(open(path))['replay']
    if isinstance(r, list):
        r = r[0]
    c = r.get('case')
    if not c:
        print(json.dumps(r, indent=1)); return 0
    vlib.gen_src(['json'])
    model = vlib.build_model('json'); impl = vlib.build_harness('json')
    seq = ([dict(r['earlier_message_on_the_same_formatter']['case'], codec=c.get('codec', 'utf8'))]
           if r.get('earlier_message_on_the_same_formatter') else []) + [c]
    res, err = run_cases(impl, model, seq)
    if res is None:
        print(err); return 1
    for t in seq[:-1]:
        print('earlier message', line_of(t))
    print('input          ', line_of(c), ' (locale codec of the process: %s)' % c.get('codec', 'utf8'))
    res = res[-1:]
    for n, rec in enumerate(res[0]['recs']):
        print('record %d implementation ' % (n + 1), repr(J.pystr(J.unhx(rec['impl']))))
        print('record %d model          ' % (n + 1), repr(J.pystr(J.unhx(rec['model']))))
        print('record %d oracle verdict on the implementation output (1 = holds): %s' % (n + 1, rec['verdict']))
    print('judgement:', judge(c, res[0]))
    return 0
