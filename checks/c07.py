"""C07 — No log file outgrows the size limit; records are never split."""
import vlib
from checks import rotate_util

META = {
    'id': 'C07',
    'level': 'proof',
    'technique': 'Coq proof (invariants over all operation histories of an executable model of RotatingFileSink, instantiated at the '
                 'decision shapes translated from the source) + differential run of the extracted model against the real sink under a '
                 'virtual wall clock + extracted boolean oracle evaluated on the implementation\'s directories',
    'text': 'Theorems (Properties_C07.v): size_bound (L > 0, N <> 1: every file <= L bytes or a single record, rotated and removed ones included), never_split (every file is a list of whole records of the history), raw_text_of_a_formatted_message_irrelevant / size_counts_the_shown_text (what is measured and written is LogMessage::formattedMessage(): the formatted text when set - also when empty - else the raw text), message_type_irrelevant (the same history with any other QtMsgType per record, e.g. all fatal, yields the same directory) — for every history of write (any payload, any message type) / clock advance / restart / foreign-file operations, every L, N, '
            'option set and timestamp granularity.  They are about the very definitions that are extracted and run against the real '
            'RotatingFileSink (directory listing identical after every operation); the oracle prop_c07_b, proved true on every model '
            'world, is evaluated on the implementation\'s listings with ghost data reconstructed from the written history.',
    'note': rotate_util.META_NOTE,
    'design_ref': 'DESIGN.md section 4, C05/C06/C07/C09',
    'engine': 'coq+extraction+harness',
}


def run():
    return rotate_util.run_check('C07')


def replay(path):
    return rotate_util.replay_check('C07', path)
